// harness: only exists so that cargo builds zkryptium with all features and system GMP
