#!/usr/bin/env python3
"""regenerate rules/accept_regions.json from the current tree (run on a tree whose acceptance conditions were reviewed)"""
import sys, os, json
sys.path.insert(0, os.path.join(os.path.dirname(os.path.abspath(__file__)), '..', 'rules'))
from framework import Ctx
from rf_gates import resolve_fn
import rf_accept
ctx = Ctx('quick')
prog = ctx.prog('prod-all')
out = {}
for e in rf_accept.ENTRIES:
    b = resolve_fn(prog, e)
    reg = rf_accept.acceptance_region(ctx, 'prod-all', b.path)
    out[b.path] = sorted([a, c, v] for (a, c), v in (reg or {}).items())
    out.setdefault('__params__', {})[b.path] = [b.local_name(k) for k in range(1, b.arg_count + 1)]
json.dump(out, open(rf_accept.TABLE_FILE, 'w'), indent=1)
for k, v in out.items():
    if k.startswith('__'):
        continue
    print(k.split('::')[-1], len(v))
    for a, c, val in v:
        print('    %s - %s <= %d' % (a, c, val))
