#!/usr/bin/env python3
"""regenerate rules/gate_sets.json from the current tree (run on a tree whose acceptance conditions were reviewed)"""
import sys, os, json
sys.path.insert(0, os.path.join(os.path.dirname(os.path.abspath(__file__)), '..', 'rules'))
from framework import Ctx
from rf_gates import resolve_fn
import rf_gatesets
ctx = Ctx('quick')
prog = ctx.prog('prod-all')
out = {}
for grp, ents in rf_gatesets.ENTRIES.items():
    for e in ents:
        b = resolve_fn(prog, e)
        out[b.path] = sorted(sorted(s) for s in rf_gatesets.gate_sets(ctx, 'prod-all', b.path))
        out.setdefault('__questions__', {})[b.path] = sorted([q, sorted(s)] for q, s in rf_gatesets.gate_sets(ctx, 'prod-all', b.path, with_question=True))
json.dump(out, open(rf_gatesets.TABLE_FILE, 'w'), indent=1)
for k, v in out.items():
    if not k.startswith('__'):
        print(k.split('::')[-1], len(v))
eo = {}
for e in rf_gatesets.ENTRIES['bbs']:
    b = resolve_fn(prog, e)
    eo[b.path] = sorted(rf_gatesets.error_origins(ctx, 'prod-all', b.path))
json.dump(eo, open(rf_gatesets.ERR_TABLE_FILE, 'w'), indent=1)
