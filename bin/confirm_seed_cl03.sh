#!/bin/bash
# bin/confirm_seed_cl03.sh <dir-with-_out> <seed-id> : like confirm_seed.sh but for CL03 (feature cl03, system GMP shim).
#   (1) 98 default-feature lib tests pass with the change  (2) demo (--features cl03) fails with the change  (3) passes without
set -uo pipefail
SRC="$1"; ID="$2"
S=/var/tmp/scratch/seedcl-$$
git -C /repo worktree add -q --detach "$S" HEAD || exit 3
trap 'git -C /repo worktree remove --force "$S" >/dev/null 2>&1' EXIT
cp /repo/Cargo.lock "$S/" 2>/dev/null
cd "$S"
sed -i 's/^rand_chacha = .*/&\ngmp-mpfr-sys = { version = "1.7.1", features = ["use-system-libs"] }/' Cargo.toml
GSRC=$(ls -d ~/.cargo/registry/src/*/gmp-mpfr-sys-1.7.1 | head -1)
export C_INCLUDE_PATH="/verif/shim/include:$GSRC/mpfr-4.2.2-c/src:$GSRC/mpc-1.4.1-c/src" LIBRARY_PATH=/verif/shim/lib CARGO_NET_OFFLINE=true CARGO_TARGET_DIR=/var/tmp/scratch/seedcl-target
mkdir -p tests; cp "$SRC/_out/demo.rs" tests/seed_demo.rs
r3=$(cargo test --offline --features cl03 --test seed_demo 2>&1 | grep -E "^test result" | tail -1)
git apply "$SRC/_out/patch.diff" || { echo "patch does not apply"; exit 3; }
r1=$(cargo test --offline --lib 2>&1 | grep -E "^test result" | tail -1)
r2=$(cargo test --offline --features cl03 --test seed_demo 2>&1 | grep -E "^test result" | tail -1)
echo "suite-with-change: $r1"; echo "demo-with-change:  $r2"; echo "demo-without:      $r3"
ok=1
echo "$r1" | grep -q "98 passed; 0 failed" || ok=0
echo "$r2" | grep -q "FAILED" || ok=0
echo "$r3" | grep -q "ok\." || ok=0
if [ "${CL03_UNIT:-0}" = 1 ]; then
  r4=$(cargo test --offline --features cl03 --lib cl03 2>&1 | grep -E "^test result" | tail -1); echo "cl03-unit-with-change: $r4"
  echo "$r4" | grep -q "10 passed; 0 failed" || ok=0
fi
if [ $ok = 1 ]; then
  mkdir -p /verif/seeded/$ID
  cp "$SRC/_out/patch.diff" /verif/seeded/$ID/patch.diff; cp "$SRC/_out/demo.rs" /verif/seeded/$ID/demo.rs
  cp "$SRC/_out/meta.json" /verif/seeded/$ID/agent_meta.json 2>/dev/null
  echo "CONFIRMED $ID"
else echo "NOT-CONFIRMED $ID"; fi
