#!/usr/bin/env python3
"""Regenerates /verif/MANIFEST.json from rules/properties.py (claimed properties) and rules/claims.py."""
import json, os, sys
sys.path.insert(0, '/verif/rules')
import properties
import claims

checks = []
na = []
for pid in properties.ALL:
    rules, meta = properties.P(pid)
    c = claims.CLAIMS.get(pid)
    if not rules or c is None:
        na.append({'property_id': pid, 'reason': claims.NOT_APPLICABLE.get(pid, 'no static rule is armed for this property yet')})
        continue
    checks.append({
        'property_id': pid,
        'quick_cmd': 'bin/check %s --tier quick' % pid,
        'thorough_cmd': 'bin/check %s --tier thorough' % pid,
        'evidence_file': '/verif/evidence/%s.json' % pid,
        'engine': 'mir-rules',
        'level_claimed': {'category': 'other', 'text': c['text'], 'design_ref': c.get('design_ref', 'DESIGN.md section 4')},
        'level_note': c['note'],
        'technique': c['technique'],
    })

m = {
    'version': 1,
    'setup_cmd': 'bin/setup.sh',
    'hooks': {
        'guard': 'zkryptium_verif',
        'enable': 'none: the checks analyse /repo as it is; no hook is compiled into the repository (guard name reserved, unused)',
        'baseline_off_cmd': 'cd /repo && cargo test --workspace --no-fail-fast --offline',
        'source_commits': [],
        'add_only': True,
    },
    'engines': [
        {'name': 'mir-facts', 'path': 'driver/', 'serves_properties': [c['property_id'] for c in checks],
         'kind_free_text': 'rustc_private driver (RUSTC_WRAPPER) dumping MIR bodies, resolved callees, ADTs, impls and evaluated associated constants of zkryptium for 4 cfg configurations'},
        {'name': 'mir-rules', 'path': 'rules/', 'serves_properties': [c['property_id'] for c in checks],
         'kind_free_text': 'Python rule engine: interprocedural field-sensitive value dependence, control-dependence gates, must-flow into hashed buffers, difference-bound length domain, constant tables, serde reachability'},
    ],
    'checks': checks,
    'not_applicable': na,
    'notes': 'Static analysis only: every verdict is computed from the MIR of /repo\'s working tree; no zkryptium code is executed. '
             'Each check decides the structural clauses listed in its level text (DESIGN.md section 4) and names what it does not decide.',
}
with open('/verif/MANIFEST.json', 'w') as f:
    json.dump(m, f, indent=1)
print('claimed', [c['property_id'] for c in checks], 'n/a', [x['property_id'] for x in na])
