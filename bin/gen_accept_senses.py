#!/usr/bin/env python3
"""regenerate rules/accept_senses.json from the current tree (run on a tree whose acceptance conditions were reviewed)"""
import sys, os, json
sys.path.insert(0, os.path.join(os.path.dirname(os.path.abspath(__file__)), '..', 'rules'))
from framework import Ctx
from rf_gates import resolve_fn
import rf_gatesets, rf_senses
ctx = Ctx('quick')
prog = ctx.prog('prod-all')
out = {}
for grp, ents in rf_gatesets.ENTRIES.items():
    for e in ents:
        b = resolve_fn(prog, e)
        out[b.path] = sorted([list(x) for x in rf_senses.senses(ctx, 'prod-all', b.path)], key=str)
        print(b.path.split('::')[-1], len(out[b.path]))
        if '-v' in sys.argv:
            for r in out[b.path]:
                print('    ', rf_senses._fmt(tuple(tuple(y) if isinstance(y, list) else y for y in r)))
for p in rf_senses.other_functions(prog) + rf_senses.bbs_decoders(prog):
    se = rf_senses.senses(ctx, 'prod-all', p)
    if se:
        out[p] = sorted([list(x) for x in se], key=str)
        print(p.split('::')[-1], len(out[p]))
json.dump(out, open(rf_senses.TABLE_FILE, 'w'), indent=1)
