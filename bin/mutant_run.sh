#!/bin/bash
# bin/mutant_run.sh [-R] <patch> <Cxx> [<Cxx>...] : run checks against a scratch copy of /repo with <patch> applied
# (-R: apply in reverse).  Nothing in /repo or /verif/evidence is touched; the scratch copy is removed afterwards.
set -uo pipefail
REV=""
if [ "$1" = "-R" ]; then REV="-R"; shift; fi
PATCH=$(readlink -f "$1"); shift
S=/var/tmp/scratch/mut-$$
mkdir -p /var/tmp/scratch
git -C /repo worktree add -q --detach "$S" HEAD || exit 3
trap 'git -C /repo worktree remove --force "$S" >/dev/null 2>&1; rm -rf "$S-ev"' EXIT
cp /repo/Cargo.lock "$S/Cargo.lock" 2>/dev/null
if ! git -C "$S" apply $REV "$PATCH"; then echo "PATCH-DOES-NOT-APPLY"; exit 3; fi
export VERIF_REPO="$S" VERIF_EVIDENCE="$S-ev"
# reuse the warmed dependency caches, but keep fact files of the mutant apart (they are keyed by the tree hash anyway)
rc=0
for p in "$@"; do
  python3 /verif/rules/properties.py "$p" --tier quick > "$S-ev.$p.out" 2>&1; r=$?
  echo "== $p exit=$r"; grep -E "^VIOLATION|^KNOWN|rule=|what:|CHECK-FAILED|BUILD-FAILED|tier=" "$S-ev.$p.out" | head -${MUT_LINES:-12}
  if [ $r -ne 0 ] && ! grep -qE "^VIOLATION|CHECK-FAILED|BUILD-FAILED" "$S-ev.$p.out"; then echo "  (no verdict line; last output:)"; tail -5 "$S-ev.$p.out" | cut -c1-300; fi
  rm -f "$S-ev.$p.out"
  [ $r -ne 0 ] && rc=1
done
exit $rc
