#!/bin/bash
# bin/confirm_seed.sh <dir-with-_out> <seed-id> : re-confirm a seeded change independently in a fresh scratch worktree
#   (1) suite passes with the change (98 lib tests)  (2) demo fails with the change  (3) demo passes without
# and, if all three hold, store it under /verif/seeded/<seed-id>/.
set -uo pipefail
SRC="$1"; ID="$2"; FEAT="${3:-}"
S=/var/tmp/scratch/seed-$$
git -C /repo worktree add -q --detach "$S" HEAD || exit 3
trap 'git -C /repo worktree remove --force "$S" >/dev/null 2>&1' EXIT
cp /repo/Cargo.lock "$S/" 2>/dev/null
mkdir -p "$S/tests"
DEMO=$(ls "$SRC"/_out/demo.rs 2>/dev/null)
[ -z "$DEMO" ] && { echo "no demo.rs"; exit 3; }
cp "$DEMO" "$S/tests/seed_demo.rs"
cd "$S"
export CARGO_NET_OFFLINE=true CARGO_TARGET_DIR=/var/tmp/scratch/seed-target
r3=$(cargo test --offline $FEAT --test seed_demo 2>&1 | grep -E "^test result" | tail -1)
git apply "$SRC/_out/patch.diff" || { echo "patch does not apply"; exit 3; }
r1=$(cargo test --offline --lib 2>&1 | grep -E "^test result" | tail -1)
r2=$(cargo test --offline $FEAT --test seed_demo 2>&1 | grep -E "^test result" | tail -1)
echo "suite-with-change: $r1"; echo "demo-with-change:  $r2"; echo "demo-without:      $r3"
ok=1
echo "$r1" | grep -q "98 passed; 0 failed" || ok=0
echo "$r2" | grep -q "FAILED" || ok=0
echo "$r3" | grep -q "ok\." || ok=0
if [ $ok = 1 ]; then
  mkdir -p /verif/seeded/$ID
  cp "$SRC/_out/patch.diff" /verif/seeded/$ID/patch.diff
  cp "$DEMO" /verif/seeded/$ID/demo.rs
  cp "$SRC/_out/meta.json" /verif/seeded/$ID/agent_meta.json 2>/dev/null
  echo "CONFIRMED $ID"
else
  echo "NOT-CONFIRMED $ID"
fi
