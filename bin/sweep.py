#!/usr/bin/env python3
"""bin/sweep.py gen <file>... | run <mutants.json> <out.jsonl> [slots] : a mechanical mutation sweep used to look for blind spots of the checks.

gen  : lists one-token mutants (relational operators, boolean connectives, +/- 1, is_some/is_none, negations, `..`/`..=`) of the non-test code of
       the given files of /repo as JSON.
run  : for every mutant - a scratch worktree of /repo with the one line replaced (never /repo itself), `cargo test` of the pinned suite when the
       file is compiled by the default features (a mutant the 98 tests kill is of no interest), then the quick checks of all properties.
       One JSON line per mutant: {id, file, line, op, old, new, build, tests, alarms: [Cxx..]}.
Survivors (tests pass, no alarm) are what a person then reads: equivalent, outside every property, or a miss.  Nothing here is part of a check."""
import json, os, re, subprocess, sys, hashlib
from concurrent.futures import ThreadPoolExecutor

REPO = '/repo'
PROPS = ['C%02d' % i for i in range(1, 20)]

OPS = [
    (r' < ', ' <= '), (r' <= ', ' < '), (r' > ', ' >= '), (r' >= ', ' > '), (r' == ', ' != '), (r' != ', ' == '),
    (r' && ', ' || '), (r' \|\| ', ' && '),
    (r' \+ 1\b', ' + 2'), (r' \+ 1\b', ''), (r' - 1\b', ''), (r' - 1\b', ' - 2'),
    (r'\.is_some\(\)', '.is_none()'), (r'\.is_none\(\)', '.is_some()'),
    (r'\bif !', 'if '), (r'\.\.=', '..'), (r'(?<=[\w\)\]])\.\.(?=[\w\(])', '..='),
    (r'\.any\(', '.all('), (r'\.all\(', '.any('),
    (r'\.is_empty\(\)', '.len() == 1'),
    (r'return false;', 'return true;'), (r'return true;', 'return false;'),
    (r'\.min\(', '.max('), (r'\.max\(', '.min('),
    (r'\[0\]', '[1]'), (r'\[1\.\.\]', '[0..]'),
]


def code_lines(path):
    """(lineno, text) of the lines that are production code: stops at the `#[cfg(test)]` module at the end of the file, skips comments"""
    out = []
    with open(path) as f:
        lines = f.read().split('\n')
    for i, l in enumerate(lines):
        if l.strip().startswith('#[cfg(test)]') and i + 1 < len(lines) and lines[i + 1].strip().startswith('mod '):
            break
        st = l.strip()
        if not st or st.startswith('//') or st.startswith('*') or st.startswith('#['):
            continue
        out.append((i + 1, l))
    return out


def in_string(line, pos):
    return line[:pos].count('"') % 2 == 1


def gen(files):
    muts = []
    for f in files:
        path = os.path.join(REPO, f)
        for no, l in code_lines(path):
            code = l.split('//')[0]
            for pat, rep in OPS:
                for m in re.finditer(pat, code):
                    if in_string(code, m.start()):
                        continue
                    # `<` / `>` of generics: require a space on both sides (already in the patterns); skip `->` / `=>`
                    new = code[:m.start()] + rep + code[m.end():] + l[len(code):]
                    if new == l:
                        continue
                    mid = hashlib.sha1(('%s:%d:%d:%s' % (f, no, m.start(), rep)).encode()).hexdigest()[:10]
                    muts.append({'id': mid, 'file': f, 'line': no, 'col': m.start(), 'op': '%s -> %s' % (pat, rep), 'old': l.strip(), 'new': new.strip(), 'new_line': new})
    return muts


def sh(cmd, env=None, timeout=1800):
    e = dict(os.environ)
    e.update(env or {})
    try:
        p = subprocess.run(cmd, shell=True, env=e, stdout=subprocess.PIPE, stderr=subprocess.STDOUT, timeout=timeout, text=True)
        return p.returncode, p.stdout
    except subprocess.TimeoutExpired:
        return 124, 'TIMEOUT'


def run_one(m, slot):
    S = '/var/tmp/scratch/sw-%d' % slot
    EV = S + '-ev'
    if not os.path.isdir(S):
        sh('git -C %s worktree add -q --detach %s HEAD && cp %s/Cargo.lock %s/Cargo.lock' % (REPO, S, REPO, S))
    sh('git -C %s checkout -q -- src && rm -rf %s' % (S, EV))
    path = os.path.join(S, m['file'])
    lines = open(path).read().split('\n')
    lines[m['line'] - 1] = m['new_line']
    open(path, 'w').write('\n'.join(lines))
    res = {k: m[k] for k in ('id', 'file', 'line', 'op', 'old', 'new')}
    if '/cl03/' not in m['file']:
        rc, out = sh('cd %s && cargo test --workspace --no-fail-fast --offline 2>&1 | tail -40' % S, {'CARGO_TARGET_DIR': '/var/tmp/scratch/swt-%d' % slot, 'CARGO_NET_OFFLINE': 'true'})
        if 'error[' in out or 'could not compile' in out:
            res['build'] = False
            return res
        res['build'] = True
        mm = re.search(r'test result: (\w+)\. (\d+) passed; (\d+) failed', out)
        res['tests'] = bool(mm) and mm.group(1) == 'ok' and mm.group(2) == '98'
        if not res['tests']:
            return res
    alarms, broken = [], []
    for p in PROPS:
        rc, out = sh('python3 /verif/rules/properties.py %s --tier quick' % p, {'VERIF_REPO': S, 'VERIF_EVIDENCE': EV})
        if 'BUILD-FAILED' in out:
            res['build'] = False
            return res
        if rc != 0:
            alarms.append(p)
            if 'VIOLATION' not in out:
                broken.append(p)
    res.setdefault('build', True)
    res['alarms'] = alarms
    if broken:
        res['no_verdict'] = broken
    return res


def run(mfile, outfile, slots):
    muts = json.load(open(mfile))
    done = set()
    if os.path.exists(outfile):
        for l in open(outfile):
            done.add(json.loads(l)['id'])
    todo = [m for m in muts if m['id'] not in done]
    import queue
    q = queue.Queue()
    for s in range(slots):
        q.put(s)

    def work(m):
        s = q.get()
        try:
            r = run_one(m, s)
        except Exception as ex:          # noqa
            r = {'id': m['id'], 'file': m['file'], 'line': m['line'], 'error': repr(ex)}
        finally:
            q.put(s)
        with open(outfile, 'a') as f:
            f.write(json.dumps(r) + '\n')
        return r
    with ThreadPoolExecutor(max_workers=slots) as ex:
        list(ex.map(work, todo))
    for s in range(slots):
        sh('git -C %s worktree remove --force /var/tmp/scratch/sw-%d; rm -rf /var/tmp/scratch/sw-%d-ev' % (REPO, s, s))


if __name__ == '__main__':
    if sys.argv[1] == 'gen':
        json.dump(gen(sys.argv[2:]), sys.stdout, indent=0)
    elif sys.argv[1] == 'run':
        run(sys.argv[2], sys.argv[3], int(sys.argv[4]) if len(sys.argv) > 4 else 4)
