#!/bin/bash
# bin/reconfirm_seed.sh <seed-id> [cl03] : re-confirm a stored seeded change against /repo HEAD in a fresh scratch worktree
#   (1) demo passes without the change  (2) the 98 library tests pass with it  (3) demo fails with it
set -uo pipefail
ID="$1"; KIND="${2:-}"
D=/verif/seeded/$ID
S=/var/tmp/scratch/reseed-$$
git -C /repo worktree add -q --detach "$S" HEAD || exit 3
trap 'git -C /repo worktree remove --force "$S" >/dev/null 2>&1' EXIT
cp /repo/Cargo.lock "$S/" 2>/dev/null
mkdir -p "$S/tests"; cp "$D/demo.rs" "$S/tests/seed_demo.rs"
cd "$S"
export CARGO_NET_OFFLINE=true
FEAT=""
if [ "$KIND" = cl03 ]; then
  GSRC=$(ls -d ~/.cargo/registry/src/*/gmp-mpfr-sys-1.7.1 | head -1)
  export C_INCLUDE_PATH="/verif/shim/include:$GSRC/mpfr-4.2.2-c/src:$GSRC/mpc-1.4.1-c/src" LIBRARY_PATH=/verif/shim/lib
  sed -i 's/^rand_chacha = .*/&\ngmp-mpfr-sys = { version = "1.7.1", features = ["use-system-libs"] }/' Cargo.toml
  export CARGO_TARGET_DIR=/var/tmp/scratch/seedcl-target${W:-}; FEAT="--features cl03"
else
  export CARGO_TARGET_DIR=/var/tmp/scratch/seed-target${W:-}
fi
r3=$(cargo test --offline $FEAT --test seed_demo 2>&1 | grep -E "^test result|^error" | tail -1)
git apply "$D/patch.diff" || { echo "NOT-CONFIRMED $ID (patch does not apply)"; exit 3; }
r1=$(cargo test --offline --lib 2>&1 | grep -E "^test result|^error" | tail -1)
r2=$(cargo test --offline $FEAT --test seed_demo 2>&1 | grep -E "^test result|^error" | tail -1)
ok=1
echo "$r1" | grep -q "98 passed; 0 failed" || ok=0
echo "$r2" | grep -q "FAILED\|error: test failed" || ok=0
echo "$r3" | grep -q "ok\." || ok=0
if [ $ok = 1 ]; then echo "CONFIRMED $ID"; else echo "NOT-CONFIRMED $ID | without: $r3 | suite: $r1 | with: $r2"; fi
