#!/bin/bash
# Build the fact extractor and warm the dependency caches of the four analysis configurations (offline).
set -euo pipefail
cd /verif
export CARGO_NET_OFFLINE=true
(cd driver && cargo +nightly build --release --offline -q)
mkdir -p .work shim/lib
ln -sf /usr/lib/x86_64-linux-gnu/libmpfr.so.6 shim/lib/libmpfr.so
ln -sf /usr/lib/x86_64-linux-gnu/libmpc.so.3 shim/lib/libmpc.so
for c in prod-all prod-default prod-bbs test-default; do
  bin/extract.sh $c /verif/.work/warm-$c.json &
done
wait
rm -f .work/warm-*.json
echo setup ok
