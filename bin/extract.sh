#!/bin/bash
# extract.sh <config> <outfile> : run the MIR fact extractor on /repo's current working tree.
#   configs: prod-all (harness + cl03 shim, all features), prod-default, prod-bbs, test-default
# Always uses a fresh target dir for the zkryptium unit (dependency artefacts are shared through a
# persistent dep cache keyed by config) so cargo's freshness cache can never replay an old run.
set -euo pipefail
CFG="$1"; OUT="$2"
V=/verif
REPO="${VERIF_REPO:-/repo}"
SYSROOT=$(rustc +nightly --print sysroot)
export LD_LIBRARY_PATH="$SYSROOT/lib"
export CARGO_NET_OFFLINE=true
export RUSTC_WRAPPER="$V/driver/target/release/vdriver"
export RUSTFLAGS="-Zmir-opt-level=0 -Awarnings -Coverflow-checks=on -Cdebug-assertions=off"
export VFACTS_OUT="$OUT"
export VFACTS_CRATE=zkryptium
WORK="${VERIF_WORK:-$V/.work}"
TGT="$WORK/target-$CFG"
mkdir -p "$TGT"
rm -f "$OUT"
# force re-analysis of zkryptium only
find "$TGT" -path '*/.fingerprint/zkryptium-*' -prune -exec rm -rf {} + 2>/dev/null || true
find "$TGT" -path '*/.fingerprint/vharness-*' -prune -exec rm -rf {} + 2>/dev/null || true
# ... and drop its old artefacts: every analysed tree (scratch worktrees of the self-tests have their own path) would otherwise leave
# its own metadata files behind (tens of MB each)
find "$TGT" -path '*/deps/*' \( -name 'libzkryptium-*' -o -name 'zkryptium-*' -o -name 'libvharness-*' -o -name 'vharness-*' \) -delete 2>/dev/null || true
rm -rf "$TGT"/debug/incremental "$TGT"/*/debug/incremental 2>/dev/null || true
export CARGO_INCREMENTAL=0      # one-shot analysis builds: incremental state would only pile up (one directory per analysed tree)
export CARGO_TARGET_DIR="$TGT"
case "$CFG" in
  prod-all)
    GSRC=$(ls -d ~/.cargo/registry/src/*/gmp-mpfr-sys-1.7.1 | head -1)
    mkdir -p "$V/shim/lib"
    ln -sf /usr/lib/x86_64-linux-gnu/libmpfr.so.6 "$V/shim/lib/libmpfr.so"
    ln -sf /usr/lib/x86_64-linux-gnu/libmpc.so.3 "$V/shim/lib/libmpc.so"
    export C_INCLUDE_PATH="$V/shim/include:$GSRC/mpfr-4.2.2-c/src:$GSRC/mpc-1.4.1-c/src"
    export LIBRARY_PATH="$V/shim/lib"
    HD="$WORK/harness-$$"
    rm -rf "$HD"; mkdir -p "$HD/src"
    sed "s#path = \"/repo\"#path = \"$REPO\"#" "$V/harness/Cargo.toml" > "$HD/Cargo.toml"
    cp "$V/harness/src/lib.rs" "$HD/src/lib.rs"
    cp "$REPO/Cargo.lock" "$HD/Cargo.lock"
    (cd "$HD" && cargo +nightly check --offline -q 2>"$WORK/extract-$CFG.log") || { cat "$WORK/extract-$CFG.log" >&2; rm -rf "$HD"; exit 2; }
    rm -rf "$HD"
    ;;
  prod-default)
    (cd "$REPO" && cargo +nightly check --offline -q --lib 2>"$WORK/extract-$CFG.log") || { cat "$WORK/extract-$CFG.log" >&2; exit 2; }
    ;;
  prod-bbs)
    (cd "$REPO" && cargo +nightly check --offline -q --lib --no-default-features --features bbsplus 2>"$WORK/extract-$CFG.log") || { cat "$WORK/extract-$CFG.log" >&2; exit 2; }
    ;;
  test-default)
    export VFACTS_TEST=1
    (cd "$REPO" && cargo +nightly check --offline -q --lib --profile test 2>"$WORK/extract-$CFG.log") || { cat "$WORK/extract-$CFG.log" >&2; exit 2; }
    ;;
  *) echo "unknown config $CFG" >&2; exit 2;;
esac
test -s "$OUT" || { echo "extract: fact file $OUT not written" >&2; cat "$WORK/extract-$CFG.log" >&2; exit 2; }
