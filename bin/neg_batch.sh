#!/bin/bash
# bin/neg_batch.sh <dir-with-p*.diff> <props...> : run the quick checks of the listed properties on every behaviour-preserving
# refactoring patch in the directory (each on its own scratch worktree, in parallel) and list every alarm (= false alarm to triage).
D="$1"; shift
mkdir -p /var/tmp/scratch/neg
for f in "$D"/p*.diff; do
  n=$(basename "$(dirname "$D")")-$(basename "$f" .diff)
  ( MUT_LINES=${MUT_LINES:-6} "$(dirname "$0")/mutant_run.sh" "$f" "$@" > /var/tmp/scratch/neg/$n.txt 2>&1 ) &
done
wait
for f in "$D"/p*.diff; do
  n=$(basename "$(dirname "$D")")-$(basename "$f" .diff)
  echo "##### $n"
  grep -E "^== .*exit=[12]|rule=|CHECK-FAILED|does not apply|error" /var/tmp/scratch/neg/$n.txt | cut -c1-250
done
