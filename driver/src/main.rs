// vdriver: rustc_private fact extractor for the zkryptium static checks.
//
// Used as RUSTC_WRAPPER: argv = [vdriver, <rustc>, args...].  For every crate other than the
// target crate (env VFACTS_CRATE, default "zkryptium") it simply runs the real compiler.  For the
// target crate it runs rustc in-process, and after analysis dumps one JSON fact file
// (env VFACTS_OUT) holding: every local fn/closure MIR body (blocks, statements, terminators with
// resolved callees, places with field names), local ADTs, trait impls, evaluated associated
// constants of the ciphersuite impls, and a census of statics / thread-locals / unsafe.
#![feature(rustc_private)]

extern crate rustc_abi;
extern crate rustc_data_structures;
extern crate rustc_driver;
extern crate rustc_hir;
extern crate rustc_interface;
extern crate rustc_middle;
extern crate rustc_session;
extern crate rustc_span;

use rustc_driver::{Callbacks, Compilation};
use rustc_hir::def::DefKind;
use rustc_hir::def_id::{DefId, LocalDefId};
use rustc_middle::mir::{
    self, AggregateKind, BasicBlock, Body, Operand, Place, ProjectionElem, Rvalue, StatementKind,
    TerminatorKind,
};
use rustc_middle::ty::{self, Instance, Ty, TyCtxt, TypingEnv};
use std::fmt::Write as _;

mod json {
    pub fn esc(s: &str) -> String {
        let mut o = String::with_capacity(s.len() + 2);
        o.push('"');
        for c in s.chars() {
            match c {
                '"' => o.push_str("\\\""),
                '\\' => o.push_str("\\\\"),
                '\n' => o.push_str("\\n"),
                '\r' => o.push_str("\\r"),
                '\t' => o.push_str("\\t"),
                c if (c as u32) < 0x20 => o.push_str(&format!("\\u{:04x}", c as u32)),
                c => o.push(c),
            }
        }
        o.push('"');
        o
    }
}
use json::esc;

struct Ctx<'tcx> {
    tcx: TyCtxt<'tcx>,
}

fn span_str<'tcx>(tcx: TyCtxt<'tcx>, sp: rustc_span::Span) -> String {
    let sm = tcx.sess.source_map();
    let lo = sm.lookup_char_pos(sp.lo());
    let hi = sm.lookup_char_pos(sp.hi());
    let fname = match &lo.file.name {
        rustc_span::FileName::Real(r) => match r.local_path() {
            Some(p) => p.display().to_string(),
            None => format!("{:?}", r),
        },
        other => format!("{:?}", other),
    };
    format!("{}:{}:{}-{}:{}", fname, lo.line, lo.col.0 + 1, hi.line, hi.col.0 + 1)
}

impl<'tcx> Ctx<'tcx> {
    fn ty_str(&self, t: Ty<'tcx>) -> String {
        format!("{}", t)
    }

    fn place_json(&self, body: &Body<'tcx>, p: &Place<'tcx>) -> String {
        // {"l":local,"p":[proj...]}
        let mut s = String::new();
        write!(s, "{{\"l\":{}", p.local.as_usize()).unwrap();
        if !p.projection.is_empty() {
            s.push_str(",\"p\":[");
            let mut pty = mir::PlaceTy::from_ty(body.local_decls[p.local].ty);
            let mut first = true;
            for elem in p.projection.iter() {
                if !first {
                    s.push(',');
                }
                first = false;
                match elem {
                    ProjectionElem::Deref => s.push_str("{\"k\":\"deref\"}"),
                    ProjectionElem::Field(f, fty) => {
                        let mut name = format!("{}", f.as_usize());
                        let mut adt_name = String::new();
                        if let ty::Adt(adt, _) = pty.ty.kind() {
                            let vidx = pty.variant_index.unwrap_or(rustc_abi::FIRST_VARIANT);
                            if adt.variants().len() > vidx.as_usize() {
                                let v = adt.variant(vidx);
                                if f.as_usize() < v.fields.len() {
                                    name = v.fields[f].name.to_string();
                                }
                                adt_name = self.tcx.def_path_str(adt.did());
                                if adt.is_enum() {
                                    adt_name = format!("{}::{}", adt_name, v.name);
                                }
                            }
                        }
                        write!(
                            s,
                            "{{\"k\":\"field\",\"i\":{},\"n\":{},\"adt\":{},\"ty\":{}}}",
                            f.as_usize(),
                            esc(&name),
                            esc(&adt_name),
                            esc(&self.ty_str(fty))
                        )
                        .unwrap();
                    }
                    ProjectionElem::Index(l) => {
                        write!(s, "{{\"k\":\"index\",\"l\":{}}}", l.as_usize()).unwrap()
                    }
                    ProjectionElem::ConstantIndex { offset, min_length, from_end } => write!(
                        s,
                        "{{\"k\":\"cindex\",\"off\":{},\"min\":{},\"from_end\":{}}}",
                        offset, min_length, from_end
                    )
                    .unwrap(),
                    ProjectionElem::Subslice { from, to, from_end } => write!(
                        s,
                        "{{\"k\":\"subslice\",\"from\":{},\"to\":{},\"from_end\":{}}}",
                        from, to, from_end
                    )
                    .unwrap(),
                    ProjectionElem::Downcast(name, v) => write!(
                        s,
                        "{{\"k\":\"downcast\",\"v\":{},\"n\":{}}}",
                        v.as_usize(),
                        esc(&name.map(|n| n.to_string()).unwrap_or_default())
                    )
                    .unwrap(),
                    other => write!(s, "{{\"k\":\"other\",\"d\":{}}}", esc(&format!("{:?}", other)))
                        .unwrap(),
                }
                pty = pty.projection_ty(self.tcx, elem);
            }
            s.push(']');
        }
        s.push('}');
        s
    }

    fn const_json(&self, body_def: DefId, c: &mir::ConstOperand<'tcx>) -> String {
        let tcx = self.tcx;
        let ty = c.const_.ty();
        let mut s = String::new();
        write!(s, "{{\"k\":\"const\",\"ty\":{}", esc(&self.ty_str(ty))).unwrap();
        // function items
        if let ty::FnDef(did, args) = ty.kind() {
            write!(s, ",\"fn\":{}", esc(&tcx.def_path_str(*did))).unwrap();
            write!(s, ",\"fn_full\":{}", esc(&tcx.def_path_str_with_args(*did, args))).unwrap();
        }
        match c.const_ {
            mir::Const::Unevaluated(uv, _) => {
                write!(s, ",\"uneval\":{}", esc(&tcx.def_path_str(uv.def))).unwrap();
                write!(
                    s,
                    ",\"uneval_full\":{}",
                    esc(&tcx.def_path_str_with_args(uv.def, uv.args))
                )
                .unwrap();
                if uv.promoted.is_some() {
                    write!(s, ",\"promoted\":{}", uv.promoted.unwrap().as_usize()).unwrap();
                    // `&<integer literal>` promoted to a constant (the right-hand side of assert_eq!(x, 1)): the literal
                    if uv.def.is_local() {
                        if let ty::Ref(_, inner, _) = ty.kind() {
                            if inner.is_integral() {
                                let proms = tcx.promoted_mir(uv.def);
                                if let Some(pb) = proms.get(uv.promoted.unwrap()) {
                                    let mut lit: Option<(mir::Local, u128)> = None;
                                    let mut refd: Option<mir::Local> = None;
                                    let mut simple = true;
                                    for bb in pb.basic_blocks.iter() {
                                        for st in bb.statements.iter() {
                                            if let StatementKind::Assign(bx) = &st.kind {
                                                let (pl, rv) = &**bx;
                                                match rv {
                                                    Rvalue::Use(Operand::Constant(cc), ..) if pl.projection.is_empty() => {
                                                        let tenv = TypingEnv::post_analysis(tcx, uv.def);
                                                        if let Some(si) = cc.const_.try_eval_scalar_int(tcx, tenv) {
                                                            if lit.is_some() { simple = false; }
                                                            lit = Some((pl.local, si.to_bits(si.size())));
                                                        } else { simple = false; }
                                                    }
                                                    Rvalue::Ref(_, _, rp) if pl.local == mir::RETURN_PLACE && rp.projection.is_empty() => {
                                                        refd = Some(rp.local);
                                                    }
                                                    _ => { simple = false; }
                                                }
                                            }
                                        }
                                    }
                                    if simple {
                                        if let (Some((ll, v)), Some(rl)) = (lit, refd) {
                                            if ll == rl {
                                                write!(s, ",\"pint\":{}", esc(&format!("{}", v))).unwrap();
                                            }
                                        }
                                    }
                                }
                            }
                        }
                    }
                }
            }
            _ => {}
        }
        // try to evaluate integers / bools
        let typing_env = TypingEnv::post_analysis(tcx, body_def);
        if ty.is_integral() || ty.is_bool() || ty.is_char() {
            if let Some(si) = c.const_.try_eval_scalar_int(tcx, typing_env) {
                let size = si.size();
                let v: u128 = si.to_bits(size);
                write!(s, ",\"int\":{}", esc(&format!("{}", v))).unwrap();
            }
        }
        if let Some(sd) = c.check_static_ptr(tcx) {
            write!(s, ",\"static\":{}", esc(&tcx.def_path_str(sd))).unwrap();
            write!(s, ",\"static_local\":{}", sd.is_local()).unwrap();
        }
        write!(s, ",\"disp\":{}", esc(&format!("{}", c.const_))).unwrap();
        s.push('}');
        s
    }

    fn operand_json(&self, body: &Body<'tcx>, o: &Operand<'tcx>) -> String {
        match o {
            Operand::Copy(p) => format!("{{\"k\":\"copy\",\"pl\":{}}}", self.place_json(body, p)),
            Operand::Move(p) => format!("{{\"k\":\"move\",\"pl\":{}}}", self.place_json(body, p)),
            Operand::Constant(c) => self.const_json(body.source.def_id(), c),
            #[allow(unreachable_patterns)]
            other => format!("{{\"k\":\"otherop\",\"d\":{}}}", esc(&format!("{:?}", other))),
        }
    }

    fn rvalue_json(&self, body: &Body<'tcx>, rv: &Rvalue<'tcx>) -> String {
        let tcx = self.tcx;
        match rv {
            Rvalue::Use(o, ..) => format!("{{\"k\":\"use\",\"op\":{}}}", self.operand_json(body, o)),
            Rvalue::Repeat(o, n) => format!(
                "{{\"k\":\"repeat\",\"op\":{},\"n\":{}}}",
                self.operand_json(body, o),
                esc(&format!("{}", n))
            ),
            Rvalue::Ref(_, bk, p) => format!(
                "{{\"k\":\"ref\",\"mut\":{},\"pl\":{}}}",
                matches!(bk, mir::BorrowKind::Mut { .. }),
                self.place_json(body, p)
            ),
            Rvalue::RawPtr(k, p) => format!(
                "{{\"k\":\"rawptr\",\"mut\":{},\"pl\":{}}}",
                matches!(k, mir::RawPtrKind::Mut),
                self.place_json(body, p)
            ),
            Rvalue::Cast(kind, o, t) => format!(
                "{{\"k\":\"cast\",\"ck\":{},\"op\":{},\"ty\":{}}}",
                esc(&format!("{:?}", kind)),
                self.operand_json(body, o),
                esc(&self.ty_str(*t))
            ),
            Rvalue::BinaryOp(op, ab) => format!(
                "{{\"k\":\"binop\",\"op\":{},\"a\":{},\"b\":{}}}",
                esc(&format!("{:?}", op)),
                self.operand_json(body, &ab.0),
                self.operand_json(body, &ab.1)
            ),
            Rvalue::UnaryOp(op, o) => format!(
                "{{\"k\":\"unop\",\"op\":{},\"a\":{}}}",
                esc(&format!("{:?}", op)),
                self.operand_json(body, o)
            ),
            Rvalue::Discriminant(p) => {
                format!("{{\"k\":\"discr\",\"pl\":{}}}", self.place_json(body, p))
            }
            Rvalue::CopyForDeref(p) => {
                format!("{{\"k\":\"use\",\"op\":{{\"k\":\"copy\",\"pl\":{}}}}}", self.place_json(body, p))
            }
            Rvalue::Aggregate(kind, ops) => {
                let (akind, name, variant, fields): (&str, String, String, Vec<String>) = match &**kind
                {
                    AggregateKind::Array(_) => ("array", String::new(), String::new(), vec![]),
                    AggregateKind::Tuple => ("tuple", String::new(), String::new(), vec![]),
                    AggregateKind::Adt(did, vidx, _, _, _) => {
                        let adt = tcx.adt_def(*did);
                        let v = adt.variant(*vidx);
                        (
                            "adt",
                            tcx.def_path_str(*did),
                            v.name.to_string(),
                            v.fields.iter().map(|f| f.name.to_string()).collect(),
                        )
                    }
                    AggregateKind::Closure(did, _) => {
                        ("closure", tcx.def_path_str(*did), String::new(), vec![])
                    }
                    _ => ("otheragg", format!("{:?}", kind), String::new(), vec![]),
                };
                let ops_s: Vec<String> = ops.iter().map(|o| self.operand_json(body, o)).collect();
                let fields_s: Vec<String> = fields.iter().map(|f| esc(f)).collect();
                format!(
                    "{{\"k\":\"agg\",\"ak\":{},\"name\":{},\"variant\":{},\"fields\":[{}],\"ops\":[{}]}}",
                    esc(akind),
                    esc(&name),
                    esc(&variant),
                    fields_s.join(","),
                    ops_s.join(",")
                )
            }
            Rvalue::ThreadLocalRef(did) => {
                format!("{{\"k\":\"tlsref\",\"def\":{}}}", esc(&tcx.def_path_str(*did)))
            }
            other => format!("{{\"k\":\"otherrv\",\"d\":{}}}", esc(&format!("{:?}", other))),
        }
    }

    fn callee_json(&self, body: &Body<'tcx>, func: &Operand<'tcx>) -> String {
        let tcx = self.tcx;
        let mut s = String::new();
        if let Operand::Constant(c) = func {
            if let ty::FnDef(did, args) = c.const_.ty().kind() {
                write!(s, "\"callee\":{}", esc(&tcx.def_path_str(*did))).unwrap();
                write!(s, ",\"callee_full\":{}", esc(&tcx.def_path_str_with_args(*did, args)))
                    .unwrap();
                write!(s, ",\"callee_local\":{}", did.is_local()).unwrap();
                let targs: Vec<String> = args
                    .iter()
                    .filter_map(|a| a.as_type().map(|t| esc(&self.ty_str(t))))
                    .collect();
                write!(s, ",\"targs\":[{}]", targs.join(",")).unwrap();
                let cargs: Vec<String> = args
                    .iter()
                    .filter_map(|a| a.as_const().map(|c| esc(&format!("{}", c))))
                    .collect();
                write!(s, ",\"cargs\":[{}]", cargs.join(",")).unwrap();
                // trait method?
                if let Some(tr) = tcx.trait_of_assoc(*did) {
                    write!(s, ",\"trait\":{}", esc(&tcx.def_path_str(tr))).unwrap();
                }
                let typing_env = TypingEnv::post_analysis(tcx, body.source.def_id());
                if let Ok(Some(inst)) = Instance::try_resolve(tcx, typing_env, *did, args) {
                    let rd = inst.def_id();
                    write!(s, ",\"resolved\":{}", esc(&tcx.def_path_str(rd))).unwrap();
                    write!(s, ",\"resolved_local\":{}", rd.is_local()).unwrap();
                    write!(
                        s,
                        ",\"resolved_kind\":{}",
                        esc(match inst.def {
                            ty::InstanceKind::Item(_) => "item",
                            ty::InstanceKind::Virtual(..) => "virtual",
                            ty::InstanceKind::Intrinsic(_) => "intrinsic",
                            ty::InstanceKind::ClosureOnceShim { .. } => "closure_once",
                            ty::InstanceKind::FnPtrShim(..) => "fnptr_shim",
                            ty::InstanceKind::CloneShim(..) => "clone_shim",
                            ty::InstanceKind::DropGlue(..) => "drop_glue",
                            _ => "othershim",
                        })
                    )
                    .unwrap();
                }
                return s;
            }
        }
        write!(s, "\"callee\":null,\"callee_op\":{}", self.operand_json(body, func)).unwrap();
        s
    }

    fn body_json(&self, ldid: LocalDefId, body: &Body<'tcx>) -> String {
        let tcx = self.tcx;
        let did = ldid.to_def_id();
        let mut s = String::new();
        let kind = tcx.def_kind(did);
        write!(s, "{{\"path\":{}", esc(&tcx.def_path_str(did))).unwrap();
        write!(s, ",\"kind\":{}", esc(&format!("{:?}", kind))).unwrap();
        write!(s, ",\"span\":{}", esc(&span_str(tcx, body.span))).unwrap();
        write!(s, ",\"from_expansion\":{}", body.span.from_expansion()).unwrap();
        if matches!(kind, DefKind::Fn | DefKind::AssocFn) {
            write!(s, ",\"vis\":{}", esc(&format!("{:?}", tcx.visibility(did)))).unwrap();
            write!(s, ",\"pub\":{}", tcx.visibility(did).is_public()).unwrap();
        }
        // parent (for closures: the enclosing fn)
        if kind == DefKind::Closure {
            let parent = tcx.typeck_root_def_id(did);
            write!(s, ",\"parent_fn\":{}", esc(&tcx.def_path_str(parent))).unwrap();
        }
        if let Some(impl_did) = tcx.impl_of_assoc(did) {
            let self_ty = tcx.type_of(impl_did).instantiate_identity().skip_norm_wip();
            write!(s, ",\"impl_self\":{}", esc(&self.ty_str(self_ty))).unwrap();
            if let Some(tr) = tcx.impl_opt_trait_ref(impl_did) {
                let tr = tr.instantiate_identity().skip_norm_wip();
                write!(s, ",\"impl_trait\":{}", esc(&tcx.def_path_str(tr.def_id))).unwrap();
            }
        }
        write!(s, ",\"arg_count\":{}", body.arg_count).unwrap();
        // promoted constants: which constants does each promoted body mention
        s.push_str(",\"promoted\":[");
        {
            let proms = tcx.promoted_mir(did);
            let mut firstp = true;
            for (pi, pb) in proms.iter_enumerated() {
                if !firstp {
                    s.push(',');
                }
                firstp = false;
                let mut cs: Vec<String> = Vec::new();
                for bb in pb.basic_blocks.iter() {
                    for st in &bb.statements {
                        if let StatementKind::Assign(b) = &st.kind {
                            let (_, rv) = &**b;
                            let mut ops: Vec<&Operand<'tcx>> = Vec::new();
                            match rv {
                                Rvalue::Use(o, ..) | Rvalue::Repeat(o, _) | Rvalue::Cast(_, o, _) | Rvalue::UnaryOp(_, o) => ops.push(o),
                                Rvalue::BinaryOp(_, ab) => {
                                    ops.push(&ab.0);
                                    ops.push(&ab.1);
                                }
                                Rvalue::Aggregate(_, os) => {
                                    for o in os.iter() {
                                        ops.push(o);
                                    }
                                }
                                _ => {}
                            }
                            for o in ops {
                                if let Operand::Constant(c) = o {
                                    cs.push(self.const_json(did, c));
                                }
                            }
                        }
                    }
                    if let Some(t) = &bb.terminator {
                        if let TerminatorKind::Call { func, args, .. } = &t.kind {
                            if let Operand::Constant(c) = func {
                                cs.push(self.const_json(did, c));
                            }
                            for a in args.iter() {
                                if let Operand::Constant(c) = &a.node {
                                    cs.push(self.const_json(did, c));
                                }
                            }
                        }
                    }
                }
                write!(s, "{{\"i\":{},\"consts\":[{}]}}", pi.as_usize(), cs.join(",")).unwrap();
            }
        }
        s.push(']');
        // locals
        s.push_str(",\"locals\":[");
        let mut names: Vec<Option<String>> = vec![None; body.local_decls.len()];
        for vdi in &body.var_debug_info {
            if let mir::VarDebugInfoContents::Place(p) = &vdi.value {
                if p.projection.is_empty() {
                    names[p.local.as_usize()] = Some(vdi.name.to_string());
                }
            }
        }
        for (i, ld) in body.local_decls.iter().enumerate() {
            if i > 0 {
                s.push(',');
            }
            write!(
                s,
                "{{\"ty\":{},\"name\":{}}}",
                esc(&self.ty_str(ld.ty)),
                match &names[i] {
                    Some(n) => esc(n),
                    None => "null".to_string(),
                }
            )
            .unwrap();
        }
        s.push(']');
        // closure captures debug info (name -> projection on _1)
        s.push_str(",\"captures\":[");
        let mut firstc = true;
        for vdi in &body.var_debug_info {
            if let mir::VarDebugInfoContents::Place(p) = &vdi.value {
                if !p.projection.is_empty() && p.local.as_usize() == 1 {
                    if !firstc {
                        s.push(',');
                    }
                    firstc = false;
                    write!(
                        s,
                        "{{\"name\":{},\"pl\":{}}}",
                        esc(&vdi.name.to_string()),
                        self.place_json(body, p)
                    )
                    .unwrap();
                }
            }
        }
        s.push(']');
        // blocks
        s.push_str(",\"blocks\":[");
        for (bi, bb) in body.basic_blocks.iter_enumerated() {
            if bi.as_usize() > 0 {
                s.push(',');
            }
            write!(s, "{{\"cleanup\":{},\"stmts\":[", bb.is_cleanup).unwrap();
            let mut first = true;
            for st in &bb.statements {
                let js = match &st.kind {
                    StatementKind::Assign(b) => {
                        let (pl, rv) = &**b;
                        Some(format!(
                            "{{\"k\":\"assign\",\"dst\":{},\"rv\":{},\"line\":{},\"exp\":{}}}",
                            self.place_json(body, pl),
                            self.rvalue_json(body, rv),
                            tcx.sess.source_map().lookup_char_pos(st.source_info.span.lo()).line,
                            st.source_info.span.from_expansion()
                        ))
                    }
                    StatementKind::SetDiscriminant { place, variant_index } => Some(format!(
                        "{{\"k\":\"setdiscr\",\"dst\":{},\"v\":{}}}",
                        self.place_json(body, place),
                        variant_index.as_usize()
                    )),
                    StatementKind::Intrinsic(i) => Some(format!(
                        "{{\"k\":\"intrinsic\",\"d\":{}}}",
                        esc(&format!("{:?}", i))
                    )),
                    _ => None,
                };
                if let Some(js) = js {
                    if !first {
                        s.push(',');
                    }
                    first = false;
                    s.push_str(&js);
                }
            }
            s.push_str("],\"term\":");
            let term = bb.terminator();
            let tline = tcx.sess.source_map().lookup_char_pos(term.source_info.span.lo()).line;
            let texp = term.source_info.span.from_expansion();
            let bbn = |b: BasicBlock| b.as_usize();
            match &term.kind {
                TerminatorKind::Goto { target } => {
                    write!(s, "{{\"k\":\"goto\",\"t\":{}}}", bbn(*target)).unwrap()
                }
                TerminatorKind::SwitchInt { discr, targets } => {
                    let mut ts = Vec::new();
                    for (v, t) in targets.iter() {
                        ts.push(format!("[{},{}]", esc(&format!("{}", v)), bbn(t)));
                    }
                    write!(
                        s,
                        "{{\"k\":\"switch\",\"discr\":{},\"targets\":[{}],\"otherwise\":{},\"line\":{},\"exp\":{}}}",
                        self.operand_json(body, discr),
                        ts.join(","),
                        bbn(targets.otherwise()),
                        tline,
                        texp
                    )
                    .unwrap()
                }
                TerminatorKind::Return => s.push_str("{\"k\":\"return\"}"),
                TerminatorKind::Unreachable => s.push_str("{\"k\":\"unreachable\"}"),
                TerminatorKind::UnwindResume => s.push_str("{\"k\":\"resume\"}"),
                TerminatorKind::UnwindTerminate(_) => s.push_str("{\"k\":\"abort\"}"),
                TerminatorKind::Drop { place, target, .. } => write!(
                    s,
                    "{{\"k\":\"drop\",\"pl\":{},\"t\":{}}}",
                    self.place_json(body, place),
                    bbn(*target)
                )
                .unwrap(),
                TerminatorKind::Call { func, args, destination, target, fn_span, .. } => {
                    let args_s: Vec<String> =
                        args.iter().map(|a| self.operand_json(body, &a.node)).collect();
                    // the macros the call was expanded from, innermost first (`panic`, `assert`, `debug_assert`)
                    let macs: Vec<String> = term
                        .source_info
                        .span
                        .macro_backtrace()
                        .take(8)
                        .map(|e| esc(&e.kind.descr().to_string()))
                        .collect();
                    write!(
                        s,
                        "{{\"k\":\"call\",{},\"args\":[{}],\"dst\":{},\"t\":{},\"line\":{},\"exp\":{},\"mac\":[{}],\"span\":{}}}",
                        self.callee_json(body, func),
                        args_s.join(","),
                        self.place_json(body, destination),
                        match target {
                            Some(t) => format!("{}", bbn(*t)),
                            None => "null".to_string(),
                        },
                        tline,
                        fn_span.from_expansion() || texp,
                        macs.join(","),
                        esc(&span_str(tcx, term.source_info.span))
                    )
                    .unwrap()
                }
                TerminatorKind::Assert { cond, expected, msg, target, .. } => {
                    let (mk, mops): (String, Vec<String>) = match &**msg {
                        mir::AssertKind::BoundsCheck { len, index } => (
                            "BoundsCheck".into(),
                            vec![self.operand_json(body, len), self.operand_json(body, index)],
                        ),
                        mir::AssertKind::Overflow(op, a, b) => (
                            format!("Overflow({:?})", op),
                            vec![self.operand_json(body, a), self.operand_json(body, b)],
                        ),
                        mir::AssertKind::OverflowNeg(a) => {
                            ("OverflowNeg".into(), vec![self.operand_json(body, a)])
                        }
                        mir::AssertKind::DivisionByZero(a) => {
                            ("DivisionByZero".into(), vec![self.operand_json(body, a)])
                        }
                        mir::AssertKind::RemainderByZero(a) => {
                            ("RemainderByZero".into(), vec![self.operand_json(body, a)])
                        }
                        other => (format!("{:?}", other), vec![]),
                    };
                    write!(
                        s,
                        "{{\"k\":\"assert\",\"cond\":{},\"expected\":{},\"msg\":{},\"ops\":[{}],\"t\":{},\"line\":{},\"span\":{}}}",
                        self.operand_json(body, cond),
                        expected,
                        esc(&mk),
                        mops.join(","),
                        bbn(*target),
                        tline,
                        esc(&span_str(tcx, term.source_info.span))
                    )
                    .unwrap()
                }
                TerminatorKind::FalseEdge { real_target, .. } => {
                    write!(s, "{{\"k\":\"goto\",\"t\":{}}}", bbn(*real_target)).unwrap()
                }
                TerminatorKind::FalseUnwind { real_target, .. } => {
                    write!(s, "{{\"k\":\"goto\",\"t\":{}}}", bbn(*real_target)).unwrap()
                }
                other => write!(s, "{{\"k\":\"otherterm\",\"d\":{}}}", esc(&format!("{:?}", other)))
                    .unwrap(),
            }
            s.push('}');
        }
        s.push_str("]}");
        s
    }

    fn adts_json(&self) -> String {
        let tcx = self.tcx;
        let mut out = Vec::new();
        for ldid in tcx.hir_crate_items(()).definitions() {
            let did = ldid.to_def_id();
            let kind = tcx.def_kind(did);
            if !matches!(kind, DefKind::Struct | DefKind::Enum | DefKind::Union) {
                continue;
            }
            let adt = tcx.adt_def(did);
            let mut vs = Vec::new();
            for v in adt.variants() {
                let mut fs = Vec::new();
                for f in &v.fields {
                    let fty = tcx.type_of(f.did).instantiate_identity().skip_norm_wip();
                    fs.push(format!(
                        "{{\"name\":{},\"ty\":{},\"pub\":{},\"vis\":{}}}",
                        esc(&f.name.to_string()),
                        esc(&self.ty_str(fty)),
                        f.vis.is_public(),
                        esc(&format!("{:?}", f.vis))
                    ));
                }
                vs.push(format!(
                    "{{\"name\":{},\"fields\":[{}]}}",
                    esc(&v.name.to_string()),
                    fs.join(",")
                ));
            }
            out.push(format!(
                "{{\"path\":{},\"kind\":{},\"pub\":{},\"span\":{},\"variants\":[{}]}}",
                esc(&tcx.def_path_str(did)),
                esc(&format!("{:?}", kind)),
                tcx.visibility(did).is_public(),
                esc(&span_str(tcx, tcx.def_span(did))),
                vs.join(",")
            ));
        }
        format!("[{}]", out.join(","))
    }

    fn impls_json(&self) -> String {
        let tcx = self.tcx;
        let mut out = Vec::new();
        for ldid in tcx.hir_crate_items(()).definitions() {
            let did = ldid.to_def_id();
            if !matches!(tcx.def_kind(did), DefKind::Impl { .. }) {
                continue;
            }
            let self_ty = tcx.type_of(did).instantiate_identity().skip_norm_wip();
            let (tr, tr_did) = match tcx.impl_opt_trait_ref(did) {
                Some(t) => {
                    let t = t.instantiate_identity().skip_norm_wip();
                    (esc(&tcx.def_path_str(t.def_id)), Some(t.def_id))
                }
                None => ("null".to_string(), None),
            };
            let mut items = Vec::new();
            for it in tcx.associated_items(did).in_definition_order() {
                items.push(format!(
                    "{{\"name\":{},\"kind\":{},\"path\":{}}}",
                    esc(&it.name().to_string()),
                    esc(&format!("{:?}", it.kind)),
                    esc(&tcx.def_path_str(it.def_id))
                ));
            }
            // evaluated associated constants (incl. trait defaults) for concrete self types
            let mut consts = Vec::new();
            let mut assoc_tys = Vec::new();
            if let Some(trd) = tr_did {
                let generics = tcx.generics_of(did);
                if generics.count() == 0 && trd.is_local() {
                    let typing_env = TypingEnv::fully_monomorphized();
                    for it in tcx.associated_items(trd).in_definition_order() {
                        if let ty::AssocKind::Const { .. } = it.kind {
                            let args = tcx.mk_args(&[self_ty.into()]);
                            let uv = mir::UnevaluatedConst { def: it.def_id, args, promoted: None };
                            let cty = tcx.type_of(it.def_id).instantiate(tcx, args).skip_norm_wip();
                            let c = mir::Const::Unevaluated(uv, cty);
                            let mut val = String::from("null");
                            let mut int = String::from("null");
                            if let Ok(cv) = c.eval(tcx, typing_env, rustc_span::DUMMY_SP) {
                                let cc = mir::Const::Val(cv, cty);
                                val = esc(&format!("{}", cc));
                                if cty.is_integral() {
                                    if let Some(si) = cc.try_eval_scalar_int(tcx, typing_env) {
                                        int = esc(&format!("{}", si.to_bits(si.size())));
                                    }
                                }
                            }
                            consts.push(format!(
                                "{{\"name\":{},\"ty\":{},\"val\":{},\"int\":{}}}",
                                esc(&it.name().to_string()),
                                esc(&self.ty_str(cty)),
                                val,
                                int
                            ));
                        }
                    }
                }
                for it in tcx.associated_items(did).in_definition_order() {
                    if let ty::AssocKind::Type { .. } = it.kind {
                        let t = tcx.type_of(it.def_id).instantiate_identity().skip_norm_wip();
                        assoc_tys.push(format!(
                            "{{\"name\":{},\"ty\":{}}}",
                            esc(&it.name().to_string()),
                            esc(&self.ty_str(t))
                        ));
                    }
                }
            }
            out.push(format!(
                "{{\"self\":{},\"trait\":{},\"span\":{},\"from_expansion\":{},\"items\":[{}],\"consts\":[{}],\"assoc_tys\":[{}]}}",
                esc(&self.ty_str(self_ty)),
                tr,
                esc(&span_str(tcx, tcx.def_span(did))),
                tcx.def_span(did).from_expansion(),
                items.join(","),
                consts.join(","),
                assoc_tys.join(",")
            ));
        }
        format!("[{}]", out.join(","))
    }

    fn items_census_json(&self) -> String {
        // statics, consts, thread-locals, fn signatures of every local fn
        let tcx = self.tcx;
        let mut statics = Vec::new();
        let mut fns = Vec::new();
        let mut consts = Vec::new();
        for ldid in tcx.hir_crate_items(()).definitions() {
            let did = ldid.to_def_id();
            match tcx.def_kind(did) {
                DefKind::Const { .. } => {
                    // free (module-level) constants without generics: their evaluated value
                    if tcx.generics_of(did).count() == 0 {
                        let t = tcx.type_of(did).instantiate_identity().skip_norm_wip();
                        let mut val = String::from("null");
                        if let Ok(cv) = tcx.const_eval_poly(did) {
                            val = esc(&format!("{}", mir::Const::Val(cv, t)));
                        }
                        consts.push(format!(
                            "{{\"path\":{},\"ty\":{},\"val\":{}}}",
                            esc(&tcx.def_path_str(did)),
                            esc(&self.ty_str(t)),
                            val
                        ));
                    }
                }
                DefKind::Static { mutability, .. } => {
                    let t = tcx.type_of(did).instantiate_identity().skip_norm_wip();
                    let typing_env = TypingEnv::post_analysis(tcx, did);
                    statics.push(format!(
                        "{{\"path\":{},\"mut\":{},\"ty\":{},\"freeze\":{},\"thread_local\":{},\"span\":{}}}",
                        esc(&tcx.def_path_str(did)),
                        matches!(mutability, rustc_hir::Mutability::Mut),
                        esc(&self.ty_str(t)),
                        t.is_freeze(tcx, typing_env),
                        tcx.is_thread_local_static(did),
                        esc(&span_str(tcx, tcx.def_span(did)))
                    ));
                }
                DefKind::Fn | DefKind::AssocFn => {
                    let sig = tcx.fn_sig(did).instantiate_identity().skip_norm_wip().skip_binder();
                    let ins: Vec<String> =
                        sig.inputs().iter().map(|t| esc(&self.ty_str(*t))).collect();
                    let is_unsafe = sig.safety().is_unsafe();
                    fns.push(format!(
                        "{{\"path\":{},\"pub\":{},\"inputs\":[{}],\"output\":{},\"unsafe\":{},\"span\":{}}}",
                        esc(&tcx.def_path_str(did)),
                        tcx.visibility(did).is_public(),
                        ins.join(","),
                        esc(&self.ty_str(sig.output())),
                        is_unsafe,
                        esc(&span_str(tcx, tcx.def_span(did)))
                    ));
                }
                _ => {}
            }
        }
        format!("{{\"statics\":[{}],\"fns\":[{}],\"consts\":[{}]}}", statics.join(","), fns.join(","), consts.join(","))
    }
}

struct Extract {
    out: String,
}

impl Callbacks for Extract {
    fn after_analysis<'tcx>(
        &mut self,
        _compiler: &rustc_interface::interface::Compiler,
        tcx: TyCtxt<'tcx>,
    ) -> Compilation {
        let cx = Ctx { tcx };
        let mut bodies = Vec::new();
        for ldid in tcx.mir_keys(()) {
            let did = ldid.to_def_id();
            let kind = tcx.def_kind(did);
            if !matches!(kind, DefKind::Fn | DefKind::AssocFn | DefKind::Closure) {
                continue;
            }
            if tcx.is_const_fn(did) && false {
                continue;
            }
            let body = tcx.optimized_mir(did);
            bodies.push(cx.body_json(*ldid, body));
        }
        let cfgs: Vec<String> = {
            let mut v: Vec<String> = tcx
                .sess
                .config
                .iter()
                .map(|(k, val)| match val {
                    Some(val) => format!("{}={}", k, val),
                    None => format!("{}", k),
                })
                .filter(|s| s.starts_with("feature") || s == "test" || s.starts_with("zkryptium"))
                .collect();
            v.sort();
            v.iter().map(|s| esc(s)).collect()
        };
        let s = format!(
            "{{\"crate\":{},\"cfg\":[{}],\"bodies\":[{}],\"adts\":{},\"impls\":{},\"items\":{}}}\n",
            esc(&tcx.crate_name(rustc_span::def_id::LOCAL_CRATE).to_string()),
            cfgs.join(","),
            bodies.join(","),
            cx.adts_json(),
            cx.impls_json(),
            cx.items_census_json()
        );
        std::fs::write(&self.out, s).expect("vdriver: cannot write fact file");
        Compilation::Continue
    }
}

fn main() {
    let mut args: Vec<String> = std::env::args().collect();
    // RUSTC_WRAPPER form: vdriver <rustc> <args...>
    if args.len() > 1 && (args[1].ends_with("rustc") || args[1].contains("rustc")) && !args[1].starts_with('-') {
        args.remove(1);
    }
    let target = std::env::var("VFACTS_CRATE").unwrap_or_else(|_| "zkryptium".to_string());
    let mut crate_name = String::new();
    let mut i = 0;
    while i < args.len() {
        if args[i] == "--crate-name" && i + 1 < args.len() {
            crate_name = args[i + 1].clone();
        }
        i += 1;
    }
    let is_test_harness = args.iter().any(|a| a == "--test");
    let want_test = std::env::var("VFACTS_TEST").map(|v| v == "1").unwrap_or(false);
    let out = std::env::var("VFACTS_OUT").ok();
    let is_target = crate_name == target && out.is_some() && (is_test_harness == want_test)
        && !args.iter().any(|a| a == "--print" || a.starts_with("--print=")) ;
    if is_target {
        let mut cb = Extract { out: out.unwrap() };
        rustc_driver::run_compiler(&args, &mut cb);
    } else {
        struct Nop;
        impl Callbacks for Nop {}
        rustc_driver::run_compiler(&args, &mut Nop);
    }
}
