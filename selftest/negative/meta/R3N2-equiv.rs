// Behavioural tests for the prover side of the BBS+ proof of knowledge
// (proof_gen, blind_proof_gen and the helpers they use), public API only.
//
// An integration test links the library built without cfg(test), so the prover
// draws fresh random scalars: proofs are never compared byte for byte, but
// through their length, their round trip and the verifier.

#![allow(non_snake_case)]

use bls12_381_plus::Scalar;
use elliptic_curve::hash2curve::ExpandMsg;
use zkryptium::{
    bbsplus::{
        ciphersuites::{BbsCiphersuite, Bls12381Sha256, Bls12381Shake256},
        commitment::BlindFactor,
        keys::{BBSplusPublicKey, BBSplusSecretKey},
    },
    keys::pair::KeyPair,
    schemes::{
        algorithms::BBSplus,
        generics::{BlindSignature, Commitment, PoKSignature, Signature},
    },
    utils::{
        message::bbsplus_message::BBSplusMessage,
        util::bbsplus_utils::{get_messages, get_messages_vec},
    },
};

const HEADER: &[u8] = b"equiv-header";
const PH: &[u8] = b"equiv-presentation-header";

// 3 points, 3 scalars and the challenge
const PROOF_FIXED_LEN: usize = 3 * 48 + 3 * 32 + 32;

fn keypair<CS>() -> (BBSplusSecretKey, BBSplusPublicKey)
where
    CS: BbsCiphersuite,
    CS::Expander: for<'a> ExpandMsg<'a>,
{
    let ikm: Vec<u8> = (0..CS::IKM_LEN).map(|i| (i * 7 + 3) as u8).collect();
    KeyPair::<BBSplus<CS>>::generate(&ikm, None, None)
        .unwrap()
        .into_parts()
}

fn msgs(n: usize) -> Vec<Vec<u8>> {
    (0..n)
        .map(|i| {
            // different lengths, the one at position 3 is the empty message
            let len = if i == 3 { 0 } else { 1 + (i * 5) % 17 };
            (0..len).map(|k| (i * 31 + k * 3 + 1) as u8).collect()
        })
        .collect()
}

fn committed_msgs(n: usize) -> Vec<Vec<u8>> {
    (0..n)
        .map(|i| (0..(2 + i)).map(|k| (200 - i * 9 - k) as u8).collect())
        .collect()
}

fn sorted_dedup(indexes: &[usize]) -> Vec<usize> {
    let mut v = indexes.to_vec();
    v.sort();
    v.dedup();
    v
}

/// proof_gen + checks on the proof, then proof_verify with the right and with wrong inputs
fn gen_and_verify<CS>(
    sk: &BBSplusSecretKey,
    pk: &BBSplusPublicKey,
    messages: Option<&[Vec<u8>]>,
    disclosed: Option<&[usize]>,
    header: Option<&[u8]>,
    ph: Option<&[u8]>,
) where
    CS: BbsCiphersuite,
    CS::Expander: for<'a> ExpandMsg<'a>,
{
    let signature = Signature::<BBSplus<CS>>::sign(messages, sk, pk, header).unwrap();
    let all = messages.unwrap_or(&[]);
    let L = all.len();
    let unique = sorted_dedup(disclosed.unwrap_or(&[]));
    let U = L - unique.len();

    let proof = PoKSignature::<BBSplus<CS>>::proof_gen(
        pk,
        &signature.to_bytes(),
        header,
        ph,
        messages,
        disclosed,
    )
    .unwrap();

    let bytes = proof.to_bytes();
    assert_eq!(bytes.len(), PROOF_FIXED_LEN + 32 * U);
    let decoded = PoKSignature::<BBSplus<CS>>::from_bytes(&bytes).unwrap();
    assert_eq!(decoded.to_bbsplus_proof(), proof.to_bbsplus_proof());
    assert_eq!(decoded.to_bytes(), bytes);

    // the verifier sorts and dedups the indexes itself: hand over the caller's list as it is,
    // with the messages in ascending order of index
    let disclosed_messages = get_messages_vec(all, &unique);
    assert!(decoded
        .proof_verify(pk, Some(&disclosed_messages), disclosed, header, ph)
        .is_ok());
    assert!(decoded
        .proof_verify(pk, Some(&disclosed_messages), Some(&unique), header, ph)
        .is_ok());

    // another presentation header, another header
    assert!(decoded
        .proof_verify(pk, Some(&disclosed_messages), disclosed, header, Some(b"other"))
        .is_err());
    assert!(decoded
        .proof_verify(pk, Some(&disclosed_messages), disclosed, Some(b"other"), ph)
        .is_err());

    // each disclosed message is bound to its own index
    for k in 0..unique.len() {
        let mut tampered = disclosed_messages.clone();
        tampered[k].push(0x5a);
        assert!(decoded
            .proof_verify(pk, Some(&tampered), Some(&unique), header, ph)
            .is_err());
    }
    if unique.len() >= 2 {
        let mut swapped = disclosed_messages.clone();
        swapped.swap(0, unique.len() - 1);
        assert!(decoded
            .proof_verify(pk, Some(&swapped), Some(&unique), header, ph)
            .is_err());
    }
    // the same number of disclosed messages at other positions
    if !unique.is_empty() && U > 0 {
        let undisclosed: Vec<usize> = (0..L).filter(|i| !unique.contains(i)).collect();
        let mut moved = unique.clone();
        moved[0] = undisclosed[0];
        moved.sort();
        assert!(decoded
            .proof_verify(pk, Some(&disclosed_messages), Some(&moved), header, ph)
            .is_err());
    }

    // every undisclosed response counts: flip one bit of each in turn
    for j in 0..U {
        let mut b = bytes.clone();
        b[240 + 32 * j + 31] ^= 1;
        if let Ok(p) = PoKSignature::<BBSplus<CS>>::from_bytes(&b) {
            assert!(p
                .proof_verify(pk, Some(&disclosed_messages), Some(&unique), header, ph)
                .is_err());
        }
    }
    // and so do e^, r1^, r3^ and the challenge
    for off in [144 + 31, 176 + 31, 208 + 31, bytes.len() - 1] {
        let mut b = bytes.clone();
        b[off] ^= 1;
        if let Ok(p) = PoKSignature::<BBSplus<CS>>::from_bytes(&b) {
            assert!(p
                .proof_verify(pk, Some(&disclosed_messages), Some(&unique), header, ph)
                .is_err());
        }
    }
}

fn proof_gen_sizes_and_selections<CS>()
where
    CS: BbsCiphersuite,
    CS::Expander: for<'a> ExpandMsg<'a>,
{
    let (sk, pk) = keypair::<CS>();

    for L in [1usize, 2, 3, 5, 8] {
        let m = msgs(L);
        let all: Vec<usize> = (0..L).collect();
        let evens: Vec<usize> = (0..L).step_by(2).collect();
        let selections: Vec<Vec<usize>> = vec![
            vec![],
            vec![0],
            vec![L - 1],
            all.clone(),
            evens,
            all.iter().rev().copied().collect(),
            vec![L - 1, 0, L - 1, 0],
        ];
        for sel in &selections {
            gen_and_verify::<CS>(&sk, &pk, Some(&m), Some(sel), Some(HEADER), Some(PH));
        }
        gen_and_verify::<CS>(&sk, &pk, Some(&m), None, Some(HEADER), Some(PH));
    }

    // unsorted list with repetitions in the middle of a longer vector
    let m = msgs(10);
    gen_and_verify::<CS>(&sk, &pk, Some(&m), Some(&[7, 3, 9, 3, 0, 7]), Some(HEADER), Some(PH));
    gen_and_verify::<CS>(&sk, &pk, Some(&m), Some(&[9]), None, None);
    gen_and_verify::<CS>(&sk, &pk, Some(&m), Some(&[4, 5]), Some(b""), Some(b""));
    gen_and_verify::<CS>(&sk, &pk, Some(&m), Some(&[4, 5]), None, Some(PH));
    gen_and_verify::<CS>(&sk, &pk, Some(&m), Some(&[4, 5]), Some(HEADER), None);
}

#[test]
fn proof_gen_sizes_and_selections_sha256() {
    proof_gen_sizes_and_selections::<Bls12381Sha256>();
}

#[test]
fn proof_gen_sizes_and_selections_shake256() {
    proof_gen_sizes_and_selections::<Bls12381Shake256>();
}

fn proof_gen_no_messages<CS>()
where
    CS: BbsCiphersuite,
    CS::Expander: for<'a> ExpandMsg<'a>,
{
    let (sk, pk) = keypair::<CS>();
    let empty: Vec<Vec<u8>> = Vec::new();

    gen_and_verify::<CS>(&sk, &pk, None, None, Some(HEADER), Some(PH));
    gen_and_verify::<CS>(&sk, &pk, Some(&empty), None, Some(HEADER), Some(PH));
    gen_and_verify::<CS>(&sk, &pk, None, Some(&[]), Some(HEADER), Some(PH));
    gen_and_verify::<CS>(&sk, &pk, Some(&empty), Some(&[]), None, None);

    // None and Some(empty) are the same thing on both sides
    let signature = Signature::<BBSplus<CS>>::sign(None, &sk, &pk, None).unwrap();
    let proof = PoKSignature::<BBSplus<CS>>::proof_gen(
        &pk,
        &signature.to_bytes(),
        None,
        None,
        Some(&empty),
        Some(&[]),
    )
    .unwrap();
    assert_eq!(proof.to_bytes().len(), PROOF_FIXED_LEN);
    assert!(proof.proof_verify(&pk, None, None, None, None).is_ok());
    assert!(proof.proof_verify(&pk, Some(&empty), Some(&[]), Some(b""), Some(b"")).is_ok());

    // no message to disclose
    for bad in [vec![0usize], vec![1], vec![usize::MAX], vec![0, 0]] {
        assert!(PoKSignature::<BBSplus<CS>>::proof_gen(
            &pk,
            &signature.to_bytes(),
            None,
            None,
            None,
            Some(&bad),
        )
        .is_err());
    }
}

#[test]
fn proof_gen_no_messages_sha256() {
    proof_gen_no_messages::<Bls12381Sha256>();
}

#[test]
fn proof_gen_no_messages_shake256() {
    proof_gen_no_messages::<Bls12381Shake256>();
}

fn proof_gen_rejects<CS>()
where
    CS: BbsCiphersuite,
    CS::Expander: for<'a> ExpandMsg<'a>,
{
    let (sk, pk) = keypair::<CS>();

    for L in [1usize, 2, 4] {
        let m = msgs(L);
        let signature = Signature::<BBSplus<CS>>::sign(Some(&m), &sk, &pk, Some(HEADER)).unwrap();
        let sig = signature.to_bytes();
        let gen = |indexes: &[usize]| {
            PoKSignature::<BBSplus<CS>>::proof_gen(
                &pk,
                &sig,
                Some(HEADER),
                Some(PH),
                Some(&m),
                Some(indexes),
            )
        };

        // the largest index is L - 1
        assert!(gen(&[L - 1]).is_ok());
        assert!(gen(&[L]).is_err());
        assert!(gen(&[0, L]).is_err());
        assert!(gen(&[L, 0]).is_err());
        assert!(gen(&[L + 1]).is_err());
        assert!(gen(&[usize::MAX]).is_err());
        assert!(gen(&[0, usize::MAX]).is_err());

        // more indexes than messages: fine when they collapse to valid ones, refused otherwise
        let zeros = vec![0usize; L + 3];
        assert!(gen(&zeros).is_ok());
        let too_many: Vec<usize> = (0..=L).collect();
        assert!(gen(&too_many).is_err());
        let mut with_dups: Vec<usize> = (0..L).collect();
        with_dups.extend(0..L);
        assert!(gen(&with_dups).is_ok());
        with_dups.push(L);
        assert!(gen(&with_dups).is_err());
    }

    // signature octets of the wrong size or content
    let m = msgs(3);
    let signature = Signature::<BBSplus<CS>>::sign(Some(&m), &sk, &pk, Some(HEADER)).unwrap();
    let sig = signature.to_bytes();
    let gen = |s: &[u8]| {
        PoKSignature::<BBSplus<CS>>::proof_gen(&pk, s, Some(HEADER), Some(PH), Some(&m), Some(&[1]))
    };
    assert!(gen(&sig).is_ok());
    assert!(gen(&[]).is_err());
    assert!(gen(&sig[..79]).is_err());
    assert!(gen(&sig[1..]).is_err());
    let mut longer = sig.to_vec();
    longer.push(0);
    assert!(gen(&longer).is_err());
    assert!(gen(&[0u8; 80]).is_err());
    assert!(gen(&[0xffu8; 80]).is_err());
    // e = 0
    let mut e_zero = sig;
    e_zero[48..].fill(0);
    assert!(gen(&e_zero).is_err());
    // e >= r
    let mut e_big = sig;
    e_big[48..].fill(0xff);
    assert!(gen(&e_big).is_err());
    // A = identity (compressed point at infinity)
    let mut a_inf = sig;
    a_inf[..48].fill(0);
    a_inf[0] = 0xc0;
    assert!(gen(&a_inf).is_err());

    // a proof made from a signature that does not match is produced but does not verify
    let mut e_other = sig;
    e_other[79] ^= 1;
    let proof = gen(&e_other).unwrap();
    assert!(proof
        .proof_verify(&pk, Some(&m[1..2]), Some(&[1]), Some(HEADER), Some(PH))
        .is_err());
    let other_messages = msgs(4)[1..].to_vec();
    let proof = PoKSignature::<BBSplus<CS>>::proof_gen(
        &pk,
        &sig,
        Some(HEADER),
        Some(PH),
        Some(&other_messages),
        Some(&[1]),
    )
    .unwrap();
    assert!(proof
        .proof_verify(&pk, Some(&other_messages[1..2]), Some(&[1]), Some(HEADER), Some(PH))
        .is_err());
    // one message less or one more than signed
    for wrong in [msgs(2), msgs(4)] {
        let proof = PoKSignature::<BBSplus<CS>>::proof_gen(
            &pk,
            &sig,
            Some(HEADER),
            Some(PH),
            Some(&wrong),
            Some(&[1]),
        )
        .unwrap();
        assert_eq!(proof.to_bytes().len(), PROOF_FIXED_LEN + 32 * (wrong.len() - 1));
        assert!(proof
            .proof_verify(&pk, Some(&wrong[1..2]), Some(&[1]), Some(HEADER), Some(PH))
            .is_err());
    }
}

#[test]
fn proof_gen_rejects_sha256() {
    proof_gen_rejects::<Bls12381Sha256>();
}

#[test]
fn proof_gen_rejects_shake256() {
    proof_gen_rejects::<Bls12381Shake256>();
}

/// blind_proof_gen + checks on the proof, then blind_proof_verify with the right and with wrong inputs
fn blind_gen_and_verify<CS>(
    pk: &BBSplusPublicKey,
    signature: &[u8],
    messages: Option<&[Vec<u8>]>,
    committed: Option<&[Vec<u8>]>,
    disclosed: Option<&[usize]>,
    disclosed_commitment: Option<&[usize]>,
    blind: Option<&BlindFactor>,
) where
    CS: BbsCiphersuite,
    CS::Expander: for<'a> ExpandMsg<'a>,
{
    let all = messages.unwrap_or(&[]);
    let all_committed = committed.unwrap_or(&[]);
    let L = all.len();
    let M = all_committed.len();
    let unique = sorted_dedup(disclosed.unwrap_or(&[]));
    let unique_commitment = sorted_dedup(disclosed_commitment.unwrap_or(&[]));
    // the prover blind is a hidden message of its own
    let U = L + M + 1 - unique.len() - unique_commitment.len();

    let proof = PoKSignature::<BBSplus<CS>>::blind_proof_gen(
        pk,
        signature,
        Some(HEADER),
        Some(PH),
        messages,
        committed,
        disclosed,
        disclosed_commitment,
        blind,
    )
    .unwrap();

    let bytes = proof.to_bytes();
    assert_eq!(bytes.len(), PROOF_FIXED_LEN + 32 * U);
    let decoded = PoKSignature::<BBSplus<CS>>::from_bytes(&bytes).unwrap();
    assert_eq!(decoded.to_bbsplus_proof(), proof.to_bbsplus_proof());
    assert_eq!(decoded.to_bytes(), bytes);

    let disclosed_messages = get_messages_vec(all, &unique);
    let disclosed_committed = get_messages_vec(all_committed, &unique_commitment);

    assert!(decoded
        .blind_proof_verify(
            pk,
            Some(HEADER),
            Some(PH),
            Some(L),
            Some(&disclosed_messages),
            Some(&disclosed_committed),
            disclosed,
            disclosed_commitment,
        )
        .is_ok());

    assert!(decoded
        .blind_proof_verify(
            pk,
            Some(HEADER),
            Some(b"other"),
            Some(L),
            Some(&disclosed_messages),
            Some(&disclosed_committed),
            disclosed,
            disclosed_commitment,
        )
        .is_err());

    for k in 0..unique.len() {
        let mut tampered = disclosed_messages.clone();
        tampered[k].push(1);
        assert!(decoded
            .blind_proof_verify(
                pk,
                Some(HEADER),
                Some(PH),
                Some(L),
                Some(&tampered),
                Some(&disclosed_committed),
                Some(&unique),
                Some(&unique_commitment),
            )
            .is_err());
    }
    for k in 0..unique_commitment.len() {
        let mut tampered = disclosed_committed.clone();
        tampered[k].push(1);
        assert!(decoded
            .blind_proof_verify(
                pk,
                Some(HEADER),
                Some(PH),
                Some(L),
                Some(&disclosed_messages),
                Some(&tampered),
                Some(&unique),
                Some(&unique_commitment),
            )
            .is_err());
    }
    // a disclosed committed message sits after the L signer messages and the blind
    if unique_commitment.len() == 1 && M >= 2 {
        let other = [(unique_commitment[0] + 1) % M];
        assert!(decoded
            .blind_proof_verify(
                pk,
                Some(HEADER),
                Some(PH),
                Some(L),
                Some(&disclosed_messages),
                Some(&disclosed_committed),
                Some(&unique),
                Some(&other),
            )
            .is_err());
    }
    for j in 0..U {
        let mut b = bytes.clone();
        b[240 + 32 * j + 31] ^= 1;
        if let Ok(p) = PoKSignature::<BBSplus<CS>>::from_bytes(&b) {
            assert!(p
                .blind_proof_verify(
                    pk,
                    Some(HEADER),
                    Some(PH),
                    Some(L),
                    Some(&disclosed_messages),
                    Some(&disclosed_committed),
                    Some(&unique),
                    Some(&unique_commitment),
                )
                .is_err());
        }
    }
}

fn blind_proof_gen_cases<CS>()
where
    CS: BbsCiphersuite,
    CS::Expander: for<'a> ExpandMsg<'a>,
{
    let (sk, pk) = keypair::<CS>();

    for (L, M) in [(0usize, 1usize), (1, 1), (3, 2), (2, 4), (0, 3), (4, 0)] {
        let m = msgs(L);
        let cm = committed_msgs(M);
        let (commitment, blind) = Commitment::<BBSplus<CS>>::commit(Some(&cm)).unwrap();
        let signature = BlindSignature::<BBSplus<CS>>::blind_sign(
            &sk,
            &pk,
            Some(&commitment.to_bytes()),
            Some(HEADER),
            Some(&m),
        )
        .unwrap();
        assert!(signature
            .verify_blind_sign(&pk, Some(HEADER), Some(&m), Some(&cm), Some(&blind))
            .is_ok());
        let sig = signature.to_bytes();

        let all: Vec<usize> = (0..L).collect();
        let all_c: Vec<usize> = (0..M).collect();
        let mut selections: Vec<(Vec<usize>, Vec<usize>)> = vec![
            (vec![], vec![]),
            (all.clone(), vec![]),
            (vec![], all_c.clone()),
            (all.clone(), all_c.clone()),
            (
                all.iter().rev().copied().collect(),
                all_c.iter().rev().copied().collect(),
            ),
        ];
        if L >= 1 {
            selections.push((vec![L - 1], vec![]));
            selections.push((vec![0], all_c.clone()));
        }
        if M >= 1 {
            selections.push((vec![], vec![M - 1]));
            selections.push((all.clone(), vec![0]));
        }
        if L >= 2 {
            selections.push((vec![L - 1, 0], vec![]));
            // a repetition that still fits in L entries
            selections.push((vec![1, 1], vec![]));
        }
        if M >= 2 {
            selections.push((vec![], vec![M - 1, M - 1]));
            selections.push((vec![], vec![1]));
        }
        for (d, dc) in &selections {
            blind_gen_and_verify::<CS>(
                &pk,
                &sig,
                Some(&m),
                Some(&cm),
                Some(d),
                Some(dc),
                Some(&blind),
            );
        }
        // absent lists
        blind_gen_and_verify::<CS>(&pk, &sig, Some(&m), Some(&cm), None, None, Some(&blind));
        if L == 0 {
            blind_gen_and_verify::<CS>(&pk, &sig, None, Some(&cm), None, Some(&all_c), Some(&blind));
        }

        let gen = |d: &[usize], dc: &[usize]| {
            PoKSignature::<BBSplus<CS>>::blind_proof_gen(
                &pk,
                &sig,
                Some(HEADER),
                Some(PH),
                Some(&m),
                Some(&cm),
                Some(d),
                Some(dc),
                Some(&blind),
            )
        };

        // out of range on either side; L is the position of the blind, never to be disclosed
        assert!(gen(&[L], &[]).is_err());
        assert!(gen(&[L + 1], &[]).is_err());
        assert!(gen(&[usize::MAX], &[]).is_err());
        assert!(gen(&[], &[M]).is_err());
        assert!(gen(&[], &[M + 1]).is_err());
        assert!(gen(&[], &[usize::MAX]).is_err());
        assert!(gen(&[], &[usize::MAX - L]).is_err());
        assert!(gen(&[], &[usize::MAX - L - 1]).is_err());
        if L >= 1 {
            assert!(gen(&[0, L], &[]).is_err());
            assert!(gen(&[L, 0], &[]).is_err());
            // in range, but longer than the list of messages
            assert!(gen(&vec![0; L + 1], &[]).is_err());
            assert!(gen(&vec![0; L], &[]).is_ok());
        }
        if M >= 1 {
            assert!(gen(&[], &[0, M]).is_err());
            assert!(gen(&[], &vec![0; M + 1]).is_err());
            assert!(gen(&[], &vec![M - 1; M]).is_ok());
            assert!(gen(&[L], &[0]).is_err());
        }

        // signature octets
        let gen_sig = |s: &[u8]| {
            PoKSignature::<BBSplus<CS>>::blind_proof_gen(
                &pk,
                s,
                Some(HEADER),
                Some(PH),
                Some(&m),
                Some(&cm),
                None,
                None,
                Some(&blind),
            )
        };
        assert!(gen_sig(&sig).is_ok());
        assert!(gen_sig(&sig[..79]).is_err());
        assert!(gen_sig(&[]).is_err());
        assert!(gen_sig(&[0u8; 80]).is_err());
        let mut longer = sig.to_vec();
        longer.push(7);
        assert!(gen_sig(&longer).is_err());

        // wrong blind: a proof comes out, and is refused
        let other_blind = BlindFactor::from_bytes(&[9u8; 32]).unwrap();
        let proof = PoKSignature::<BBSplus<CS>>::blind_proof_gen(
            &pk,
            &sig,
            Some(HEADER),
            Some(PH),
            Some(&m),
            Some(&cm),
            None,
            None,
            Some(&other_blind),
        )
        .unwrap();
        assert!(proof
            .blind_proof_verify(&pk, Some(HEADER), Some(PH), Some(L), None, None, None, None)
            .is_err());
    }
}

#[test]
fn blind_proof_gen_cases_sha256() {
    blind_proof_gen_cases::<Bls12381Sha256>();
}

#[test]
fn blind_proof_gen_cases_shake256() {
    blind_proof_gen_cases::<Bls12381Shake256>();
}

/// No commitment at all: the signature covers the signer messages and a zero blind
fn blind_proof_gen_without_commitment<CS>()
where
    CS: BbsCiphersuite,
    CS::Expander: for<'a> ExpandMsg<'a>,
{
    let (sk, pk) = keypair::<CS>();
    let empty: Vec<Vec<u8>> = Vec::new();

    for L in [0usize, 1, 3] {
        let m = msgs(L);
        let signature =
            BlindSignature::<BBSplus<CS>>::blind_sign(&sk, &pk, None, Some(HEADER), Some(&m))
                .unwrap();
        assert!(signature
            .verify_blind_sign(&pk, Some(HEADER), Some(&m), None, None)
            .is_ok());
        let sig = signature.to_bytes();
        let all: Vec<usize> = (0..L).collect();
        let zero = BlindFactor::from_bytes(&[0u8; 32]).unwrap();

        blind_gen_and_verify::<CS>(&pk, &sig, Some(&m), None, None, None, None);
        blind_gen_and_verify::<CS>(&pk, &sig, Some(&m), Some(&empty), Some(&all), Some(&[]), None);
        blind_gen_and_verify::<CS>(&pk, &sig, Some(&m), None, Some(&all), None, Some(&zero));
        if L == 0 {
            blind_gen_and_verify::<CS>(&pk, &sig, None, None, None, None, None);
            blind_gen_and_verify::<CS>(&pk, &sig, Some(&empty), Some(&empty), Some(&[]), Some(&[]), None);
        }

        // nothing committed, nothing to disclose there
        for bad in [vec![0usize], vec![1], vec![usize::MAX]] {
            assert!(PoKSignature::<BBSplus<CS>>::blind_proof_gen(
                &pk,
                &sig,
                Some(HEADER),
                Some(PH),
                Some(&m),
                None,
                None,
                Some(&bad),
                None,
            )
            .is_err());
        }
        assert!(PoKSignature::<BBSplus<CS>>::blind_proof_gen(
            &pk,
            &sig,
            Some(HEADER),
            Some(PH),
            Some(&m),
            None,
            Some(&[L]),
            None,
            None,
        )
        .is_err());
    }
}

#[test]
fn blind_proof_gen_without_commitment_sha256() {
    blind_proof_gen_without_commitment::<Bls12381Sha256>();
}

#[test]
fn blind_proof_gen_without_commitment_shake256() {
    blind_proof_gen_without_commitment::<Bls12381Shake256>();
}

fn scalars(n: u64) -> Vec<BBSplusMessage> {
    (0..n)
        .map(|i| BBSplusMessage::new(Scalar::from(1000 + i)))
        .collect()
}

#[test]
fn get_messages_selects_in_the_order_of_the_indexes() {
    let m = scalars(6);

    assert_eq!(get_messages(&m, &[]), vec![]);
    assert_eq!(get_messages(&[], &[]), vec![]);
    assert_eq!(get_messages(&m, &[0]), vec![m[0]]);
    assert_eq!(get_messages(&m, &[5]), vec![m[5]]);
    assert_eq!(get_messages(&m, &[0, 1, 2, 3, 4, 5]), m);
    assert_eq!(get_messages(&m, &[4, 1, 4, 0]), vec![m[4], m[1], m[4], m[0]]);
    assert_eq!(get_messages(&m[..1], &[0, 0, 0]), vec![m[0], m[0], m[0]]);
}

#[test]
#[should_panic]
fn get_messages_index_equal_to_the_length() {
    let m = scalars(3);
    let _ = get_messages(&m, &[0, 3]);
}

#[test]
#[should_panic]
fn get_messages_index_on_empty_list() {
    let _ = get_messages(&[], &[0]);
}
