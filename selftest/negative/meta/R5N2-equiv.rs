// Behavioural pin-down for the prover side of src/bbsplus/proof.rs (proof_gen, blind_proof_gen,
// core_proof_gen, proof_init, proof_challenge_calculate, proof_finalize) and the helpers in
// src/utils/util.rs they call (calculate_domain, get_messages, get_remaining_indexes, hash_to_scalar).
//
// Public API only. Outside the crate's own unit tests the prover draws real randomness, so the
// assertions are on deterministic facts: Ok / Err (and the Err variant), encoded lengths, round trips,
// acceptance / rejection by the verifier, and the known-answer fixtures for the verifier, which shares
// the challenge and domain calculation with the prover.
#![allow(non_snake_case)]

use elliptic_curve::hash2curve::ExpandMsg;
use zkryptium::{
    bbsplus::{ciphersuites::BbsCiphersuite, commitment::BlindFactor, keys::BBSplusPublicKey},
    errors::Error,
    keys::pair::KeyPair,
    schemes::{
        algorithms::{BBSplus, BbsBls12381Sha256, BbsBls12381Shake256, Scheme},
        generics::{BlindSignature, Commitment, PoKSignature, Signature},
    },
};

const IKM: &[u8] = b"equiv-test-key-material-0123456789abcdef-0123456789abcdef";
const HEADER: &[u8] = b"\x11\x22\x33\x44\x55\x66\x77\x88\x99\x00\xaa\xbb\xcc\xdd\xee\xff";
const PH: &[u8] = b"presentation header";

const POK_FIXED_LEN: usize = 3 * 48 + 4 * 32;

fn msgs(n: usize, tag: u8) -> Vec<Vec<u8>> {
    // different lengths, including the empty message
    (0..n)
        .map(|i| (0..(i * 7) % 40).map(|j| tag ^ (i as u8).wrapping_mul(31) ^ (j as u8)).collect())
        .collect()
}

fn pick(all: &[Vec<u8>], idx: &[usize]) -> Vec<Vec<u8>> {
    idx.iter().map(|&i| all[i].clone()).collect()
}

fn normalised(idx: &[usize]) -> Vec<usize> {
    let mut v = idx.to_vec();
    v.sort();
    v.dedup();
    v
}

fn keypair<CS>() -> KeyPair<BBSplus<CS>>
where
    CS: BbsCiphersuite,
    CS::Expander: for<'a> ExpandMsg<'a>,
{
    KeyPair::<BBSplus<CS>>::generate(IKM, None, None).unwrap()
}

// ---------------------------------------------------------------------------------------------
// proof_gen: sizes, index lists, optional arguments
// ---------------------------------------------------------------------------------------------

fn proof_gen_shapes<S: Scheme>()
where
    S::Ciphersuite: BbsCiphersuite + std::fmt::Debug,
    <S::Ciphersuite as BbsCiphersuite>::Expander: for<'a> ExpandMsg<'a>,
{
    let kp = keypair::<S::Ciphersuite>();
    let (sk, pk) = (kp.private_key(), kp.public_key());

    for &L in &[0usize, 1, 2, 3, 5, 10] {
        let messages = msgs(L, 0x5a);
        let signature =
            Signature::<BBSplus<S::Ciphersuite>>::sign(Some(&messages), sk, pk, Some(HEADER))
                .unwrap();
        let sig = signature.to_bytes();

        // index lists as the caller may write them: empty, all, first, last, unsorted, repeated
        let mut lists: Vec<Vec<usize>> = vec![vec![], (0..L).collect()];
        if L > 0 {
            lists.push(vec![0]);
            lists.push(vec![L - 1]);
            lists.push((0..L).rev().collect());
            lists.push(vec![L - 1, 0, L - 1, 0, 0]);
            lists.push((0..L).step_by(2).collect());
            lists.push(vec![0; L + 3]); // longer than L before dedup
        }
        if L > 2 {
            lists.push(vec![L - 2, 1]);
            lists.push((1..L).collect());
        }

        for list in &lists {
            let disclosed = normalised(list);
            let U = L - disclosed.len();
            let disclosed_messages = pick(&messages, &disclosed);

            let proof = PoKSignature::<BBSplus<S::Ciphersuite>>::proof_gen(
                pk,
                &sig,
                Some(HEADER),
                Some(PH),
                Some(&messages),
                Some(list),
            )
            .unwrap_or_else(|e| panic!("L={L} list={list:?}: {e:?}"));

            let bytes = proof.to_bytes();
            assert_eq!(bytes.len(), POK_FIXED_LEN + 32 * U, "L={L} list={list:?}");
            let decoded = PoKSignature::<BBSplus<S::Ciphersuite>>::from_bytes(&bytes).unwrap();
            assert_eq!(decoded, proof);

            decoded
                .proof_verify(pk, Some(&disclosed_messages), Some(&disclosed), Some(HEADER), Some(PH))
                .unwrap_or_else(|e| panic!("verify L={L} list={list:?}: {e:?}"));
            // bound to header, presentation header and disclosed values
            assert!(proof
                .proof_verify(pk, Some(&disclosed_messages), Some(&disclosed), Some(HEADER), Some(b"other"))
                .is_err());
            assert!(proof
                .proof_verify(pk, Some(&disclosed_messages), Some(&disclosed), Some(b"other"), Some(PH))
                .is_err());
            assert!(proof
                .proof_verify(pk, Some(&disclosed_messages), Some(&disclosed), None, Some(PH))
                .is_err());
            if !disclosed.is_empty() {
                let mut wrong = disclosed_messages.clone();
                wrong[0].push(1);
                assert!(proof
                    .proof_verify(pk, Some(&wrong), Some(&disclosed), Some(HEADER), Some(PH))
                    .is_err());
                // a disclosed message presented under a different index
                if U > 0 {
                    let mut moved = disclosed.clone();
                    let free = (0..L).find(|i| !disclosed.contains(i)).unwrap();
                    moved[0] = free;
                    assert!(proof
                        .proof_verify(pk, Some(&disclosed_messages), Some(&moved), Some(HEADER), Some(PH))
                        .is_err());
                }
            }
        }

        // two proofs over the same input differ (fresh randomness each time) but have the same shape
        let a = PoKSignature::<BBSplus<S::Ciphersuite>>::proof_gen(
            pk, &sig, Some(HEADER), Some(PH), Some(&messages), None,
        )
        .unwrap()
        .to_bytes();
        let b = PoKSignature::<BBSplus<S::Ciphersuite>>::proof_gen(
            pk, &sig, Some(HEADER), Some(PH), Some(&messages), None,
        )
        .unwrap()
        .to_bytes();
        assert_eq!(a.len(), b.len());
        assert_eq!(a.len(), POK_FIXED_LEN + 32 * L);
        assert_ne!(a, b);
    }
}

#[test]
fn proof_gen_shapes_sha256() {
    proof_gen_shapes::<BbsBls12381Sha256>();
}

#[test]
fn proof_gen_shapes_shake256() {
    proof_gen_shapes::<BbsBls12381Shake256>();
}

// None and Some(empty) are the same thing for header, ph, messages and disclosed indexes.
fn none_vs_empty<S: Scheme>()
where
    S::Ciphersuite: BbsCiphersuite + std::fmt::Debug,
    <S::Ciphersuite as BbsCiphersuite>::Expander: for<'a> ExpandMsg<'a>,
{
    let kp = keypair::<S::Ciphersuite>();
    let (sk, pk) = (kp.private_key(), kp.public_key());
    let empty_msgs: Vec<Vec<u8>> = vec![];
    let empty_idx: Vec<usize> = vec![];

    // no messages at all, no header
    let sig = Signature::<BBSplus<S::Ciphersuite>>::sign(None, sk, pk, None).unwrap().to_bytes();
    let p_none =
        PoKSignature::<BBSplus<S::Ciphersuite>>::proof_gen(pk, &sig, None, None, None, None).unwrap();
    let p_empty = PoKSignature::<BBSplus<S::Ciphersuite>>::proof_gen(
        pk,
        &sig,
        Some(b""),
        Some(b""),
        Some(&empty_msgs),
        Some(&empty_idx),
    )
    .unwrap();
    for p in [&p_none, &p_empty] {
        assert_eq!(p.to_bytes().len(), POK_FIXED_LEN);
        p.proof_verify(pk, None, None, None, None).unwrap();
        p.proof_verify(pk, Some(&empty_msgs), Some(&empty_idx), Some(b""), Some(b"")).unwrap();
        assert!(p.proof_verify(pk, None, None, None, Some(b"\0")).is_err());
        assert!(p.proof_verify(pk, None, None, Some(b"\0"), None).is_err());
    }

    // messages, but nothing disclosed
    let messages = msgs(4, 0x11);
    let sig = Signature::<BBSplus<S::Ciphersuite>>::sign(Some(&messages), sk, pk, None)
        .unwrap()
        .to_bytes();
    let p1 = PoKSignature::<BBSplus<S::Ciphersuite>>::proof_gen(
        pk, &sig, None, None, Some(&messages), None,
    )
    .unwrap();
    let p2 = PoKSignature::<BBSplus<S::Ciphersuite>>::proof_gen(
        pk, &sig, Some(b""), Some(b""), Some(&messages), Some(&empty_idx),
    )
    .unwrap();
    for p in [&p1, &p2] {
        assert_eq!(p.to_bytes().len(), POK_FIXED_LEN + 4 * 32);
        p.proof_verify(pk, None, None, None, None).unwrap();
        p.proof_verify(pk, Some(&empty_msgs), Some(&empty_idx), Some(b""), Some(b"")).unwrap();
    }

    // a proof made without the messages of the signature does not verify, but is produced
    let p3 = PoKSignature::<BBSplus<S::Ciphersuite>>::proof_gen(pk, &sig, None, None, None, None)
        .unwrap();
    assert_eq!(p3.to_bytes().len(), POK_FIXED_LEN);
    assert!(p3.proof_verify(pk, None, None, None, None).is_err());
}

#[test]
fn none_vs_empty_sha256() {
    none_vs_empty::<BbsBls12381Sha256>();
}

#[test]
fn none_vs_empty_shake256() {
    none_vs_empty::<BbsBls12381Shake256>();
}

// ---------------------------------------------------------------------------------------------
// proof_gen: rejected input
// ---------------------------------------------------------------------------------------------

fn proof_gen_rejects<S: Scheme>()
where
    S::Ciphersuite: BbsCiphersuite + std::fmt::Debug,
    <S::Ciphersuite as BbsCiphersuite>::Expander: for<'a> ExpandMsg<'a>,
{
    let kp = keypair::<S::Ciphersuite>();
    let (sk, pk) = (kp.private_key(), kp.public_key());
    type P<S> = PoKSignature<BBSplus<<S as Scheme>::Ciphersuite>>;

    for &L in &[0usize, 1, 3] {
        let messages = msgs(L, 0x77);
        let sig = Signature::<BBSplus<S::Ciphersuite>>::sign(Some(&messages), sk, pk, Some(HEADER))
            .unwrap()
            .to_bytes();

        let bad_lists: Vec<Vec<usize>> = vec![
            vec![L],
            vec![L + 1],
            vec![usize::MAX],
            vec![0, L],
            (0..=L).collect(),
            (0..L + 2).collect(),
            vec![L, L, L],
            vec![usize::MAX, 0],
        ];
        for list in &bad_lists {
            let r = P::<S>::proof_gen(pk, &sig, Some(HEADER), Some(PH), Some(&messages), Some(list));
            assert!(
                matches!(r, Err(Error::ProofGenError(_))),
                "L={L} list={list:?} -> {r:?}"
            );
        }
        // an index that is fine for the messages of the signature is not fine without them
        if L > 0 {
            let r = P::<S>::proof_gen(pk, &sig, Some(HEADER), Some(PH), None, Some(&[0]));
            assert!(matches!(r, Err(Error::ProofGenError(_))), "{r:?}");
        }

        // signature octets: wrong length
        for len in [0usize, 1, 48, 79, 81, 160] {
            let mut s = sig.to_vec();
            s.resize(len, 0);
            let r = P::<S>::proof_gen(pk, &s, Some(HEADER), Some(PH), Some(&messages), None);
            assert!(matches!(r, Err(Error::InvalidSignature)), "len={len} -> {r:?}");
        }
        // signature octets: not a point, the identity, e = 0, e not reduced
        let mut not_a_point = sig;
        not_a_point[..48].copy_from_slice(&[0xff; 48]);
        let mut identity = sig;
        identity[..48].copy_from_slice(&[0u8; 48]);
        identity[0] = 0xc0;
        let mut zero_e = sig;
        zero_e[48..].copy_from_slice(&[0u8; 32]);
        let mut big_e = sig;
        big_e[48..].copy_from_slice(&[0xff; 32]);
        for s in [not_a_point, identity, zero_e, big_e, [0u8; 80]] {
            let r = P::<S>::proof_gen(pk, &s, Some(HEADER), Some(PH), Some(&messages), None);
            assert!(matches!(r, Err(Error::InvalidSignature)), "{r:?}");
        }
        // the signature is looked at before the index list
        let r = P::<S>::proof_gen(pk, &[0u8; 80], None, None, Some(&messages), Some(&[usize::MAX]));
        assert!(matches!(r, Err(Error::InvalidSignature)), "{r:?}");

        // a well formed signature of something else: a proof comes out, and is refused
        let other = Signature::<BBSplus<S::Ciphersuite>>::sign(Some(&messages), sk, pk, Some(b"another header"))
            .unwrap()
            .to_bytes();
        if L > 0 {
            let p = P::<S>::proof_gen(pk, &other, Some(HEADER), Some(PH), Some(&messages), Some(&[0]))
                .unwrap();
            assert!(p
                .proof_verify(pk, Some(&messages[..1]), Some(&[0]), Some(HEADER), Some(PH))
                .is_err());
        }
    }
}

#[test]
fn proof_gen_rejects_sha256() {
    proof_gen_rejects::<BbsBls12381Sha256>();
}

#[test]
fn proof_gen_rejects_shake256() {
    proof_gen_rejects::<BbsBls12381Shake256>();
}

// ---------------------------------------------------------------------------------------------
// blind_proof_gen
// ---------------------------------------------------------------------------------------------

struct BlindSetup {
    sig: [u8; 80],
    messages: Vec<Vec<u8>>,
    committed: Vec<Vec<u8>>,
    blind: Option<BlindFactor>,
}

fn blind_setup<S: Scheme>(L: usize, M: Option<usize>) -> (BBSplusPublicKey, BlindSetup)
where
    S::Ciphersuite: BbsCiphersuite + std::fmt::Debug,
    <S::Ciphersuite as BbsCiphersuite>::Expander: for<'a> ExpandMsg<'a>,
{
    let kp = keypair::<S::Ciphersuite>();
    let (sk, pk) = (kp.private_key(), kp.public_key());
    let messages = msgs(L, 0x21);
    let committed = msgs(M.unwrap_or(0), 0x42);

    let (commitment, blind) = match M {
        Some(_) => {
            let (c, b) = Commitment::<BBSplus<S::Ciphersuite>>::commit(Some(&committed)).unwrap();
            (Some(c.to_bytes()), Some(b))
        }
        None => (None, None),
    };
    let signature = BlindSignature::<BBSplus<S::Ciphersuite>>::blind_sign(
        sk,
        pk,
        commitment.as_deref(),
        Some(HEADER),
        Some(&messages),
    )
    .unwrap();
    signature
        .verify_blind_sign(pk, Some(HEADER), Some(&messages), Some(&committed), blind.as_ref())
        .unwrap();

    (pk.clone(), BlindSetup { sig: signature.to_bytes(), messages, committed, blind })
}

fn blind_shapes<S: Scheme>()
where
    S::Ciphersuite: BbsCiphersuite + std::fmt::Debug,
    <S::Ciphersuite as BbsCiphersuite>::Expander: for<'a> ExpandMsg<'a>,
{
    type P<S> = PoKSignature<BBSplus<<S as Scheme>::Ciphersuite>>;

    for &(L, M) in &[(0usize, None), (0, Some(0usize)), (3, None), (0, Some(2)), (3, Some(2)), (4, Some(5)), (1, Some(1))] {
        let (pk, s) = blind_setup::<S>(L, M);
        let m = M.unwrap_or(0);

        let mut d_lists: Vec<Vec<usize>> = vec![vec![], (0..L).collect()];
        if L > 0 {
            d_lists.push(vec![L - 1]);
            d_lists.push((0..L).rev().collect());
        }
        let mut c_lists: Vec<Vec<usize>> = vec![vec![], (0..m).collect()];
        if m > 0 {
            c_lists.push(vec![m - 1]);
            c_lists.push(vec![0]);
            c_lists.push((0..m).rev().collect());
        }

        for d in &d_lists {
            for c in &c_lists {
                let (dn, cn) = (normalised(d), normalised(c));
                // signer messages, the prover blind, committed messages
                let U = (L + 1 + m) - dn.len() - cn.len();

                let proof = P::<S>::blind_proof_gen(
                    &pk,
                    &s.sig,
                    Some(HEADER),
                    Some(PH),
                    Some(&s.messages),
                    Some(&s.committed),
                    Some(d),
                    Some(c),
                    s.blind.as_ref(),
                )
                .unwrap_or_else(|e| panic!("L={L} M={M:?} d={d:?} c={c:?}: {e:?}"));
                let bytes = proof.to_bytes();
                assert_eq!(bytes.len(), POK_FIXED_LEN + 32 * U, "L={L} M={M:?} d={d:?} c={c:?}");
                let proof = P::<S>::from_bytes(&bytes).unwrap();

                proof
                    .blind_proof_verify(
                        &pk,
                        Some(HEADER),
                        Some(PH),
                        Some(L),
                        Some(&pick(&s.messages, &dn)),
                        Some(&pick(&s.committed, &cn)),
                        Some(&dn),
                        Some(&cn),
                    )
                    .unwrap_or_else(|e| panic!("verify L={L} M={M:?} d={d:?} c={c:?}: {e:?}"));
                assert!(proof
                    .blind_proof_verify(
                        &pk,
                        Some(HEADER),
                        Some(b"other"),
                        Some(L),
                        Some(&pick(&s.messages, &dn)),
                        Some(&pick(&s.committed, &cn)),
                        Some(&dn),
                        Some(&cn),
                    )
                    .is_err());
                if !cn.is_empty() {
                    let mut wrong = pick(&s.committed, &cn);
                    wrong[0].push(9);
                    assert!(proof
                        .blind_proof_verify(
                            &pk,
                            Some(HEADER),
                            Some(PH),
                            Some(L),
                            Some(&pick(&s.messages, &dn)),
                            Some(&wrong),
                            Some(&dn),
                            Some(&cn),
                        )
                        .is_err());
                }
            }
        }

        // None and Some(empty) for the lists; only possible when there is nothing to leave out
        let p = P::<S>::blind_proof_gen(
            &pk,
            &s.sig,
            Some(HEADER),
            None,
            if L == 0 { None } else { Some(&s.messages) },
            if m == 0 { None } else { Some(&s.committed) },
            None,
            None,
            s.blind.as_ref(),
        )
        .unwrap();
        assert_eq!(p.to_bytes().len(), POK_FIXED_LEN + 32 * (L + 1 + m));
        p.blind_proof_verify(&pk, Some(HEADER), Some(b""), Some(L), None, None, None, None).unwrap();
        p.blind_proof_verify(&pk, Some(HEADER), None, Some(L), Some(&[]), Some(&[]), Some(&[]), Some(&[]))
            .unwrap();

        // without the prover blind the proof is produced, and refused unless the blind is zero anyway
        if M.is_some() {
            let p = P::<S>::blind_proof_gen(
                &pk, &s.sig, Some(HEADER), None, Some(&s.messages), Some(&s.committed), None, None, None,
            )
            .unwrap();
            assert_eq!(p.to_bytes().len(), POK_FIXED_LEN + 32 * (L + 1 + m));
            assert!(p
                .blind_proof_verify(&pk, Some(HEADER), None, Some(L), None, None, None, None)
                .is_err());
        }
    }
}

#[test]
fn blind_shapes_sha256() {
    blind_shapes::<BbsBls12381Sha256>();
}

#[test]
fn blind_shapes_shake256() {
    blind_shapes::<BbsBls12381Shake256>();
}

fn blind_rejects<S: Scheme>()
where
    S::Ciphersuite: BbsCiphersuite + std::fmt::Debug,
    <S::Ciphersuite as BbsCiphersuite>::Expander: for<'a> ExpandMsg<'a>,
{
    type P<S> = PoKSignature<BBSplus<<S as Scheme>::Ciphersuite>>;

    for &(L, M) in &[(0usize, Some(0usize)), (2, Some(3)), (3, None), (1, Some(1))] {
        let (pk, s) = blind_setup::<S>(L, M);
        let m = M.unwrap_or(0);
        let gen = |msgs: Option<&[Vec<u8>]>, cm: Option<&[Vec<u8>]>, d: Option<&[usize]>, c: Option<&[usize]>| {
            P::<S>::blind_proof_gen(&pk, &s.sig, Some(HEADER), Some(PH), msgs, cm, d, c, s.blind.as_ref())
        };
        let all = |d: Option<&[usize]>, c: Option<&[usize]>| gen(Some(&s.messages), Some(&s.committed), d, c);

        // signer side
        let bad_d: Vec<Vec<usize>> = vec![
            vec![L],
            vec![usize::MAX],
            (0..=L).collect(),
            vec![0; L + 1], // more entries than messages, even though they repeat
            vec![L + 1 + m],
        ];
        for d in &bad_d {
            let r = all(Some(d), None);
            assert!(matches!(r, Err(Error::BlindProofGenError(_))), "L={L} d={d:?} -> {r:?}");
            let r = all(Some(d), Some(&[]));
            assert!(matches!(r, Err(Error::BlindProofGenError(_))), "L={L} d={d:?} -> {r:?}");
        }
        // prover side
        let bad_c: Vec<Vec<usize>> = vec![
            vec![m],
            vec![usize::MAX],
            vec![usize::MAX - L],
            vec![usize::MAX - L - 1],
            (0..=m).collect(),
            vec![0; m + 1],
        ];
        for c in &bad_c {
            let r = all(None, Some(c));
            assert!(matches!(r, Err(Error::BlindProofGenError(_))), "M={m} c={c:?} -> {r:?}");
        }
        // both
        let r = all(Some(&[L]), Some(&[m]));
        assert!(matches!(r, Err(Error::BlindProofGenError(_))), "{r:?}");

        // repeated entries within the limit are accepted and collapse
        if L >= 2 {
            let p = all(Some(&[1, 1]), None).unwrap();
            assert_eq!(p.to_bytes().len(), POK_FIXED_LEN + 32 * (L + 1 + m - 1));
        }
        if m >= 2 {
            let p = all(None, Some(&[m - 1, m - 1])).unwrap();
            assert_eq!(p.to_bytes().len(), POK_FIXED_LEN + 32 * (L + 1 + m - 1));
        }

        // the lists are checked against the messages that are passed in
        if L > 0 {
            let r = gen(None, Some(&s.committed), Some(&[0]), None);
            assert!(matches!(r, Err(Error::BlindProofGenError(_))), "{r:?}");
        }
        if m > 0 {
            let r = gen(Some(&s.messages), None, None, Some(&[0]));
            assert!(matches!(r, Err(Error::BlindProofGenError(_))), "{r:?}");
        }

        // signature octets
        for len in [0usize, 79, 81] {
            let mut sig = s.sig.to_vec();
            sig.resize(len, 0);
            let r = P::<S>::blind_proof_gen(
                &pk, &sig, None, None, Some(&s.messages), Some(&s.committed), None, None, s.blind.as_ref(),
            );
            assert!(matches!(r, Err(Error::InvalidSignature)), "{r:?}");
        }
        let r = P::<S>::blind_proof_gen(
            &pk, &[0u8; 80], None, None, Some(&s.messages), Some(&s.committed), Some(&[usize::MAX]), None, None,
        );
        assert!(matches!(r, Err(Error::InvalidSignature)), "{r:?}");
    }
}

#[test]
fn blind_rejects_sha256() {
    blind_rejects::<BbsBls12381Sha256>();
}

#[test]
fn blind_rejects_shake256() {
    blind_rejects::<BbsBls12381Shake256>();
}

// ---------------------------------------------------------------------------------------------
// known answers: the verifier recomputes the domain and the challenge with the same helpers
// ---------------------------------------------------------------------------------------------

fn json(path: &str) -> serde_json::Value {
    serde_json::from_str(&std::fs::read_to_string(path).unwrap()).unwrap()
}

fn hex_field(v: &serde_json::Value) -> Vec<u8> {
    hex::decode(v.as_str().unwrap()).unwrap()
}

fn fixtures<S: Scheme>(dir: &str)
where
    S::Ciphersuite: BbsCiphersuite + std::fmt::Debug,
    <S::Ciphersuite as BbsCiphersuite>::Expander: for<'a> ExpandMsg<'a>,
{
    let mut seen_valid = 0;
    let mut seen_invalid = 0;
    for n in 1..=15 {
        let f = json(&format!("{dir}/proof/proof{n:03}.json"));
        let pk = BBSplusPublicKey::from_bytes(&hex_field(&f["signerPublicKey"])).unwrap();
        let header = hex_field(&f["header"]);
        let ph = hex_field(&f["presentationHeader"]);
        let messages: Vec<Vec<u8>> = f["messages"].as_array().unwrap().iter().map(hex_field).collect();
        let idx: Vec<usize> = f["disclosedIndexes"]
            .as_array()
            .unwrap()
            .iter()
            .map(|i| i.as_u64().unwrap() as usize)
            .collect();
        let expected = f["result"]["valid"].as_bool().unwrap();
        let proof_bytes = hex_field(&f["proof"]);

        let proof = PoKSignature::<BBSplus<S::Ciphersuite>>::from_bytes(&proof_bytes).unwrap();
        assert_eq!(proof.to_bytes(), proof_bytes);
        let got = proof
            .proof_verify(&pk, Some(&pick(&messages, &idx)), Some(&idx), Some(&header), Some(&ph))
            .is_ok();
        assert_eq!(got, expected, "{dir} proof{n:03}");
        if expected {
            seen_valid += 1;
            // a fresh proof from the same signature is accepted under the same conditions
            let fresh = PoKSignature::<BBSplus<S::Ciphersuite>>::proof_gen(
                &pk,
                &hex_field(&f["signature"]),
                Some(&header),
                Some(&ph),
                Some(&messages),
                Some(&idx),
            )
            .unwrap();
            assert_eq!(fresh.to_bytes().len(), proof_bytes.len());
            fresh
                .proof_verify(&pk, Some(&pick(&messages, &idx)), Some(&idx), Some(&header), Some(&ph))
                .unwrap();
        } else {
            seen_invalid += 1;
        }
    }
    assert!(seen_valid >= 3 && seen_invalid >= 1);

    for n in 1..=10 {
        let f = json(&format!("{dir}/signature/signature{n:03}.json"));
        let pk = BBSplusPublicKey::from_bytes(&hex_field(&f["signerKeyPair"]["publicKey"])).unwrap();
        let header = hex_field(&f["header"]);
        let messages: Vec<Vec<u8>> = f["messages"].as_array().unwrap().iter().map(hex_field).collect();
        let expected = f["result"]["valid"].as_bool().unwrap();
        let sig: [u8; 80] = hex_field(&f["signature"]).try_into().unwrap();
        let got = Signature::<BBSplus<S::Ciphersuite>>::from_bytes(&sig)
            .and_then(|s| s.verify(&pk, Some(&messages), Some(&header)))
            .is_ok();
        assert_eq!(got, expected, "{dir} signature{n:03}");
    }
}

#[test]
fn fixtures_sha256() {
    fixtures::<BbsBls12381Sha256>("fixture_data/bls12-381-sha-256");
}

#[test]
fn fixtures_shake256() {
    fixtures::<BbsBls12381Shake256>("fixture_data/bls12-381-shake-256");
}

// ---------------------------------------------------------------------------------------------
// the proof octets the prover emits are what the decoder expects; malformed octets are refused
// ---------------------------------------------------------------------------------------------

#[test]
fn proof_octets() {
    type CS = <BbsBls12381Sha256 as Scheme>::Ciphersuite;
    let kp = keypair::<CS>();
    let (sk, pk) = (kp.private_key(), kp.public_key());
    let messages = msgs(3, 0x33);
    let sig = Signature::<BBSplus<CS>>::sign(Some(&messages), sk, pk, None).unwrap().to_bytes();
    let proof =
        PoKSignature::<BBSplus<CS>>::proof_gen(pk, &sig, None, None, Some(&messages), Some(&[1])).unwrap();
    let bytes = proof.to_bytes();
    assert_eq!(bytes.len(), POK_FIXED_LEN + 2 * 32);

    for len in [0usize, 1, 47, 48, 144, 240, 271, 273, 303, bytes.len() - 1, bytes.len() + 1] {
        let mut b = bytes.clone();
        b.resize(len, 0);
        assert!(PoKSignature::<BBSplus<CS>>::from_bytes(&b).is_err(), "len={len}");
    }
    // dropping or adding one scalar gives a well formed proof for another number of messages
    let shorter = PoKSignature::<BBSplus<CS>>::from_bytes(&bytes[..bytes.len() - 32]).unwrap();
    assert!(shorter.proof_verify(pk, Some(&messages[1..2]), Some(&[1]), None, None).is_err());
    let mut longer = bytes.clone();
    longer.extend_from_slice(&[0u8; 32]);
    let longer = PoKSignature::<BBSplus<CS>>::from_bytes(&longer).unwrap();
    assert!(longer.proof_verify(pk, Some(&messages[1..2]), Some(&[1]), None, None).is_err());

    // every field is looked at
    for at in [0usize, 48, 96, 144, 176, 208, 240, 272, bytes.len() - 32] {
        let mut b = bytes.clone();
        b[at..at + 32].copy_from_slice(&[0xff; 32]);
        assert!(PoKSignature::<BBSplus<CS>>::from_bytes(&b).is_err(), "at={at}");
        let mut b = bytes.clone();
        b[at + 31] ^= 1;
        if let Ok(p) = PoKSignature::<BBSplus<CS>>::from_bytes(&b) {
            assert!(p.proof_verify(pk, Some(&messages[1..2]), Some(&[1]), None, None).is_err(), "at={at}");
        }
    }
    for at in [0usize, 48, 96] {
        let mut b = bytes.clone();
        b[at..at + 48].copy_from_slice(&[0u8; 48]);
        b[at] = 0xc0; // the identity
        assert!(PoKSignature::<BBSplus<CS>>::from_bytes(&b).is_err(), "identity at {at}");
    }

    // verifier side index lists against a real proof (U = 2)
    assert!(proof.proof_verify(pk, Some(&messages[1..2]), Some(&[3]), None, None).is_err());
    assert!(proof.proof_verify(pk, Some(&messages[1..2]), Some(&[usize::MAX]), None, None).is_err());
    assert!(proof.proof_verify(pk, Some(&messages[..2]), Some(&[1]), None, None).is_err());
    assert!(proof.proof_verify(pk, None, Some(&[1]), None, None).is_err());
    assert!(proof.proof_verify(pk, Some(&messages[1..2]), None, None, None).is_err());
    proof.proof_verify(pk, Some(&messages[1..2]), Some(&[1]), None, None).unwrap();
}
