#![cfg(feature = "cl03")]
// Behavioural pin of the VERIFIER side of the Boudot range proof (src/cl03/range_proof.rs), public API only.
// Proofs are randomised, verdicts are not: every assertion below is about a verdict (true / false / panic).

use rug::{ops::Pow, Integer};
use serde_json::Value;
use sha2::Sha256;
use std::panic::{catch_unwind, AssertUnwindSafe};
use zkryptium::cl03::{commitment::CL03Commitment, range_proof::Boudot2000RangeProof};

struct Setup {
    g: Integer,
    h: Integer,
    n: Integer,
}

fn setup() -> Setup {
    let p = (Integer::from(1) << 255u32).next_prime();
    let q = ((Integer::from(1) << 255u32) + Integer::from(987_654_321u64)).next_prime();
    let n = p * q;
    let h = Integer::from(0x1234_5678_9abc_def1u64).pow(6) % &n;
    let h = h.clone() * &h % &n;
    let alpha = Integer::from(0xdead_beef_cafe_f00du64).pow(5);
    let g = Integer::from(h.pow_mod_ref(&alpha, &n).unwrap());
    Setup { g, h, n }
}

fn commit(st: &Setup, x: &Integer, r: &Integer) -> CL03Commitment {
    let value = Integer::from(st.g.pow_mod_ref(x, &st.n).unwrap())
        * Integer::from(st.h.pow_mod_ref(r, &st.n).unwrap())
        % &st.n;
    CL03Commitment {
        value,
        randomness: r.clone(),
    }
}

fn prove(st: &Setup, x: i64, r: &Integer, lo: &Integer, hi: &Integer) -> Boudot2000RangeProof {
    let x = Integer::from(x);
    let c = commit(st, &x, r);
    Boudot2000RangeProof::prove::<Sha256>(&x, &c, &st.g, &st.h, &st.n, lo, hi)
}

/// 'T' accepted, 'F' rejected, 'P' panicked
fn verdict(p: &Boudot2000RangeProof, g: &Integer, h: &Integer, n: &Integer, lo: &Integer, hi: &Integer) -> char {
    match catch_unwind(AssertUnwindSafe(|| p.verify::<Sha256>(g, h, n, lo, hi))) {
        Ok(true) => 'T',
        Ok(false) => 'F',
        Err(_) => 'P',
    }
}

fn quiet() {
    if std::env::var_os("EQUIV_LOUD").is_some() {
        return;
    }
    std::panic::set_hook(Box::new(|_| {}));
}

fn int(v: i64) -> Integer {
    Integer::from(v)
}

#[test]
fn honest_proofs_verify_for_several_ranges_and_positions() {
    quiet();
    let st = setup();
    let r = Integer::from(0x0123_4567_89ab_cdefu64).pow(3);
    let big = Integer::from(1) << 64u32;
    let ranges: Vec<(Integer, Integer, Vec<i64>)> = vec![
        (int(0), int(100), vec![0, 1, 37, 99, 100]),
        (int(-50), int(50), vec![-50, -1, 0, 50]),
        (int(5), int(6), vec![5, 6]),
        (int(-9), int(2), vec![-9, -5, 2]),
        (int(0), big, vec![0, 1, i64::MAX]),
    ];
    for (lo, hi, xs) in &ranges {
        for x in xs {
            let p = prove(&st, *x, &r, lo, hi);
            assert_eq!(verdict(&p, &st.g, &st.h, &st.n, lo, hi), 'T', "x={x} in [{lo},{hi}]");
            // a negative randomness is fine too
            let p = prove(&st, *x, &(-r.clone()), lo, hi);
            assert_eq!(verdict(&p, &st.g, &st.h, &st.n, lo, hi), 'T', "x={x} in [{lo},{hi}], r<0");
            // serde round trip does not change the verdict
            let p2: Boudot2000RangeProof = serde_json::from_str(&serde_json::to_string(&p).unwrap()).unwrap();
            assert_eq!(p, p2);
            assert_eq!(verdict(&p2, &st.g, &st.h, &st.n, lo, hi), 'T');
        }
    }
}

#[test]
fn wrong_statement_is_rejected() {
    quiet();
    let st = setup();
    let r = Integer::from(77_777_777u64).pow(4);
    let (lo, hi) = (int(0), int(100));
    let p = prove(&st, 42, &r, &lo, &hi);
    assert_eq!(verdict(&p, &st.g, &st.h, &st.n, &lo, &hi), 'T');
    // same width elsewhere, other widths (same and different bit length), shifted by one
    for (l, h) in [(200, 300), (1, 101), (-1, 99), (0, 101), (0, 127), (0, 128), (0, 63), (41, 43), (42, 43), (0, 1)] {
        assert_eq!(verdict(&p, &st.g, &st.h, &st.n, &int(l), &int(h)), 'F', "[{l},{h}]");
    }
    // other bases / modulus
    assert_eq!(verdict(&p, &st.h, &st.g, &st.n, &lo, &hi), 'F');
    assert_eq!(verdict(&p, &st.g, &st.g, &st.n, &lo, &hi), 'F');
    assert_eq!(verdict(&p, &(st.g.clone() + 1u32), &st.h, &st.n, &lo, &hi), 'F');
    assert_eq!(verdict(&p, &st.g, &(st.h.clone() + &st.n), &st.n, &lo, &hi), 'F');
    assert_eq!(verdict(&p, &st.g, &st.h, &int(0), &lo, &hi), 'F');
    assert_eq!(verdict(&p, &st.g, &st.h, &int(1), &lo, &hi), 'F');
    assert_eq!(verdict(&p, &st.g, &st.h, &int(-7), &lo, &hi), 'F');
    assert_eq!(verdict(&p, &st.g, &st.h, &(-st.n.clone()), &lo, &hi), 'F');
    assert_eq!(verdict(&p, &st.g, &st.h, &p.E, &lo, &hi), 'F');
    let other_n = st.n.clone() + 2u32;
    assert_eq!(verdict(&p, &st.g, &st.h, &other_n, &lo, &hi), 'F');
    // a proof about another commitment
    let q = prove(&st, 43, &r, &lo, &hi);
    let mut mixed = p.clone();
    mixed.E = q.E.clone();
    assert_eq!(verdict(&mixed, &st.g, &st.h, &st.n, &lo, &hi), 'F');
    let mut mixed = p.clone();
    mixed.E_prime = q.E_prime.clone();
    assert_eq!(verdict(&mixed, &st.g, &st.h, &st.n, &lo, &hi), 'F');
    let mut mixed = p.clone();
    mixed.proof_of_tolerance = q.proof_of_tolerance.clone();
    assert_eq!(verdict(&mixed, &st.g, &st.h, &st.n, &lo, &hi), 'F');
    let mut mixed = q.clone();
    mixed.E = p.E.clone();
    mixed.E_prime = p.E_prime.clone();
    assert_eq!(verdict(&mixed, &st.g, &st.h, &st.n, &lo, &hi), 'F');
}

#[test]
fn empty_or_inverted_range_panics() {
    quiet();
    let st = setup();
    let r = int(123_456_789);
    let (lo, hi) = (int(0), int(100));
    let p = prove(&st, 42, &r, &lo, &hi);
    assert_eq!(verdict(&p, &st.g, &st.h, &st.n, &hi, &lo), 'P');
    assert_eq!(verdict(&p, &st.g, &st.h, &st.n, &lo, &lo), 'P');
    assert_eq!(verdict(&p, &st.g, &st.h, &st.n, &int(-1), &int(-1)), 'P');
    // the range is looked at before the proof and the modulus
    let mut bad = p.clone();
    bad.E = int(-1);
    assert_eq!(verdict(&bad, &st.g, &st.h, &int(0), &hi, &lo), 'P');
    assert_eq!(verdict(&bad, &st.g, &st.h, &st.n, &lo, &hi), 'F');
}

const FIELDS: [&str; 24] = [
    "E",
    "E_prime",
    "proof_of_tolerance/E_a_1",
    "proof_of_tolerance/E_a_2",
    "proof_of_tolerance/E_b_1",
    "proof_of_tolerance/E_b_2",
    "proof_of_tolerance/proof_of_square_a/E",
    "proof_of_tolerance/proof_of_square_a/F",
    "proof_of_tolerance/proof_of_square_a/proof_ss/challenge",
    "proof_of_tolerance/proof_of_square_a/proof_ss/d",
    "proof_of_tolerance/proof_of_square_a/proof_ss/d_1",
    "proof_of_tolerance/proof_of_square_a/proof_ss/d_2",
    "proof_of_tolerance/proof_of_square_b/E",
    "proof_of_tolerance/proof_of_square_b/F",
    "proof_of_tolerance/proof_of_square_b/proof_ss/challenge",
    "proof_of_tolerance/proof_of_square_b/proof_ss/d",
    "proof_of_tolerance/proof_of_square_b/proof_ss/d_1",
    "proof_of_tolerance/proof_of_square_b/proof_ss/d_2",
    "proof_of_tolerance/proof_large_i_a/C",
    "proof_of_tolerance/proof_large_i_a/D_1",
    "proof_of_tolerance/proof_large_i_a/D_2",
    "proof_of_tolerance/proof_large_i_b/C",
    "proof_of_tolerance/proof_large_i_b/D_1",
    "proof_of_tolerance/proof_large_i_b/D_2",
];

fn get(v: &Value, path: &str) -> Integer {
    let mut cur = v;
    for k in path.split('/') {
        cur = cur.get(k).unwrap_or_else(|| panic!("no field {path}"));
    }
    serde_json::from_value(cur.clone()).unwrap()
}

fn set(v: &mut Value, path: &str, to: &Integer) {
    let mut cur = v;
    for k in path.split('/') {
        cur = cur.get_mut(k).unwrap();
    }
    *cur = serde_json::to_value(to).unwrap();
}

fn rebuilt(v: &Value) -> Boudot2000RangeProof {
    serde_json::from_value(v.clone()).unwrap()
}

#[test]
fn every_field_is_bound_single_field_tampering() {
    quiet();
    let st = setup();
    let r = Integer::from(0xfeed_f00d_u64).pow(7);
    let (lo, hi) = (int(-3), int(1000));
    let p = prove(&st, 512, &r, &lo, &hi);
    let json = serde_json::to_value(&p).unwrap();
    assert_eq!(verdict(&rebuilt(&json), &st.g, &st.h, &st.n, &lo, &hi), 'T');

    let mut table = String::new();
    for f in FIELDS {
        let old = get(&json, f);
        let mutations = [
            old.clone() + 1u32,
            old.clone() - 1u32,
            old.clone() + &st.n,
            old.clone() - &st.n,
            -old.clone(),
            int(0),
            int(1),
            old.clone() + (Integer::from(1) << 128u32),
            old.clone() + (Integer::from(1) << 256u32),
        ];
        for m in &mutations {
            let mut j = json.clone();
            set(&mut j, f, m);
            table.push(verdict(&rebuilt(&j), &st.g, &st.h, &st.n, &lo, &hi));
        }
        table.push('\n');
    }
    assert_eq!(table, EXPECTED_SINGLE, "\n{table}");
}

// one row per entry of FIELDS, one column per mutation (+1, -1, +n, -n, negated, 0, 1, +2^128, +2^256)
const EXPECTED_SINGLE: &str = "\
FFFFFFFFF\n\
FFFFFFFFF\n\
FFFFFPFFF\n\
FFFFFFFFF\n\
FFFFFPFFF\n\
FFFFFFFFF\n\
FFFFFFFFF\n\
FFFFFPFFF\n\
FFFFFFFFF\n\
FFFFFFFFF\n\
FFFFFFFFF\n\
FFFFFFFFF\n\
FFFFFFFFF\n\
FFFFFPFFF\n\
FFFFFFFFF\n\
FFFFFFFFF\n\
FFFFFFFFF\n\
FFFFFFFFF\n\
FFFFFFFFF\n\
FFFFFFFFF\n\
FFFFFFFFF\n\
FFFFFFFFF\n\
FFFFFFFFF\n\
FFFFFFFFF\n\
";

#[test]
fn linked_fields_tampered_together() {
    quiet();
    let st = setup();
    let r = Integer::from(0xabcdef_u64).pow(9);
    let (lo, hi) = (int(10), int(20));
    let p = prove(&st, 20, &r, &lo, &hi);
    let json = serde_json::to_value(&p).unwrap();
    let pt = "proof_of_tolerance";
    let mut table = String::new();
    for side in ["a", "b"] {
        for delta in [st.n.clone(), -st.n.clone(), Integer::from(2) * &st.n] {
            // the commitment of the square and the copy inside the proof of square: the link holds, the residue is not canonical
            let mut j = json.clone();
            let e1 = format!("{pt}/E_{side}_1");
            let pe = format!("{pt}/proof_of_square_{side}/E");
            let v = get(&json, &e1) + &delta;
            set(&mut j, &e1, &v);
            set(&mut j, &pe, &v);
            table.push(verdict(&rebuilt(&j), &st.g, &st.h, &st.n, &lo, &hi));
            // only the outer copy: the link check itself
            let mut j = json.clone();
            set(&mut j, &e1, &v);
            table.push(verdict(&rebuilt(&j), &st.g, &st.h, &st.n, &lo, &hi));
            // F of the proof of square
            let mut j = json.clone();
            let pf = format!("{pt}/proof_of_square_{side}/F");
            let v = get(&json, &pf) + &delta;
            set(&mut j, &pf, &v);
            table.push(verdict(&rebuilt(&j), &st.g, &st.h, &st.n, &lo, &hi));
            // the second commitment
            let mut j = json.clone();
            let e2 = format!("{pt}/E_{side}_2");
            let v = get(&json, &e2) + &delta;
            set(&mut j, &e2, &v);
            table.push(verdict(&rebuilt(&j), &st.g, &st.h, &st.n, &lo, &hi));
        }
        // C of the interval proof: same low 128 bits, another value; a negative one with the same low bits
        for k in [128u32, 129, 255, 256, 300] {
            let mut j = json.clone();
            let pc = format!("{pt}/proof_large_i_{side}/C");
            let v = get(&json, &pc) + (Integer::from(1) << k);
            set(&mut j, &pc, &v);
            table.push(verdict(&rebuilt(&j), &st.g, &st.h, &st.n, &lo, &hi));
            let v = get(&json, &pc) - (Integer::from(1) << k);
            set(&mut j, &pc, &v);
            table.push(verdict(&rebuilt(&j), &st.g, &st.h, &st.n, &lo, &hi));
        }
        // challenge of the proof of same secret beyond the digest size
        for k in [256u32, 257, 512] {
            let mut j = json.clone();
            let pc = format!("{pt}/proof_of_square_{side}/proof_ss/challenge");
            let v = get(&json, &pc) + (Integer::from(1) << k);
            set(&mut j, &pc, &v);
            table.push(verdict(&rebuilt(&j), &st.g, &st.h, &st.n, &lo, &hi));
        }
        table.push('\n');
    }
    // E and E_prime moved together by a multiple of the modulus
    for delta in [st.n.clone(), -st.n.clone()] {
        let mut q = p.clone();
        q.E += &delta;
        table.push(verdict(&q, &st.g, &st.h, &st.n, &lo, &hi));
        q.E_prime += &delta;
        table.push(verdict(&q, &st.g, &st.h, &st.n, &lo, &hi));
        let mut q = p.clone();
        q.E_prime += &delta;
        table.push(verdict(&q, &st.g, &st.h, &st.n, &lo, &hi));
    }
    // the two sides swapped
    let mut j = json.clone();
    for (x, y) in [
        ("E_a_1", "E_b_1"),
        ("E_a_2", "E_b_2"),
    ] {
        let (vx, vy) = (get(&json, &format!("{pt}/{x}")), get(&json, &format!("{pt}/{y}")));
        set(&mut j, &format!("{pt}/{x}"), &vy);
        set(&mut j, &format!("{pt}/{y}"), &vx);
    }
    table.push(verdict(&rebuilt(&j), &st.g, &st.h, &st.n, &lo, &hi));
    let (sa, sb) = (j[pt]["proof_of_square_a"].clone(), j[pt]["proof_of_square_b"].clone());
    j[pt]["proof_of_square_a"] = sb;
    j[pt]["proof_of_square_b"] = sa;
    table.push(verdict(&rebuilt(&j), &st.g, &st.h, &st.n, &lo, &hi));
    let (la, lb) = (j[pt]["proof_large_i_a"].clone(), j[pt]["proof_large_i_b"].clone());
    j[pt]["proof_large_i_a"] = lb;
    j[pt]["proof_large_i_b"] = la;
    table.push(verdict(&rebuilt(&j), &st.g, &st.h, &st.n, &lo, &hi));
    table.push('\n');
    assert_eq!(table, EXPECTED_LINKED, "\n{table}");
}

const EXPECTED_LINKED: &str = "\
FFFFFFFFFFFFFFFFFFFFFFFFF\n\
FFFFFFFFFFFFFFFFFFFFFFFFF\n\
FFFFFFFFF\n\
";

#[test]
fn malformed_encodings_do_not_decode() {
    let st = setup();
    let p = prove(&st, 3, &int(99), &int(0), &int(7));
    let json = serde_json::to_value(&p).unwrap();
    for f in ["E", "E_prime", "proof_of_tolerance"] {
        let mut j = json.clone();
        j.as_object_mut().unwrap().remove(f);
        assert!(serde_json::from_value::<Boudot2000RangeProof>(j).is_err(), "{f} missing");
    }
    for f in ["E_a_1", "proof_of_square_a", "proof_large_i_b"] {
        let mut j = json.clone();
        j["proof_of_tolerance"].as_object_mut().unwrap().remove(f);
        assert!(serde_json::from_value::<Boudot2000RangeProof>(j).is_err(), "{f} missing");
    }
    let mut j = json.clone();
    j["proof_of_tolerance"]["proof_large_i_a"]["C"] = Value::Null;
    assert!(serde_json::from_value::<Boudot2000RangeProof>(j).is_err());
    let mut j = json.clone();
    j["proof_of_tolerance"]["proof_of_square_b"]["proof_ss"] = Value::Array(vec![]);
    assert!(serde_json::from_value::<Boudot2000RangeProof>(j).is_err());
}
