#![cfg(feature = "cl03")]
#![allow(non_snake_case)]
// Behavioural pins for the CL03 proof verifiers (PoKSignature::proof_verify, ZKPoK::verify_proof and the sigma protocols they drive).
// Public API only. Keys and proofs are randomised, the asserted outcomes (accept / refuse / panic) are not.

use rug::Integer;
use serde_json::Value;
use std::panic::{catch_unwind, AssertUnwindSafe};
use std::sync::OnceLock;
use zkryptium::cl03::bases::Bases;
use zkryptium::cl03::ciphersuites::CL1024Sha256;
use zkryptium::cl03::keys::{CL03CommitmentPublicKey, CL03PublicKey};
use zkryptium::keys::pair::KeyPair;
use zkryptium::schemes::algorithms::CL03;
use zkryptium::schemes::generics::{Commitment, PoKSignature, Signature, ZKPoK};
use zkryptium::utils::message::cl03_message::CL03Message;

type CS = CL1024Sha256;
type S = CL03<CS>;

const N_ATTR: usize = 4;

#[derive(Debug, Clone, Copy, PartialEq, Eq)]
enum Out {
    Accept,
    Refuse,
    Panic,
}
use Out::*;

fn outcome<F: FnOnce() -> bool>(f: F) -> Out {
    match catch_unwind(AssertUnwindSafe(f)) {
        Ok(true) => Accept,
        Ok(false) => Refuse,
        Err(_) => Panic,
    }
}

struct Fixture {
    pk: CL03PublicKey,
    a_bases: Bases,
    messages: Vec<CL03Message>,
    signature: Signature<S>,
    // verifier's commitment key (same modulus as the issuer) for the signature proof
    cpk: CL03CommitmentPublicKey,
    // trusted party's commitment key (own modulus) for the proof of committed attributes
    tpk: CL03CommitmentPublicKey,
}

fn fixture() -> &'static Fixture {
    static FIX: OnceLock<Fixture> = OnceLock::new();
    FIX.get_or_init(|| {
        let kp = KeyPair::<S>::generate();
        let pk = kp.public_key().clone();
        let a_bases = Bases::generate(&pk, N_ATTR);
        let messages: Vec<CL03Message> = (0..N_ATTR)
            .map(|i| CL03Message::map_message_to_integer_as_hash::<CS>(&[i as u8, 0x5a, 0xc3]))
            .collect();
        let signature = Signature::<S>::sign_multiattr(&pk, kp.private_key(), &a_bases, &messages);
        assert!(signature.verify_multiattr(&pk, &a_bases, &messages));
        let cpk = CL03CommitmentPublicKey::generate::<CS>(Some(pk.N.clone()), Some(N_ATTR));
        let tpk = CL03CommitmentPublicKey::generate::<CS>(None, Some(N_ATTR));
        Fixture { pk, a_bases, messages, signature, cpk, tpk }
    })
}

fn revealed(messages: &[CL03Message], hidden: &[usize]) -> Vec<CL03Message> {
    messages
        .iter()
        .enumerate()
        .filter(|(i, _)| !hidden.contains(i))
        .map(|(_, m)| m.clone())
        .collect()
}

// ---------- JSON surgery on serialised proofs ----------

fn edit<T: serde::Serialize + serde::de::DeserializeOwned>(proof: &T, f: impl FnOnce(&mut Value)) -> T {
    let mut v = serde_json::to_value(proof).unwrap();
    f(&mut v);
    serde_json::from_value(v).unwrap()
}

fn at<'a>(v: &'a mut Value, path: &str) -> &'a mut Value {
    v.pointer_mut(path).unwrap_or_else(|| panic!("no {path} in the serialised proof"))
}

fn int_json(i: &Integer) -> Value {
    serde_json::to_value(i).unwrap()
}

fn int_of(v: &Value) -> Integer {
    serde_json::from_value(v.clone()).unwrap()
}

fn truncate(v: &mut Value, path: &str) {
    at(v, path).as_array_mut().unwrap().pop().expect("nothing to drop");
}

fn duplicate_last(v: &mut Value, path: &str) {
    let a = at(v, path).as_array_mut().unwrap();
    let last = a.last().expect("nothing to duplicate").clone();
    a.push(last);
}

fn add_to(v: &mut Value, path: &str, delta: &Integer) {
    let slot = at(v, path);
    let n = int_of(slot) + delta;
    *slot = int_json(&n);
}

fn set_int(v: &mut Value, path: &str, n: &Integer) {
    *at(v, path) = int_json(n);
}

// ---------- signature proof of knowledge ----------

fn spok_gen(f: &Fixture, hidden: &[usize]) -> PoKSignature<S> {
    PoKSignature::<S>::proof_gen(f.signature.cl03Signature(), &f.cpk, &f.pk, &f.a_bases, &f.messages, hidden)
}

fn spok_verify(f: &Fixture, p: &PoKSignature<S>, shown: &[CL03Message], hidden: &[usize], n: usize) -> Out {
    outcome(|| p.proof_verify(&f.cpk, &f.pk, &f.a_bases, shown, hidden, n))
}


#[test]
fn spok_honest_proofs_of_every_shape_are_accepted() {
    let f = fixture();
    let shapes: [&[usize]; 6] = [&[], &[0], &[N_ATTR - 1], &[1, 2], &[0, 3], &[0, 1, 2, 3]];
    for hidden in shapes {
        let p = spok_gen(f, hidden);
        let shown = revealed(&f.messages, hidden);
        assert_eq!(spok_verify(f, &p, &shown, hidden, N_ATTR), Accept, "hidden {hidden:?}");
        // the proof survives a serde round trip unchanged
        let q: PoKSignature<S> = edit(&p, |_| {});
        assert_eq!(q, p);
        assert_eq!(spok_verify(f, &q, &shown, hidden, N_ATTR), Accept, "hidden {hidden:?} (decoded)");
    }
}

#[test]
fn spok_statement_shape_and_wrong_statements() {
    let f = fixture();
    let hidden = [1usize, 2];
    let p = spok_gen(f, &hidden);
    let shown = revealed(&f.messages, &hidden);
    assert_eq!(spok_verify(f, &p, &shown, &hidden, N_ATTR), Accept);

    // a revealed attribute that was not signed
    let mut wrong = shown.clone();
    wrong[0] = CL03Message::new(wrong[0].value.clone() + 1u32);
    assert_eq!(spok_verify(f, &p, &wrong, &hidden, N_ATTR), Refuse);
    // revealed attributes in the wrong order
    let swapped = vec![shown[1].clone(), shown[0].clone()];
    assert_eq!(spok_verify(f, &p, &swapped, &hidden, N_ATTR), Refuse);
    // revealed attribute out of range (negative, 2^lm)
    let mut neg = shown.clone();
    neg[1] = CL03Message::new(Integer::from(-1));
    assert_eq!(spok_verify(f, &p, &neg, &hidden, N_ATTR), Refuse);
    let mut big = shown.clone();
    big[1] = CL03Message::new(Integer::from(1) << 256u32);
    assert_eq!(spok_verify(f, &p, &big, &hidden, N_ATTR), Refuse);
    // too few / too many revealed attributes
    assert_eq!(spok_verify(f, &p, &shown[..1], &hidden, N_ATTR), Refuse);
    assert_eq!(spok_verify(f, &p, &[], &hidden, N_ATTR), Refuse);
    let mut more = shown.clone();
    more.push(shown[0].clone());
    assert_eq!(spok_verify(f, &p, &more, &hidden, N_ATTR), Refuse);
    // all the attributes although two are hidden
    assert_eq!(spok_verify(f, &p, &f.messages, &hidden, N_ATTR), Refuse);

    // hidden positions: unsorted, repeated, out of range, other positions, fewer, more, none
    assert_eq!(spok_verify(f, &p, &shown, &[2, 1], N_ATTR), Refuse);
    assert_eq!(spok_verify(f, &p, &shown, &[1, 1], N_ATTR), Refuse);
    assert_eq!(spok_verify(f, &p, &shown, &[1, N_ATTR], N_ATTR), Refuse);
    assert_eq!(spok_verify(f, &p, &shown, &[1, usize::MAX], N_ATTR), Refuse);
    assert_eq!(spok_verify(f, &p, &shown, &[0, 3], N_ATTR), Refuse);
    assert_eq!(spok_verify(f, &p, &shown, &[1], N_ATTR), Refuse);
    assert_eq!(spok_verify(f, &p, &shown, &[0, 1, 2], N_ATTR), Refuse);
    assert_eq!(spok_verify(f, &p, &shown, &[], N_ATTR), Refuse);
    assert_eq!(spok_verify(f, &p, &f.messages, &[], N_ATTR), Refuse);

    // number of signed attributes: smaller, larger (not enough bases of either kind: HEAD panics), zero
    assert_eq!(spok_verify(f, &p, &shown, &hidden, N_ATTR - 1), Refuse);
    assert_eq!(spok_verify(f, &p, &shown, &hidden, N_ATTR + 1), Panic);
    assert_eq!(spok_verify(f, &p, &shown, &hidden, 0), Refuse);
    assert_eq!(spok_verify(f, &p, &[], &[], 0), Refuse);

    // a proof for one shape against the statement of another
    let p0 = spok_gen(f, &[0]);
    assert_eq!(spok_verify(f, &p0, &revealed(&f.messages, &[3]), &[3], N_ATTR), Refuse);
    assert_eq!(spok_verify(f, &p0, &shown, &hidden, N_ATTR), Refuse);
}

#[test]
fn spok_short_keys() {
    let f = fixture();
    let hidden = [1usize, 3];
    let p = spok_gen(f, &hidden);
    let shown = revealed(&f.messages, &hidden);

    // a_bases too short, g_bases long enough: the guard does not fire, indexing does
    let short_a = Bases(f.a_bases.0[..3].to_vec());
    assert_eq!(outcome(|| p.proof_verify(&f.cpk, &f.pk, &short_a, &shown, &hidden, N_ATTR)), Panic);
    // ... but a malformed statement is refused before any base is touched
    assert_eq!(outcome(|| p.proof_verify(&f.cpk, &f.pk, &short_a, &shown, &[3, 1], N_ATTR)), Refuse);
    assert_eq!(outcome(|| p.proof_verify(&f.cpk, &f.pk, &Bases(vec![]), &shown, &[3, 1], N_ATTR)), Refuse);
    assert_eq!(outcome(|| p.proof_verify(&f.cpk, &f.pk, &Bases(vec![]), &shown, &hidden, N_ATTR)), Panic);

    // g_bases too short, a_bases long enough
    let mut short_g = f.cpk.clone();
    short_g.g_bases.truncate(3);
    assert_eq!(outcome(|| p.proof_verify(&short_g, &f.pk, &f.a_bases, &shown, &hidden, N_ATTR)), Panic);
    assert_eq!(outcome(|| p.proof_verify(&short_g, &f.pk, &f.a_bases, &shown, &[1, 1], N_ATTR)), Refuse);
    short_g.g_bases.clear();
    assert_eq!(outcome(|| p.proof_verify(&short_g, &f.pk, &f.a_bases, &shown, &hidden, N_ATTR)), Panic);
    // both too short: the guard fires whatever the statement
    assert_eq!(outcome(|| p.proof_verify(&short_g, &f.pk, &short_a, &shown, &[3, 1], N_ATTR)), Panic);

    // a different commitment key / issuer key
    let other = CL03CommitmentPublicKey::generate::<CS>(Some(f.pk.N.clone()), Some(N_ATTR));
    assert_eq!(outcome(|| p.proof_verify(&other, &f.pk, &f.a_bases, &shown, &hidden, N_ATTR)), Refuse);
    let mut pk2 = f.pk.clone();
    pk2.c += 1u32;
    assert_eq!(outcome(|| p.proof_verify(&f.cpk, &pk2, &f.a_bases, &shown, &hidden, N_ATTR)), Refuse);
}

#[test]
fn spok_decoded_malformed_proofs() {
    let f = fixture();
    let hidden = [0usize, 3];
    let p = spok_gen(f, &hidden);
    let shown = revealed(&f.messages, &hidden);
    let check = |q: &PoKSignature<S>| spok_verify(f, q, &shown, &hidden, N_ATTR);
    assert_eq!(check(&p), Accept);
    let one = Integer::from(1);
    let n = f.pk.N.clone();

    // lists of the wrong length
    for path in ["/CL03/spok/s_5", "/CL03/proofs_commited_mi", "/CL03/range_proofs_commited_mi"] {
        assert_eq!(check(&edit(&p, |v| truncate(v, path))), Refuse, "{path} shortened");
        assert_eq!(check(&edit(&p, |v| duplicate_last(v, path))), Refuse, "{path} lengthened");
        assert_eq!(check(&edit(&p, |v| at(v, path).as_array_mut().unwrap().clear())), Refuse, "{path} emptied");
        assert_eq!(check(&edit(&p, |v| at(v, path).as_array_mut().unwrap().reverse())), Refuse, "{path} reversed");
    }
    // both per-attribute lists shortened together, and with the statement shortened as well
    let both = edit(&p, |v| {
        truncate(v, "/CL03/proofs_commited_mi");
        truncate(v, "/CL03/range_proofs_commited_mi");
    });
    assert_eq!(check(&both), Refuse);
    assert_eq!(spok_verify(f, &both, &shown, &[0], N_ATTR), Refuse);
    let both = edit(&p, |v| {
        duplicate_last(v, "/CL03/proofs_commited_mi");
        duplicate_last(v, "/CL03/range_proofs_commited_mi");
    });
    assert_eq!(check(&both), Refuse);

    // responses and challenge off by one
    for path in [
        "/CL03/spok/challenge",
        "/CL03/spok/s_1",
        "/CL03/spok/s_4",
        "/CL03/spok/s_5/0",
        "/CL03/spok/s_5/1",
        "/CL03/spok/s_9",
        "/CL03/proofs_commited_mi/0/value/s1",
        "/CL03/proofs_commited_mi/1/value/s2",
        "/CL03/proofs_commited_mi/1/value/t",
    ] {
        assert_eq!(check(&edit(&p, |v| add_to(v, path, &one))), Refuse, "{path} + 1");
    }

    // commitments: another value, the same residue with another representative, a negative representative
    for path in ["/CL03/spok/Cx/value", "/CL03/spok/Cv/value", "/CL03/spok/Cw/value", "/CL03/spok/Ce/value"] {
        assert_eq!(check(&edit(&p, |v| add_to(v, path, &one))), Refuse, "{path} + 1");
        assert_eq!(check(&edit(&p, |v| add_to(v, path, &n))), Refuse, "{path} + N");
        assert_eq!(check(&edit(&p, |v| add_to(v, path, &(-n.clone())))), Refuse, "{path} - N");
        assert_eq!(check(&edit(&p, |v| set_int(v, path, &n))), Refuse, "{path} = N");
    }
    // the randomness carried along with a commitment is not looked at
    assert_eq!(check(&edit(&p, |v| add_to(v, "/CL03/spok/Cx/randomness", &one))), Accept);
    assert_eq!(check(&edit(&p, |v| add_to(v, "/CL03/proofs_commited_mi/0/commitment/randomness", &one))), Accept);

    // the range proofs are tied to the commitments of the proofs of knowledge
    assert_eq!(check(&edit(&p, |v| add_to(v, "/CL03/range_proof_e/E", &one))), Refuse);
    assert_eq!(check(&edit(&p, |v| add_to(v, "/CL03/range_proof_e/E", &n))), Refuse);
    assert_eq!(check(&edit(&p, |v| add_to(v, "/CL03/range_proofs_commited_mi/1/E", &one))), Refuse);
    assert_eq!(check(&edit(&p, |v| add_to(v, "/CL03/proofs_commited_mi/1/commitment/value", &one))), Refuse);
    let moved = edit(&p, |v| {
        add_to(v, "/CL03/range_proofs_commited_mi/0/E", &n);
        add_to(v, "/CL03/proofs_commited_mi/0/commitment/value", &n);
    });
    assert_eq!(check(&moved), Refuse);
    let moved = edit(&p, |v| {
        add_to(v, "/CL03/range_proof_e/E", &n);
        add_to(v, "/CL03/spok/Ce/value", &n);
    });
    assert_eq!(check(&moved), Refuse);

    // parts of another proof for the same statement
    let p2 = spok_gen(f, &hidden);
    let v2 = serde_json::to_value(&p2).unwrap();
    for path in ["/CL03/spok", "/CL03/range_proof_e", "/CL03/proofs_commited_mi", "/CL03/range_proofs_commited_mi/1"] {
        let part = v2.pointer(path).unwrap().clone();
        assert_eq!(check(&edit(&p, |v| *at(v, path) = part)), Refuse, "{path} from another proof");
    }
    // both per-attribute parts of one attribute from another proof: still a valid proof
    let mixed = edit(&p, |v| {
        for path in ["/CL03/proofs_commited_mi/1", "/CL03/range_proofs_commited_mi/1"] {
            *at(v, path) = v2.pointer(path).unwrap().clone();
        }
    });
    assert_eq!(check(&mixed), Accept);

    // a proof of the other scheme inside the CL03 type cannot be decoded; an unknown variant neither
    assert!(serde_json::from_str::<PoKSignature<S>>(r#"{"_Unreachable":null}"#).is_err());
    assert!(serde_json::from_str::<PoKSignature<S>>(r#"{"CL03":{}}"#).is_err());
}

// ---------- proof of knowledge of committed attributes ----------

struct Zk {
    hidden: Vec<usize>,
    C: Commitment<S>,
    T: Commitment<S>,
    plain: ZKPoK<S>,
    trusted: ZKPoK<S>,
}

fn zk_gen(f: &Fixture, hidden: &[usize]) -> Zk {
    let C = Commitment::<S>::commit_with_pk(&f.messages, &f.pk, &f.a_bases, Some(hidden));
    let T = Commitment::<S>::commit_with_commitment_pk(&f.messages, &f.tpk, Some(hidden));
    let plain = ZKPoK::<S>::generate_proof(&f.messages, C.cl03Commitment(), None, &f.pk, &f.a_bases, None, hidden);
    let trusted = ZKPoK::<S>::generate_proof(
        &f.messages,
        C.cl03Commitment(),
        Some(T.cl03Commitment()),
        &f.pk,
        &f.a_bases,
        Some(&f.tpk),
        hidden,
    );
    Zk { hidden: hidden.to_vec(), C, T, plain, trusted }
}

fn zk_plain(f: &Fixture, z: &Zk, p: &ZKPoK<S>, hidden: &[usize]) -> Out {
    outcome(|| p.verify_proof(z.C.cl03Commitment(), None, &f.pk, &f.a_bases, None, hidden))
}

fn zk_trusted(f: &Fixture, z: &Zk, p: &ZKPoK<S>, hidden: &[usize]) -> Out {
    outcome(|| p.verify_proof(z.C.cl03Commitment(), Some(z.T.cl03Commitment()), &f.pk, &f.a_bases, Some(&f.tpk), hidden))
}

#[test]
fn zkpok_honest_proofs_of_every_shape_are_accepted() {
    let f = fixture();
    let shapes: [&[usize]; 6] = [&[], &[0], &[N_ATTR - 1], &[1, 2], &[3, 0], &[0, 1, 2, 3]];
    for hidden in shapes {
        let z = zk_gen(f, hidden);
        assert_eq!(zk_plain(f, &z, &z.plain, hidden), Accept, "hidden {hidden:?}");
        assert_eq!(zk_trusted(f, &z, &z.trusted, hidden), Accept, "hidden {hidden:?} with a trusted commitment");
        let q: ZKPoK<S> = edit(&z.trusted, |_| {});
        assert_eq!(q, z.trusted);
        assert_eq!(zk_trusted(f, &z, &q, hidden), Accept, "hidden {hidden:?} (decoded)");
    }
}

#[test]
fn zkpok_presence_of_the_trusted_part() {
    let f = fixture();
    let z = zk_gen(f, &[1, 3]);
    let h = &z.hidden[..];
    let (C, T) = (z.C.cl03Commitment(), z.T.cl03Commitment());
    let v = |p: &ZKPoK<S>, t: Option<_>, k: Option<_>| outcome(|| p.verify_proof(C, t, &f.pk, &f.a_bases, k, h));

    assert_eq!(v(&z.plain, None, None), Accept);
    assert_eq!(v(&z.plain, Some(T), None), Refuse);
    assert_eq!(v(&z.plain, None, Some(&f.tpk)), Refuse);
    assert_eq!(v(&z.plain, Some(T), Some(&f.tpk)), Refuse);
    assert_eq!(v(&z.trusted, Some(T), Some(&f.tpk)), Accept);
    assert_eq!(v(&z.trusted, None, None), Refuse);
    assert_eq!(v(&z.trusted, Some(T), None), Refuse);
    assert_eq!(v(&z.trusted, None, Some(&f.tpk)), Refuse);

    // the part removed from / grafted onto a decoded proof
    let stripped = edit(&z.trusted, |v| *at(v, "/CL03/proof_C_Ctrusted") = Value::Null);
    assert_eq!(v(&stripped, None, None), Accept);
    assert_eq!(v(&stripped, Some(T), Some(&f.tpk)), Refuse);
    let part = serde_json::to_value(&z.trusted).unwrap().pointer("/CL03/proof_C_Ctrusted").unwrap().clone();
    let grafted = edit(&z.plain, |v| *at(v, "/CL03/proof_C_Ctrusted") = part);
    assert_eq!(v(&grafted, None, None), Refuse);
    assert_eq!(v(&grafted, Some(T), Some(&f.tpk)), Accept);

    // another trusted commitment, another commitment, another key
    let T2 = Commitment::<S>::commit_with_commitment_pk(&f.messages, &f.tpk, Some(h));
    assert_eq!(v(&z.trusted, Some(T2.cl03Commitment()), Some(&f.tpk)), Refuse);
    let mut wrong = f.messages.clone();
    wrong[1] = CL03Message::new(wrong[1].value.clone() + 1u32);
    let T3 = Commitment::<S>::commit_with_commitment_pk(&wrong, &f.tpk, Some(h));
    assert_eq!(v(&z.trusted, Some(T3.cl03Commitment()), Some(&f.tpk)), Refuse);
    let C2 = Commitment::<S>::commit_with_pk(&wrong, &f.pk, &f.a_bases, Some(h));
    assert_eq!(outcome(|| z.plain.verify_proof(C2.cl03Commitment(), None, &f.pk, &f.a_bases, None, h)), Refuse);
    assert_eq!(v(&z.trusted, Some(T), Some(&f.cpk)), Refuse);
    // a commitment key with too few bases for the hidden position 3
    let mut short3 = f.tpk.clone();
    short3.g_bases.truncate(3);
    let mut short1 = f.tpk.clone();
    short1.g_bases.truncate(1);
    assert_eq!(v(&z.trusted, Some(T), Some(&short3)), Panic);
    assert_eq!(v(&z.trusted, Some(T), Some(&short1)), Panic);
}

#[test]
fn zkpok_statement_shape() {
    let f = fixture();
    let z = zk_gen(f, &[1, 3]);
    // fewer / more / no hidden positions than the proof has parts: refused before anything is computed
    assert_eq!(zk_plain(f, &z, &z.plain, &[1]), Refuse);
    assert_eq!(zk_plain(f, &z, &z.plain, &[1, 2, 3]), Refuse);
    assert_eq!(zk_plain(f, &z, &z.plain, &[]), Refuse);
    assert_eq!(zk_plain(f, &z, &z.plain, &[1, 3, 99]), Refuse);
    assert_eq!(zk_trusted(f, &z, &z.trusted, &[3]), Refuse);
    // the same number of positions: other ones, swapped, repeated
    assert_eq!(zk_plain(f, &z, &z.plain, &[0, 3]), Refuse);
    assert_eq!(zk_plain(f, &z, &z.plain, &[3, 1]), Refuse);
    assert_eq!(zk_plain(f, &z, &z.plain, &[1, 1]), Refuse);
    assert_eq!(zk_trusted(f, &z, &z.trusted, &[3, 1]), Refuse);
    // a position without a base
    assert_eq!(zk_plain(f, &z, &z.plain, &[1, N_ATTR]), Panic);
    assert_eq!(zk_plain(f, &z, &z.plain, &[usize::MAX, 3]), Panic);
    assert_eq!(zk_trusted(f, &z, &z.trusted, &[1, N_ATTR]), Panic);
    // too few bases
    let short = Bases(f.a_bases.0[..3].to_vec());
    let C = z.C.cl03Commitment();
    assert_eq!(outcome(|| z.plain.verify_proof(C, None, &f.pk, &short, None, &z.hidden)), Panic);
    assert_eq!(outcome(|| z.plain.verify_proof(C, None, &f.pk, &short, None, &[1])), Refuse);
    assert_eq!(outcome(|| z.plain.verify_proof(C, None, &f.pk, &Bases(vec![]), None, &z.hidden)), Panic);
    // no hidden attribute and no base at all: the proof about the randomness still needs the first base
    let z0 = zk_gen(f, &[]);
    let C0 = z0.C.cl03Commitment();
    assert_eq!(outcome(|| z0.plain.verify_proof(C0, None, &f.pk, &Bases(vec![]), None, &[])), Panic);
    assert_eq!(outcome(|| z0.plain.verify_proof(C0, None, &f.pk, &Bases(f.a_bases.0[..1].to_vec()), None, &[])), Accept);
    // another issuer key
    let mut pk2 = f.pk.clone();
    pk2.b += 1u32;
    assert_eq!(outcome(|| z.plain.verify_proof(C, None, &pk2, &f.a_bases, None, &z.hidden)), Refuse);
}

#[test]
fn zkpok_single_attribute_prover_quirk() {
    // with a single attribute the prover of the multi-secret proof always treats position 0 as hidden,
    // the verifier does not: the lengths disagree and HEAD panics
    let f = fixture();
    let one = &f.messages[..1];
    let C = Commitment::<S>::commit_with_pk(one, &f.pk, &f.a_bases, Some(&[]));
    let p = ZKPoK::<S>::generate_proof(one, C.cl03Commitment(), None, &f.pk, &f.a_bases, None, &[]);
    assert_eq!(outcome(|| p.verify_proof(C.cl03Commitment(), None, &f.pk, &f.a_bases, None, &[])), Panic);
    assert_eq!(outcome(|| p.verify_proof(C.cl03Commitment(), None, &f.pk, &f.a_bases, None, &[0])), Refuse);
    let C = Commitment::<S>::commit_with_pk(one, &f.pk, &f.a_bases, Some(&[0]));
    let p = ZKPoK::<S>::generate_proof(one, C.cl03Commitment(), None, &f.pk, &f.a_bases, None, &[0]);
    assert_eq!(outcome(|| p.verify_proof(C.cl03Commitment(), None, &f.pk, &f.a_bases, None, &[0])), Accept);
}

#[test]
fn zkpok_decoded_malformed_proofs() {
    let f = fixture();
    let z = zk_gen(f, &[0, 3]);
    let h = &z.hidden[..];
    let plain = |q: &ZKPoK<S>| zk_plain(f, &z, q, h);
    let trusted = |q: &ZKPoK<S>| zk_trusted(f, &z, q, h);
    assert_eq!(plain(&z.plain), Accept);
    assert_eq!(trusted(&z.trusted), Accept);
    let one = Integer::from(1);
    let n = f.pk.N.clone();

    // per-attribute lists of the wrong length: refused
    for path in ["/CL03/proofs_commited_mi", "/CL03/range_proofs_mi"] {
        assert_eq!(plain(&edit(&z.plain, |v| truncate(v, path))), Refuse, "{path} shortened");
        assert_eq!(plain(&edit(&z.plain, |v| duplicate_last(v, path))), Refuse, "{path} lengthened");
        assert_eq!(plain(&edit(&z.plain, |v| at(v, path).as_array_mut().unwrap().clear())), Refuse, "{path} emptied");
        assert_eq!(plain(&edit(&z.plain, |v| at(v, path).as_array_mut().unwrap().reverse())), Refuse, "{path} reversed");
        assert_eq!(trusted(&edit(&z.trusted, |v| truncate(v, path))), Refuse, "{path} shortened (trusted)");
    }
    let both = edit(&z.plain, |v| {
        truncate(v, "/CL03/proofs_commited_mi");
        truncate(v, "/CL03/range_proofs_mi");
    });
    assert_eq!(plain(&both), Refuse);
    // ... and against the shorter statement the multi-secret proof has one response too many: HEAD panics
    assert_eq!(zk_plain(f, &z, &both, &[0]), Panic);

    // responses of the multi-secret proof: wrong count panics (HEAD), wrong value is refused
    assert_eq!(plain(&edit(&z.plain, |v| truncate(v, "/CL03/proof_commited_msgs/s1"))), Panic);
    assert_eq!(plain(&edit(&z.plain, |v| duplicate_last(v, "/CL03/proof_commited_msgs/s1"))), Panic);
    assert_eq!(plain(&edit(&z.plain, |v| at(v, "/CL03/proof_commited_msgs/s1").as_array_mut().unwrap().reverse())), Refuse);
    // responses of the two-commitment proof: wrong count is refused (checked before the multi-secret proof)
    assert_eq!(trusted(&edit(&z.trusted, |v| truncate(v, "/CL03/proof_C_Ctrusted/d"))), Refuse);
    assert_eq!(trusted(&edit(&z.trusted, |v| duplicate_last(v, "/CL03/proof_C_Ctrusted/d"))), Refuse);
    assert_eq!(trusted(&edit(&z.trusted, |v| at(v, "/CL03/proof_C_Ctrusted/d").as_array_mut().unwrap().reverse())), Refuse);
    let two_bad = edit(&z.trusted, |v| {
        truncate(v, "/CL03/proof_C_Ctrusted/d");
        truncate(v, "/CL03/proof_commited_msgs/s1");
    });
    assert_eq!(trusted(&two_bad), Refuse);

    for path in [
        "/CL03/proof_commited_msgs/t",
        "/CL03/proof_commited_msgs/s1/1",
        "/CL03/proof_commited_msgs/s2",
        "/CL03/proofs_commited_mi/0/value/s1",
        "/CL03/proofs_commited_mi/1/value/t",
        "/CL03/proofs_commited_mi/1/commitment/value",
        "/CL03/range_proofs_mi/0/E",
        "/CL03/proof_r/value/s2",
        "/CL03/proof_r/commitment/value",
        "/CL03/range_proof_r/E",
    ] {
        assert_eq!(plain(&edit(&z.plain, |v| add_to(v, path, &one))), Refuse, "{path} + 1");
    }
    for path in ["/CL03/proof_C_Ctrusted/challenge", "/CL03/proof_C_Ctrusted/d/0", "/CL03/proof_C_Ctrusted/d_1", "/CL03/proof_C_Ctrusted/d_2"] {
        assert_eq!(trusted(&edit(&z.trusted, |v| add_to(v, path, &one))), Refuse, "{path} + 1");
    }
    // another representative of the same residue on both sides of a tie
    let moved = edit(&z.plain, |v| {
        add_to(v, "/CL03/proofs_commited_mi/0/commitment/value", &n);
        add_to(v, "/CL03/range_proofs_mi/0/E", &n);
    });
    assert_eq!(plain(&moved), Refuse);
    let moved = edit(&z.plain, |v| {
        add_to(v, "/CL03/proof_r/commitment/value", &n);
        add_to(v, "/CL03/range_proof_r/E", &n);
    });
    assert_eq!(plain(&moved), Refuse);
    // unused randomness fields
    assert_eq!(plain(&edit(&z.plain, |v| add_to(v, "/CL03/proof_r/commitment/randomness", &one))), Accept);
    assert_eq!(plain(&edit(&z.plain, |v| add_to(v, "/CL03/proofs_commited_mi/1/commitment/randomness", &one))), Accept);

    // parts of another proof about the same commitment
    let z2 = ZKPoK::<S>::generate_proof(&f.messages, z.C.cl03Commitment(), None, &f.pk, &f.a_bases, None, h);
    let v2 = serde_json::to_value(&z2).unwrap();
    for path in ["/CL03/proof_commited_msgs", "/CL03/proof_r", "/CL03/range_proof_r"] {
        let part = v2.pointer(path).unwrap().clone();
        let expect = if path == "/CL03/proof_commited_msgs" { Accept } else { Refuse };
        assert_eq!(plain(&edit(&z.plain, |v| *at(v, path) = part)), expect, "{path} from another proof");
    }
    let mixed = edit(&z.plain, |v| {
        for path in ["/CL03/proof_r", "/CL03/range_proof_r", "/CL03/proofs_commited_mi/0", "/CL03/range_proofs_mi/0"] {
            *at(v, path) = v2.pointer(path).unwrap().clone();
        }
    });
    assert_eq!(plain(&mixed), Accept);
}

// ---------- corners ----------

#[test]
fn other_variants_are_not_cl03_proofs() {
    let f = fixture();
    let p = PoKSignature::<S>::_Unreachable(std::marker::PhantomData);
    assert_eq!(outcome(|| { p.to_cl03_proof(); true }), Panic);
    assert_eq!(spok_verify(f, &p, &f.messages, &[], N_ATTR), Panic);
    let z = ZKPoK::<S>::_Unreachable(std::marker::PhantomData);
    assert_eq!(outcome(|| { z.to_cl03_zkpok(); true }), Panic);
    let C = Commitment::<S>::commit_with_pk(&f.messages, &f.pk, &f.a_bases, Some(&[0]));
    assert_eq!(outcome(|| z.verify_proof(C.cl03Commitment(), None, &f.pk, &f.a_bases, None, &[0])), Panic);
    // the accessors give back what was built
    let p = spok_gen(f, &[2]);
    assert_eq!(PoKSignature::<S>::CL03(p.to_cl03_proof().clone()), p);
    let zk = zk_gen(f, &[2]);
    assert_eq!(ZKPoK::<S>::CL03(zk.plain.to_cl03_zkpok().clone()), zk.plain);
}

#[test]
fn spok_no_attribute_at_all() {
    // a statement about zero signed attributes passes the shape checks and is decided by the equations
    let f = fixture();
    let p = PoKSignature::<S>::proof_gen(f.signature.cl03Signature(), &f.cpk, &f.pk, &f.a_bases, &[], &[]);
    assert_eq!(spok_verify(f, &p, &[], &[], 0), Refuse);
    assert_eq!(spok_verify(f, &p, &[], &[], 1), Refuse);
    assert_eq!(spok_verify(f, &p, &f.messages[..1], &[], 1), Refuse);
    // without any base of either kind the guard does not fire for zero attributes, the first commitment base is still needed
    let mut no_g = f.cpk.clone();
    no_g.g_bases.clear();
    assert_eq!(outcome(|| p.proof_verify(&no_g, &f.pk, &Bases(vec![]), &[], &[], 0)), Panic);
    assert_eq!(outcome(|| p.proof_verify(&f.cpk, &f.pk, &Bases(vec![]), &[], &[], 0)), Refuse);
}
