#![cfg(feature = "cl03")]
#![allow(non_snake_case)]
//! Behavioural pin-down of `src/cl03/range_proof.rs` (Boudot 2000 range proof) through the public API only.
//! Everything is checked on outcomes that do not depend on the prover's randomness.

use rug::{ops::Pow, Complete, Integer};
use serde_json::Value;
use sha2::{Sha256, Sha512};
use sha3::Sha3_256;
use std::panic::{catch_unwind, AssertUnwindSafe};
use zkryptium::cl03::{commitment::CL03Commitment, range_proof::Boudot2000RangeProof};

// security parameters of the implementation (private consts there; they fix T and the interval bounds)
const T_SEC: u32 = 128;
const L_SEC: u32 = 40;

struct Setup {
    n: Integer,
    g: Integer,
    h: Integer,
}

/// A deterministic 510-bit RSA-like modulus with two quadratic residues as bases.
fn setup() -> Setup {
    let p = ((Integer::from(1) << 255u32) + Integer::from(12345)).next_prime();
    let q = ((Integer::from(1) << 254u32) + Integer::from(987654321)).next_prime();
    let n = p * q;
    let g = Integer::from(0x1234_5678_9abc_def1u64).pow(6u32) % &n;
    let g = g.clone() * &g % &n;
    let h = Integer::from(0x0fed_cba9_8765_4321u64).pow(7u32) % &n;
    let h = h.clone() * &h % &n;
    Setup { n, g, h }
}

/// A second, unrelated modulus (for "wrong modulus" checks).
fn other_modulus() -> Integer {
    let p = ((Integer::from(1) << 255u32) + Integer::from(777)).next_prime();
    let q = ((Integer::from(1) << 254u32) + Integer::from(4242)).next_prime();
    p * q
}

fn commit(s: &Setup, x: &Integer, r: &Integer) -> CL03Commitment {
    let value = Integer::from(s.g.pow_mod_ref(x, &s.n).unwrap())
        * Integer::from(s.h.pow_mod_ref(r, &s.n).unwrap())
        % &s.n;
    CL03Commitment {
        value,
        randomness: r.clone(),
    }
}

fn fixed_r() -> Integer {
    Integer::from(0xdead_beef_cafe_f00du64).pow(8u32) + Integer::from(77)
}

fn int(v: i64) -> Integer {
    Integer::from(v)
}

fn big_T(a: &Integer, b: &Integer) -> u32 {
    2 * (T_SEC + L_SEC + 1) + (b - a).complete().significant_bits()
}

/// Runs `f`, mapping the result to "T" / "F" and a panic to "P".
fn outcome<F: FnOnce() -> bool>(f: F) -> &'static str {
    match catch_unwind(AssertUnwindSafe(f)) {
        Ok(true) => "T",
        Ok(false) => "F",
        Err(_) => "P",
    }
}

fn silence_panics() {
    std::panic::set_hook(Box::new(|_| {}));
}

fn unsilence_panics() {
    let _ = std::panic::take_hook();
}

// ---------------------------------------------------------------------------------------------
// JSON helpers: the proof's fields are private, so tampering goes through its serde representation
// ---------------------------------------------------------------------------------------------

fn is_int_leaf(v: &Value) -> bool {
    v.as_object()
        .map(|o| o.len() == 2 && o.contains_key("radix") && o.contains_key("value"))
        .unwrap_or(false)
}

fn leaf_paths(v: &Value, prefix: &str, out: &mut Vec<String>) {
    if is_int_leaf(v) {
        out.push(prefix.to_string());
        return;
    }
    for (k, child) in v.as_object().expect("object") {
        let p = if prefix.is_empty() {
            k.clone()
        } else {
            format!("{prefix}.{k}")
        };
        leaf_paths(child, &p, out);
    }
}

fn get_path<'a>(v: &'a Value, path: &str) -> &'a Value {
    path.split('.').fold(v, |acc, k| &acc[k])
}

fn get_path_mut<'a>(v: &'a mut Value, path: &str) -> &'a mut Value {
    path.split('.').fold(v, |acc, k| &mut acc[k])
}

fn get_int(v: &Value, path: &str) -> Integer {
    serde_json::from_value(get_path(v, path).clone()).unwrap()
}

fn set_int(v: &mut Value, path: &str, i: &Integer) {
    *get_path_mut(v, path) = serde_json::to_value(i).unwrap();
}

fn swap_paths(v: &mut Value, p1: &str, p2: &str) {
    let a = get_path(v, p1).clone();
    let b = get_path(v, p2).clone();
    *get_path_mut(v, p1) = b;
    *get_path_mut(v, p2) = a;
}

fn to_proof(v: &Value) -> Boudot2000RangeProof {
    serde_json::from_value(v.clone()).unwrap()
}

const LEAVES: [&str; 27] = [
    "proof_of_tolerance.E_a_1",
    "proof_of_tolerance.E_a_2",
    "proof_of_tolerance.E_b_1",
    "proof_of_tolerance.E_b_2",
    "proof_of_tolerance.proof_of_square_a.E",
    "proof_of_tolerance.proof_of_square_a.F",
    "proof_of_tolerance.proof_of_square_a.proof_ss.challenge",
    "proof_of_tolerance.proof_of_square_a.proof_ss.d",
    "proof_of_tolerance.proof_of_square_a.proof_ss.d_1",
    "proof_of_tolerance.proof_of_square_a.proof_ss.d_2",
    "proof_of_tolerance.proof_of_square_b.E",
    "proof_of_tolerance.proof_of_square_b.F",
    "proof_of_tolerance.proof_of_square_b.proof_ss.challenge",
    "proof_of_tolerance.proof_of_square_b.proof_ss.d",
    "proof_of_tolerance.proof_of_square_b.proof_ss.d_1",
    "proof_of_tolerance.proof_of_square_b.proof_ss.d_2",
    "proof_of_tolerance.proof_large_i_a.C",
    "proof_of_tolerance.proof_large_i_a.D_1",
    "proof_of_tolerance.proof_large_i_a.D_2",
    "proof_of_tolerance.proof_large_i_b.C",
    "proof_of_tolerance.proof_large_i_b.D_1",
    "proof_of_tolerance.proof_large_i_b.D_2",
    "E_prime",
    "E",
    // (the three below are not leaves: they are used by the structural checks)
    "proof_of_tolerance.proof_of_square_a",
    "proof_of_tolerance.proof_large_i_a",
    "proof_of_tolerance",
];

// A proof produced by the unmodified implementation for x = 42 in [18, 150] with `setup()`, `fixed_r()`, SHA-256.
const FIXTURE: &str = r#"{"proof_of_tolerance":{"E_a_1":{"radix":16,"value":"d3c94fc955b7b4d5579918cd97e1c3642a537891c0c35845e0a207947aaf4de1ce520271bb83a6f0896961810f071561f3be59424b184a52766b808e4ef8c05"},"E_a_2":{"radix":16,"value":"276c2b8cf78a7e180ddb756832d1785b36836cc7f4b148782beefe6d6799c2e1f1a56e75b30aa0cca11dd02d2cb05083d24625001a99ddb82ca41baf7473624"},"E_b_1":{"radix":16,"value":"19460a7d7e40a028a9447153a90a0a5f25e67e9ee2b4528116efc4d854cd5f9932b9798887fd09fee5c876d22947430c2a14cd984bb7bf486e4142f141032e62"},"E_b_2":{"radix":16,"value":"9e55de97748c416ae486079a25161ca10d56a277b455dfff02ee3a7b9f148e97affd857670b8ccb3a995e9db30065c1d37bb22438d6fddd0d581f9719153753"},"proof_of_square_a":{"E":{"radix":16,"value":"d3c94fc955b7b4d5579918cd97e1c3642a537891c0c35845e0a207947aaf4de1ce520271bb83a6f0896961810f071561f3be59424b184a52766b808e4ef8c05"},"F":{"radix":16,"value":"a7dd7bfa1c58f0a55eb9867d8e6ee0db441e63f9930d1d2353bdb5ca0b9746a5a5cfedf38bff807b9ec141869fb9863dab585148ee1a4b816423edd2e7c3c1c"},"proof_ss":{"challenge":{"radix":16,"value":"f46749c0438ea2b4512aafc000f081df18eac462f7a06c701937405542999eeb"},"d":{"radix":16,"value":"97cb620d4807c88a295fcffae85bd539f3b31aa6953fa9e857982842fe4f520092a00fcee29367fb126edf0bff5c0cec769fc933fb52"},"d_1":{"radix":16,"value":"-d81fb79d156e48dd7c0f31ee2449add2665785d7da23c5338ced653a7d63fbb983f8919cffd0ed57546b85d0da8306190cafa1c9b91a111c30fce5b7b29ee6aa155f5f7532e992069d5cf09cee233b04477146beb485f7b33c5c75151e666b8f7cb4fa66"},"d_2":{"radix":16,"value":"4b4ebd38146e375bdb39f4f7366749feb433f0c9558273bc60b83f89df9fb8232e4742e3abfc461e98d164a9fce52d58e0963ae7f31a4139c8edfc50edd94ed00e172b26c345a4d929fde559708259c963a1a5187bc8f883ac6dd9efc569a02070f26e0eb6474062c138af1c664de1637b5b8038712603f50b750d562da101b5efb55c2d9cd96919c09e6a1c04b604b6b7e2bd4918af44de655"}}},"proof_of_square_b":{"E":{"radix":16,"value":"19460a7d7e40a028a9447153a90a0a5f25e67e9ee2b4528116efc4d854cd5f9932b9798887fd09fee5c876d22947430c2a14cd984bb7bf486e4142f141032e62"},"F":{"radix":16,"value":"c9f12c0bcc823d54ebc6b6a13c4fb2936a15a95abb3a083cf6e16976dff4f7f7704c6645e2b222690d5679b2e904441f16d723ae1c274045c5b2501036a8b87"},"proof_ss":{"challenge":{"radix":16,"value":"cf4503fd8364422470d1543afc1ddfcb8bce9db6f8d820e673822a9cc568a2cf"},"d":{"radix":16,"value":"10e1b52aadb73d9ec7ce8c724a1db34104fd7ea419e0987e14cd8e87b0235119a165492bfae9c07385ccb02a954645495d869f3a2e0c1"},"d_1":{"radix":16,"value":"-137a8df55ced0df3f9a2e6d63cf2d290b42ba440e3865c55473bd5c45a4d90a8013359e66241585b00e1648044db9e7802c07610be67963d8de7e5ba40451dcf30e67381a3df2dfdbd8d40da504d3e77b28f03515bb715fd5df671b35f72848184f5280b12"},"d_2":{"radix":16,"value":"188fcfc8125bc77a1de6c2c12f684f8d942d18a9a6370b66b861656f23475b0cb16ae7ae92d5d823dcda0051110fa02dc36d91d27b6bb457d138087e1dfc3a99f0785b0b8cef8a4b580b3855aad73e60f18f5672a971c10c4bbb17b9af4f406bfddf2e643c381c729335a9ce074172d2f0284cd41a90a109415fd2408575fd8a986bda763691c966aa2bd740291bc92b5b723e4d4e0542ac857e"}}},"proof_large_i_a":{"C":{"radix":16,"value":"ef1bce70c4be50271630dc43b0dacf1320cc985ad26a4a33c241ed5d0895d2fa"},"D_1":{"radix":16,"value":"19a2607e3df834bcde42ae01f3fc058263b4b8ba576f3319ab6167a8d20d40d27f5e3850179381bcb89a658f7426ff43d4d2a751e1f7c8278021a17be27dccb05ad"},"D_2":{"radix":16,"value":"-6d25bb6e3ae0fcf0a242fbd4c88b22e6e955a64c9c1f3210c71d6b4d0c735481c546af4a52cd91a3b34473cbf668ce9ac2efa38b92d48fe988f49ebde19152bd3e46ed74b8518efb97369300af1c53f8227c42fa16f85bce941c4bf079256e3b44798f62ede769e9277b952ee0b414b7960df927fc664b2c47695cb6e3ae1f409c46c5ff31"}},"proof_large_i_b":{"C":{"radix":16,"value":"bc0e8fea3893b82d23c3d261495454015836bbdaae6421d92b0bdb16c5ceccf5"},"D_1":{"radix":16,"value":"ee8b67270198cb4f7290138ba1d14773007539804d76508423fdbfbaeb22355d3eb9dda4eb92f4c85b64a227b0e8190f8beddfe961a4b150b50f640578825e38fc"},"D_2":{"radix":16,"value":"2df15e6b65cc5a078d0a358541639d396d7134744e214563936a897f24ad081c5a8e161d5a446b8fb46519433a869e5786f15f6a56b7b8bfe3fef985bfbf03c7365bf1056934777ecccbbf96a656ab8e16c0ab7a89237229b182ae914deccad0477e5ee3ecbcd2a79fd3ed10309d0d935b774f12e712ca1e1092bcb12a64cd5554c4ff8608"}}},"E_prime":{"radix":16,"value":"152f18ea6c86dbb1d39690007685ed1007c8993507690d1bf58526197da620b5098eee4bb785bf5f1a006681c265366a222bf3d958f53b5b32427be8bbc5ffde"},"E":{"radix":16,"value":"76f320d401e32c4752ae202b2638dfba4163bf7aa8f089a01035a3f093051263bca4e4e1b306ce307d8d1c30e142e3cf81bcaf8568528001e5e5e301b8d3c8a"}}"#;
const FX_A: i64 = 18;
const FX_B: i64 = 150;

fn fixture() -> Value {
    serde_json::from_str(FIXTURE).unwrap()
}

fn verify_fx(v: &Value, s: &Setup) -> bool {
    to_proof(v).verify::<Sha256>(&s.g, &s.h, &s.n, &int(FX_A), &int(FX_B))
}

// ---------------------------------------------------------------------------------------------
// verifier on a fixed proof
// ---------------------------------------------------------------------------------------------

#[test]
fn fixture_verifies_and_reserialises_identically() {
    let s = setup();
    let v = fixture();
    assert!(verify_fx(&v, &s));
    // wire format: same field names, same order, same integer encoding
    let p = to_proof(&v);
    assert_eq!(serde_json::to_string(&p).unwrap(), FIXTURE);
    let mut leaves = Vec::new();
    leaf_paths(&v, "", &mut leaves);
    // serde_json's map is sorted, so compare as sets
    let mut expected: Vec<String> = LEAVES[..24].iter().map(|s| s.to_string()).collect();
    expected.sort();
    leaves.sort();
    assert_eq!(leaves, expected);
    // the fixture contains negative responses as well
    assert!(FIXTURE.contains("\"-"));
    // the commitment it is about
    let c = commit(&s, &int(42), &fixed_r());
    assert_eq!(p.E, c.value);
    let T = big_T(&int(FX_A), &int(FX_B));
    assert_eq!(T, 346);
    assert_eq!(
        p.E_prime,
        c.value.pow_mod(&(Integer::from(1) << T), &s.n).unwrap()
    );
    assert_eq!(p.clone(), p);
}

#[test]
fn fixture_wrong_public_inputs() {
    silence_panics();
    let s = setup();
    let p = to_proof(&fixture());
    let (a, b) = (int(FX_A), int(FX_B));
    let n2 = other_modulus();
    let g_inv = s.g.clone().invert(&s.n).unwrap();
    let cases: Vec<(&str, &'static str)> = vec![
        ("ok", outcome(|| p.verify::<Sha256>(&s.g, &s.h, &s.n, &a, &b))),
        ("sha512", outcome(|| p.verify::<Sha512>(&s.g, &s.h, &s.n, &a, &b))),
        ("sha3", outcome(|| p.verify::<Sha3_256>(&s.g, &s.h, &s.n, &a, &b))),
        ("swapped bases", outcome(|| p.verify::<Sha256>(&s.h, &s.g, &s.n, &a, &b))),
        ("g=h", outcome(|| p.verify::<Sha256>(&s.h, &s.h, &s.n, &a, &b))),
        ("g^-1", outcome(|| p.verify::<Sha256>(&g_inv, &s.h, &s.n, &a, &b))),
        ("g=0", outcome(|| p.verify::<Sha256>(&int(0), &s.h, &s.n, &a, &b))),
        ("h=0", outcome(|| p.verify::<Sha256>(&s.g, &int(0), &s.n, &a, &b))),
        ("g=1", outcome(|| p.verify::<Sha256>(&int(1), &s.h, &s.n, &a, &b))),
        ("other n", outcome(|| p.verify::<Sha256>(&s.g, &s.h, &n2, &a, &b))),
        ("n=1", outcome(|| p.verify::<Sha256>(&s.g, &s.h, &int(1), &a, &b))),
        ("n=0", outcome(|| p.verify::<Sha256>(&s.g, &s.h, &int(0), &a, &b))),
        ("n=-n", outcome(|| p.verify::<Sha256>(&s.g, &s.h, &(-s.n.clone()), &a, &b))),
        // same T (8-bit width), same floor(sqrt(b-a)) = 11: only bb differs
        ("b+1", outcome(|| p.verify::<Sha256>(&s.g, &s.h, &s.n, &a, &int(FX_B + 1)))),
        ("a-1", outcome(|| p.verify::<Sha256>(&s.g, &s.h, &s.n, &int(FX_A - 1), &b))),
        ("shifted", outcome(|| p.verify::<Sha256>(&s.g, &s.h, &s.n, &int(FX_A + 1), &int(FX_B + 1)))),
        // a different T
        ("wider", outcome(|| p.verify::<Sha256>(&s.g, &s.h, &s.n, &a, &int(1000)))),
        ("narrower", outcome(|| p.verify::<Sha256>(&s.g, &s.h, &s.n, &int(40), &int(44)))),
        ("negative b", outcome(|| p.verify::<Sha256>(&s.g, &s.h, &s.n, &int(-150), &int(-18)))),
        ("b=0", outcome(|| p.verify::<Sha256>(&s.g, &s.h, &s.n, &int(-132), &int(0)))),
        // rmax <= rmin is refused with a panic
        ("a=b", outcome(|| p.verify::<Sha256>(&s.g, &s.h, &s.n, &a, &a))),
        ("a>b", outcome(|| p.verify::<Sha256>(&s.g, &s.h, &s.n, &b, &a))),
    ];
    let got: Vec<String> = cases.iter().map(|(k, o)| format!("{k}:{o}")).collect();
    unsilence_panics();
    assert_eq!(got.join(" "), EXPECTED_PUBLIC_INPUTS);
}

const EXPECTED_PUBLIC_INPUTS: &str = "ok:T sha512:F sha3:F swapped bases:F g=h:F g^-1:F g=0:P h=0:P g=1:F other n:F n=1:F n=0:P n=-n:T b+1:F a-1:F shifted:F wider:F narrower:F negative b:F b=0:F a=b:P a>b:P";

/// Every integer of the proof is replaced, one at a time, by a few related values; the verdict
/// (true / false / panic) is compared with the one of the unmodified implementation.
#[test]
fn fixture_tamper_each_integer() {
    silence_panics();
    let s = setup();
    let base = fixture();
    let mut lines = Vec::new();
    for path in &LEAVES[..24] {
        let orig = get_int(&base, path);
        let muts: Vec<Integer> = vec![
            int(0),
            int(1),
            -orig.clone(),
            orig.clone() + 1,
            orig.clone() - 1,
            orig.clone() + &s.n,
            orig.clone() % &s.n,
            s.n.clone(),
            orig.clone() + (Integer::from(1) << T_SEC),
            orig.clone() << 1,
        ];
        let mut line = String::new();
        for m in &muts {
            let mut v = base.clone();
            set_int(&mut v, path, m);
            let o = if m == &orig {
                "=" // not a mutation for this field
            } else {
                outcome(|| verify_fx(&v, &s))
            };
            line.push_str(o);
        }
        lines.push(format!("{}:{}", path.rsplit('.').next().unwrap(), line));
    }
    unsilence_panics();
    assert_eq!(lines.join(" "), EXPECTED_TAMPER);
}

const EXPECTED_TAMPER: &str = "E_a_1:PFFFFF=PFF E_a_2:FFFFFF=FFF E_b_1:PFFFFF=PFF E_b_2:FFFFFF=FFF E:FFFFFF=FFF F:PFFFFT=PFF challenge:FFFFFF=FFF d:FFFFFF=FFF d_1:FFFFFFFFFF d_2:FFFFFFFFFF E:FFFFFF=FFF F:PFFFFT=PFF challenge:FFFFFF=FFF d:FFFFFF=FFF d_1:FFFFFFFFFF d_2:FFFFFFFFFF C:FFFFFF=FFF D_1:FFFFFFFFFF D_2:FFFFFFFFFF C:FFFFFF=FFF D_1:FFFFFFFFFF D_2:FFFFFFFFFF E_prime:FFFFFF=FFF E:FFTFFT=FFF";

#[test]
fn fixture_structural_swaps() {
    silence_panics();
    let s = setup();
    let base = fixture();
    let pt = "proof_of_tolerance";
    let swaps: Vec<(String, String)> = vec![
        (format!("{pt}.E_a_1"), format!("{pt}.E_b_1")),
        (format!("{pt}.E_a_2"), format!("{pt}.E_b_2")),
        (format!("{pt}.E_a_1"), format!("{pt}.E_a_2")),
        (format!("{pt}.proof_of_square_a"), format!("{pt}.proof_of_square_b")),
        (format!("{pt}.proof_large_i_a"), format!("{pt}.proof_large_i_b")),
        (format!("{pt}.proof_of_square_a.proof_ss"), format!("{pt}.proof_of_square_b.proof_ss")),
        (format!("{pt}.proof_of_square_a.E"), format!("{pt}.proof_of_square_a.F")),
        (format!("{pt}.proof_of_square_a.F"), format!("{pt}.proof_of_square_b.F")),
        (format!("{pt}.proof_of_square_a.proof_ss.d_1"), format!("{pt}.proof_of_square_a.proof_ss.d_2")),
        (format!("{pt}.proof_large_i_a.D_1"), format!("{pt}.proof_large_i_a.D_2")),
        (format!("{pt}.proof_large_i_a.C"), format!("{pt}.proof_large_i_b.C")),
        ("E".to_string(), "E_prime".to_string()),
    ];
    let mut got = String::new();
    for (p1, p2) in &swaps {
        let mut v = base.clone();
        swap_paths(&mut v, p1, p2);
        got.push_str(outcome(|| verify_fx(&v, &s)));
    }
    // swap everything a <-> b at once: a consistent proof, but for the mirrored statement
    let mut v = base.clone();
    for k in ["E_@_1", "E_@_2", "proof_of_square_@", "proof_large_i_@"] {
        swap_paths(
            &mut v,
            &format!("{pt}.{}", k.replace('@', "a")),
            &format!("{pt}.{}", k.replace('@', "b")),
        );
    }
    got.push_str(outcome(|| verify_fx(&v, &s)));
    unsilence_panics();
    assert_eq!(got, EXPECTED_SWAPS);
    silence_panics();

    // both square proofs must be about E_a_1 / E_b_1: make each one internally consistent but about another value
    // (E := F makes "F = g^x h^r2, E = F^x h^r3" trivially wrong but well-formed)
    for sq in ["proof_of_square_a", "proof_of_square_b"] {
        let mut v = base.clone();
        let f = get_int(&v, &format!("{pt}.{sq}.F"));
        set_int(&mut v, &format!("{pt}.{sq}.E"), &f);
        assert_eq!(outcome(|| verify_fx(&v, &s)), "F");
    }
}

const EXPECTED_SWAPS: &str = "FFFFFFFFFFFFF";

/// Parts of a second, honest proof for the same statement cannot be mixed in.
#[test]
fn mixing_two_proofs() {
    silence_panics();
    let s = setup();
    let x = int(42);
    let c = commit(&s, &x, &fixed_r());
    let p2 = Boudot2000RangeProof::prove::<Sha256>(&x, &c, &s.g, &s.h, &s.n, &int(FX_A), &int(FX_B));
    assert!(p2.verify::<Sha256>(&s.g, &s.h, &s.n, &int(FX_A), &int(FX_B)));
    let v2 = serde_json::to_value(&p2).unwrap();
    let base = fixture();
    // E and E_prime are deterministic and therefore equal
    assert_eq!(get_int(&v2, "E"), get_int(&base, "E"));
    assert_eq!(get_int(&v2, "E_prime"), get_int(&base, "E_prime"));
    // the whole tolerance proof can be exchanged ...
    let mut v = base.clone();
    *get_path_mut(&mut v, LEAVES[26]) = get_path(&v2, LEAVES[26]).clone();
    assert_eq!(outcome(|| verify_fx(&v, &s)), "T");
    // ... but no proper part of it
    for path in LEAVES[..22].iter().chain(&LEAVES[24..26]) {
        let mut v = base.clone();
        *get_path_mut(&mut v, path) = get_path(&v2, path).clone();
        assert_eq!(outcome(|| verify_fx(&v, &s)), "F", "{path}");
    }
}

// ---------------------------------------------------------------------------------------------
// prover
// ---------------------------------------------------------------------------------------------

/// Checks everything about a fresh proof that does not depend on the randomness.
fn check_fresh<H: digest::Digest>(s: &Setup, x: &Integer, r: &Integer, a: &Integer, b: &Integer) {
    let c = commit(s, x, r);
    let p = Boudot2000RangeProof::prove::<H>(x, &c, &s.g, &s.h, &s.n, a, b);
    assert!(p.verify::<H>(&s.g, &s.h, &s.n, a, b), "x={x} a={a} b={b}");
    let T = big_T(a, b);
    assert_eq!(p.E, c.value);
    assert_eq!(p.E_prime, c.value.clone().pow_mod(&(Integer::from(1) << T), &s.n).unwrap());

    let v = serde_json::to_value(&p).unwrap();
    let back: Boudot2000RangeProof = serde_json::from_str(&serde_json::to_string(&p).unwrap()).unwrap();
    assert_eq!(back, p);
    let mut leaves = Vec::new();
    leaf_paths(&v, "", &mut leaves);
    assert_eq!(leaves.len(), 24);

    let pt = "proof_of_tolerance";
    // the decomposition: E_x_1 * E_x_2 = E_x, and the square proofs repeat E_x_1
    let two_T = Integer::from(1) << T;
    let shift = (Integer::from(1) << (L_SEC + T_SEC + T / 2 + 1)) * (b - a).complete().sqrt();
    let aa = two_T.clone() * a - &shift;
    let bb = two_T.clone() * b + &shift;
    let g_aa = s.g.clone().pow_mod(&aa, &s.n).unwrap();
    let g_bb = s.g.clone().pow_mod(&bb, &s.n).unwrap();
    let E_a = p.E_prime.clone() * g_aa.invert(&s.n).unwrap() % &s.n;
    let E_b = g_bb * p.E_prime.clone().invert(&s.n).unwrap() % &s.n;
    for (side, E_side) in [("a", &E_a), ("b", &E_b)] {
        let e1 = get_int(&v, &format!("{pt}.E_{side}_1"));
        let e2 = get_int(&v, &format!("{pt}.E_{side}_2"));
        assert_eq!((e1.clone() * &e2) % &s.n, *E_side);
        assert_eq!(get_int(&v, &format!("{pt}.proof_of_square_{side}.E")), e1);
        for k in ["E", "F"] {
            let e = get_int(&v, &format!("{pt}.proof_of_square_{side}.{k}"));
            assert!(e >= 0 && e < s.n);
        }
        assert!(e1 >= 0 && e1 < s.n && e2 >= 0 && e2 < s.n);
        // the interval proof's response lies in the window that the prover loops for
        let C = get_int(&v, &format!("{pt}.proof_large_i_{side}.C"));
        let D_1 = get_int(&v, &format!("{pt}.proof_large_i_{side}.D_1"));
        let c_low = C.clone() % (Integer::from(1) << T_SEC);
        assert!(C >= 0 && C.significant_bits() as usize <= 8 * <H as digest::Digest>::output_size());
        assert!(c_low.clone() * b <= D_1);
        assert!(D_1 <= (Integer::from(1) << (T + T_SEC + L_SEC)) * b - Integer::from(1));
        // the challenge of the same-secret proof is a full hash output; d >= 1
        let ch = get_int(&v, &format!("{pt}.proof_of_square_{side}.proof_ss.challenge"));
        assert!(ch >= 0 && ch.significant_bits() as usize <= 8 * <H as digest::Digest>::output_size());
        assert!(get_int(&v, &format!("{pt}.proof_of_square_{side}.proof_ss.d")) >= 1);
    }

    // a fresh proof is bound to its statement
    assert!(!p.verify::<H>(&s.h, &s.g, &s.n, a, b));
    assert!(!p.verify::<H>(&s.g, &s.h, &s.n, &(a - Integer::from(1)), b));
    assert!(!p.verify::<H>(&s.g, &s.h, &s.n, a, &(b + Integer::from(1))));
}

#[test]
fn fresh_proofs_various_ranges() {
    let s = setup();
    let r = fixed_r();
    let big = Integer::from(1) << 256u32;
    let cases: Vec<(Integer, Integer, Integer)> = vec![
        // (x, a, b)
        (int(42), int(18), int(150)),
        (int(18), int(18), int(150)),  // x = a
        (int(150), int(18), int(150)), // x = b
        (int(0), int(0), int(1)),      // narrowest range
        (int(1), int(0), int(1)),
        (int(5), int(4), int(6)),
        (int(0), int(-5), int(5)),     // negative lower bound
        (int(-5), int(-5), int(5)),
        (int(-3), int(-4), int(1)),
        (int(1000), int(0), int(1 << 40)),
        (big.clone() - 1, int(0), big.clone()), // lm-sized attribute range
        (int(0), int(0), big.clone()),
        (big.clone(), int(0), big.clone()),
        (big.clone() + 12345, big.clone(), big.clone() * 2),
        (int(7), int(3), big.clone()),
    ];
    for (x, a, b) in &cases {
        check_fresh::<Sha256>(&s, x, &r, a, b);
    }
    // other randomness shapes: zero, one, negative, larger than n
    // (the prover does not terminate for |r| > 2^s * n: its rejection loop for r_a_1 / r_a_2 can never succeed)
    for r in [int(0), int(1), -fixed_r(), fixed_r() << 30u32, -(fixed_r() << 30u32)] {
        check_fresh::<Sha256>(&s, &int(42), &r, &int(18), &int(150));
    }
    // other hash functions (also one with an output longer than 2t bits)
    check_fresh::<Sha512>(&s, &int(42), &r, &int(18), &int(150));
    check_fresh::<Sha3_256>(&s, &int(42), &r, &int(18), &int(150));
    check_fresh::<Sha512>(&s, &int(-5), &r, &int(-5), &int(5));
}

/// Values outside [a, b] make the prover panic (square root of a negative number), as do an empty range and b <= 0.
#[test]
fn prover_out_of_range_and_degenerate_inputs() {
    silence_panics();
    let s = setup();
    let r = fixed_r();
    let prove_verify = |x: i64, a: i64, b: i64| -> &'static str {
        let (x, a, b) = (int(x), int(a), int(b));
        let c = commit(&s, &x, &r);
        outcome(|| {
            Boudot2000RangeProof::prove::<Sha256>(&x, &c, &s.g, &s.h, &s.n, &a, &b)
                .verify::<Sha256>(&s.g, &s.h, &s.n, &a, &b)
        })
    };
    let got: Vec<String> = [
        (17, 18, 150),
        (151, 18, 150),
        (0, 18, 150),
        (1000, 18, 150),
        (-1, 0, 1),
        (2, 0, 1),
        (5, 5, 5),    // a = b
        (5, 6, 5),    // a > b
        (-3, -8, 0),  // b = 0
        (-5, -10, -3), // b < 0
        (-10, -10, 1),
        (1, -10, 1),
    ]
    .iter()
    .map(|&(x, a, b)| format!("{x}/{a}/{b}:{}", prove_verify(x, a, b)))
    .collect();
    unsilence_panics();
    assert_eq!(got.join(" "), EXPECTED_PROVER_EDGE);

    // a commitment that does not open to (x, r) gives a proof that is produced but does not verify
    let c = commit(&s, &int(43), &r);
    let p = Boudot2000RangeProof::prove::<Sha256>(&int(42), &c, &s.g, &s.h, &s.n, &int(18), &int(150));
    assert_eq!(p.E, c.value);
    assert!(!p.verify::<Sha256>(&s.g, &s.h, &s.n, &int(18), &int(150)));
    let mut c = commit(&s, &int(42), &r);
    c.randomness += 1;
    let p = Boudot2000RangeProof::prove::<Sha256>(&int(42), &c, &s.g, &s.h, &s.n, &int(18), &int(150));
    assert!(!p.verify::<Sha256>(&s.g, &s.h, &s.n, &int(18), &int(150)));
    // proving with one hash and verifying with another
    let c = commit(&s, &int(42), &r);
    let p = Boudot2000RangeProof::prove::<Sha512>(&int(42), &c, &s.g, &s.h, &s.n, &int(18), &int(150));
    assert!(!p.verify::<Sha256>(&s.g, &s.h, &s.n, &int(18), &int(150)));
    assert!(p.verify::<Sha512>(&s.g, &s.h, &s.n, &int(18), &int(150)));
}

const EXPECTED_PROVER_EDGE: &str = "17/18/150:P 151/18/150:P 0/18/150:P 1000/18/150:P -1/0/1:P 2/0/1:P 5/5/5:P 5/6/5:P -3/-8/0:P -5/-10/-3:P -10/-10/1:T 1/-10/1:T";

#[test]
#[should_panic(expected = "rmin > rmax")]
fn prove_refuses_empty_range() {
    let s = setup();
    let c = commit(&s, &int(5), &fixed_r());
    let _ = Boudot2000RangeProof::prove::<Sha256>(&int(5), &c, &s.g, &s.h, &s.n, &int(5), &int(5));
}

#[test]
#[should_panic(expected = "rmin > rmax")]
fn verify_refuses_empty_range() {
    let s = setup();
    let _ = to_proof(&fixture()).verify::<Sha256>(&s.g, &s.h, &s.n, &int(7), &int(6));
}
