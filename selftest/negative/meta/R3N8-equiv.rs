#![cfg(feature = "cl03")]
#![allow(non_snake_case)]

// Behavioural pin-down of the Boudot 2000 range proof (src/cl03/range_proof.rs) through the public API only.
// The prover is randomised, so the tests only assert facts that hold for every choice of the random values:
// accept / reject / panic outcomes, algebraic relations between the proof elements, and the serde layout.

use std::panic::{catch_unwind, AssertUnwindSafe};

use digest::Digest;
use rug::{ops::Pow, Complete, Integer};
use serde_json::Value;
use sha2::{Sha256, Sha512};
use sha3::Sha3_256;
use zkryptium::cl03::{
    bases::Bases,
    commitment::CL03Commitment,
    range_proof::{Boudot2000RangeProof, RangeProof},
};
use zkryptium::keys::pair::KeyPair;
use zkryptium::schemes::algorithms::{CL03, CL03_CL1024_SHA256, Scheme};
use zkryptium::schemes::generics::{Commitment, ZKPoK};
use zkryptium::utils::message::cl03_message::CL03Message;

const T_SEC: u32 = 128;
const L_SEC: u32 = 40;

const LEAVES: &[&str] = &[
    "/proof_of_tolerance/E_a_1",
    "/proof_of_tolerance/E_a_2",
    "/proof_of_tolerance/E_b_1",
    "/proof_of_tolerance/E_b_2",
    "/proof_of_tolerance/proof_of_square_a/E",
    "/proof_of_tolerance/proof_of_square_a/F",
    "/proof_of_tolerance/proof_of_square_a/proof_ss/challenge",
    "/proof_of_tolerance/proof_of_square_a/proof_ss/d",
    "/proof_of_tolerance/proof_of_square_a/proof_ss/d_1",
    "/proof_of_tolerance/proof_of_square_a/proof_ss/d_2",
    "/proof_of_tolerance/proof_of_square_b/E",
    "/proof_of_tolerance/proof_of_square_b/F",
    "/proof_of_tolerance/proof_of_square_b/proof_ss/challenge",
    "/proof_of_tolerance/proof_of_square_b/proof_ss/d",
    "/proof_of_tolerance/proof_of_square_b/proof_ss/d_1",
    "/proof_of_tolerance/proof_of_square_b/proof_ss/d_2",
    "/proof_of_tolerance/proof_large_i_a/C",
    "/proof_of_tolerance/proof_large_i_a/D_1",
    "/proof_of_tolerance/proof_large_i_a/D_2",
    "/proof_of_tolerance/proof_large_i_b/C",
    "/proof_of_tolerance/proof_large_i_b/D_1",
    "/proof_of_tolerance/proof_large_i_b/D_2",
    "/E_prime",
    "/E",
];

struct Params {
    n: Integer,
    g: Integer,
    h: Integer,
}

fn params() -> Params {
    // fixed 1024-bit RSA-like modulus: deterministic, no key generation needed
    let p = (Integer::from(1) << 511u32) + Integer::from(0x1234_5678_9abc_def1u64);
    let p = p.next_prime();
    let q = (Integer::from(1) << 511u32) + (Integer::from(0x0fed_cba9_8765_4321u64) << 200u32);
    let q = q.next_prime();
    let n = (&p * &q).complete();
    let g = Integer::from(0x1234_5678_9abc_u64).pow(6u32) % &n;
    let g = g.clone() * &g % &n;
    let h = Integer::from(0x7654_3210_fedc_u64).pow(7u32) % &n;
    let h = h.clone() * &h % &n;
    Params { n, g, h }
}

fn fixed_randomness(tag: u32) -> Integer {
    // a deterministic ~1000 bit "random" exponent
    let mut acc = Integer::from(0);
    for i in 0..4u32 {
        let d = Sha512::digest(format!("equiv-randomness-{tag}-{i}"));
        acc = (acc << 250u32) + Integer::from_digits(&d[..31], rug::integer::Order::MsfBe);
    }
    acc
}

fn commit(p: &Params, x: &Integer, r: &Integer) -> CL03Commitment {
    let value = Integer::from(p.g.pow_mod_ref(x, &p.n).unwrap())
        * Integer::from(p.h.pow_mod_ref(r, &p.n).unwrap())
        % &p.n;
    CL03Commitment {
        value,
        randomness: r.clone(),
    }
}

fn big_T(rmin: &Integer, rmax: &Integer) -> u32 {
    2 * (T_SEC + L_SEC + 1) + (rmax - rmin).complete().significant_bits()
}

fn tolerance_bounds(rmin: &Integer, rmax: &Integer) -> (Integer, Integer) {
    let T = big_T(rmin, rmax);
    let root = (rmax - rmin).complete().sqrt();
    let shift = Integer::from(1) << (L_SEC + T_SEC + T / 2 + 1);
    let aa = (Integer::from(1) << T) * rmin - (&shift * &root).complete();
    let bb = (Integer::from(1) << T) * rmax + (&shift * &root).complete();
    (aa, bb)
}

fn to_json(proof: &Boudot2000RangeProof) -> Value {
    serde_json::to_value(proof).unwrap()
}

fn from_json(v: &Value) -> Boudot2000RangeProof {
    serde_json::from_value(v.clone()).unwrap()
}

fn get(v: &Value, path: &str) -> Integer {
    serde_json::from_value(v.pointer(path).unwrap_or_else(|| panic!("missing {path}")).clone()).unwrap()
}

fn set(v: &mut Value, path: &str, x: &Integer) {
    *v.pointer_mut(path).unwrap() = serde_json::to_value(x).unwrap();
}

fn bump(v: &Value, path: &str) -> Value {
    let mut w = v.clone();
    let x = get(&w, path) + 1;
    set(&mut w, path, &x);
    w
}

/// Some(result) or None when the verifier panicked
fn try_verify<H: Digest>(
    proof: &Boudot2000RangeProof,
    p: &Params,
    g: &Integer,
    h: &Integer,
    rmin: &Integer,
    rmax: &Integer,
) -> Option<bool> {
    catch_unwind(AssertUnwindSafe(|| proof.verify::<H>(g, h, &p.n, rmin, rmax))).ok()
}

fn try_prove<H: Digest>(
    p: &Params,
    x: &Integer,
    c: &CL03Commitment,
    rmin: &Integer,
    rmax: &Integer,
) -> Option<Boudot2000RangeProof> {
    catch_unwind(AssertUnwindSafe(|| {
        Boudot2000RangeProof::prove::<H>(x, c, &p.g, &p.h, &p.n, rmin, rmax)
    }))
    .ok()
}

fn ranges() -> Vec<(Integer, Integer)> {
    vec![
        (Integer::from(0), Integer::from(1)),
        (Integer::from(0), Integer::from(2)),
        (Integer::from(5), Integer::from(1000)),
        (Integer::from(7), Integer::from(7 + 255)),
        (Integer::from(-50), Integer::from(50)),
        (Integer::from(0), Integer::from(2).pow(256u32) - 1),
        (Integer::from(2).pow(257u32) + 1, Integer::from(2).pow(258u32) - 1),
    ]
}

/// relations that hold for every honest proof, whatever random values were drawn
fn check_structure(p: &Params, c: &CL03Commitment, proof: &Boudot2000RangeProof, rmin: &Integer, rmax: &Integer) {
    let v = to_json(proof);
    let n = &p.n;
    let T = big_T(rmin, rmax);
    let (aa, bb) = tolerance_bounds(rmin, rmax);

    assert_eq!(proof.E, c.value);
    assert_eq!(get(&v, "/E"), c.value);
    let e_prime = Integer::from(c.value.pow_mod_ref(&(Integer::from(1) << T), n).unwrap());
    assert_eq!(proof.E_prime, e_prime);
    assert_eq!(get(&v, "/E_prime"), e_prime);

    let e_a_1 = get(&v, "/proof_of_tolerance/E_a_1");
    let e_a_2 = get(&v, "/proof_of_tolerance/E_a_2");
    let e_b_1 = get(&v, "/proof_of_tolerance/E_b_1");
    let e_b_2 = get(&v, "/proof_of_tolerance/E_b_2");
    assert_eq!(get(&v, "/proof_of_tolerance/proof_of_square_a/E"), e_a_1);
    assert_eq!(get(&v, "/proof_of_tolerance/proof_of_square_b/E"), e_b_1);

    // E_a_1 * E_a_2 * g^aa == E'   and   E' * E_b_1 * E_b_2 == g^bb
    let g_aa = Integer::from(p.g.pow_mod_ref(&aa, n).unwrap());
    let g_bb = Integer::from(p.g.pow_mod_ref(&bb, n).unwrap());
    assert_eq!((e_a_1.clone() * &e_a_2 % n) * &g_aa % n, e_prime);
    assert_eq!((e_b_1.clone() * &e_b_2 % n) * &e_prime % n, g_bb);

    for e in [&e_a_1, &e_a_2, &e_b_1, &e_b_2] {
        assert!(*e >= 0 && e < n);
    }

    let two_256 = Integer::from(1) << 256u32;
    let upper = (Integer::from(1) << (T + T_SEC + L_SEC)) * rmax - 1;
    for side in ["a", "b"] {
        let f = get(&v, &format!("/proof_of_tolerance/proof_of_square_{side}/F"));
        assert!(f >= 0 && &f < n);
        let ch = get(&v, &format!("/proof_of_tolerance/proof_of_square_{side}/proof_ss/challenge"));
        assert!(ch >= 0 && ch < two_256);
        let d = get(&v, &format!("/proof_of_tolerance/proof_of_square_{side}/proof_ss/d"));
        assert!(d >= 1);

        let C = get(&v, &format!("/proof_of_tolerance/proof_large_i_{side}/C"));
        assert!(C >= 0 && C < two_256);
        let c_low = C % (Integer::from(1) << T_SEC);
        let D_1 = get(&v, &format!("/proof_of_tolerance/proof_large_i_{side}/D_1"));
        // acceptance condition of the prover's rejection-sampling loop
        assert!(c_low * rmax <= D_1, "D_1 below c*b");
        assert!(D_1 <= upper, "D_1 above the bound");
    }
}

#[test]
fn range_proof_enum_serde() {
    assert_eq!(serde_json::to_string(&RangeProof::Boudot2000).unwrap(), "\"Boudot2000\"");
    let r: RangeProof = serde_json::from_str("\"Boudot2000\"").unwrap();
    assert_eq!(r, RangeProof::Boudot2000);
    assert!(serde_json::from_str::<RangeProof>("\"Boudot2001\"").is_err());
}

#[test]
fn honest_proofs_verify_for_all_ranges_and_edge_values() {
    let p = params();
    for (k, (rmin, rmax)) in ranges().into_iter().enumerate() {
        let mid = Integer::from(&rmin + &rmax) / 2;
        let values = [rmin.clone(), rmax.clone(), mid];
        for (j, x) in values.iter().enumerate() {
            let r = fixed_randomness((k * 10 + j) as u32);
            let r = if (k + j) % 3 == 2 { -r } else { r };
            let c = commit(&p, x, &r);
            let proof = Boudot2000RangeProof::prove::<Sha256>(x, &c, &p.g, &p.h, &p.n, &rmin, &rmax);
            check_structure(&p, &c, &proof, &rmin, &rmax);
            assert_eq!(
                try_verify::<Sha256>(&proof, &p, &p.g, &p.h, &rmin, &rmax),
                Some(true),
                "range #{k} value #{j}"
            );
            // the proof survives a serde round trip unchanged
            let s = serde_json::to_string(&proof).unwrap();
            let back: Boudot2000RangeProof = serde_json::from_str(&s).unwrap();
            assert_eq!(back, proof);
            assert_eq!(serde_json::to_string(&back).unwrap(), s);
            assert!(back.verify::<Sha256>(&p.g, &p.h, &p.n, &rmin, &rmax));
            // swapped bases, other hash function
            assert_eq!(try_verify::<Sha256>(&proof, &p, &p.h, &p.g, &rmin, &rmax), Some(false));
            assert_eq!(try_verify::<Sha3_256>(&proof, &p, &p.g, &p.h, &rmin, &rmax), Some(false));
        }
    }
}

#[test]
fn zero_randomness_and_small_values() {
    let p = params();
    let rmin = Integer::from(0);
    let rmax = Integer::from(16);
    for x in 0..=16u32 {
        let x = Integer::from(x);
        let r = if x.is_even() { Integer::from(0) } else { Integer::from(1) };
        let c = commit(&p, &x, &r);
        let proof = Boudot2000RangeProof::prove::<Sha256>(&x, &c, &p.g, &p.h, &p.n, &rmin, &rmax);
        check_structure(&p, &c, &proof, &rmin, &rmax);
        assert!(proof.verify::<Sha256>(&p.g, &p.h, &p.n, &rmin, &rmax));
    }
}

#[test]
fn other_hash_functions() {
    let p = params();
    let rmin = Integer::from(100);
    let rmax = Integer::from(100_000);
    let x = Integer::from(31337);
    let c = commit(&p, &x, &fixed_randomness(77));
    let p512 = Boudot2000RangeProof::prove::<Sha512>(&x, &c, &p.g, &p.h, &p.n, &rmin, &rmax);
    assert_eq!(try_verify::<Sha512>(&p512, &p, &p.g, &p.h, &rmin, &rmax), Some(true));
    assert_eq!(try_verify::<Sha256>(&p512, &p, &p.g, &p.h, &rmin, &rmax), Some(false));
    let p3 = Boudot2000RangeProof::prove::<Sha3_256>(&x, &c, &p.g, &p.h, &p.n, &rmin, &rmax);
    assert_eq!(try_verify::<Sha3_256>(&p3, &p, &p.g, &p.h, &rmin, &rmax), Some(true));
    assert_eq!(try_verify::<Sha256>(&p3, &p, &p.g, &p.h, &rmin, &rmax), Some(false));
    // with a 512 bit hash the challenges are 512 bit values
    let v = to_json(&p512);
    assert!(get(&v, "/proof_of_tolerance/proof_large_i_a/C") < Integer::from(1) << 512u32);
}

#[test]
fn verification_against_another_range_or_commitment_fails() {
    let p = params();
    let rmin = Integer::from(5);
    let rmax = Integer::from(1000);
    let x = Integer::from(999);
    let r = fixed_randomness(1);
    let c = commit(&p, &x, &r);
    let proof = Boudot2000RangeProof::prove::<Sha256>(&x, &c, &p.g, &p.h, &p.n, &rmin, &rmax);
    assert_eq!(try_verify::<Sha256>(&proof, &p, &p.g, &p.h, &rmin, &rmax), Some(true));
    // same bit length of (rmax - rmin), i.e. the same T, but other bounds
    for (a, b) in [(5, 998), (6, 1000), (4, 1000), (5, 1001), (0, 995), (300, 900)] {
        let (a, b) = (Integer::from(a), Integer::from(b));
        assert_eq!(big_T(&a, &b), big_T(&rmin, &rmax));
        assert_eq!(try_verify::<Sha256>(&proof, &p, &p.g, &p.h, &a, &b), Some(false), "[{a},{b}]");
    }
    // another T
    for (a, b) in [(5, 100), (5, 5000), (0, 1)] {
        let (a, b) = (Integer::from(a), Integer::from(b));
        assert_eq!(try_verify::<Sha256>(&proof, &p, &p.g, &p.h, &a, &b), Some(false), "[{a},{b}]");
    }
    // a proof for another commitment: moved onto this one it fails
    let c2 = commit(&p, &Integer::from(998), &r);
    let proof2 = Boudot2000RangeProof::prove::<Sha256>(&Integer::from(998), &c2, &p.g, &p.h, &p.n, &rmin, &rmax);
    let mut moved = proof2.clone();
    moved.E = c.value.clone();
    assert_eq!(try_verify::<Sha256>(&moved, &p, &p.g, &p.h, &rmin, &rmax), Some(false));
    moved.E_prime = proof.E_prime.clone();
    assert_eq!(try_verify::<Sha256>(&moved, &p, &p.g, &p.h, &rmin, &rmax), Some(false));
    let mut mixed = proof.clone();
    mixed.proof_of_tolerance = proof2.proof_of_tolerance.clone();
    assert_eq!(try_verify::<Sha256>(&mixed, &p, &p.g, &p.h, &rmin, &rmax), Some(false));
    // the commitment does not open to the value that is proven: the proof is produced but does not verify
    let wrong = try_prove::<Sha256>(&p, &Integer::from(997), &c, &rmin, &rmax).expect("prover must not panic");
    assert_eq!(try_verify::<Sha256>(&wrong, &p, &p.g, &p.h, &rmin, &rmax), Some(false));
}

#[test]
fn values_outside_the_range_are_refused_by_the_prover() {
    let p = params();
    for (rmin, rmax) in ranges() {
        for x in [
            Integer::from(&rmin - 1),
            Integer::from(&rmax + 1),
            Integer::from(&rmin - 1000),
            Integer::from(&rmax * 2) + 3,
        ] {
            let c = commit(&p, &x, &fixed_randomness(3));
            assert!(
                try_prove::<Sha256>(&p, &x, &c, &rmin, &rmax).is_none(),
                "prover accepted {x} for [{rmin},{rmax}]"
            );
        }
    }
}

#[test]
fn empty_or_reversed_range_panics() {
    let p = params();
    let x = Integer::from(5);
    let c = commit(&p, &x, &fixed_randomness(4));
    let good = Boudot2000RangeProof::prove::<Sha256>(&x, &c, &p.g, &p.h, &p.n, &Integer::from(0), &Integer::from(10));
    for (a, b) in [(5, 5), (6, 5), (10, 0), (0, 0), (-1, -1)] {
        let (a, b) = (Integer::from(a), Integer::from(b));
        assert!(try_prove::<Sha256>(&p, &x, &c, &a, &b).is_none());
        assert_eq!(try_verify::<Sha256>(&good, &p, &p.g, &p.h, &a, &b), None);
    }
}

#[test]
fn every_tampered_element_is_rejected() {
    let p = params();
    for (k, (rmin, rmax)) in [
        (Integer::from(0), Integer::from(2).pow(256u32) - 1),
        (Integer::from(5), Integer::from(1000)),
    ]
    .into_iter()
    .enumerate()
    {
        let x = Integer::from(&rmin + 123);
        let c = commit(&p, &x, &fixed_randomness(50 + k as u32));
        let proof = Boudot2000RangeProof::prove::<Sha256>(&x, &c, &p.g, &p.h, &p.n, &rmin, &rmax);
        let v = to_json(&proof);
        assert_eq!(try_verify::<Sha256>(&from_json(&v), &p, &p.g, &p.h, &rmin, &rmax), Some(true));
        for leaf in LEAVES {
            let w = bump(&v, leaf);
            let tampered = from_json(&w);
            assert_ne!(tampered, proof);
            assert_eq!(
                try_verify::<Sha256>(&tampered, &p, &p.g, &p.h, &rmin, &rmax),
                Some(false),
                "tampered {leaf}"
            );
            // and negated. Not for F of a proof of square: F -> -F is accepted whenever the challenge and the
            // response d happen to be even, which depends on the prover's random values.
            if leaf.ends_with("/F") {
                continue;
            }
            let mut w = v.clone();
            let neg = -get(&v, leaf);
            set(&mut w, leaf, &neg);
            // E only enters the verification through E' == E^(2^T), and 2^T is even
            let accepted = *leaf == "/E";
            assert_eq!(
                try_verify::<Sha256>(&from_json(&w), &p, &p.g, &p.h, &rmin, &rmax),
                Some(accepted),
                "negated {leaf}"
            );
        }
        // swapping the two halves
        let mut w = v.clone();
        for (l, r) in [
            ("/proof_of_tolerance/E_a_1", "/proof_of_tolerance/E_b_1"),
            ("/proof_of_tolerance/E_a_2", "/proof_of_tolerance/E_b_2"),
        ] {
            let (a, b) = (get(&v, l), get(&v, r));
            set(&mut w, l, &b);
            set(&mut w, r, &a);
        }
        assert_eq!(try_verify::<Sha256>(&from_json(&w), &p, &p.g, &p.h, &rmin, &rmax), Some(false));
        let mut w = v.clone();
        let (a, b) = (
            v.pointer("/proof_of_tolerance/proof_large_i_a").unwrap().clone(),
            v.pointer("/proof_of_tolerance/proof_large_i_b").unwrap().clone(),
        );
        *w.pointer_mut("/proof_of_tolerance/proof_large_i_a").unwrap() = b;
        *w.pointer_mut("/proof_of_tolerance/proof_large_i_b").unwrap() = a;
        assert_eq!(try_verify::<Sha256>(&from_json(&w), &p, &p.g, &p.h, &rmin, &rmax), Some(false));
        let mut w = v.clone();
        let (a, b) = (
            v.pointer("/proof_of_tolerance/proof_of_square_a").unwrap().clone(),
            v.pointer("/proof_of_tolerance/proof_of_square_b").unwrap().clone(),
        );
        *w.pointer_mut("/proof_of_tolerance/proof_of_square_a").unwrap() = b;
        *w.pointer_mut("/proof_of_tolerance/proof_of_square_b").unwrap() = a;
        assert_eq!(try_verify::<Sha256>(&from_json(&w), &p, &p.g, &p.h, &rmin, &rmax), Some(false));
    }
}

#[test]
fn large_interval_response_bounds_are_enforced() {
    // D_1 is checked against [c*b, 2^T * (2^(t+l) * b - 1)] by the verifier
    let p = params();
    let rmin = Integer::from(5);
    let rmax = Integer::from(1000);
    let x = Integer::from(77);
    let c = commit(&p, &x, &fixed_randomness(60));
    let proof = Boudot2000RangeProof::prove::<Sha256>(&x, &c, &p.g, &p.h, &p.n, &rmin, &rmax);
    let v = to_json(&proof);
    let T = big_T(&rmin, &rmax);
    let upper = (Integer::from(1) << T) * ((Integer::from(1) << (T_SEC + L_SEC)) * &rmax - Integer::from(1));
    for side in ["a", "b"] {
        let path = format!("/proof_of_tolerance/proof_large_i_{side}/D_1");
        let low = (get(&v, &format!("/proof_of_tolerance/proof_large_i_{side}/C")) % (Integer::from(1) << T_SEC)) * &rmax;
        for val in [
            Integer::from(0),
            Integer::from(-1),
            low.clone() - 1,
            low.clone(),
            upper.clone(),
            upper.clone() + 1,
            Integer::from(&upper << 3u32),
        ] {
            if val == get(&v, &path) {
                continue;
            }
            let mut w = v.clone();
            set(&mut w, &path, &val);
            assert_eq!(
                try_verify::<Sha256>(&from_json(&w), &p, &p.g, &p.h, &rmin, &rmax),
                Some(false),
                "{path} = {val}"
            );
        }
    }
}

#[test]
fn order_of_the_verifier_checks() {
    // Elements that are not invertible modulo n make the verifier panic (HEAD behaviour); which check is reached
    // first decides between `false` and a panic, so these cases pin the order of the checks.
    let p = params();
    let rmin = Integer::from(0);
    let rmax = Integer::from(2).pow(256u32) - 1;
    let x = Integer::from(424242);
    let c = commit(&p, &x, &fixed_randomness(70));
    let proof = Boudot2000RangeProof::prove::<Sha256>(&x, &c, &p.g, &p.h, &p.n, &rmin, &rmax);
    let v = to_json(&proof);
    let zero = Integer::from(0);
    let run = |w: &Value| try_verify::<Sha256>(&from_json(w), &p, &p.g, &p.h, &rmin, &rmax);

    let sq_a_F = "/proof_of_tolerance/proof_of_square_a/F";
    let sq_b_F = "/proof_of_tolerance/proof_of_square_b/F";
    let sq_a_E = "/proof_of_tolerance/proof_of_square_a/E";
    let sq_b_E = "/proof_of_tolerance/proof_of_square_b/E";
    let sq_a_d = "/proof_of_tolerance/proof_of_square_a/proof_ss/d";
    let e_a_1 = "/proof_of_tolerance/E_a_1";
    let e_b_1 = "/proof_of_tolerance/E_b_1";
    let e_a_2 = "/proof_of_tolerance/E_a_2";
    let e_b_2 = "/proof_of_tolerance/E_b_2";

    // E_a_1 = 0 or E_b_1 = 0: the division E_a / E_a_1 has no solution
    for path in [e_a_1, e_b_1] {
        let mut w = v.clone();
        set(&mut w, path, &zero);
        assert_eq!(run(&w), None, "{path} = 0");
        // ... but the check of E' = E^(2^T) comes first
        let w2 = bump(&w, "/E_prime");
        assert_eq!(run(&w2), Some(false));
        let w3 = bump(&w, "/E");
        assert_eq!(run(&w3), Some(false));
    }
    // E = E' = 0: g^bb / 0 has no solution
    let mut w = v.clone();
    set(&mut w, "/E", &zero);
    set(&mut w, "/E_prime", &zero);
    assert_eq!(run(&w), None);

    // F = 0 in a proof of square: 0^(-challenge) does not exist
    let mut w = v.clone();
    set(&mut w, sq_a_F, &zero);
    assert_eq!(run(&w), None);
    let mut w = v.clone();
    set(&mut w, sq_b_F, &zero);
    assert_eq!(run(&w), None);
    // the second proof of square is not looked at when the first one fails
    let mut w = bump(&v, sq_a_d);
    set(&mut w, sq_b_F, &zero);
    assert_eq!(run(&w), Some(false));
    // the other way round the first (now broken) one is evaluated first
    let mut w = bump(&v, "/proof_of_tolerance/proof_of_square_b/proof_ss/d");
    set(&mut w, sq_a_F, &zero);
    assert_eq!(run(&w), None);
    // the four equalities E_a_2 == E_a / E_a_1, E_b_2 == ..., square.E == E_x_1 are all checked before any sub proof
    for path in [e_a_2, e_b_2, sq_a_E, sq_b_E] {
        for f in [sq_a_F, sq_b_F] {
            let mut w = bump(&v, path);
            set(&mut w, f, &zero);
            assert_eq!(run(&w), Some(false), "{path} tampered, {f} = 0");
        }
    }
    // ... but after both divisions
    for path in [e_a_2, e_b_2, sq_a_E, sq_b_E] {
        if path != sq_b_E {
            let mut w = bump(&v, path);
            set(&mut w, e_b_1, &zero);
            assert_eq!(run(&w), None, "{path} tampered, E_b_1 = 0");
        }
        if path != sq_a_E {
            let mut w = bump(&v, path);
            set(&mut w, e_a_1, &zero);
            assert_eq!(run(&w), None, "{path} tampered, E_a_1 = 0");
        }
    }
    // a broken large-interval proof together with F = 0: the proofs of square come first
    let mut w = bump(&v, "/proof_of_tolerance/proof_large_i_a/D_2");
    set(&mut w, sq_b_F, &zero);
    assert_eq!(run(&w), None);
}

#[test]
fn malformed_serialisations_are_refused() {
    let p = params();
    let rmin = Integer::from(0);
    let rmax = Integer::from(100);
    let x = Integer::from(42);
    let c = commit(&p, &x, &fixed_randomness(80));
    let proof = Boudot2000RangeProof::prove::<Sha256>(&x, &c, &p.g, &p.h, &p.n, &rmin, &rmax);
    let v = to_json(&proof);

    // layout of the serialisation
    let keys = |v: &Value| -> Vec<String> { v.as_object().unwrap().keys().cloned().collect() };
    let mut top = keys(&v);
    top.sort();
    assert_eq!(top, ["E", "E_prime", "proof_of_tolerance"]);
    let mut wt = keys(v.pointer("/proof_of_tolerance").unwrap());
    wt.sort();
    assert_eq!(
        wt,
        [
            "E_a_1", "E_a_2", "E_b_1", "E_b_2", "proof_large_i_a", "proof_large_i_b", "proof_of_square_a",
            "proof_of_square_b"
        ]
    );
    let mut li = keys(v.pointer("/proof_of_tolerance/proof_large_i_a").unwrap());
    li.sort();
    assert_eq!(li, ["C", "D_1", "D_2"]);
    let mut sq = keys(v.pointer("/proof_of_tolerance/proof_of_square_b").unwrap());
    sq.sort();
    assert_eq!(sq, ["E", "F", "proof_ss"]);
    let mut ss = keys(v.pointer("/proof_of_tolerance/proof_of_square_b/proof_ss").unwrap());
    ss.sort();
    assert_eq!(ss, ["challenge", "d", "d_1", "d_2"]);
    for leaf in LEAVES {
        assert!(v.pointer(leaf).is_some());
    }

    // a missing element, or one of the wrong type
    for leaf in LEAVES {
        let (parent, name) = leaf.rsplit_once('/').unwrap();
        let mut w = v.clone();
        let obj = if parent.is_empty() { &mut w } else { w.pointer_mut(parent).unwrap() };
        obj.as_object_mut().unwrap().remove(name);
        assert!(serde_json::from_value::<Boudot2000RangeProof>(w).is_err(), "missing {leaf}");
        let mut w = v.clone();
        *w.pointer_mut(leaf).unwrap() = Value::Null;
        assert!(serde_json::from_value::<Boudot2000RangeProof>(w).is_err(), "null {leaf}");
        let mut w = v.clone();
        *w.pointer_mut(leaf).unwrap() = Value::Array(vec![]);
        assert!(serde_json::from_value::<Boudot2000RangeProof>(w).is_err(), "[] {leaf}");
    }
    for s in ["", "{}", "[]", "null", "{\"E\":1}", "\"Boudot2000\""] {
        assert!(serde_json::from_str::<Boudot2000RangeProof>(s).is_err(), "{s:?}");
    }
}

#[test]
fn zkpok_end_to_end_cl1024() {
    type S = CL03_CL1024_SHA256;
    type CS = <S as Scheme>::Ciphersuite;
    let msgs = [
        "9872ad089e452c7b6e283dfac2a80d58e8d0ff71cc4d5e310a1debdda4a45f02",
        "9872ad089e452c7b6e283dfac2a80d58e8d0ff71cc4d5e310a1debdda4a45f03",
        "9872ad089e452c7b6e283dfac2a80d58e8d0ff71cc4d5e310a1debdda4a45f04",
    ];
    let keypair = KeyPair::<CL03<CS>>::generate();
    let a_bases = Bases::generate(keypair.public_key(), msgs.len());
    let messages: Vec<CL03Message> = msgs
        .iter()
        .map(|m| CL03Message::map_message_to_integer_as_hash::<CS>(&hex::decode(m).unwrap()))
        .collect();
    let mut wrong_messages = messages.clone();
    wrong_messages[0] = CL03Message::map_message_to_integer_as_hash::<CS>(b"something else");

    for unrevealed in [&[0usize][..], &[0, 2][..], &[0, 1, 2][..], &[2][..]] {
        let commitment = Commitment::<CL03<CS>>::commit_with_pk(&messages, keypair.public_key(), &a_bases, Some(unrevealed));
        let zkpok = ZKPoK::<CL03<CS>>::generate_proof(
            &messages,
            commitment.cl03Commitment(),
            None,
            keypair.public_key(),
            &a_bases,
            None,
            unrevealed,
        );
        assert!(zkpok.verify_proof(commitment.cl03Commitment(), None, keypair.public_key(), &a_bases, None, unrevealed));
        let wrong = Commitment::<CL03<CS>>::commit_with_pk(&wrong_messages, keypair.public_key(), &a_bases, Some(unrevealed));
        assert!(!zkpok.verify_proof(wrong.cl03Commitment(), None, keypair.public_key(), &a_bases, None, unrevealed));
    }
}
