// Behavioural pins for the decoders and value checks of the BBS layer (public API only).
//
// Every expectation below holds on the unmodified crate; the refactorings of
// src/bbsplus/keys.rs, src/bbsplus/signature.rs, src/utils/util.rs and src/schemes/generics.rs
// must keep every one of them.

#![allow(non_snake_case)]

use bls12_381_plus::{G1Affine, G1Projective, G2Affine, G2Projective, Scalar};
use elliptic_curve::group::Curve;
use elliptic_curve::hash2curve::ExpandMsg;
use std::marker::PhantomData;
use std::panic::{catch_unwind, AssertUnwindSafe};
use zkryptium::{
    bbsplus::{
        ciphersuites::{BbsCiphersuite, Bls12381Sha256, Bls12381Shake256},
        commitment::BBSplusCommitment,
        keys::{BBSplusPublicKey, BBSplusSecretKey},
        proof::BBSplusPoKSignature,
        signature::BBSplusSignature,
    },
    errors::Error,
    keys::{
        pair::KeyPair,
        traits::{PrivateKey, PublicKey},
    },
    schemes::{
        algorithms::BBSplus,
        generics::{BlindSignature, Commitment, PoKSignature, Signature},
    },
    utils::util::bbsplus_utils::{get_messages_vec, ScalarExt},
};

// ---------------------------------------------------------------------------------------------
// fixtures (draft-irtf-cfrg-bbs-signatures, BLS12-381-SHA-256)
// ---------------------------------------------------------------------------------------------

const IKM: &str = "746869732d49532d6a7573742d616e2d546573742d494b4d2d746f2d67656e65726174652d246528724074232d6b6579";
const KEY_INFO: &str = "746869732d49532d736f6d652d6b65792d6d657461646174612d746f2d62652d757365642d696e2d746573742d6b65792d67656e";
const KEY_DST_SHA: &str = "4242535f424c53313233383147315f584d443a5348412d3235365f535357555f524f5f4832475f484d32535f4b455947454e5f4453545f";
const SK_SHA: &str = "60e55110f76883a13d030b2f6bd11883422d5abde717569fc0731f51237169fc";
const PK_SHA: &str = "a820f230f6ae38503b86c70dc50b61c58a77e45c39ab25c0652bbaa8fa136f2851bd4781c9dcde39fc9d1d52c9e60268061e7d7632171d91aa8d460acee0e96f1e7c4cfb12d3ff9ab5d5dc91c277db75c845d649ef3c4f63aebc364cd55ded0c";
const HEADER: &str = "11223344556677889900aabbccddeeff";
const MSGS10: [&str; 10] = [
    "9872ad089e452c7b6e283dfac2a80d58e8d0ff71cc4d5e310a1debdda4a45f02",
    "c344136d9ab02da4dd5908bbba913ae6f58c2cc844b802a6f811f5fb075f9b80",
    "7372e9daa5ed31e6cd5c825eac1b855e84476a1d94932aa348e07b73",
    "77fe97eb97a1ebe2e81e4e3597a3ee740a66e9ef2412472c",
    "496694774c5604ab1b2544eababcf0f53278ff50",
    "515ae153e22aae04ad16f759e07237b4",
    "d183ddc6e2665aa4e2f088af",
    "ac55fb33a75909ed",
    "96012096",
    "",
];
const SIG10_SHA: &str = "8339b285a4acd89dec7777c09543a43e3cc60684b0a6f8ab335da4825c96e1463e28f8c5f4fd0641d19cec5920d3a8ff4bedb6c9691454597bbd298288abed3632078557b2ace7d44caed846e1a0a1e8";

/// r, the order of the scalar field, big endian
const R_BE: &str = "73eda753299d7d483339d80809a1d80553bda402fffe5bfeffffffff00000001";
/// r - 1
const R_MINUS_1_BE: &str = "73eda753299d7d483339d80809a1d80553bda402fffe5bfeffffffff00000000";

type Sha = BBSplus<Bls12381Sha256>;
type Shake = BBSplus<Bls12381Shake256>;

fn h(s: &str) -> Vec<u8> {
    hex::decode(s).unwrap()
}

fn msgs(n: usize) -> Vec<Vec<u8>> {
    MSGS10.iter().take(n).map(|m| h(m)).collect()
}

fn sha_keys() -> (BBSplusSecretKey, BBSplusPublicKey) {
    (
        BBSplusSecretKey::from_bytes(&h(SK_SHA)).unwrap(),
        BBSplusPublicKey::from_bytes(&h(PK_SHA)).unwrap(),
    )
}

fn g1_identity_compressed() -> [u8; 48] {
    let mut b = [0u8; 48];
    b[0] = 0xc0;
    b
}

fn g2_identity_compressed() -> [u8; 96] {
    let mut b = [0u8; 96];
    b[0] = 0xc0;
    b
}

/// A point of E'(Fp2) that is on the curve and outside the subgroup of order r (compressed form).
fn g2_on_curve_not_in_subgroup() -> [u8; 96] {
    for i in 1u8..=255 {
        let mut b = [0u8; 96];
        b[0] = 0x80;
        b[95] = i;
        let p = G2Affine::from_compressed_unchecked(&b);
        if bool::from(p.is_some()) {
            let p = p.unwrap();
            if bool::from(p.is_on_curve()) && !bool::from(p.is_torsion_free()) {
                return b;
            }
        }
    }
    panic!("no such point among the candidates");
}

/// A point of E(Fp) that is on the curve and outside the subgroup of order r (compressed form).
fn g1_on_curve_not_in_subgroup() -> [u8; 48] {
    for i in 1u8..=255 {
        let mut b = [0u8; 48];
        b[0] = 0x80;
        b[47] = i;
        let p = G1Affine::from_compressed_unchecked(&b);
        if bool::from(p.is_some()) {
            let p = p.unwrap();
            if bool::from(p.is_on_curve()) && !bool::from(p.is_torsion_free()) {
                return b;
            }
        }
    }
    panic!("no such point among the candidates");
}

// ---------------------------------------------------------------------------------------------
// keys
// ---------------------------------------------------------------------------------------------

#[test]
fn keygen_matches_fixture_and_round_trips() {
    let kp = KeyPair::<Sha>::generate(&h(IKM), Some(&h(KEY_INFO)), Some(&h(KEY_DST_SHA))).unwrap();
    assert_eq!(kp.private_key().encode(), SK_SHA);
    assert_eq!(kp.public_key().encode(), PK_SHA);
    assert_eq!(hex::encode(PrivateKey::to_bytes(kp.private_key())), SK_SHA);
    assert_eq!(hex::encode(PublicKey::to_bytes(kp.public_key())), PK_SHA);
    assert_eq!(PrivateKey::encode(kp.private_key()), SK_SHA);
    assert_eq!(PublicKey::encode(kp.public_key()), PK_SHA);
    assert_eq!(kp.private_key().public_key(), *kp.public_key());

    let (sk, pk) = sha_keys();
    assert_eq!(sk, *kp.private_key());
    assert_eq!(pk, *kp.public_key());
    assert_eq!(sk.to_bytes().to_vec(), h(SK_SHA));
    assert_eq!(pk.to_bytes().to_vec(), h(PK_SHA));

    // key_info: None is the empty string; the default key_dst is API_ID || KEYGEN_DST_
    let a = KeyPair::<Sha>::generate(&h(IKM), None, None).unwrap();
    let b = KeyPair::<Sha>::generate(&h(IKM), Some(&[]), None).unwrap();
    let c = KeyPair::<Sha>::generate(&h(IKM), Some(&[]), Some(&h(KEY_DST_SHA))).unwrap();
    assert_eq!(a, b);
    assert_eq!(a, c);
    assert_eq!(
        a.private_key().encode(),
        KeyPair::<Sha>::generate(&h(IKM), None, None).unwrap().private_key().encode()
    );
    let d = KeyPair::<Shake>::generate(&h(IKM), None, None).unwrap();
    assert_ne!(a.private_key().encode(), d.private_key().encode());

    // key material shorter than 32 octets, key_info longer than 65535 octets
    assert!(matches!(
        KeyPair::<Sha>::generate(&[7u8; 31], None, None),
        Err(Error::KeyGenError(_))
    ));
    assert!(KeyPair::<Sha>::generate(&[7u8; 32], None, None).is_ok());
    assert!(matches!(
        KeyPair::<Sha>::generate(&[7u8; 32], Some(&vec![1u8; 65536]), None),
        Err(Error::KeyGenError(_))
    ));
    assert!(KeyPair::<Sha>::generate(&[7u8; 32], Some(&vec![1u8; 65535]), None).is_ok());
    assert!(matches!(
        KeyPair::<Sha>::generate(&[7u8; 32], None, Some(&[0u8; 256])),
        Err(Error::HashToScalarError)
    ));

    let r = KeyPair::<Shake>::random().unwrap();
    assert_eq!(r.private_key().public_key(), *r.public_key());
    assert_eq!(
        BBSplusPublicKey::from_bytes(&r.public_key().to_bytes()).unwrap(),
        *r.public_key()
    );
}

#[test]
fn public_key_from_bytes_refusals() {
    let good = h(PK_SHA);
    assert!(BBSplusPublicKey::from_bytes(&good).is_ok());

    // lengths
    for len in [0usize, 1, 47, 48, 95, 97, 192] {
        let mut v = good.clone();
        v.resize(len, 0);
        assert!(
            matches!(BBSplusPublicKey::from_bytes(&v), Err(Error::KeyDeserializationError)),
            "length {len}"
        );
    }
    let mut long = good.clone();
    long.extend_from_slice(&good);
    assert!(matches!(BBSplusPublicKey::from_bytes(&long), Err(Error::KeyDeserializationError)));

    // the identity
    assert!(matches!(
        BBSplusPublicKey::from_bytes(&g2_identity_compressed()),
        Err(Error::KeyDeserializationError)
    ));
    // identity flag with a non-zero tail, compression flag missing, all zero, all 0xff
    let mut b = g2_identity_compressed();
    b[95] = 1;
    assert!(matches!(BBSplusPublicKey::from_bytes(&b), Err(Error::KeyDeserializationError)));
    let mut b = good.clone();
    b[0] &= 0x7f;
    assert!(matches!(BBSplusPublicKey::from_bytes(&b), Err(Error::KeyDeserializationError)));
    assert!(matches!(BBSplusPublicKey::from_bytes(&[0u8; 96]), Err(Error::KeyDeserializationError)));
    assert!(matches!(BBSplusPublicKey::from_bytes(&[0xffu8; 96]), Err(Error::KeyDeserializationError)));
    // the other square root: a valid key, the negated point
    let mut b = good.clone();
    b[0] ^= 0x20;
    let neg = BBSplusPublicKey::from_bytes(&b).unwrap();
    assert_eq!(neg.0, -BBSplusPublicKey::from_bytes(&good).unwrap().0);
    assert_eq!(neg.to_bytes().to_vec(), b);
    // on the curve, outside the subgroup
    assert!(matches!(
        BBSplusPublicKey::from_bytes(&g2_on_curve_not_in_subgroup()),
        Err(Error::KeyDeserializationError)
    ));
    // every single-byte corruption decodes to a different key or is refused; it never panics
    for i in 0..96 {
        let mut b = good.clone();
        b[i] ^= 0x01;
        match BBSplusPublicKey::from_bytes(&b) {
            Ok(pk) => assert_eq!(pk.to_bytes().to_vec(), b),
            Err(e) => assert!(matches!(e, Error::KeyDeserializationError)),
        }
    }
    // the generator and small multiples
    for k in 1u64..5 {
        let p = G2Projective::GENERATOR * Scalar::from(k);
        let pk = BBSplusPublicKey::from_bytes(&p.to_affine().to_compressed()).unwrap();
        assert_eq!(pk.0, p);
    }
}

#[test]
fn public_key_coordinates() {
    let (_, pk) = sha_keys();
    let (x, y) = pk.to_coordinates();
    assert_eq!(x.len(), BBSplusPublicKey::COORDINATE_LEN);
    assert_eq!(BBSplusPublicKey::COORDINATE_LEN, 96);
    let unc = pk.0.to_affine().to_uncompressed();
    assert_eq!(&x[..], &unc[..96]);
    assert_eq!(&y[..], &unc[96..]);
    assert_eq!(BBSplusPublicKey::from_coordinates(&x, &y).unwrap(), pk);

    // swapped, zero, identity (uncompressed form: 0x40 then zeros), compression flag set
    assert!(matches!(
        BBSplusPublicKey::from_coordinates(&y, &x),
        Err(Error::KeyDeserializationError)
    ));
    assert!(matches!(
        BBSplusPublicKey::from_coordinates(&[0u8; 96], &[0u8; 96]),
        Err(Error::KeyDeserializationError)
    ));
    let mut idx = [0u8; 96];
    idx[0] = 0x40;
    assert!(matches!(
        BBSplusPublicKey::from_coordinates(&idx, &[0u8; 96]),
        Err(Error::KeyDeserializationError)
    ));
    let mut cx = x;
    cx[0] |= 0x80;
    assert!(matches!(
        BBSplusPublicKey::from_coordinates(&cx, &y),
        Err(Error::KeyDeserializationError)
    ));
    // y of the negated point: a valid key
    let neg = BBSplusPublicKey(-pk.0);
    let (nx, ny) = neg.to_coordinates();
    assert_eq!(nx, x);
    assert_ne!(ny, y);
    assert_eq!(BBSplusPublicKey::from_coordinates(&nx, &ny).unwrap(), neg);
    // a corrupted y
    let mut by = y;
    by[95] ^= 1;
    assert!(matches!(
        BBSplusPublicKey::from_coordinates(&x, &by),
        Err(Error::KeyDeserializationError)
    ));
    // on the curve, outside the subgroup
    let off = G2Affine::from_compressed_unchecked(&g2_on_curve_not_in_subgroup()).unwrap();
    let unc = off.to_uncompressed();
    let ox: [u8; 96] = unc[..96].try_into().unwrap();
    let oy: [u8; 96] = unc[96..].try_into().unwrap();
    assert!(matches!(
        BBSplusPublicKey::from_coordinates(&ox, &oy),
        Err(Error::KeyDeserializationError)
    ));
    // the identity as a value: to_coordinates does not panic
    let (ix, iy) = BBSplusPublicKey(G2Projective::IDENTITY).to_coordinates();
    assert_eq!(ix, idx);
    assert_eq!(iy, [0u8; 96]);
}

#[test]
fn secret_key_from_bytes_refusals() {
    assert!(BBSplusSecretKey::from_bytes(&h(SK_SHA)).is_ok());
    for len in [0usize, 1, 31, 33, 64] {
        let mut v = h(SK_SHA);
        v.resize(len, 1);
        assert!(
            matches!(BBSplusSecretKey::from_bytes(&v), Err(Error::KeyDeserializationError)),
            "length {len}"
        );
    }
    assert!(matches!(BBSplusSecretKey::from_bytes(&[0u8; 32]), Err(Error::KeyDeserializationError)));
    assert!(matches!(BBSplusSecretKey::from_bytes(&h(R_BE)), Err(Error::KeyDeserializationError)));
    assert!(matches!(BBSplusSecretKey::from_bytes(&[0xffu8; 32]), Err(Error::KeyDeserializationError)));
    let top = BBSplusSecretKey::from_bytes(&h(R_MINUS_1_BE)).unwrap();
    assert_eq!(top.0, -Scalar::ONE);
    assert_eq!(top.to_bytes().to_vec(), h(R_MINUS_1_BE));
    let mut one = [0u8; 32];
    one[31] = 1;
    let one = BBSplusSecretKey::from_bytes(&one).unwrap();
    assert_eq!(one.0, Scalar::ONE);
    assert_eq!(one.public_key().0, G2Projective::GENERATOR);
    // little endian input is not accepted as such
    let mut le = h(SK_SHA);
    le.reverse();
    match BBSplusSecretKey::from_bytes(&le) {
        Ok(sk) => assert_eq!(sk.to_bytes().to_vec(), le),
        Err(e) => assert!(matches!(e, Error::KeyDeserializationError)),
    }
}

#[test]
fn scalar_ext_from_bytes_be() {
    assert_eq!(Scalar::from_bytes_be(&[0u8; 32]).unwrap(), Scalar::ZERO);
    assert_eq!(Scalar::from_bytes_be(&h(R_MINUS_1_BE)).unwrap(), -Scalar::ONE);
    assert!(matches!(Scalar::from_bytes_be(&h(R_BE)), Err(Error::DeserializationError(_))));
    assert!(matches!(Scalar::from_bytes_be(&[0xff; 32]), Err(Error::DeserializationError(_))));
    for len in [0usize, 31, 33, 48] {
        assert!(matches!(
            Scalar::from_bytes_be(&vec![0u8; len]),
            Err(Error::DeserializationError(_))
        ));
    }
    let s = Scalar::from_bytes_be(&h(SK_SHA)).unwrap();
    assert_eq!(ScalarExt::to_bytes_be(&s).to_vec(), h(SK_SHA));
    assert_eq!(ScalarExt::encode(&s), SK_SHA);
}

#[test]
fn keys_serde() {
    let (sk, pk) = sha_keys();
    let pk_json = serde_json::to_string(&pk).unwrap();
    let sk_json = serde_json::to_string(&sk).unwrap();
    assert_eq!(serde_json::from_str::<BBSplusPublicKey>(&pk_json).unwrap(), pk);
    assert_eq!(serde_json::from_str::<BBSplusSecretKey>(&sk_json).unwrap(), sk);
    // the representation is the one of the wrapped value
    assert_eq!(pk_json, serde_json::to_string(&pk.0).unwrap());
    assert_eq!(sk_json, serde_json::to_string(&sk.0).unwrap());

    let id_json = serde_json::to_string(&BBSplusPublicKey(G2Projective::IDENTITY)).unwrap();
    assert!(serde_json::from_str::<G2Projective>(&id_json).is_ok());
    assert!(serde_json::from_str::<BBSplusPublicKey>(&id_json).is_err());
    let zero_json = serde_json::to_string(&BBSplusSecretKey(Scalar::ZERO)).unwrap();
    assert!(serde_json::from_str::<Scalar>(&zero_json).is_ok());
    assert!(serde_json::from_str::<BBSplusSecretKey>(&zero_json).is_err());
    // malformed
    for bad in ["null", "\"\"", "\"zz\"", "[]", "{}", "12", "\"00\""] {
        assert!(serde_json::from_str::<BBSplusPublicKey>(bad).is_err(), "{bad}");
        assert!(serde_json::from_str::<BBSplusSecretKey>(bad).is_err(), "{bad}");
    }
    // a G1 point is not a public key, a public key is not a secret key
    let g1_json = serde_json::to_string(&G1Projective::GENERATOR).unwrap();
    assert!(serde_json::from_str::<BBSplusPublicKey>(&g1_json).is_err());
    assert!(serde_json::from_str::<BBSplusSecretKey>(&pk_json).is_err());

    // the key pair
    let kp = KeyPair::<Sha>::generate(&h(IKM), Some(&h(KEY_INFO)), Some(&h(KEY_DST_SHA))).unwrap();
    let kp_json = serde_json::to_string(&kp).unwrap();
    assert_eq!(serde_json::from_str::<KeyPair<Sha>>(&kp_json).unwrap(), kp);
    let bad = kp_json.replace(&sk_json, &zero_json);
    assert_ne!(bad, kp_json);
    assert!(serde_json::from_str::<KeyPair<Sha>>(&bad).is_err());
    let bad = kp_json.replace(&pk_json, &id_json);
    assert_ne!(bad, kp_json);
    assert!(serde_json::from_str::<KeyPair<Sha>>(&bad).is_err());
}

// ---------------------------------------------------------------------------------------------
// signatures
// ---------------------------------------------------------------------------------------------

fn sign_verify_sizes<CS: BbsCiphersuite + std::fmt::Debug>()
where
    CS::Expander: for<'a> ExpandMsg<'a>,
{
    let kp = KeyPair::<BBSplus<CS>>::generate(&h(IKM), None, None).unwrap();
    let (sk, pk) = (kp.private_key(), kp.public_key());
    let header = h(HEADER);
    let mut seen = Vec::new();
    for n in [0usize, 1, 2, 3, 5, 10] {
        let m = msgs(n);
        for hd in [None, Some(&header[..]), Some(&[][..])] {
            let s = Signature::<BBSplus<CS>>::sign(Some(&m), sk, pk, hd).unwrap();
            assert!(s.verify(pk, Some(&m), hd).is_ok());
            // deterministic
            let again = Signature::<BBSplus<CS>>::sign(Some(&m), sk, pk, hd).unwrap();
            assert_eq!(s.to_bytes(), again.to_bytes());
            // octets round trip
            let bytes = s.to_bytes();
            assert_eq!(bytes.len(), BBSplusSignature::BYTES);
            let back = Signature::<BBSplus<CS>>::from_bytes(&bytes).unwrap();
            assert_eq!(back, s);
            assert_eq!(back.a(), s.a());
            assert_eq!(back.e(), s.e());
            assert_eq!(back.bbsPlusSignature(), s.bbsPlusSignature());
            assert_eq!(&bytes[..48], &s.a().to_affine().to_compressed()[..]);
            assert_eq!(&bytes[48..], &s.e().to_be_bytes()[..]);
            assert_eq!(s.bbsPlusSignature().to_bytes(), bytes);
            // header None == header Some(empty)
            if hd.is_none() {
                let e = Signature::<BBSplus<CS>>::sign(Some(&m), sk, pk, Some(&[])).unwrap();
                assert_eq!(e.to_bytes(), bytes);
                assert!(s.verify(pk, Some(&m), Some(&[])).is_ok());
            } else if hd == Some(&header[..]) {
                assert!(matches!(
                    s.verify(pk, Some(&m), None),
                    Err(Error::SignatureVerificationError)
                ));
            }
            // one message more, one less, one changed
            let mut more = m.clone();
            more.push(vec![1, 2, 3]);
            assert!(matches!(
                s.verify(pk, Some(&more), hd),
                Err(Error::SignatureVerificationError)
            ));
            if n > 0 {
                assert!(matches!(
                    s.verify(pk, Some(&m[..n - 1]), hd),
                    Err(Error::SignatureVerificationError)
                ));
                let mut ch = m.clone();
                ch[n - 1].push(0);
                assert!(matches!(
                    s.verify(pk, Some(&ch), hd),
                    Err(Error::SignatureVerificationError)
                ));
            }
            // None == Some(empty) for the messages
            if n == 0 {
                let none = Signature::<BBSplus<CS>>::sign(None, sk, pk, hd).unwrap();
                assert_eq!(none.to_bytes(), bytes);
                assert!(s.verify(pk, None, hd).is_ok());
            } else {
                assert!(matches!(s.verify(pk, None, hd), Err(Error::SignatureVerificationError)));
            }
            // another key
            let other = BBSplusPublicKey(pk.0 + G2Projective::GENERATOR);
            assert!(matches!(
                s.verify(&other, Some(&m), hd),
                Err(Error::SignatureVerificationError)
            ));
            seen.push(bytes);
        }
    }
    // all distinct except header None / Some(empty)
    for (i, a) in seen.iter().enumerate() {
        for (j, b) in seen.iter().enumerate() {
            if i < j {
                let same_group = i / 3 == j / 3 && i % 3 != 1 && j % 3 != 1;
                assert_eq!(a == b, same_group, "{i} {j}");
            }
        }
    }
}

#[test]
fn sign_verify_sizes_sha256() {
    sign_verify_sizes::<Bls12381Sha256>();
}

#[test]
fn sign_verify_sizes_shake256() {
    sign_verify_sizes::<Bls12381Shake256>();
}

#[test]
fn signature_fixture() {
    let (sk, pk) = sha_keys();
    let m = msgs(10);
    let s = Signature::<Sha>::sign(Some(&m), &sk, &pk, Some(&h(HEADER))).unwrap();
    assert_eq!(hex::encode(s.to_bytes()), SIG10_SHA);
    let bytes: [u8; 80] = h(SIG10_SHA).try_into().unwrap();
    let d = Signature::<Sha>::from_bytes(&bytes).unwrap();
    assert!(d.verify(&pk, Some(&m), Some(&h(HEADER))).is_ok());
    let inner = BBSplusSignature::from_bytes(&bytes).unwrap();
    assert_eq!(&inner, d.bbsPlusSignature());
    assert_eq!(inner.to_bytes(), bytes);
    // the blind wrapper decodes the same octets
    let b = BlindSignature::<Sha>::from_bytes(&bytes).unwrap();
    assert_eq!(b.A(), inner.A);
    assert_eq!(b.e(), inner.e);
    assert_eq!(b.to_bytes(), bytes);
}

#[test]
fn signature_from_bytes_refusals() {
    let good: [u8; 80] = h(SIG10_SHA).try_into().unwrap();

    let set = |range: std::ops::Range<usize>, v: &[u8]| {
        let mut b = good;
        b[range].copy_from_slice(v);
        b
    };
    let refused = |b: &[u8; 80]| {
        matches!(BBSplusSignature::from_bytes(b), Err(Error::InvalidSignature))
            && matches!(Signature::<Sha>::from_bytes(b), Err(Error::InvalidSignature))
            && matches!(Signature::<Shake>::from_bytes(b), Err(Error::InvalidSignature))
            && matches!(BlindSignature::<Sha>::from_bytes(b), Err(Error::InvalidSignature))
    };

    assert!(!refused(&good));
    // A: identity, identity with e = 0, garbage, flags, outside the subgroup
    assert!(refused(&set(0..48, &g1_identity_compressed())));
    let mut both = [0u8; 80];
    both[0] = 0xc0;
    assert!(refused(&both));
    assert!(refused(&[0u8; 80]));
    assert!(refused(&[0xffu8; 80]));
    assert!(refused(&set(0..48, &[0u8; 48])));
    assert!(refused(&set(0..48, &[0xffu8; 48])));
    let mut b = good;
    b[0] &= 0x7f;
    assert!(refused(&b));
    let mut b = g1_identity_compressed();
    b[47] = 1;
    assert!(refused(&set(0..48, &b)));
    assert!(refused(&set(0..48, &g1_on_curve_not_in_subgroup())));
    // the negated A decodes (and does not verify)
    let mut b = good;
    b[0] ^= 0x20;
    let neg = BBSplusSignature::from_bytes(&b).unwrap();
    assert_eq!(neg.A, -BBSplusSignature::from_bytes(&good).unwrap().A);
    assert_eq!(neg.to_bytes(), b);
    let (_, pk) = sha_keys();
    assert!(matches!(
        Signature::<Sha>::BBSplus(neg).verify(&pk, Some(&msgs(10)), Some(&h(HEADER))),
        Err(Error::SignatureVerificationError)
    ));
    // e: zero, r, r - 1, 2^256 - 1
    assert!(refused(&set(48..80, &[0u8; 32])));
    assert!(refused(&set(48..80, &h(R_BE))));
    assert!(refused(&set(48..80, &[0xffu8; 32])));
    let top = BBSplusSignature::from_bytes(&set(48..80, &h(R_MINUS_1_BE))).unwrap();
    assert_eq!(top.e, -Scalar::ONE);
    let mut one = [0u8; 32];
    one[31] = 1;
    assert_eq!(BBSplusSignature::from_bytes(&set(48..80, &one)).unwrap().e, Scalar::ONE);
    // single byte corruptions: refused or decoded to exactly these octets
    for i in 0..80 {
        let mut b = good;
        b[i] ^= 0x04;
        match BBSplusSignature::from_bytes(&b) {
            Ok(s) => assert_eq!(s.to_bytes(), b),
            Err(e) => assert!(matches!(e, Error::InvalidSignature)),
        }
    }
    // generator multiples with small e
    for k in 1u64..4 {
        let a = G1Projective::GENERATOR * Scalar::from(k);
        let s = BBSplusSignature { A: a, e: Scalar::from(k) };
        assert_eq!(BBSplusSignature::from_bytes(&s.to_bytes()).unwrap(), s);
    }
}

#[test]
fn verifier_refuses_degenerate_values() {
    let (sk, pk) = sha_keys();
    let header = h(HEADER);
    for n in [0usize, 1, 3] {
        let m = msgs(n);
        let s = Signature::<Sha>::sign(Some(&m), &sk, &pk, Some(&header)).unwrap();
        let inner = s.bbsPlusSignature().clone();

        let id_a = Signature::<Sha>::BBSplus(BBSplusSignature { A: G1Projective::IDENTITY, e: inner.e });
        assert!(matches!(
            id_a.verify(&pk, Some(&m), Some(&header)),
            Err(Error::SignatureVerificationError)
        ));
        let zero_e = Signature::<Sha>::BBSplus(BBSplusSignature { A: inner.A, e: Scalar::ZERO });
        assert!(matches!(
            zero_e.verify(&pk, Some(&m), Some(&header)),
            Err(Error::SignatureVerificationError)
        ));
        let both = Signature::<Sha>::BBSplus(BBSplusSignature { A: G1Projective::IDENTITY, e: Scalar::ZERO });
        assert!(matches!(
            both.verify(&pk, Some(&m), Some(&header)),
            Err(Error::SignatureVerificationError)
        ));
        let id_pk = BBSplusPublicKey(G2Projective::IDENTITY);
        assert!(matches!(
            s.verify(&id_pk, Some(&m), Some(&header)),
            Err(Error::SignatureVerificationError)
        ));
        assert!(matches!(
            id_a.verify(&id_pk, Some(&m), Some(&header)),
            Err(Error::SignatureVerificationError)
        ));
        // the identity key with the identity A would satisfy the pairing equation for any B
        assert!(matches!(
            id_a.verify(&id_pk, None, None),
            Err(Error::SignatureVerificationError)
        ));
        // e = 1 and a wrong A: plain failure
        let wrong = Signature::<Sha>::BBSplus(BBSplusSignature { A: inner.A, e: Scalar::ONE });
        assert!(matches!(
            wrong.verify(&pk, Some(&m), Some(&header)),
            Err(Error::SignatureVerificationError)
        ));
        // the same through the blind verifier (it shares core_verify)
        let b_id = BlindSignature::<Sha>::BBSplus(BBSplusSignature { A: G1Projective::IDENTITY, e: inner.e });
        assert!(matches!(
            b_id.verify_blind_sign(&pk, Some(&header), Some(&m), None, None),
            Err(Error::SignatureVerificationError)
        ));
        let b_zero = BlindSignature::<Sha>::BBSplus(BBSplusSignature { A: inner.A, e: Scalar::ZERO });
        assert!(matches!(
            b_zero.verify_blind_sign(&pk, Some(&header), Some(&m), None, None),
            Err(Error::SignatureVerificationError)
        ));
        let b = BlindSignature::<Sha>::BBSplus(inner.clone());
        assert!(matches!(
            b.verify_blind_sign(&id_pk, Some(&header), Some(&m), None, None),
            Err(Error::SignatureVerificationError)
        ));
    }

    // a signing key of zero (built through the public field): sign works or fails as on HEAD, never verifies under the identity key
    let zero_sk = BBSplusSecretKey(Scalar::ZERO);
    let id_pk = zero_sk.public_key();
    assert_eq!(id_pk.0, G2Projective::IDENTITY);
    if let Ok(s) = Signature::<Sha>::sign(Some(&msgs(2)), &zero_sk, &id_pk, None) {
        assert!(matches!(
            s.verify(&id_pk, Some(&msgs(2)), None),
            Err(Error::SignatureVerificationError)
        ));
    }
}

#[test]
fn unreachable_variant() {
    let (sk, pk) = sha_keys();
    let u = Signature::<Sha>::_Unreachable(PhantomData);
    assert!(matches!(u.verify(&pk, None, None), Err(Error::UnespectedError)));
    assert!(matches!(u.verify(&pk, Some(&msgs(2)), Some(&[1])), Err(Error::UnespectedError)));
    assert!(matches!(
        u.update_signature(&sk, b"a", b"b", 0, 1),
        Err(Error::UnespectedError)
    ));
    assert!(catch_unwind(AssertUnwindSafe(|| u.a())).is_err());
    assert!(catch_unwind(AssertUnwindSafe(|| u.e())).is_err());
    assert!(catch_unwind(AssertUnwindSafe(|| u.bbsPlusSignature().clone())).is_err());
    assert!(catch_unwind(AssertUnwindSafe(|| u.to_bytes())).is_err());
    let b = BlindSignature::<Sha>::_Unreachable(PhantomData);
    assert!(matches!(
        b.verify_blind_sign(&pk, None, None, None, None),
        Err(Error::UnespectedError)
    ));
}

#[test]
fn update_signature_cases() {
    let (sk, pk) = sha_keys();
    let header = h(HEADER);
    for n in [1usize, 2, 5] {
        let m = msgs(n);
        let s = Signature::<Sha>::sign(Some(&m), &sk, &pk, Some(&header)).unwrap();
        for idx in [0, n - 1] {
            let new = b"a new value".to_vec();
            let u = s.update_signature(&sk, &m[idx], &new, idx, n).unwrap();
            let mut m2 = m.clone();
            m2[idx] = new.clone();
            assert_eq!(u.e(), s.e());
            assert_ne!(u.a(), s.a());
            // the domain depends on the number of messages only: the updated signature verifies
            assert!(u.verify(&pk, Some(&m2), Some(&header)).is_ok());
            assert!(matches!(
                u.verify(&pk, Some(&m), Some(&header)),
                Err(Error::SignatureVerificationError)
            ));
            let direct = Signature::<Sha>::sign(Some(&m2), &sk, &pk, Some(&header)).unwrap();
            assert!(direct.verify(&pk, Some(&m2), Some(&header)).is_ok());
            // same value: the same signature
            let same = s.update_signature(&sk, &m[idx], &m[idx], idx, n).unwrap();
            assert_eq!(same.to_bytes(), s.to_bytes());
        }
        assert!(matches!(
            s.update_signature(&sk, &m[0], b"x", n, n),
            Err(Error::UpdateSignatureError(_))
        ));
        assert!(matches!(
            s.update_signature(&sk, &m[0], b"x", usize::MAX, n),
            Err(Error::UpdateSignatureError(_))
        ));
        assert!(matches!(
            s.update_signature(&sk, &m[0], b"x", 0, 0),
            Err(Error::UpdateSignatureError(_))
        ));
    }
}

#[test]
fn signature_serde() {
    let (sk, pk) = sha_keys();
    let m = msgs(3);
    let s = Signature::<Sha>::sign(Some(&m), &sk, &pk, None).unwrap();
    let inner = s.bbsPlusSignature().clone();
    let json = serde_json::to_string(&s).unwrap();
    let inner_json = serde_json::to_string(&inner).unwrap();
    assert_eq!(json, format!("{{\"BBSplus\":{inner_json}}}"));
    let a_json = serde_json::to_string(&inner.A).unwrap();
    let e_json = serde_json::to_string(&inner.e).unwrap();
    assert_eq!(inner_json, format!("{{\"A\":{a_json},\"e\":{e_json}}}"));
    assert_eq!(serde_json::from_str::<Signature<Sha>>(&json).unwrap(), s);
    assert_eq!(serde_json::from_str::<BBSplusSignature>(&inner_json).unwrap(), inner);
    // the same text is a blind signature, and a signature of the other suite
    let b = serde_json::from_str::<BlindSignature<Sha>>(&json).unwrap();
    assert_eq!(b.bbsPlusBlindSignature(), &inner);
    assert_eq!(serde_json::to_string(&b).unwrap(), json);
    assert!(serde_json::from_str::<Signature<Shake>>(&json).is_ok());

    let id_json = serde_json::to_string(&G1Projective::IDENTITY).unwrap();
    let zero_json = serde_json::to_string(&Scalar::ZERO).unwrap();
    let with = |a: &str, e: &str| format!("{{\"BBSplus\":{{\"A\":{a},\"e\":{e}}}}}");
    assert!(serde_json::from_str::<Signature<Sha>>(&with(&a_json, &e_json)).is_ok());
    for bad in [
        with(&id_json, &e_json),
        with(&a_json, &zero_json),
        with(&id_json, &zero_json),
        with(&e_json, &a_json),
        with("null", &e_json),
        with(&a_json, "null"),
        format!("{{\"BBSplus\":{{\"A\":{a_json}}}}}"),
        format!("{{\"BBSplus\":{{\"e\":{e_json}}}}}"),
        format!("{{\"BBSplus\":{{\"A\":{a_json},\"A\":{a_json},\"e\":{e_json}}}}}"),
        "{\"BBSplus\":{}}".to_owned(),
        "{\"BBSplus\":null}".to_owned(),
        "{\"_Unreachable\":null}".to_owned(),
        "\"_Unreachable\"".to_owned(),
        "{\"_Unreachable\":[]}".to_owned(),
        format!("{{\"CL03\":{inner_json}}}"),
        format!("{{\"bbsplus\":{inner_json}}}"),
        "\"BBSplus\"".to_owned(),
        "{}".to_owned(),
        "null".to_owned(),
        "[]".to_owned(),
    ] {
        assert!(serde_json::from_str::<Signature<Sha>>(&bad).is_err(), "{bad}");
        assert!(serde_json::from_str::<BlindSignature<Sha>>(&bad).is_err(), "{bad}");
    }
    // unknown fields are ignored as before, the sequence form is accepted as before
    let extra = format!("{{\"BBSplus\":{{\"A\":{a_json},\"e\":{e_json},\"x\":1}}}}");
    assert_eq!(
        serde_json::from_str::<Signature<Sha>>(&extra).is_ok(),
        serde_json::from_str::<BBSplusSignature>(&format!("{{\"A\":{a_json},\"e\":{e_json},\"x\":1}}")).is_ok()
    );
    let seq = format!("[{a_json},{e_json}]");
    assert_eq!(serde_json::from_str::<BBSplusSignature>(&seq).unwrap(), inner);
    assert!(serde_json::from_str::<BBSplusSignature>(&format!("[{id_json},{e_json}]")).is_err());
    assert!(serde_json::from_str::<BBSplusSignature>(&format!("[{a_json},{zero_json}]")).is_err());
    assert!(serde_json::from_str::<BBSplusSignature>(&format!("[{a_json}]")).is_err());

    // the unreachable variant cannot be written either
    assert!(serde_json::to_string(&Signature::<Sha>::_Unreachable(PhantomData)).is_err());
    assert!(serde_json::to_string(&BlindSignature::<Sha>::_Unreachable(PhantomData)).is_err());
    assert!(serde_json::to_string(&PoKSignature::<Sha>::_Unreachable(PhantomData)).is_err());
    assert!(serde_json::to_string(&Commitment::<Sha>::_Unreachable(PhantomData)).is_err());
}

// ---------------------------------------------------------------------------------------------
// proofs and commitments (users of parse_g1_projective, ScalarExt::from_bytes_be and checked_serde)
// ---------------------------------------------------------------------------------------------

#[test]
fn proof_octets_and_serde() {
    let (sk, pk) = sha_keys();
    let header = h(HEADER);
    let ph = b"presentation".to_vec();
    for (n, disclosed) in [
        (0usize, vec![]),
        (1, vec![]),
        (1, vec![0]),
        (3, vec![0, 2]),
        (5, vec![4]),
        (5, vec![0, 1, 2, 3, 4]),
    ] {
        let m = msgs(n);
        let s = Signature::<Sha>::sign(Some(&m), &sk, &pk, Some(&header)).unwrap();
        let proof = PoKSignature::<Sha>::proof_gen(
            &pk,
            &s.to_bytes(),
            Some(&header),
            Some(&ph),
            Some(&m),
            Some(&disclosed),
        )
        .unwrap();
        let dm = get_messages_vec(&m, &disclosed);
        assert!(proof
            .proof_verify(&pk, Some(&dm), Some(&disclosed), Some(&header), Some(&ph))
            .is_ok());
        assert!(proof
            .proof_verify(&pk, Some(&dm), Some(&disclosed), Some(&header), None)
            .is_err());
        assert!(proof
            .proof_verify(&BBSplusPublicKey(G2Projective::IDENTITY), Some(&dm), Some(&disclosed), Some(&header), Some(&ph))
            .is_err());

        let bytes = proof.to_bytes();
        assert_eq!(bytes.len(), 272 + 32 * (n - disclosed.len()));
        let back = PoKSignature::<Sha>::from_bytes(&bytes).unwrap();
        assert_eq!(back, proof);
        assert_eq!(back.to_bytes(), bytes);

        // malformed octets
        let bad = |b: &[u8]| {
            matches!(
                PoKSignature::<Sha>::from_bytes(b),
                Err(Error::InvalidProofOfKnowledgeSignature)
            ) && matches!(
                BBSplusPoKSignature::from_bytes(b),
                Err(Error::InvalidProofOfKnowledgeSignature)
            )
        };
        assert!(bad(&[]));
        assert!(bad(&bytes[..bytes.len() - 1]));
        assert!(bad(&bytes[..271]));
        let mut longer = bytes.clone();
        longer.push(0);
        assert!(bad(&longer));
        for p in 0..3 {
            let mut b = bytes.clone();
            b[p * 48..(p + 1) * 48].copy_from_slice(&g1_identity_compressed());
            assert!(bad(&b), "identity point {p}");
            let mut b = bytes.clone();
            b[p * 48..(p + 1) * 48].copy_from_slice(&g1_on_curve_not_in_subgroup());
            assert!(bad(&b), "off-subgroup point {p}");
            let mut b = bytes.clone();
            b[p * 48] &= 0x7f;
            assert!(bad(&b), "flag of point {p}");
        }
        let scalars = (bytes.len() - 144) / 32;
        for k in 0..scalars {
            let at = 144 + 32 * k;
            let mut b = bytes.clone();
            b[at..at + 32].copy_from_slice(&[0u8; 32]);
            assert!(bad(&b), "zero scalar {k}");
            let mut b = bytes.clone();
            b[at..at + 32].copy_from_slice(&h(R_BE));
            assert!(bad(&b), "scalar r {k}");
            let mut b = bytes.clone();
            b[at..at + 32].copy_from_slice(&h(R_MINUS_1_BE));
            let d = PoKSignature::<Sha>::from_bytes(&b).unwrap();
            assert_eq!(d.to_bytes(), b);
            assert!(d
                .proof_verify(&pk, Some(&dm), Some(&disclosed), Some(&header), Some(&ph))
                .is_err());
        }

        // serde
        let json = serde_json::to_string(&proof).unwrap();
        assert_eq!(serde_json::from_str::<PoKSignature<Sha>>(&json).unwrap(), proof);
        let v: serde_json::Value = serde_json::from_str(&json).unwrap();
        let id = serde_json::to_value(G1Projective::IDENTITY).unwrap();
        let zero = serde_json::to_value(Scalar::ZERO).unwrap();
        for f in ["Abar", "Bbar", "D"] {
            let mut w = v.clone();
            w["BBSplus"][f] = id.clone();
            assert!(serde_json::from_value::<PoKSignature<Sha>>(w).is_err(), "{f}");
        }
        for f in ["e_cap", "r1_cap", "r3_cap", "challenge"] {
            let mut w = v.clone();
            w["BBSplus"][f] = zero.clone();
            assert!(serde_json::from_value::<PoKSignature<Sha>>(w).is_err(), "{f}");
            let mut w = v.clone();
            w["BBSplus"][f] = serde_json::to_value(Scalar::ONE).unwrap();
            assert!(serde_json::from_value::<PoKSignature<Sha>>(w).is_ok(), "{f}");
        }
        let undisclosed = n - disclosed.len();
        assert_eq!(v["BBSplus"]["m_cap"].as_array().unwrap().len(), undisclosed);
        for k in 0..undisclosed {
            let mut w = v.clone();
            w["BBSplus"]["m_cap"][k] = zero.clone();
            assert!(serde_json::from_value::<PoKSignature<Sha>>(w).is_err(), "m_cap {k}");
        }
        let mut w = v.clone();
        w["BBSplus"]["m_cap"].as_array_mut().unwrap().push(zero.clone());
        assert!(serde_json::from_value::<PoKSignature<Sha>>(w).is_err());
        let mut w = v.clone();
        w["BBSplus"]["m_cap"]
            .as_array_mut()
            .unwrap()
            .push(serde_json::to_value(Scalar::ONE).unwrap());
        assert!(serde_json::from_value::<PoKSignature<Sha>>(w).is_ok());
        let mut w = v.clone();
        w["BBSplus"]["m_cap"] = serde_json::Value::Null;
        assert!(serde_json::from_value::<PoKSignature<Sha>>(w).is_err());
    }

    // proof_gen decodes the signature octets
    let m = msgs(2);
    for bad in [vec![], vec![0u8; 79], vec![0u8; 80], vec![0u8; 81]] {
        assert!(matches!(
            PoKSignature::<Sha>::proof_gen(&pk, &bad, None, None, Some(&m), None),
            Err(Error::InvalidSignature)
        ));
    }
    let mut id_sig = h(SIG10_SHA);
    id_sig[..48].copy_from_slice(&g1_identity_compressed());
    assert!(matches!(
        PoKSignature::<Sha>::proof_gen(&pk, &id_sig, None, None, Some(&m), None),
        Err(Error::InvalidSignature)
    ));
    let mut zero_e = h(SIG10_SHA);
    zero_e[48..].copy_from_slice(&[0u8; 32]);
    assert!(matches!(
        PoKSignature::<Sha>::proof_gen(&pk, &zero_e, None, None, Some(&m), None),
        Err(Error::InvalidSignature)
    ));
}

#[test]
fn commitment_octets_and_blind_signature() {
    let (sk, pk) = sha_keys();
    let header = h(HEADER);
    for c in [0usize, 1, 2] {
        let committed = msgs(c);
        let (commitment, blind) = Commitment::<Sha>::commit(Some(&committed)).unwrap();
        let bytes = commitment.to_bytes();
        assert_eq!(bytes.len(), 48 + 32 * (c + 2));
        assert_eq!(Commitment::<Sha>::from_bytes(&bytes).unwrap(), commitment);
        assert_eq!(BBSplusCommitment::from_bytes(&bytes).unwrap().to_bytes(), bytes);

        // malformed commitment octets
        assert!(matches!(Commitment::<Sha>::from_bytes(&[]), Err(Error::InvalidCommitment)));
        assert!(matches!(Commitment::<Sha>::from_bytes(&bytes[..47]), Err(Error::InvalidCommitment)));
        let mut b = bytes.clone();
        b[0] &= 0x7f;
        assert!(matches!(Commitment::<Sha>::from_bytes(&b), Err(Error::InvalidCommitment)));
        let mut b = bytes.clone();
        b[..48].copy_from_slice(&g1_on_curve_not_in_subgroup());
        assert!(matches!(Commitment::<Sha>::from_bytes(&b), Err(Error::InvalidCommitment)));
        let mut b = bytes.clone();
        b[48..80].copy_from_slice(&h(R_BE));
        assert!(matches!(Commitment::<Sha>::from_bytes(&b), Err(Error::InvalidCommitmentProof)));
        assert!(matches!(
            Commitment::<Sha>::from_bytes(&bytes[..bytes.len() - 1]),
            Err(Error::InvalidCommitmentProof)
        ));
        // the identity commitment: decoded or refused exactly as before (pinned: see the assertion)
        let mut b = bytes.clone();
        b[..48].copy_from_slice(&g1_identity_compressed());
        let id_res = Commitment::<Sha>::from_bytes(&b);
        assert_eq!(id_res.is_ok(), ID_COMMITMENT_DECODES, "identity commitment");

        for n in [0usize, 2] {
            let m = msgs(n);
            let bs = BlindSignature::<Sha>::blind_sign(&sk, &pk, Some(&bytes), Some(&header), Some(&m)).unwrap();
            assert!(bs
                .verify_blind_sign(&pk, Some(&header), Some(&m), Some(&committed), Some(&blind))
                .is_ok());
            assert!(matches!(
                bs.verify_blind_sign(&pk, None, Some(&m), Some(&committed), Some(&blind)),
                Err(Error::SignatureVerificationError)
            ));
            let back = BlindSignature::<Sha>::from_bytes(&bs.to_bytes()).unwrap();
            assert_eq!(back, bs);
            let json = serde_json::to_string(&bs).unwrap();
            assert_eq!(serde_json::from_str::<BlindSignature<Sha>>(&json).unwrap(), bs);
        }
    }
    // no commitment at all
    let m = msgs(2);
    let bs = BlindSignature::<Sha>::blind_sign(&sk, &pk, None, None, Some(&m)).unwrap();
    assert!(bs.verify_blind_sign(&pk, None, Some(&m), None, None).is_ok());
    assert!(bs.verify_blind_sign(&pk, None, Some(&m), Some(&[]), None).is_ok());
}

/// Observed on the unmodified crate.
const ID_COMMITMENT_DECODES: bool = true;
