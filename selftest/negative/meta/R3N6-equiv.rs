#![cfg(feature = "cl03")]
#![allow(non_snake_case)]

// Behavioural pins for CL03 signing / verification / blind issuance / key and commitment handling.
// Public API only. All assertions are on deterministic facts (algebraic relations, byte layouts,
// accept / reject / panic outcomes), never on the random values themselves.

use rug::{integer::IsPrime, integer::Order, ops::Pow, Integer};
use std::panic::{catch_unwind, AssertUnwindSafe};
use std::sync::OnceLock;
use zkryptium::cl03::bases::Bases;
use zkryptium::cl03::ciphersuites::{CL1024Sha256, CLCiphersuite};
use zkryptium::cl03::commitment::CL03Commitment;
use zkryptium::cl03::keys::{CL03CommitmentPublicKey, CL03PublicKey, CL03SecretKey};
use zkryptium::keys::pair::KeyPair;
use zkryptium::schemes::algorithms::{CL03, CL03_CL1024_SHA256};
use zkryptium::schemes::generics::{BlindSignature, Commitment, Signature, ZKPoK};
use zkryptium::utils::message::cl03_message::CL03Message;
use zkryptium::utils::random::{rand_int, random_bits, random_number, random_prime, random_qr};

type CS = CL1024Sha256;
type S = CL03<CS>;

const LE: u32 = <CS as CLCiphersuite>::le;
const LS: u32 = <CS as CLCiphersuite>::ls;
const LN: u32 = <CS as CLCiphersuite>::ln;
const LM: u32 = <CS as CLCiphersuite>::lm;
const SECPARAM: u32 = <CS as CLCiphersuite>::SECPARAM;

fn keypair() -> &'static KeyPair<S> {
    static KP: OnceLock<KeyPair<S>> = OnceLock::new();
    KP.get_or_init(|| KeyPair::<S>::generate())
}

fn panics<T>(f: impl FnOnce() -> T) -> bool {
    catch_unwind(AssertUnwindSafe(f)).is_err()
}

fn msgs(n: usize) -> Vec<CL03Message> {
    (0..n)
        .map(|i| CL03Message::map_message_to_integer_as_hash::<CS>(&[i as u8, 0x5a, 0x17]))
        .collect()
}

fn powm(b: &Integer, e: &Integer, n: &Integer) -> Integer {
    Integer::from(b.pow_mod_ref(e, n).unwrap())
}

fn two_pow(k: u32) -> Integer {
    Integer::from(2).pow(k)
}

fn is_qr_like(x: &Integer, n: &Integer) -> bool {
    *x > 1 && *x < *n && Integer::from(x.gcd_ref(n)) == 1
}

/// v^e == prod a_i^m_i * b^s * c (mod N)
fn equation_holds(
    pk: &CL03PublicKey,
    bases: &[Integer],
    ms: &[CL03Message],
    e: &Integer,
    s: &Integer,
    v: &Integer,
) -> bool {
    let lhs = powm(v, e, &pk.N);
    let mut rhs = Integer::from(1);
    for (a, m) in bases.iter().zip(ms) {
        rhs = rhs * powm(a, &m.value, &pk.N) % &pk.N;
    }
    rhs = rhs * powm(&pk.b, s, &pk.N) % &pk.N * &pk.c % &pk.N;
    lhs == rhs
}

fn sig_parts(sig: &Signature<S>) -> (Integer, Integer, Integer) {
    let bytes = sig.to_bytes();
    let le = LE as usize;
    let ls = LS as usize;
    (
        Integer::from_digits(&bytes[..le], Order::MsfBe),
        Integer::from_digits(&bytes[le..le + ls], Order::MsfBe),
        Integer::from_digits(&bytes[le + ls..], Order::MsfBe),
    )
}

fn sig_from_parts(e: &Integer, s: &Integer, v: &Integer) -> Signature<S> {
    let mut e_d = vec![0u8; LE as usize];
    let mut s_d = vec![0u8; LS as usize];
    e.write_digits(&mut e_d, Order::MsfBe);
    s.write_digits(&mut s_d, Order::MsfBe);
    let mut bytes = e_d;
    bytes.extend_from_slice(&s_d);
    bytes.extend_from_slice(&v.to_digits::<u8>(Order::MsfBe));
    Signature::<S>::from_bytes(&bytes)
}

// ---------------------------------------------------------------------------------------------
// utils::random
// ---------------------------------------------------------------------------------------------

#[test]
fn random_helpers_contracts() {
    for n in [1u32, 2, 8, 31, 32, 33, 64, 258, 1024] {
        for _ in 0..4 {
            let r = random_bits(n);
            assert_eq!(r.significant_bits(), n, "random_bits({n}) has the top bit set");
        }
    }
    for n in [2u32, 8, 64, 258] {
        let p = random_prime(n);
        assert!(p.is_probably_prime(30) != IsPrime::No);
        assert!(p.significant_bits() >= n && p.significant_bits() <= n + 1);
        assert!(p > two_pow(n - 1));
    }
    for bound in [1u32, 2, 3, 1000] {
        for _ in 0..8 {
            let r = random_number(Integer::from(bound));
            assert!(r >= 0 && r < bound);
        }
    }
    assert_eq!(random_number(Integer::from(1)), 0);
    assert!(panics(|| random_number(Integer::from(0))));

    // tiny modulus: the only admissible results are squares > 1 coprime to 35
    let n35 = Integer::from(35);
    for _ in 0..16 {
        let qr = random_qr(&n35);
        assert!([4, 9, 11, 16, 29].iter().any(|c| qr == *c), "{qr}");
    }
    let pk = keypair().public_key();
    for _ in 0..3 {
        let qr = random_qr(&pk.N);
        assert!(is_qr_like(&qr, &pk.N));
        assert_eq!(qr.jacobi(&pk.N), 1);
    }
    for _ in 0..8 {
        let r = rand_int(Integer::from(5), Integer::from(7));
        assert!(r >= 5 && r <= 7);
    }
    assert_eq!(rand_int(Integer::from(-3), Integer::from(-3)), -3);
}

// ---------------------------------------------------------------------------------------------
// keys / bases
// ---------------------------------------------------------------------------------------------

#[test]
fn keypair_structure() {
    let kp = keypair();
    let (pk, sk) = (kp.public_key(), kp.private_key());
    assert_eq!(pk.N, Integer::from(&sk.p * &sk.q));
    assert_ne!(sk.p, sk.q);
    for x in [&sk.p, &sk.q] {
        assert!(x.is_probably_prime(30) != IsPrime::No);
        let half: Integer = Integer::from(x - 1u32) / 2u32;
        assert!(half.is_probably_prime(30) != IsPrime::No, "safe prime");
        assert!(half.significant_bits() >= SECPARAM && half.significant_bits() <= SECPARAM + 1);
    }
    assert!(is_qr_like(&pk.b, &pk.N));
    assert!(is_qr_like(&pk.c, &pk.N));
    assert_eq!(pk.b.jacobi(&pk.N), 1);
    assert_eq!(pk.c.jacobi(&pk.N), 1);
    assert_eq!(CL03PublicKey::new(pk.N.clone(), pk.b.clone(), pk.c.clone()), *pk);
    assert_eq!(CL03SecretKey::new(sk.p.clone(), sk.q.clone()), *sk);
}

#[test]
fn public_key_bytes_layout_and_parsing() {
    let n = LN as usize;
    let pk = CL03PublicKey::new(Integer::from(0x0102_0304u32), Integer::from(7), Integer::from(0));
    let bytes = pk.to_bytes::<CL03_CL1024_SHA256>();
    assert_eq!(bytes.len(), 3 * n);
    assert!(bytes[..n - 4].iter().all(|b| *b == 0));
    assert_eq!(&bytes[n - 4..n], &[1, 2, 3, 4]);
    assert!(bytes[n..2 * n - 1].iter().all(|b| *b == 0));
    assert_eq!(bytes[2 * n - 1], 7);
    assert!(bytes[2 * n..].iter().all(|b| *b == 0));
    assert_eq!(CL03PublicKey::from_bytes::<CL03_CL1024_SHA256>(&bytes), pk);

    let real = keypair().public_key();
    let rb = real.to_bytes::<CL03_CL1024_SHA256>();
    assert_eq!(rb.len(), 3 * n);
    assert_eq!(&CL03PublicKey::from_bytes::<CL03_CL1024_SHA256>(&rb), real);
    assert_eq!(Integer::from_digits(&rb[..n], Order::MsfBe), real.N);
    assert_eq!(Integer::from_digits(&rb[n..2 * n], Order::MsfBe), real.b);
    assert_eq!(Integer::from_digits(&rb[2 * n..], Order::MsfBe), real.c);

    // trailing whole blocks are tolerated and ignored, anything else is refused
    for extra_blocks in [1usize, 2, 5] {
        let mut longer = rb.clone();
        longer.extend(std::iter::repeat(0xabu8).take(extra_blocks * n));
        assert_eq!(&CL03PublicKey::from_bytes::<CL03_CL1024_SHA256>(&longer), real);
    }
    for bad_len in [0usize, 1, n - 1, n, n + 1, 2 * n, 3 * n - 1, 3 * n + 1, 4 * n - 1, 4 * n + 1, 3 * n + n / 2] {
        let data = vec![1u8; bad_len];
        assert!(
            panics(|| CL03PublicKey::from_bytes::<CL03_CL1024_SHA256>(&data)),
            "length {bad_len} must be refused"
        );
    }
    // a value that does not fit ln bytes cannot be encoded
    let huge = CL03PublicKey::new(two_pow(8 * LN), Integer::from(1), Integer::from(1));
    assert!(panics(|| huge.to_bytes::<CL03_CL1024_SHA256>()));
    let fits = CL03PublicKey::new(two_pow(8 * LN) - Integer::from(1), Integer::from(1), Integer::from(1));
    assert!(fits.to_bytes::<CL03_CL1024_SHA256>()[..n].iter().all(|b| *b == 0xff));
}

#[test]
fn secret_key_bytes_layout_and_parsing() {
    let d = SECPARAM as usize / 8 + 1;
    let sk = CL03SecretKey::new(Integer::from(0x0a0bu32), Integer::from(0x0c));
    let bytes = sk.to_bytes::<CL03_CL1024_SHA256>();
    assert_eq!(bytes.len(), 2 * d);
    assert_eq!(&bytes[d - 2..d], &[0x0a, 0x0b]);
    assert_eq!(bytes[2 * d - 1], 0x0c);
    assert_eq!(bytes.iter().filter(|b| **b != 0).count(), 3);
    assert_eq!(CL03SecretKey::from_bytes::<CL03_CL1024_SHA256>(&bytes), sk);

    let real = keypair().private_key();
    let rb = real.to_bytes::<CL03_CL1024_SHA256>();
    assert_eq!(rb.len(), 2 * d);
    assert_eq!(&CL03SecretKey::from_bytes::<CL03_CL1024_SHA256>(&rb), real);
    assert_eq!(Integer::from_digits(&rb[..d], Order::MsfBe), real.p);
    assert_eq!(Integer::from_digits(&rb[d..], Order::MsfBe), real.q);

    // trailing bytes are ignored, short input panics
    let mut longer = rb.clone();
    longer.extend_from_slice(&[9, 9, 9]);
    assert_eq!(&CL03SecretKey::from_bytes::<CL03_CL1024_SHA256>(&longer), real);
    for bad_len in [0usize, 1, d - 1, d, d + 1, 2 * d - 1] {
        let data = vec![1u8; bad_len];
        assert!(panics(|| CL03SecretKey::from_bytes::<CL03_CL1024_SHA256>(&data)), "{bad_len}");
    }
    let huge = CL03SecretKey::new(two_pow(8 * d as u32), Integer::from(1));
    assert!(panics(|| huge.to_bytes::<CL03_CL1024_SHA256>()));
    let huge_q = CL03SecretKey::new(Integer::from(1), two_pow(8 * d as u32));
    assert!(panics(|| huge_q.to_bytes::<CL03_CL1024_SHA256>()));
}

#[test]
fn bases_generation() {
    let pk = keypair().public_key();
    for n in [0usize, 1, 2, 5] {
        let bases = Bases::generate(pk, n);
        assert_eq!(bases.0.len(), n);
        for a in &bases.0 {
            assert!(is_qr_like(a, &pk.N));
            assert_eq!(a.jacobi(&pk.N), 1);
        }
    }
    let tiny = CL03PublicKey::new(Integer::from(35), Integer::from(4), Integer::from(9));
    let bases = Bases::generate(&tiny, 6);
    assert!(bases.0.iter().all(|a| [4, 9, 11, 16, 29].iter().any(|c| a == c)));
}

#[test]
fn commitment_public_key_generation() {
    let issuer_N = keypair().public_key().N.clone();
    for (n_attr, expect) in [(None, 1usize), (Some(0), 0), (Some(1), 1), (Some(4), 4)] {
        let cpk = CL03CommitmentPublicKey::generate::<CS>(Some(issuer_N.clone()), n_attr);
        assert_eq!(cpk.N, issuer_N);
        assert_eq!(cpk.g_bases.len(), expect);
        assert!(is_qr_like(&cpk.h, &cpk.N));
        assert_eq!(cpk.h.jacobi(&cpk.N), 1);
        for g in &cpk.g_bases {
            assert!(is_qr_like(g, &cpk.N));
            assert_eq!(g.jacobi(&cpk.N), 1, "g_i is a power of the square h");
        }
    }
    // fresh modulus
    let cpk = CL03CommitmentPublicKey::generate::<CS>(None, Some(2));
    assert_ne!(cpk.N, issuer_N);
    assert!(cpk.N.significant_bits() >= 2 * SECPARAM + 1 && cpk.N.significant_bits() <= 2 * SECPARAM + 4);
    assert!(cpk.N.is_probably_prime(30) == IsPrime::No);
    assert_eq!(cpk.g_bases.len(), 2);
    assert!(is_qr_like(&cpk.h, &cpk.N));
    assert!(cpk.g_bases.iter().all(|g| is_qr_like(g, &cpk.N) && g.jacobi(&cpk.N) == 1));
    // tiny modulus exercises the retry loops
    let tiny = CL03CommitmentPublicKey::generate::<CS>(Some(Integer::from(35)), Some(8));
    assert!([4, 9, 11, 16, 29].iter().any(|c| tiny.h == *c));
    assert!(tiny.g_bases.iter().all(|g| [4, 9, 11, 16, 29].iter().any(|c| g == c)));
}

// ---------------------------------------------------------------------------------------------
// signing and verification
// ---------------------------------------------------------------------------------------------

fn check_fresh_signature(sig: &Signature<S>, bases: &[Integer], ms: &[CL03Message]) {
    let kp = keypair();
    let inner = sig.cl03Signature();
    let (e, s, v) = sig_parts(sig);
    assert_eq!(sig_from_parts(&e, &s, &v).cl03Signature(), inner);
    assert!(e > two_pow(LE - 1) && e < two_pow(LE), "e is an le-bit number");
    assert!(e.is_probably_prime(30) != IsPrime::No);
    let phi = Integer::from(&kp.private_key().p - 1u32) * Integer::from(&kp.private_key().q - 1u32);
    assert_eq!(Integer::from(e.gcd_ref(&phi)), 1);
    assert_eq!(s.significant_bits(), LS, "s is an ls-bit number with the top bit set");
    assert!(v >= 0 && v < kp.public_key().N);
    assert!(equation_holds(kp.public_key(), bases, ms, &e, &s, &v));
}

#[test]
fn sign_and_verify_single() {
    let kp = keypair();
    let (pk, sk) = (kp.public_key(), kp.private_key());
    let bases = Bases::generate(pk, 3);
    let ms = msgs(2);
    let sig = Signature::<S>::sign(pk, sk, &bases, &ms[0]);
    check_fresh_signature(&sig, &bases.0[..1], &ms[..1]);
    assert!(sig.verify(pk, &bases, &ms[0]));
    assert!(!sig.verify(pk, &bases, &ms[1]));
    assert!(sig.verify_multiattr(pk, &bases, &ms[..1]));
    // only the first base is used
    let one = Bases(vec![bases.0[0].clone()]);
    assert!(sig.verify(pk, &one, &ms[0]));
    let swapped = Bases(vec![bases.0[1].clone(), bases.0[0].clone()]);
    assert!(!sig.verify(pk, &swapped, &ms[0]));
    // no base at all
    assert!(panics(|| sig.verify(pk, &Bases(vec![]), &ms[0])));
    assert!(panics(|| Signature::<S>::sign(pk, sk, &Bases(vec![]), &ms[0])));

    // boundary attribute values
    let zero = CL03Message::new(Integer::from(0));
    let max = CL03Message::new(two_pow(LM) - Integer::from(1));
    for m in [&zero, &max] {
        let sg = Signature::<S>::sign(pk, sk, &bases, m);
        assert!(sg.verify(pk, &bases, m));
        assert!(sg.verify_multiattr(pk, &bases, std::slice::from_ref(m)));
    }
    // out-of-range attributes are refused by the verifier although the equation holds
    let (e, s, v) = sig_parts(&sig);
    let shifted = CL03Message::new(Integer::from(&ms[0].value + &e));
    let v_shifted = v.clone() * &bases.0[0] % &pk.N;
    assert!(equation_holds(pk, &bases.0[..1], std::slice::from_ref(&shifted), &e, &s, &v_shifted));
    let forged = sig_from_parts(&e, &s, &v_shifted);
    assert!(!forged.verify(pk, &bases, &shifted));
    assert!(!forged.verify_multiattr(pk, &bases, std::slice::from_ref(&shifted)));
    let too_big = CL03Message::new(two_pow(LM));
    let negative = CL03Message::new(Integer::from(-1));
    let sg_big = Signature::<S>::sign(pk, sk, &bases, &too_big);
    assert!(!sg_big.verify(pk, &bases, &too_big));
    assert!(!sg_big.verify_multiattr(pk, &bases, std::slice::from_ref(&too_big)));
    assert!(!sig.verify(pk, &bases, &negative));
    assert!(!sig.verify_multiattr(pk, &bases, std::slice::from_ref(&negative)));
    // the range check comes before anything that could panic
    assert!(!sig.verify(pk, &Bases(vec![]), &negative));
    assert!(!sig.verify(pk, &Bases(vec![]), &too_big));
}

#[test]
fn verify_exponent_range() {
    let kp = keypair();
    let (pk, sk) = (kp.public_key(), kp.private_key());
    let bases = Bases::generate(pk, 2);
    let ms = msgs(2);
    let phi = Integer::from(&sk.p - 1u32) * Integer::from(&sk.q - 1u32);
    let s = two_pow(LS - 1) + Integer::from(12345);
    let forge = |e: &Integer, ms: &[CL03Message]| -> Signature<S> {
        let d = Integer::from(e.invert_ref(&phi).unwrap());
        let mut acc = Integer::from(1);
        for (a, m) in bases.0.iter().zip(ms) {
            acc = acc * powm(a, &m.value, &pk.N) % &pk.N;
        }
        acc = acc * powm(&pk.b, &s, &pk.N) % &pk.N * &pk.c % &pk.N;
        let v = powm(&acc, &d, &pk.N);
        assert!(equation_holds(pk, &bases.0, ms, e, &s, &v));
        sig_from_parts(e, &s, &v)
    };
    let coprime_from = |start: Integer, step: i32| -> Integer {
        let mut e = start;
        while Integer::from(e.gcd_ref(&phi)) != 1 {
            e += step;
        }
        e
    };
    // in range
    let e_ok = coprime_from(two_pow(LE - 1) + Integer::from(1), 2);
    assert!(forge(&e_ok, &ms[..1]).verify(pk, &bases, &ms[0]));
    assert!(forge(&e_ok, &ms).verify_multiattr(pk, &bases, &ms));
    let e_top = coprime_from(two_pow(LE) - Integer::from(1), -2);
    assert!(e_top > two_pow(LE - 1));
    assert!(forge(&e_top, &ms[..1]).verify(pk, &bases, &ms[0]));
    assert!(forge(&e_top, &ms).verify_multiattr(pk, &bases, &ms));
    // too small: refused by both
    let e_small = coprime_from(two_pow(LE - 1) - Integer::from(1), -2);
    assert!(!forge(&e_small, &ms[..1]).verify(pk, &bases, &ms[0]));
    assert!(!forge(&e_small, &ms).verify_multiattr(pk, &bases, &ms));
    let e3 = coprime_from(Integer::from(3), 2);
    assert!(!forge(&e3, &ms[..1]).verify(pk, &bases, &ms[0]));
    assert!(!forge(&e3, &ms).verify_multiattr(pk, &bases, &ms));
    // too large: refused by `verify`; pin what `verify_multiattr` does today
    let e_large = coprime_from(two_pow(LE) + Integer::from(1), 2);
    assert!(!forge(&e_large, &ms[..1]).verify(pk, &bases, &ms[0]));
    assert!(forge(&e_large, &ms).verify_multiattr(pk, &bases, &ms));
    // exactly the boundaries (2^(le-1) and 2^le are even, hence never invertible: craft by bytes)
    let (_, s0, v0) = sig_parts(&forge(&e_ok, &ms));
    assert!(!sig_from_parts(&two_pow(LE - 1), &s0, &v0).verify(pk, &bases, &ms[0]));
    assert!(!sig_from_parts(&two_pow(LE - 1), &s0, &v0).verify_multiattr(pk, &bases, &ms));
    assert!(!sig_from_parts(&two_pow(LE), &s0, &v0).verify(pk, &bases, &ms[0]));
    assert!(!sig_from_parts(&two_pow(LE), &s0, &v0).verify_multiattr(pk, &bases, &ms));
    assert!(!sig_from_parts(&Integer::from(0), &s0, &v0).verify(pk, &bases, &ms[0]));
    assert!(!sig_from_parts(&Integer::from(0), &s0, &v0).verify_multiattr(pk, &bases, &ms));
}

#[test]
fn sign_and_verify_multiattr() {
    let kp = keypair();
    let (pk, sk) = (kp.public_key(), kp.private_key());
    let bases = Bases::generate(pk, 5);
    for n in [0usize, 1, 2, 5] {
        let ms = msgs(n);
        let sig = Signature::<S>::sign_multiattr(pk, sk, &bases, &ms);
        check_fresh_signature(&sig, &bases.0[..n], &ms);
        assert!(sig.verify_multiattr(pk, &bases, &ms));
        // exactly as many bases as messages
        assert!(sig.verify_multiattr(pk, &Bases(bases.0[..n].to_vec()), &ms));
        if n > 0 {
            assert!(sig.verify(pk, &bases, &ms[0]) == (n == 1));
            let mut wrong = ms.clone();
            wrong[n - 1].value += 1;
            assert!(!sig.verify_multiattr(pk, &bases, &wrong));
            assert!(!sig.verify_multiattr(pk, &bases, &ms[..n - 1]));
            let mut rev = ms.clone();
            rev.reverse();
            assert!(sig.verify_multiattr(pk, &bases, &rev) == (n == 1));
            // out of range in the last position only
            let mut oor = ms.clone();
            oor[n - 1].value = two_pow(LM);
            assert!(!sig.verify_multiattr(pk, &bases, &oor));
            oor[n - 1].value = Integer::from(-5);
            assert!(!sig.verify_multiattr(pk, &bases, &oor));
            // fewer bases than messages
            assert!(panics(|| sig.verify_multiattr(pk, &Bases(bases.0[..n - 1].to_vec()), &ms)));
            assert!(panics(|| sig.verify_multiattr(pk, &Bases(bases.0[..n - 1].to_vec()), &oor)));
            assert!(panics(|| Signature::<S>::sign_multiattr(pk, sk, &Bases(bases.0[..n - 1].to_vec()), &ms)));
        } else {
            assert!(sig.verify_multiattr(pk, &Bases(vec![]), &ms));
        }
    }
    assert!(panics(|| Signature::<S>::sign_multiattr(pk, sk, &bases, &msgs(6))));
}

#[test]
fn signature_bytes_layout_and_parsing() {
    let (le, ls) = (LE as usize, LS as usize);
    let kp = keypair();
    let (pk, sk) = (kp.public_key(), kp.private_key());
    let bases = Bases::generate(pk, 2);
    let ms = msgs(2);
    let sig = Signature::<S>::sign_multiattr(pk, sk, &bases, &ms);
    let bytes = sig.to_bytes();
    let (e, s, v) = sig_parts(&sig);
    assert_eq!(bytes.len(), le + ls + v.to_digits::<u8>(Order::MsfBe).len());
    // e and s are left-padded with zeroes up to le / ls BYTES
    let e_sig = (LE as usize + 7) / 8;
    let s_sig = (LS as usize + 7) / 8;
    assert!(bytes[..le - e_sig].iter().all(|b| *b == 0) && bytes[le - e_sig] != 0);
    assert!(bytes[le..le + ls - s_sig].iter().all(|b| *b == 0) && bytes[le + ls - s_sig] != 0);
    assert_ne!(bytes[le + ls], 0, "v has no padding");
    let back = Signature::<S>::from_bytes(&bytes);
    assert_eq!(back, sig);
    assert_eq!(back.to_bytes(), bytes);
    assert!(back.verify_multiattr(pk, &bases, &ms));
    assert!(equation_holds(pk, &bases.0, &ms, &e, &s, &v));

    // hand-made values
    let small = sig_from_parts(&Integer::from(0x0102), &Integer::from(3), &Integer::from(0x0a0b0c));
    let sb = small.to_bytes();
    assert_eq!(sb.len(), le + ls + 3);
    assert_eq!(&sb[le - 2..le], &[1, 2]);
    assert_eq!(sb[le + ls - 1], 3);
    assert_eq!(&sb[le + ls..], &[0x0a, 0x0b, 0x0c]);
    assert_eq!(sb.iter().filter(|b| **b != 0).count(), 6);
    // v == 0 encodes to nothing, and an empty tail decodes to 0
    let zero_v = sig_from_parts(&Integer::from(5), &Integer::from(6), &Integer::from(0));
    assert_eq!(zero_v.to_bytes().len(), le + ls);
    let exact = vec![0u8; le + ls];
    let z = Signature::<S>::from_bytes(&exact);
    assert_eq!(sig_parts(&z), (Integer::from(0), Integer::from(0), Integer::from(0)));
    assert_eq!(z.to_bytes(), exact);
    assert!(!z.verify(pk, &bases, &ms[0]));
    // leading zeroes of v are not preserved
    let mut padded = exact.clone();
    padded.extend_from_slice(&[0, 0, 7]);
    assert_eq!(Signature::<S>::from_bytes(&padded).to_bytes().len(), le + ls + 1);
    // all-ones fields
    let ones = vec![0xffu8; le + ls + 4];
    let o = Signature::<S>::from_bytes(&ones);
    assert_eq!(o.to_bytes(), ones);
    assert_eq!(sig_parts(&o).0, two_pow(8 * LE) - Integer::from(1));
    // truncated input
    for bad_len in [0usize, 1, le - 1, le, le + 1, le + ls - 1] {
        let data = vec![1u8; bad_len];
        assert!(panics(|| Signature::<S>::from_bytes(&data)), "{bad_len}");
    }
    // serde and bytes agree
    let json = serde_json::to_string(&sig).unwrap();
    let via_serde: Signature<S> = serde_json::from_str(&json).unwrap();
    assert_eq!(via_serde, sig);
    assert_eq!(via_serde.to_bytes(), bytes);
}

#[test]
fn selective_disclosure() {
    let kp = keypair();
    let (pk, sk) = (kp.public_key(), kp.private_key());
    let bases = Bases::generate(pk, 4);
    let ms = msgs(4);
    let sig = Signature::<S>::sign_multiattr(pk, sk, &bases, &ms);
    for hidden in [vec![], vec![0usize], vec![3], vec![1, 2], vec![3, 0], vec![0, 1, 2, 3], vec![2, 2]] {
        let (sd_ms, sd_bases) = sig.disclose_selectively(&ms, bases.clone(), pk, &hidden);
        assert_eq!(sd_ms.len(), 4);
        assert_eq!(sd_bases.0.len(), 4);
        for i in 0..4 {
            if hidden.contains(&i) {
                assert_eq!(sd_ms[i].value, 1);
                assert_eq!(sd_bases.0[i], powm(&bases.0[i], &ms[i].value, &pk.N));
            } else {
                assert_eq!(sd_ms[i], ms[i]);
                assert_eq!(sd_bases.0[i], bases.0[i]);
            }
        }
        assert!(sig.verify_multiattr(pk, &sd_bases, &sd_ms));
    }
    // empty everything
    let (m0, b0) = sig.disclose_selectively(&[], Bases(vec![]), pk, &[]);
    assert!(m0.is_empty() && b0.0.is_empty());
    // malformed requests
    assert!(panics(|| sig.disclose_selectively(&ms, bases.clone(), pk, &[4])));
    assert!(panics(|| sig.disclose_selectively(&ms, bases.clone(), pk, &[0, usize::MAX])));
    assert!(panics(|| sig.disclose_selectively(&ms[..3], bases.clone(), pk, &[])));
    assert!(panics(|| sig.disclose_selectively(&ms, Bases(bases.0[..3].to_vec()), pk, &[0])));
    assert!(panics(|| sig.disclose_selectively(&[], Bases(vec![]), pk, &[0])));
}

// ---------------------------------------------------------------------------------------------
// commitments
// ---------------------------------------------------------------------------------------------

fn expected_commitment(
    bases: &[Integer],
    ms: &[CL03Message],
    idx: &[usize],
    h: &Integer,
    r: &Integer,
    n: &Integer,
) -> Integer {
    let mut acc = Integer::from(1);
    for i in idx {
        acc = acc * powm(&bases[*i], &ms[*i].value, n) % n;
    }
    acc * powm(h, r, n) % n
}

#[test]
fn commit_with_pk_values_and_errors() {
    let pk = keypair().public_key();
    let bases = Bases::generate(pk, 4);
    let ms = msgs(4);
    let all = [0usize, 1, 2, 3];
    let cases: Vec<(Option<Vec<usize>>, Vec<usize>)> = vec![
        (None, all.to_vec()),
        (Some(vec![]), vec![]),
        (Some(vec![0]), vec![0]),
        (Some(vec![3]), vec![3]),
        (Some(vec![2, 0]), vec![2, 0]),
        (Some(vec![1, 1]), vec![1, 1]),
        (Some(all.to_vec()), all.to_vec()),
    ];
    for (arg, eff) in &cases {
        let c = Commitment::<S>::commit_with_pk(&ms, pk, &bases, arg.as_deref());
        assert_eq!(c.randomness().significant_bits(), LN);
        assert!(*c.value() >= 0 && c.value() < &pk.N);
        assert_eq!(*c.value(), expected_commitment(&bases.0, &ms, eff, &pk.b, c.randomness(), &pk.N));
        assert_eq!(c.cl03Commitment().value, *c.value());
        assert_eq!(c.cl03Commitment().randomness, *c.randomness());
    }
    // None means "all messages", also for the empty list and for fewer messages than bases
    let c = Commitment::<S>::commit_with_pk(&[], pk, &bases, None);
    assert_eq!(*c.value(), powm(&pk.b, c.randomness(), &pk.N));
    let c = Commitment::<S>::commit_with_pk(&ms[..2], pk, &bases, None);
    assert_eq!(*c.value(), expected_commitment(&bases.0, &ms, &[0, 1], &pk.b, c.randomness(), &pk.N));
    // malformed
    assert!(panics(|| Commitment::<S>::commit_with_pk(&ms, pk, &bases, Some(&[4]))));
    assert!(panics(|| Commitment::<S>::commit_with_pk(&ms, pk, &bases, Some(&[0, usize::MAX]))));
    assert!(panics(|| Commitment::<S>::commit_with_pk(&ms[..2], pk, &bases, Some(&[2]))));
    assert!(panics(|| Commitment::<S>::commit_with_pk(&ms, pk, &Bases(bases.0[..3].to_vec()), None)));
    assert!(panics(|| Commitment::<S>::commit_with_pk(&ms, pk, &Bases(vec![]), Some(&[0]))));
}

#[test]
fn commit_with_commitment_pk_values_and_errors() {
    let pk = keypair().public_key();
    let cpk = CL03CommitmentPublicKey::generate::<CS>(Some(pk.N.clone()), Some(3));
    let ms = msgs(3);
    for (arg, eff) in [
        (None, vec![0usize, 1, 2]),
        (Some(vec![]), vec![]),
        (Some(vec![2]), vec![2]),
        (Some(vec![1, 0]), vec![1, 0]),
    ] {
        let c = Commitment::<S>::commit_with_commitment_pk(&ms, &cpk, arg.as_deref());
        assert_eq!(c.randomness().significant_bits(), LN);
        assert_eq!(*c.value(), expected_commitment(&cpk.g_bases, &ms, &eff, &cpk.h, c.randomness(), &cpk.N));
    }
    let c = Commitment::<S>::commit_with_commitment_pk(&[], &cpk, None);
    assert_eq!(*c.value(), powm(&cpk.h, c.randomness(), &cpk.N));
    assert!(panics(|| Commitment::<S>::commit_with_commitment_pk(&ms, &cpk, Some(&[3]))));
    assert!(panics(|| Commitment::<S>::commit_with_commitment_pk(&ms[..1], &cpk, Some(&[1]))));
    assert!(panics(|| Commitment::<S>::commit_with_commitment_pk(&msgs(4), &cpk, None)));
}

#[test]
fn extend_commitment_values_and_errors() {
    let pk = keypair().public_key();
    let bases = Bases::generate(pk, 4);
    let ms = msgs(4);
    let start = CL03Commitment { value: Integer::from(123456789), randomness: Integer::from(42) };
    let expect = |idx: &[usize], revealed: &[CL03Message]| -> Integer {
        let mut acc = start.value.clone();
        for (k, i) in idx.iter().enumerate() {
            acc = acc * powm(&bases.0[*i], &revealed[k].value, &pk.N) % &pk.N;
        }
        acc
    };
    // explicit indexes: the k-th revealed message goes with the k-th index
    for idx in [vec![], vec![0usize], vec![3], vec![1, 3], vec![3, 1], vec![2, 2], vec![0, 1, 2, 3]] {
        let revealed: Vec<CL03Message> = idx.iter().map(|i| ms[*i].clone()).collect();
        let mut c = Commitment::<S>::CL03(start.clone());
        c.extend_commitment_with_pk(&revealed, pk, &bases, Some(&idx));
        assert_eq!(*c.value(), expect(&idx, &revealed));
        assert_eq!(*c.randomness(), 42, "randomness untouched");
        // positional pairing, not lookup by index
        let shifted: Vec<CL03Message> = idx.iter().map(|i| ms[(*i + 1) % 4].clone()).collect();
        let mut c = Commitment::<S>::CL03(start.clone());
        c.extend_commitment_with_pk(&shifted, pk, &bases, Some(&idx));
        assert_eq!(*c.value(), expect(&idx, &shifted));
    }
    // None: indexes 0..revealed.len()
    for n in [0usize, 1, 4] {
        let mut c = Commitment::<S>::CL03(start.clone());
        c.extend_commitment_with_pk(&ms[..n], pk, &bases, None);
        let idx: Vec<usize> = (0..n).collect();
        assert_eq!(*c.value(), expect(&idx, &ms[..n]));
    }
    // malformed: the commitment must stay as it was when the call panics
    let bad: Vec<(Vec<CL03Message>, Option<Vec<usize>>)> = vec![
        (ms[..2].to_vec(), Some(vec![0])),
        (ms[..1].to_vec(), Some(vec![0, 1])),
        (vec![], Some(vec![0])),
        (ms[..1].to_vec(), Some(vec![])),
        (ms[..1].to_vec(), Some(vec![4])),
        (ms[..2].to_vec(), Some(vec![0, usize::MAX])),
        (msgs(5), None),
    ];
    for (revealed, idx) in &bad {
        let mut c = Commitment::<S>::CL03(start.clone());
        assert!(panics(|| c.extend_commitment_with_pk(revealed, pk, &bases, idx.as_deref())));
        assert_eq!(c.cl03Commitment(), &start);
    }

    // the commitment-pk flavour looks messages up BY INDEX
    let cpk = CL03CommitmentPublicKey::generate::<CS>(Some(pk.N.clone()), Some(4));
    let expect_g = |idx: &[usize]| -> Integer {
        let mut acc = start.value.clone();
        for i in idx {
            acc = acc * powm(&cpk.g_bases[*i], &ms[*i].value, &cpk.N) % &cpk.N;
        }
        acc
    };
    for (arg, eff) in [
        (None, vec![0usize, 1, 2, 3]),
        (Some(vec![]), vec![]),
        (Some(vec![3]), vec![3]),
        (Some(vec![2, 0]), vec![2, 0]),
        (Some(vec![1, 1]), vec![1, 1]),
    ] {
        let mut c = Commitment::<S>::CL03(start.clone());
        c.extend_commitment_with_commitment_pk(&ms, &cpk, arg.as_deref());
        assert_eq!(*c.value(), expect_g(&eff));
        assert_eq!(*c.randomness(), 42);
    }
    let mut c = Commitment::<S>::CL03(start.clone());
    c.extend_commitment_with_commitment_pk(&[], &cpk, None);
    assert_eq!(c.cl03Commitment(), &start);
    for (m, idx) in [(ms.clone(), Some(vec![4usize])), (ms[..2].to_vec(), Some(vec![2])), (msgs(5), None)] {
        let mut c = Commitment::<S>::CL03(start.clone());
        assert!(panics(|| c.extend_commitment_with_commitment_pk(&m, &cpk, idx.as_deref())));
        assert_eq!(c.cl03Commitment(), &start);
    }
    // mutable accessor
    let mut c = Commitment::<S>::CL03(start.clone());
    c.cl03Commitment_mut().value = Integer::from(9);
    assert_eq!(*c.value(), 9);
}

// ---------------------------------------------------------------------------------------------
// blind issuance
// ---------------------------------------------------------------------------------------------

struct Issuance {
    bases: Bases,
    ms: Vec<CL03Message>,
    hidden: Vec<usize>,
    shown: Vec<usize>,
    commitment: Commitment<S>,
    zkpok: ZKPoK<S>,
}

fn prepare(n: usize, hidden: &[usize]) -> Issuance {
    let pk = keypair().public_key();
    let bases = Bases::generate(pk, n);
    let ms = msgs(n);
    let shown: Vec<usize> = (0..n).filter(|i| !hidden.contains(i)).collect();
    let commitment = Commitment::<S>::commit_with_pk(&ms, pk, &bases, Some(hidden));
    let zkpok = ZKPoK::<S>::generate_proof(&ms, commitment.cl03Commitment(), None, pk, &bases, None, hidden);
    Issuance { bases, ms, hidden: hidden.to_vec(), shown, commitment, zkpok }
}

fn issue(
    x: &Issuance,
    revealed: Option<&[CL03Message]>,
    revealed_idx: Option<&[usize]>,
) -> BlindSignature<S> {
    let kp = keypair();
    BlindSignature::<S>::blind_sign(
        kp.public_key(),
        kp.private_key(),
        &x.bases,
        &x.zkpok,
        revealed,
        x.commitment.cl03Commitment(),
        None,
        None,
        &x.hidden,
        revealed_idx,
    )
}

fn check_blind(x: &Issuance, bs: &BlindSignature<S>, signed_bases: &[Integer], signed_ms: &[CL03Message]) {
    let kp = keypair();
    let pk = kp.public_key();
    assert!(*bs.e() > two_pow(LE - 1) && *bs.e() < two_pow(LE));
    assert!(bs.e().is_probably_prime(30) != IsPrime::No);
    assert_eq!(bs.rprime().significant_bits(), LS);
    assert!(*bs.v() >= 0 && bs.v() < &pk.N);
    let sig = bs.unblind_sign(&x.commitment);
    let (e, s, v) = sig_parts(&sig);
    assert_eq!(&e, bs.e());
    assert_eq!(&v, bs.v());
    assert_eq!(s, Integer::from(x.commitment.randomness() + bs.rprime()));
    assert!(equation_holds(pk, signed_bases, signed_ms, &e, &s, &v));
}

#[test]
fn blind_issuance_flows() {
    let kp = keypair();
    let (pk, sk) = (kp.public_key(), kp.private_key());

    // some hidden, some shown
    for (n, hidden) in [(3usize, vec![0usize]), (3, vec![2]), (4, vec![1, 3]), (2, vec![0, 1]), (1, vec![0])] {
        let x = prepare(n, &hidden);
        let revealed: Vec<CL03Message> = x.shown.iter().map(|i| x.ms[*i].clone()).collect();
        let bs = issue(&x, Some(&revealed), Some(&x.shown));
        check_blind(&x, &bs, &x.bases.0, &x.ms);
        let sig = bs.unblind_sign(&x.commitment);
        assert!(sig.verify_multiattr(pk, &x.bases, &x.ms));

        // None on either side: the commitment is signed as it is
        let hidden_bases: Vec<Integer> = hidden.iter().map(|i| x.bases.0[*i].clone()).collect();
        let hidden_ms: Vec<CL03Message> = hidden.iter().map(|i| x.ms[*i].clone()).collect();
        for (r, i) in [
            (None, None),
            (Some(&revealed[..]), None),
            (None, Some(&x.shown[..])),
            (Some(&[][..]), Some(&[][..])),
        ] {
            let bs = issue(&x, r, i);
            check_blind(&x, &bs, &hidden_bases, &hidden_ms);
            let sig = bs.unblind_sign(&x.commitment);
            assert_eq!(sig.verify_multiattr(pk, &x.bases, &x.ms), x.shown.is_empty());
        }

        // update: same e and r', new v over the new revealed values
        if !x.shown.is_empty() {
            let mut new_ms = x.ms.clone();
            let last = *x.shown.last().unwrap();
            new_ms[last].value += 7;
            let new_revealed: Vec<CL03Message> = x.shown.iter().map(|i| new_ms[*i].clone()).collect();
            let up = bs.update_signature(Some(&new_revealed), x.commitment.cl03Commitment(), sk, pk, &x.bases, Some(&x.shown));
            assert_eq!(up.e(), bs.e());
            assert_eq!(up.rprime(), bs.rprime());
            assert_ne!(up.v(), bs.v());
            check_blind(&x, &up, &x.bases.0, &new_ms);
            let usig = up.unblind_sign(&x.commitment);
            assert!(usig.verify_multiattr(pk, &x.bases, &new_ms));
            assert!(!usig.verify_multiattr(pk, &x.bases, &x.ms));
            // updating with the original values gives the original signature back
            let same = bs.update_signature(Some(&revealed), x.commitment.cl03Commitment(), sk, pk, &x.bases, Some(&x.shown));
            assert_eq!(same, bs);
            // None / empty: signature over the bare commitment
            for (r, i) in [(None, None), (Some(&new_revealed[..]), None), (None, Some(&x.shown[..])), (Some(&[][..]), Some(&[][..]))] {
                let bare = bs.update_signature(r, x.commitment.cl03Commitment(), sk, pk, &x.bases, i);
                check_blind(&x, &bare, &hidden_bases, &hidden_ms);
            }
            // malformed
            assert!(panics(|| issue(&x, Some(&revealed), Some(&[]))));
            assert!(panics(|| issue(&x, Some(&[]), Some(&x.shown))));
            assert!(panics(|| issue(&x, Some(&revealed[..1]), Some(&[n]))));
            assert!(panics(|| bs.update_signature(Some(&revealed), x.commitment.cl03Commitment(), sk, pk, &x.bases, Some(&[]))));
            assert!(panics(|| bs.update_signature(Some(&revealed[..1]), x.commitment.cl03Commitment(), sk, pk, &x.bases, Some(&[n]))));
        }
    }

    // wrong proof / wrong commitment: issuance refuses
    let x = prepare(3, &[0]);
    let y = prepare(3, &[0]);
    let revealed: Vec<CL03Message> = x.shown.iter().map(|i| x.ms[*i].clone()).collect();
    assert!(panics(|| {
        BlindSignature::<S>::blind_sign(pk, sk, &x.bases, &y.zkpok, Some(&revealed), x.commitment.cl03Commitment(), None, None, &x.hidden, Some(&x.shown))
    }));
    assert!(panics(|| {
        BlindSignature::<S>::blind_sign(pk, sk, &x.bases, &x.zkpok, Some(&revealed), y.commitment.cl03Commitment(), None, None, &x.hidden, Some(&x.shown))
    }));
    // serde round trip of the blind signature
    let bs = issue(&x, Some(&revealed), Some(&x.shown));
    let json = serde_json::to_string(&bs).unwrap();
    let back: BlindSignature<S> = serde_json::from_str(&json).unwrap();
    assert_eq!(back, bs);
    assert_eq!(back.unblind_sign(&x.commitment), bs.unblind_sign(&x.commitment));
}
