// Behavioural pins for the Blind BBS commitment / blind signature code
// (src/bbsplus/commitment.rs and src/bbsplus/blind.rs). Public API only.

use std::{fs, marker::PhantomData};

use bls12_381_plus::{group::Curve, G1Affine, G1Projective, Scalar};
use elliptic_curve::hash2curve::ExpandMsg;
use zkryptium::{
    bbsplus::{
        blind::prepare_parameters,
        ciphersuites::{BbsCiphersuite, Bls12381Sha256, Bls12381Shake256},
        commitment::{BBSplusCommitment, BlindFactor},
        generators::Generators,
        keys::{BBSplusPublicKey, BBSplusSecretKey},
        proof::BBSplusZKPoK,
    },
    errors::Error,
    schemes::{
        algorithms::BBSplus,
        generics::{BlindSignature, Commitment},
    },
    utils::{
        message::bbsplus_message::BBSplusMessage,
        util::bbsplus_utils::{calculate_blind_challenge, ScalarExt},
    },
};

const G1: usize = 48;
const SC: usize = 32;

const SK_HEX: &str = "60e55110f76883a13d030b2f6bd11883422d5abde717569fc0731f51237169fc";

fn sk() -> BBSplusSecretKey {
    BBSplusSecretKey::from_bytes(&hex::decode(SK_HEX).unwrap()).unwrap()
}

fn msgs(n: usize, tag: u8) -> Vec<Vec<u8>> {
    // messages of different lengths, the first one empty
    (0..n)
        .map(|i| (0..(i * 7) % 40).map(|j| tag ^ (i as u8).wrapping_mul(31) ^ j as u8).collect())
        .collect()
}

fn blind_gens<CS: BbsCiphersuite + std::fmt::Debug>(n: usize) -> Generators
where
    CS::Expander: for<'a> ExpandMsg<'a>,
{
    Generators::create::<CS>(n, Some(&[b"BLIND_", CS::API_ID_BLIND].concat()))
}

fn point(bytes: &[u8]) -> G1Projective {
    let arr: [u8; G1] = bytes.try_into().unwrap();
    G1Projective::from(G1Affine::from_compressed(&arr).unwrap())
}

fn scalar(i: u64) -> Scalar {
    Scalar::from(i) * Scalar::from(0x9e37_79b9_7f4a_7c15u64) + Scalar::from(i + 3)
}

/// A commitment with proof computed in the test from fixed "random" scalars, with the
/// formulas of the specification; `blind` is the secret prover blind.
fn crafted_commitment<CS: BbsCiphersuite + std::fmt::Debug>(committed: &[Vec<u8>], blind: Scalar, seed: u64) -> Vec<u8>
where
    CS::Expander: for<'a> ExpandMsg<'a>,
{
    let m = committed.len();
    let gens = blind_gens::<CS>(m + 1).values;
    let scalars = BBSplusMessage::messages_to_scalar::<CS>(committed, CS::API_ID_BLIND).unwrap();
    let s_tilde = scalar(seed);
    let m_tilde: Vec<Scalar> = (0..m).map(|i| scalar(seed + 1 + i as u64)).collect();
    let mut c = gens[0] * blind;
    let mut cbar = gens[0] * s_tilde;
    for i in 0..m {
        c += gens[i + 1] * scalars[i].value;
        cbar += gens[i + 1] * m_tilde[i];
    }
    let ch = calculate_blind_challenge::<CS>(c, cbar, &gens, Some(CS::API_ID_BLIND)).unwrap();
    let m_cap: Vec<Scalar> = (0..m).map(|i| m_tilde[i] + scalars[i].value * ch).collect();
    let proof = BBSplusZKPoK::new(s_tilde + blind * ch, m_cap, ch);
    let mut out = c.to_affine().to_compressed().to_vec();
    out.extend_from_slice(&proof.to_bytes());
    out
}

fn validate<CS: BbsCiphersuite + std::fmt::Debug>(bytes: Option<&[u8]>, gens: &Generators) -> Result<G1Projective, Error>
where
    CS::Expander: for<'a> ExpandMsg<'a>,
{
    Commitment::<BBSplus<CS>>::deserialize_and_validate_commit(bytes, gens, Some(CS::API_ID_BLIND))
}

// ---------------------------------------------------------------- fixtures

fn fixture_signatures<CS: BbsCiphersuite + std::fmt::Debug>(dir: &str)
where
    CS::Expander: for<'a> ExpandMsg<'a>,
{
    for i in 1..=5 {
        let data = fs::read_to_string(format!("{dir}signature/signature00{i}.json")).unwrap();
        let j: serde_json::Value = serde_json::from_str(&data).unwrap();
        let sk = BBSplusSecretKey::from_bytes(
            &hex::decode(j["signerKeyPair"]["secretKey"].as_str().unwrap()).unwrap(),
        )
        .unwrap();
        let pk = BBSplusPublicKey::from_bytes(
            &hex::decode(j["signerKeyPair"]["publicKey"].as_str().unwrap()).unwrap(),
        )
        .unwrap();
        let list = |v: &serde_json::Value| -> Option<Vec<Vec<u8>>> {
            v.as_array()
                .map(|a| a.iter().map(|m| hex::decode(m.as_str().unwrap()).unwrap()).collect())
        };
        let header = hex::decode(j["header"].as_str().unwrap()).unwrap();
        let messages = list(&j["messages"]).unwrap();
        let committed = list(&j["committedMessages"]);
        let cwp = j["commitmentWithProof"].as_str().map(|c| hex::decode(c).unwrap());
        let blind = j["proverBlind"]
            .as_str()
            .map(|b| BlindFactor::from_bytes(&hex::decode(b).unwrap().try_into().unwrap()).unwrap());

        let sig = BlindSignature::<BBSplus<CS>>::blind_sign(
            &sk,
            &pk,
            cwp.as_deref(),
            Some(&header),
            Some(&messages),
        )
        .unwrap();
        assert_eq!(hex::encode(sig.to_bytes()), j["signature"].as_str().unwrap(), "case {i}");
        assert_eq!(BlindSignature::<BBSplus<CS>>::from_bytes(&sig.to_bytes()).unwrap(), sig);
        assert_eq!(sig.bbsPlusBlindSignature().to_bytes(), sig.to_bytes());

        // None and Some(empty) are the same thing, for every optional list
        if messages.is_empty() {
            let sig2 =
                BlindSignature::<BBSplus<CS>>::blind_sign(&sk, &pk, cwp.as_deref(), Some(&header), None)
                    .unwrap();
            assert_eq!(sig2, sig);
        }
        if cwp.is_none() {
            let sig2 = BlindSignature::<BBSplus<CS>>::blind_sign(
                &sk,
                &pk,
                Some(&[]),
                Some(&header),
                Some(&messages),
            )
            .unwrap();
            assert_eq!(sig2, sig);
        }

        let ok = sig.verify_blind_sign(
            &pk,
            Some(&header),
            Some(&messages),
            committed.as_deref(),
            blind.as_ref(),
        );
        assert!(ok.is_ok(), "case {i}");
        if committed.as_deref().map_or(true, |c| c.is_empty()) {
            for c in [None, Some(&[][..])] {
                assert!(sig
                    .verify_blind_sign(&pk, Some(&header), Some(&messages), c, blind.as_ref())
                    .is_ok());
            }
        }
        if blind.is_none() {
            let zero = BlindFactor::from_bytes(&[0u8; 32]).unwrap();
            assert!(sig
                .verify_blind_sign(&pk, Some(&header), Some(&messages), committed.as_deref(), Some(&zero))
                .is_ok());
        } else {
            // without the blind, or with another one, the signature does not verify
            assert!(sig
                .verify_blind_sign(&pk, Some(&header), Some(&messages), committed.as_deref(), None)
                .is_err());
            let other = BlindFactor::from_bytes(&scalar(5).to_bytes_be()).unwrap();
            assert!(sig
                .verify_blind_sign(&pk, Some(&header), Some(&messages), committed.as_deref(), Some(&other))
                .is_err());
        }
        // other header, one message less, one committed message more
        assert!(sig
            .verify_blind_sign(&pk, None, Some(&messages), committed.as_deref(), blind.as_ref())
            .is_err());
        if !messages.is_empty() {
            assert!(sig
                .verify_blind_sign(
                    &pk,
                    Some(&header),
                    Some(&messages[1..]),
                    committed.as_deref(),
                    blind.as_ref()
                )
                .is_err());
        }
        let mut more = committed.clone().unwrap_or_default();
        more.push(vec![1, 2, 3]);
        assert!(sig
            .verify_blind_sign(&pk, Some(&header), Some(&messages), Some(&more), blind.as_ref())
            .is_err());
    }
}

#[test]
fn fixture_signatures_sha256() {
    fixture_signatures::<Bls12381Sha256>("./fixture_data_blind/bls12-381-sha-256/");
}

#[test]
fn fixture_signatures_shake256() {
    fixture_signatures::<Bls12381Shake256>("./fixture_data_blind/bls12-381-shake-256/");
}

fn fixture_commitments<CS: BbsCiphersuite + std::fmt::Debug>(dir: &str)
where
    CS::Expander: for<'a> ExpandMsg<'a>,
{
    for i in 1..=2 {
        let data = fs::read_to_string(format!("{dir}commit/commit00{i}.json")).unwrap();
        let j: serde_json::Value = serde_json::from_str(&data).unwrap();
        let bytes = hex::decode(j["commitmentWithProof"].as_str().unwrap()).unwrap();
        let m = j["committedMessages"].as_array().unwrap().len();
        assert_eq!(bytes.len(), G1 + SC * (m + 2));

        let c = Commitment::<BBSplus<CS>>::from_bytes(&bytes).unwrap();
        assert_eq!(c.to_bytes(), bytes);
        let inner = BBSplusCommitment::from_bytes(&bytes).unwrap();
        assert_eq!(inner.to_bytes(), bytes);
        assert_eq!(inner.commitment, point(&bytes[..G1]));
        assert_eq!(inner.proof.to_bytes(), &bytes[G1..]);
        assert_eq!(BBSplusZKPoK::from_bytes(&bytes[G1..]).unwrap(), inner.proof);
        assert_eq!(c, Commitment::BBSplus(inner));

        // exact number of generators, more than needed, fewer than needed
        let expected = point(&bytes[..G1]);
        assert_eq!(validate::<CS>(Some(&bytes), &blind_gens::<CS>(m + 1)).unwrap(), expected);
        assert_eq!(validate::<CS>(Some(&bytes), &blind_gens::<CS>(m + 4)).unwrap(), expected);
        for n in 0..=m {
            assert!(validate::<CS>(Some(&bytes), &blind_gens::<CS>(n)).is_err(), "{n} generators");
        }
        // generators of the other family, another api_id
        assert!(validate::<CS>(
            Some(&bytes),
            &Generators::create::<CS>(m + 1, Some(CS::API_ID_BLIND))
        )
        .is_err());
        assert!(Commitment::<BBSplus<CS>>::deserialize_and_validate_commit(
            Some(&bytes),
            &blind_gens::<CS>(m + 1),
            None
        )
        .is_err());
        assert!(Commitment::<BBSplus<CS>>::deserialize_and_validate_commit(
            Some(&bytes),
            &blind_gens::<CS>(m + 1),
            Some(CS::API_ID)
        )
        .is_err());

        // no commitment: the identity, whatever the generators
        for n in [0, 1, 3] {
            let g = blind_gens::<CS>(n);
            assert_eq!(validate::<CS>(None, &g).unwrap(), G1Projective::IDENTITY);
            assert_eq!(validate::<CS>(Some(&[]), &g).unwrap(), G1Projective::IDENTITY);
        }

        // every strict prefix is refused, by every decoder
        let g = blind_gens::<CS>(m + 4);
        for len in 1..bytes.len() {
            assert!(validate::<CS>(Some(&bytes[..len]), &g).is_err(), "prefix {len}");
            if (len < G1 + 2 * SC) || (len - G1) % SC != 0 {
                assert!(BBSplusCommitment::from_bytes(&bytes[..len]).is_err(), "prefix {len}");
                assert!(Commitment::<BBSplus<CS>>::from_bytes(&bytes[..len]).is_err());
            } else {
                // a shorter list of responses decodes, and is not a valid proof
                assert!(BBSplusCommitment::from_bytes(&bytes[..len]).is_ok(), "prefix {len}");
            }
        }
        assert!(BBSplusCommitment::from_bytes(&[]).is_err());
        // one more response, some more bytes
        let mut longer = bytes.clone();
        longer.extend_from_slice(&[0u8; SC]);
        assert!(BBSplusCommitment::from_bytes(&longer).is_ok());
        assert!(validate::<CS>(Some(&longer), &g).is_err());
        assert!(validate::<CS>(Some(&longer), &blind_gens::<CS>(m + 1)).is_err());
        longer.push(0);
        assert!(BBSplusCommitment::from_bytes(&longer).is_err());
        assert!(validate::<CS>(Some(&longer), &g).is_err());

        // any changed byte is refused
        let g = blind_gens::<CS>(m + 1);
        for pos in (0..bytes.len()).step_by(5).chain([G1 - 1, G1, bytes.len() - SC, bytes.len() - 1]) {
            let mut b = bytes.clone();
            b[pos] ^= 1;
            assert!(validate::<CS>(Some(&b), &g).is_err(), "byte {pos}");
        }
        // a scalar that is not reduced, in each position
        for k in 0..m + 2 {
            let mut b = bytes.clone();
            b[G1 + k * SC..G1 + (k + 1) * SC].fill(0xff);
            assert!(BBSplusCommitment::from_bytes(&b).is_err());
            assert!(validate::<CS>(Some(&b), &g).is_err());
        }
        // a point that is not on the curve; the point at infinity with somebody else's proof
        let mut b = bytes.clone();
        b[..G1].fill(0);
        assert!(matches!(BBSplusCommitment::from_bytes(&b), Err(Error::InvalidCommitment)));
        assert!(validate::<CS>(Some(&b), &g).is_err());
        b[0] = 0xc0;
        assert_eq!(BBSplusCommitment::from_bytes(&b).unwrap().commitment, G1Projective::IDENTITY);
        assert!(validate::<CS>(Some(&b), &g).is_err());
        // proof errors are reported as such
        assert!(matches!(
            BBSplusCommitment::from_bytes(&bytes[..G1 + SC]),
            Err(Error::InvalidCommitmentProof)
        ));
        assert!(matches!(BBSplusCommitment::from_bytes(&bytes[..G1 - 1]), Err(Error::InvalidCommitment)));
    }
}

#[test]
fn fixture_commitments_sha256() {
    fixture_commitments::<Bls12381Sha256>("./fixture_data_blind/bls12-381-sha-256/");
}

#[test]
fn fixture_commitments_shake256() {
    fixture_commitments::<Bls12381Shake256>("./fixture_data_blind/bls12-381-shake-256/");
}

// ---------------------------------------------------------------- decoders

#[test]
fn zkpok_and_blind_factor_decoders() {
    let enc = |v: &[Scalar]| -> Vec<u8> { v.iter().flat_map(|s| s.to_bytes_be()).collect() };
    for n in 0..5usize {
        let v: Vec<Scalar> = (0..n + 2).map(|i| scalar(i as u64 + 10)).collect();
        let bytes = enc(&v);
        let p = BBSplusZKPoK::from_bytes(&bytes).unwrap();
        assert_eq!(p, BBSplusZKPoK::new(v[0], v[1..n + 1].to_vec(), v[n + 1]));
        assert_eq!(p.to_bytes(), bytes);
        for cut in 1..SC {
            assert!(BBSplusZKPoK::from_bytes(&bytes[..bytes.len() - cut]).is_err());
        }
    }
    for len in [0, 1, 31, 32, 33, 63] {
        assert!(BBSplusZKPoK::from_bytes(&vec![0u8; len]).is_err(), "{len}");
    }
    // zero is a scalar like any other here
    assert!(BBSplusZKPoK::from_bytes(&[0u8; 64]).is_ok());
    assert!(BBSplusZKPoK::from_bytes(&[0xffu8; 64]).is_err());

    assert!(BlindFactor::from_bytes(&[0xff; 32]).is_err());
    // the group order itself is refused, the order minus one is accepted
    let r = hex::decode("73eda753299d7d483339d80809a1d80553bda402fffe5bfeffffffff00000001").unwrap();
    let mut r: [u8; 32] = r.try_into().unwrap();
    assert!(BlindFactor::from_bytes(&r).is_err());
    r[31] = 0;
    assert_eq!(BlindFactor::from_bytes(&r).unwrap().to_bytes(), r);
    assert_eq!(BlindFactor::from_bytes(&[0; 32]).unwrap().to_bytes(), [0; 32]);
    let b = scalar(77).to_bytes_be();
    assert_eq!(BlindFactor::from_bytes(&b).unwrap().to_bytes(), b);
    assert_ne!(BlindFactor::random().to_bytes(), BlindFactor::random().to_bytes());
}

// ---------------------------------------------------------------- prepare_parameters

fn prepare<CS: BbsCiphersuite + std::fmt::Debug>()
where
    CS::Expander: for<'a> ExpandMsg<'a>,
{
    let api = CS::API_ID_BLIND;
    let blind = BlindFactor::from_bytes(&scalar(9).to_bytes_be()).unwrap();
    for (l, m) in [(0usize, 0usize), (0, 2), (3, 0), (2, 3)] {
        let messages = msgs(l, 0x11);
        let committed = msgs(m, 0x77);
        let ms = BBSplusMessage::messages_to_scalar::<CS>(&messages, api).unwrap();
        let cs = BBSplusMessage::messages_to_scalar::<CS>(&committed, api).unwrap();
        for with_blind in [true, false] {
            for (gn, bn) in [(l + 1, m + 1), (0, 0), (1, 4)] {
                let (scalars, gens) = prepare_parameters::<CS>(
                    Some(&messages),
                    Some(&committed),
                    gn,
                    bn,
                    with_blind.then_some(&blind),
                    Some(api),
                )
                .unwrap();
                let mut expected = ms.clone();
                if with_blind {
                    expected.push(BBSplusMessage::new(scalar(9)));
                }
                expected.extend_from_slice(&cs);
                assert_eq!(scalars, expected);
                let mut points = Generators::create::<CS>(gn, Some(api)).values;
                points.extend(blind_gens::<CS>(bn).values);
                assert_eq!(gens.values, points);
                assert_eq!(gens.g1_base_point, Generators::create::<CS>(0, None).g1_base_point);
            }
        }
        // None is the empty list
        if l == 0 && m == 0 {
            let (scalars, gens) =
                prepare_parameters::<CS>(None, None, 1, 1, Some(&blind), Some(api)).unwrap();
            assert_eq!(scalars, vec![BBSplusMessage::new(scalar(9))]);
            assert_eq!(gens.values.len(), 2);
            let (scalars, gens) = prepare_parameters::<CS>(None, None, 2, 0, None, None).unwrap();
            assert!(scalars.is_empty());
            assert_eq!(gens.values, Generators::create::<CS>(2, None).values);
        }
    }
    // no api_id: the empty one
    let (scalars, gens) =
        prepare_parameters::<CS>(Some(&msgs(2, 1)), Some(&msgs(1, 2)), 1, 2, None, None).unwrap();
    let mut expected = BBSplusMessage::messages_to_scalar::<CS>(&msgs(2, 1), b"").unwrap();
    expected.extend(BBSplusMessage::messages_to_scalar::<CS>(&msgs(1, 2), b"").unwrap());
    assert_eq!(scalars, expected);
    let mut points = Generators::create::<CS>(1, Some(b"")).values;
    points.extend(Generators::create::<CS>(2, Some(b"BLIND_")).values);
    assert_eq!(gens.values, points);
}

#[test]
fn prepare_parameters_sha256() {
    prepare::<Bls12381Sha256>();
}

#[test]
fn prepare_parameters_shake256() {
    prepare::<Bls12381Shake256>();
}

// ---------------------------------------------------------------- commit (random) -> sign -> verify

fn commit_sign_verify<CS: BbsCiphersuite + std::fmt::Debug>()
where
    CS::Expander: for<'a> ExpandMsg<'a>,
{
    let sk = sk();
    let pk = sk.public_key();
    let header = b"header".to_vec();
    for m in [0usize, 1, 2, 5] {
        let committed = msgs(m, 0xa5);
        let inputs: Vec<Option<&[Vec<u8>]>> =
            if m == 0 { vec![None, Some(&committed)] } else { vec![Some(&committed)] };
        for input in inputs {
            let (c, blind) = Commitment::<BBSplus<CS>>::commit(input).unwrap();
            let bytes = c.to_bytes();
            assert_eq!(bytes.len(), G1 + SC * (m + 2));
            assert_eq!(Commitment::<BBSplus<CS>>::from_bytes(&bytes).unwrap(), c);

            // the commitment opens with the blind that is returned
            let gens = blind_gens::<CS>(m + 1);
            let cs = BBSplusMessage::messages_to_scalar::<CS>(&committed, CS::API_ID_BLIND).unwrap();
            let r = Scalar::from_bytes_be(&blind.to_bytes()).unwrap();
            let mut expected = gens.values[0] * r;
            for i in 0..m {
                expected += gens.values[i + 1] * cs[i].value;
            }
            assert_eq!(point(&bytes[..G1]), expected);
            assert_eq!(validate::<CS>(Some(&bytes), &gens).unwrap(), expected);
            // the responses answer the challenge that is sent
            let p: Vec<Scalar> =
                bytes[G1..].chunks(SC).map(|c| Scalar::from_bytes_be(c).unwrap()).collect();
            let ch = p[m + 1];
            let mut cbar = gens.values[0] * p[0] - expected * ch;
            for i in 0..m {
                cbar += gens.values[i + 1] * p[1 + i];
            }
            assert_eq!(
                calculate_blind_challenge::<CS>(expected, cbar, &gens.values, Some(CS::API_ID_BLIND))
                    .unwrap(),
                ch
            );
            // fresh randomness every time
            let (c2, blind2) = Commitment::<BBSplus<CS>>::commit(input).unwrap();
            assert_ne!(blind2.to_bytes(), blind.to_bytes());
            assert_ne!(c2.to_bytes()[G1..G1 + SC], bytes[G1..G1 + SC]);

            for l in [0usize, 1, 4] {
                let messages = msgs(l, 0x3c);
                let sig = BlindSignature::<BBSplus<CS>>::blind_sign(
                    &sk,
                    &pk,
                    Some(&bytes),
                    Some(&header),
                    Some(&messages),
                )
                .unwrap();
                assert!(sig
                    .verify_blind_sign(&pk, Some(&header), Some(&messages), input, Some(&blind))
                    .is_ok());
                assert!(sig
                    .verify_blind_sign(&pk, Some(&header), Some(&messages), input, Some(&blind2))
                    .is_err());
                if m > 0 {
                    let mut other = committed.clone();
                    other[m - 1].push(0);
                    assert!(sig
                        .verify_blind_sign(&pk, Some(&header), Some(&messages), Some(&other), Some(&blind))
                        .is_err());
                    other = committed.clone();
                    other.swap(0, m - 1);
                    assert_eq!(
                        sig.verify_blind_sign(&pk, Some(&header), Some(&messages), Some(&other), Some(&blind))
                            .is_ok(),
                        m == 1
                    );
                }
            }
        }
    }
    let unreachable = BlindSignature::<BBSplus<CS>>::_Unreachable(PhantomData);
    assert!(unreachable.verify_blind_sign(&pk, None, None, None, None).is_err());
}

#[test]
fn commit_sign_verify_sha256() {
    commit_sign_verify::<Bls12381Sha256>();
}

#[test]
fn commit_sign_verify_shake256() {
    commit_sign_verify::<Bls12381Shake256>();
}

// ---------------------------------------------------------------- crafted commitments: exact signatures

fn crafted<CS: BbsCiphersuite + std::fmt::Debug>(pins: &[&str])
where
    CS::Expander: for<'a> ExpandMsg<'a>,
{
    let sk = sk();
    let pk = sk.public_key();
    let mut out = Vec::new();
    for (m, l, header) in [
        (0usize, 0usize, None),
        (1, 0, Some(&b"h"[..])),
        (1, 1, None),
        (2, 3, Some(&b""[..])),
        (4, 2, Some(&b"header"[..])),
    ] {
        let committed = msgs(m, 0x42);
        let messages = msgs(l, 0x24);
        let blind = scalar(1000 + m as u64);
        let bytes = crafted_commitment::<CS>(&committed, blind, 50);
        assert_eq!(
            validate::<CS>(Some(&bytes), &blind_gens::<CS>(m + 1)).unwrap(),
            point(&bytes[..G1])
        );
        let sig =
            BlindSignature::<BBSplus<CS>>::blind_sign(&sk, &pk, Some(&bytes), header, Some(&messages))
                .unwrap();
        let bf = BlindFactor::from_bytes(&blind.to_bytes_be()).unwrap();
        assert!(sig
            .verify_blind_sign(&pk, header, Some(&messages), Some(&committed), Some(&bf))
            .is_ok());
        out.push(hex::encode(sig.to_bytes()));

        // malformed variants of the same commitment are refused by the signer
        for len in [1, G1 - 1, G1, G1 + SC, G1 + 2 * SC - 1, bytes.len() - 1, bytes.len() - SC] {
            assert!(
                BlindSignature::<BBSplus<CS>>::blind_sign(&sk, &pk, Some(&bytes[..len]), header, Some(&messages))
                    .is_err(),
                "length {len}"
            );
        }
        let mut b = bytes.clone();
        b.extend_from_slice(&[0; SC]);
        assert!(BlindSignature::<BBSplus<CS>>::blind_sign(&sk, &pk, Some(&b), header, Some(&messages)).is_err());
        b.truncate(bytes.len() + 7);
        assert!(BlindSignature::<BBSplus<CS>>::blind_sign(&sk, &pk, Some(&b), header, Some(&messages)).is_err());
        let mut b = bytes.clone();
        let last = b.len() - 1;
        b[last] ^= 0x80;
        assert!(BlindSignature::<BBSplus<CS>>::blind_sign(&sk, &pk, Some(&b), header, Some(&messages)).is_err());
        // a commitment made for another suite / api_id
        let other = crafted_commitment_other::<CS>(&committed, blind);
        assert!(BlindSignature::<BBSplus<CS>>::blind_sign(&sk, &pk, Some(&other), header, Some(&messages)).is_err());
    }

    // the point at infinity with a valid proof (zero blind, no messages) signs like no commitment
    let bytes = crafted_commitment::<CS>(&[], Scalar::ZERO, 7);
    assert_eq!(bytes[0], 0xc0);
    assert_eq!(validate::<CS>(Some(&bytes), &blind_gens::<CS>(1)).unwrap(), G1Projective::IDENTITY);
    let messages = msgs(3, 9);
    let a = BlindSignature::<BBSplus<CS>>::blind_sign(&sk, &pk, Some(&bytes), None, Some(&messages)).unwrap();
    let b = BlindSignature::<BBSplus<CS>>::blind_sign(&sk, &pk, None, None, Some(&messages)).unwrap();
    assert_eq!(a.to_bytes(), b.to_bytes());
    assert!(a.verify_blind_sign(&pk, None, Some(&messages), None, None).is_ok());
    out.push(hex::encode(a.to_bytes()));
    // nothing at all to sign
    let n = BlindSignature::<BBSplus<CS>>::blind_sign(&sk, &pk, None, None, None).unwrap();
    assert!(n.verify_blind_sign(&pk, None, None, None, None).is_ok());
    assert_eq!(n.A() * (sk_scalar() + n.e()), n.A() * sk_scalar() + n.A() * n.e());
    out.push(hex::encode(n.to_bytes()));

    if std::env::var("EQUIV_PRINT").is_ok() {
        println!("PINS {:#?}", out);
    }
    assert_eq!(out, pins);
}

fn sk_scalar() -> Scalar {
    Scalar::from_bytes_be(&hex::decode(SK_HEX).unwrap()).unwrap()
}

/// Same as `crafted_commitment`, with the generators and the challenge of the plain interface.
fn crafted_commitment_other<CS: BbsCiphersuite + std::fmt::Debug>(committed: &[Vec<u8>], blind: Scalar) -> Vec<u8>
where
    CS::Expander: for<'a> ExpandMsg<'a>,
{
    let m = committed.len();
    let gens = Generators::create::<CS>(m + 1, Some(&[b"BLIND_", CS::API_ID].concat())).values;
    let scalars = BBSplusMessage::messages_to_scalar::<CS>(committed, CS::API_ID).unwrap();
    let s_tilde = scalar(50);
    let m_tilde: Vec<Scalar> = (0..m).map(|i| scalar(51 + i as u64)).collect();
    let mut c = gens[0] * blind;
    let mut cbar = gens[0] * s_tilde;
    for i in 0..m {
        c += gens[i + 1] * scalars[i].value;
        cbar += gens[i + 1] * m_tilde[i];
    }
    let ch = calculate_blind_challenge::<CS>(c, cbar, &gens, Some(CS::API_ID)).unwrap();
    let m_cap: Vec<Scalar> = (0..m).map(|i| m_tilde[i] + scalars[i].value * ch).collect();
    let proof = BBSplusZKPoK::new(s_tilde + blind * ch, m_cap, ch);
    let mut out = c.to_affine().to_compressed().to_vec();
    out.extend_from_slice(&proof.to_bytes());
    // it is a good commitment for its own parameters
    assert!(Commitment::<BBSplus<CS>>::deserialize_and_validate_commit(
        Some(&out),
        &Generators::create::<CS>(m + 1, Some(&[b"BLIND_", CS::API_ID].concat())),
        Some(CS::API_ID)
    )
    .is_ok());
    out
}

#[test]
fn crafted_sha256() {
    crafted::<Bls12381Sha256>(&PINS_SHA256);
}

#[test]
fn crafted_shake256() {
    crafted::<Bls12381Shake256>(&PINS_SHAKE256);
}

const PINS_SHA256: [&str; 7] = [
    "a30987cbcfb473f986f1b6c02b30a6ff6fd282cd77629f45d4e670777c4deb72790a5e287b613645b2e37bf4b4a5ba0e3edb2eb24762081e2523c9e172682a3f3dff0650f326332ab7db0af1eb9d5246",
    "924cabcc47a70ab8d45f7bf1c1bfa5379fbe8ff030a71e222cfeb9be331e98485b2b4e21d1b16dc786d989d9b01add541056f4ae8164b7be0bffeeb6e0f4e63549acb399159308deead86ad421e9f675",
    "a63114e72330422ff5b93387f21f33e88de6fed298ceb5e3f282eccd15712d2a52739cd7418e1c30a78cf3d47af636910569472048676208cb627f6b872951584368c2fc6d6dc3a974503b46b53ee341",
    "8954cbfd601f9a5450baed79c0d87d527f47712f188dd16bf46f8258c8d936d8f7a520211325e5bc99e04c6e03d0ca044b023d7e88aa8acd1d86bdeb8e48ac26cb324af595f6d04d0e3bb1de92bf9841",
    "b8361bb3ba10b2c127ccf2b4860b2e146e8aeb73c334addc7ef438c711993f8047da227107ca411585144ceb9df03a9434f7ef5d43a172cf85dfb9c1739bb2d3b44b85e45133ee777d65a9abac1def2d",
    "a4702750138dad16102dddbd8a27cd36b88630a3a2cf25d13c03b3593b4408df8aa310a1d5a1c55fe8ae80193c6e475517dc1cf4fd8aaae807bea11d8dc67208dc35bcf6de0516a8c930e61ee62c3344",
    "8242213fbc39cb6a20b4377590b9fdaad27b3d190463de0aed23b07a1824acf0268aa5d1c26d44fe37cb99eee51d87b83c20260a71200b45e22e9781fdf3c9726be48d6ef14a8243e8c9e2efc0c6d846",
];
const PINS_SHAKE256: [&str; 7] = [
    "93cdb5688fbe0646820661babd9b1e49a29a6ea87d7cd55ba3f00db8276207f93df5e0c3e65763b4f62df71e54c410dc1f8e6d514972ed9c8d8f3c9522aa40b68d8784f0e97dd76b8bd9bd6c415b87e0",
    "88b3babd8c2b4d4a861b60c8ee5fafc8919e4f5a2f42cd4b75496751a29b5ea09e9ccd6b3228d87da06d7d71a47dd68a699390af47506d989a4b3780a8c98b7bab5339612ce79fee7685970bb7f36eee",
    "89608df18a8169acfabd60da9395d43574da12e21fc72204276cb810e4e2f4b5977e619a3fd7613ea384471c3bb5ca5112c8763e2f47d87eebdeaeaa790e453753b723d2aa62b647d51e4106a0546d4f",
    "a66164723859edc47e50f993beca30c200e0b1dd2b0e6963d332da4bdc8da5b1cb78dec11badbeee854ce07ea8038e6d0f33e06630c1cc66f5bc6e1f5c655cf509eb66faf73c80257dd5b017dfc69adb",
    "a078abbbeabff918419218e3687ae5cebaba51d366d58d218c368a0beb494faf96b7113efc68b0896fbc4895409a80d823a9ef9d0d2bcbb969b8b507556088d1ecd04b51435364a383f72f085438301e",
    "8ec372dbf9b4831015ee4c14d255aadfc1b82540f53e29b5a9d486fdc31270cf76f56b0e5196f590420c1c5a79148b1e62a12334acf02e01578da1814c270b7f2343cbaaae0e66844eaac1e5c605843d",
    "b09b342fbea2d185214897fcd7e7f85167fde5e9f5e25dad250f05ed542848fc1ffc9e8ad0fb73eb9a4e2dfae541831c0a6f9fea90ae7e7317cbe0699f9a73f1ed04673d40655411d5eb541a6382d3e9",
];
