// Behavioural pins for the prover side of BBS+ proofs (proof_gen / blind_proof_gen), public API only.
// The prover draws fresh randomness outside of `cfg(test)`, so the proofs themselves differ from run to
// run: what is pinned is which inputs succeed, which fail (and with which error variant), the length of
// the proof on the wire and the fact that every proof is accepted by the verifier for exactly the
// disclosed set that was asked for.

#![cfg(feature = "bbsplus")]
#![allow(non_snake_case)]

use elliptic_curve::hash2curve::ExpandMsg;
use zkryptium::{
    bbsplus::ciphersuites::BbsCiphersuite,
    errors::Error,
    keys::pair::KeyPair,
    schemes::{
        algorithms::{BBSplus, BbsBls12381Sha256, BbsBls12381Shake256, Scheme},
        generics::{PoKSignature, Signature},
    },
};

const HEADER: &[u8] = b"equiv-header";
const PH: &[u8] = b"equiv-presentation-header";

fn msgs(n: usize) -> Vec<Vec<u8>> {
    // different lengths, the empty message included
    (0..n).map(|i| vec![(i as u8).wrapping_mul(37).wrapping_add(1); i % 5 * 7]).collect()
}

fn keypair<S: Scheme>() -> KeyPair<BBSplus<S::Ciphersuite>>
where
    S::Ciphersuite: BbsCiphersuite,
    <S::Ciphersuite as BbsCiphersuite>::Expander: for<'a> ExpandMsg<'a>,
{
    let ikm: Vec<u8> = (0..S::Ciphersuite::IKM_LEN).map(|i| (i * 7 + 3) as u8).collect();
    KeyPair::<BBSplus<S::Ciphersuite>>::generate(&ikm, None, None).unwrap()
}

fn normalised(list: &[usize]) -> Vec<usize> {
    let mut v = list.to_vec();
    v.sort();
    v.dedup();
    v
}

fn pick(messages: &[Vec<u8>], idx: &[usize]) -> Vec<Vec<u8>> {
    idx.iter().map(|&i| messages[i].clone()).collect()
}

/// proof_gen for `disclosed` (as given), then the checks every accepted proof has to pass
fn gen_and_check<S: Scheme>(
    kp: &KeyPair<BBSplus<S::Ciphersuite>>,
    messages: &[Vec<u8>],
    disclosed: &[usize],
    header: Option<&[u8]>,
    ph: Option<&[u8]>,
) where
    S::Ciphersuite: BbsCiphersuite,
    <S::Ciphersuite as BbsCiphersuite>::Expander: for<'a> ExpandMsg<'a>,
{
    let pk = kp.public_key();
    let sig = Signature::<BBSplus<S::Ciphersuite>>::sign(Some(messages), kp.private_key(), pk, header).unwrap();
    let proof = PoKSignature::<BBSplus<S::Ciphersuite>>::proof_gen(
        pk, &sig.to_bytes(), header, ph, Some(messages), Some(disclosed),
    )
    .unwrap();

    let norm = normalised(disclosed);
    let U = messages.len() - norm.len();
    let bytes = proof.to_bytes();
    assert_eq!(bytes.len(), 272 + 32 * U, "L={} disclosed={:?}", messages.len(), disclosed);

    // the wire form round-trips
    let again = PoKSignature::<BBSplus<S::Ciphersuite>>::from_bytes(&bytes).unwrap();
    assert_eq!(again.to_bytes(), bytes);

    // accepted for the normalised disclosed set
    let dm = pick(messages, &norm);
    assert!(again.proof_verify(pk, Some(&dm), Some(&norm), header, ph).is_ok(),
        "L={} disclosed={:?}", messages.len(), disclosed);

    // bound to header and presentation header
    assert!(again.proof_verify(pk, Some(&dm), Some(&norm), header, Some(b"other ph")).is_err());
    assert!(again.proof_verify(pk, Some(&dm), Some(&norm), Some(b"other header"), ph).is_err());

    // refused for another disclosed set of the same size (the position of every message is bound)
    if !norm.is_empty() && U > 0 {
        let mut shifted = norm.clone();
        let free = (0..messages.len()).rev().find(|i| !norm.contains(i)).unwrap();
        let last = shifted.len() - 1;
        shifted[last] = free;
        shifted.sort();
        assert!(again.proof_verify(pk, Some(&dm), Some(&shifted), header, ph).is_err());
        // a disclosed message that was not signed at that place
        let mut wrong = dm.clone();
        wrong[0] = b"not the signed message".to_vec();
        assert!(again.proof_verify(pk, Some(&wrong), Some(&norm), header, ph).is_err());
    }

    // two runs use fresh randomness
    let second = PoKSignature::<BBSplus<S::Ciphersuite>>::proof_gen(
        pk, &sig.to_bytes(), header, ph, Some(messages), Some(disclosed),
    )
    .unwrap();
    assert_ne!(second.to_bytes(), bytes);
    assert!(second.proof_verify(pk, Some(&dm), Some(&norm), header, ph).is_ok());
}

fn proof_gen_sizes_and_sets<S: Scheme>()
where
    S::Ciphersuite: BbsCiphersuite,
    <S::Ciphersuite as BbsCiphersuite>::Expander: for<'a> ExpandMsg<'a>,
{
    let kp = keypair::<S>();
    for &L in &[1usize, 2, 3, 6, 11] {
        let messages = msgs(L);
        let all: Vec<usize> = (0..L).collect();
        let evens: Vec<usize> = (0..L).step_by(2).collect();
        let mut rev = all.clone();
        rev.reverse();
        let sets: Vec<Vec<usize>> = vec![
            vec![],          // nothing disclosed
            all.clone(),     // everything disclosed
            rev,             // everything, descending
            vec![L - 1],     // the largest index alone
            vec![0],         // the smallest index alone
            evens,
            vec![L - 1, 0, L - 1, 0], // unsorted, with repetitions (more entries than messages when L < 4)
        ];
        for set in &sets {
            gen_and_check::<S>(&kp, &messages, set, Some(HEADER), Some(PH));
        }
    }
    // header / presentation header absent
    gen_and_check::<S>(&kp, &msgs(4), &[1, 3], None, None);
    gen_and_check::<S>(&kp, &msgs(4), &[3, 1], None, Some(PH));
    gen_and_check::<S>(&kp, &msgs(4), &[2], Some(HEADER), None);
}

#[test]
fn proof_gen_sizes_and_sets_sha256() {
    proof_gen_sizes_and_sets::<BbsBls12381Sha256>();
}

#[test]
fn proof_gen_sizes_and_sets_shake256() {
    proof_gen_sizes_and_sets::<BbsBls12381Shake256>();
}

fn proof_gen_none_and_empty<S: Scheme>()
where
    S::Ciphersuite: BbsCiphersuite,
    <S::Ciphersuite as BbsCiphersuite>::Expander: for<'a> ExpandMsg<'a>,
{
    type P<S> = PoKSignature<BBSplus<<S as Scheme>::Ciphersuite>>;
    let kp = keypair::<S>();
    let pk = kp.public_key();
    let empty_m: Vec<Vec<u8>> = vec![];
    let empty_i: Vec<usize> = vec![];

    // no messages at all: None and Some(empty) mean the same, on both sides
    let sig0 = Signature::<BBSplus<S::Ciphersuite>>::sign(None, kp.private_key(), pk, Some(HEADER)).unwrap();
    for (m, d) in [
        (None, None),
        (Some(empty_m.as_slice()), None),
        (None, Some(empty_i.as_slice())),
        (Some(empty_m.as_slice()), Some(empty_i.as_slice())),
    ] {
        let p = P::<S>::proof_gen(pk, &sig0.to_bytes(), Some(HEADER), None, m, d).unwrap();
        assert_eq!(p.to_bytes().len(), 272);
        assert!(p.proof_verify(pk, None, None, Some(HEADER), None).is_ok());
        assert!(p.proof_verify(pk, Some(&empty_m), Some(&empty_i), Some(HEADER), Some(b"")).is_ok());
        assert!(p.proof_verify(pk, None, None, None, None).is_err());
    }
    // an index with no messages
    for bad in [vec![0usize], vec![1], vec![usize::MAX], vec![0, 0]] {
        let r = P::<S>::proof_gen(pk, &sig0.to_bytes(), Some(HEADER), None, None, Some(&bad));
        assert!(matches!(r, Err(Error::ProofGenError(_))), "{:?}", bad);
    }

    // messages, disclosed None == Some(empty); ph None == Some(empty); header None == Some(empty)
    let messages = msgs(3);
    let sig = Signature::<BBSplus<S::Ciphersuite>>::sign(Some(&messages), kp.private_key(), pk, None).unwrap();
    let p1 = P::<S>::proof_gen(pk, &sig.to_bytes(), None, None, Some(&messages), None).unwrap();
    let p2 = P::<S>::proof_gen(pk, &sig.to_bytes(), Some(b""), Some(b""), Some(&messages), Some(&empty_i)).unwrap();
    for p in [&p1, &p2] {
        assert_eq!(p.to_bytes().len(), 272 + 3 * 32);
        assert!(p.proof_verify(pk, None, None, None, None).is_ok());
        assert!(p.proof_verify(pk, Some(&empty_m), Some(&empty_i), Some(b""), Some(b"")).is_ok());
    }

    // messages given to the prover but not those that were signed: a proof comes out, nobody accepts it
    let mut other = messages.clone();
    other[1] = b"changed".to_vec();
    let p = P::<S>::proof_gen(pk, &sig.to_bytes(), None, None, Some(&other), Some(&[0])).unwrap();
    assert!(p.proof_verify(pk, Some(&pick(&other, &[0])), Some(&[0]), None, None).is_err());
    // fewer / more messages than signed
    let p = P::<S>::proof_gen(pk, &sig.to_bytes(), None, None, Some(&messages[..2]), Some(&[0])).unwrap();
    assert_eq!(p.to_bytes().len(), 272 + 32);
    assert!(p.proof_verify(pk, Some(&pick(&messages, &[0])), Some(&[0]), None, None).is_err());
}

#[test]
fn proof_gen_none_and_empty_sha256() {
    proof_gen_none_and_empty::<BbsBls12381Sha256>();
}

#[test]
fn proof_gen_none_and_empty_shake256() {
    proof_gen_none_and_empty::<BbsBls12381Shake256>();
}

fn proof_gen_refusals<S: Scheme>()
where
    S::Ciphersuite: BbsCiphersuite,
    <S::Ciphersuite as BbsCiphersuite>::Expander: for<'a> ExpandMsg<'a>,
{
    type P<S> = PoKSignature<BBSplus<<S as Scheme>::Ciphersuite>>;
    let kp = keypair::<S>();
    let pk = kp.public_key();
    let messages = msgs(3);
    let sig = Signature::<BBSplus<S::Ciphersuite>>::sign(Some(&messages), kp.private_key(), pk, Some(HEADER)).unwrap();
    let sig = sig.to_bytes();

    // indexes out of range, alone or among valid ones, more distinct indexes than messages
    let bad_sets: Vec<Vec<usize>> = vec![
        vec![3],
        vec![4],
        vec![usize::MAX],
        vec![0, 3],
        vec![3, 0],
        vec![0, 1, 2, 3],
        vec![3, 2, 1, 0],
        vec![0, 1, 2, usize::MAX],
        vec![5, 5, 5],
        vec![0, 1, 2, 3, 4, 5, 6],
    ];
    for set in &bad_sets {
        let r = P::<S>::proof_gen(pk, &sig, Some(HEADER), Some(PH), Some(&messages), Some(set));
        assert!(matches!(r, Err(Error::ProofGenError(_))), "{:?}", set);
    }
    // repetitions alone never make a list invalid
    for set in [vec![2usize, 2, 2, 2, 2], vec![0, 1, 2, 2, 1, 0, 0]] {
        let r = P::<S>::proof_gen(pk, &sig, Some(HEADER), Some(PH), Some(&messages), Some(&set)).unwrap();
        let norm = normalised(&set);
        assert_eq!(r.to_bytes().len(), 272 + 32 * (3 - norm.len()));
        assert!(r.proof_verify(pk, Some(&pick(&messages, &norm)), Some(&norm), Some(HEADER), Some(PH)).is_ok());
    }

    // the signature is untrusted bytes: wrong lengths, a point that does not decode, e = 0, e not reduced
    for len in [0usize, 1, 48, 79, 81, 160] {
        let r = P::<S>::proof_gen(pk, &vec![0x11; len], None, None, Some(&messages), None);
        assert!(matches!(r, Err(Error::InvalidSignature)), "len {}", len);
    }
    assert!(matches!(P::<S>::proof_gen(pk, &sig[..79], None, None, Some(&messages), None), Err(Error::InvalidSignature)));
    let mut longer = sig.to_vec();
    longer.push(0);
    assert!(matches!(P::<S>::proof_gen(pk, &longer, None, None, Some(&messages), None), Err(Error::InvalidSignature)));
    let mut bad_point = sig;
    bad_point[..48].copy_from_slice(&[0xff; 48]);
    assert!(matches!(P::<S>::proof_gen(pk, &bad_point, None, None, Some(&messages), None), Err(Error::InvalidSignature)));
    let mut identity = sig;
    identity[..48].copy_from_slice(&[0u8; 48]);
    identity[0] = 0xc0;
    assert!(matches!(P::<S>::proof_gen(pk, &identity, None, None, Some(&messages), None), Err(Error::InvalidSignature)));
    let mut zero_e = sig;
    zero_e[48..].copy_from_slice(&[0u8; 32]);
    assert!(matches!(P::<S>::proof_gen(pk, &zero_e, None, None, Some(&messages), None), Err(Error::InvalidSignature)));
    let mut big_e = sig;
    big_e[48..].copy_from_slice(&[0xff; 32]);
    assert!(matches!(P::<S>::proof_gen(pk, &big_e, None, None, Some(&messages), None), Err(Error::InvalidSignature)));
    // the refusal of the signature comes before the look at the indexes
    assert!(matches!(P::<S>::proof_gen(pk, &zero_e, None, None, Some(&messages), Some(&[7])), Err(Error::InvalidSignature)));

    // a well-formed signature of somebody else: a proof comes out and is refused
    let mut ikm2 = vec![0x5a; S::Ciphersuite::IKM_LEN];
    ikm2[0] = 1;
    let kp2 = KeyPair::<BBSplus<S::Ciphersuite>>::generate(&ikm2, None, None).unwrap();
    let sig2 = Signature::<BBSplus<S::Ciphersuite>>::sign(Some(&messages), kp2.private_key(), kp2.public_key(), Some(HEADER)).unwrap();
    let p = P::<S>::proof_gen(pk, &sig2.to_bytes(), Some(HEADER), None, Some(&messages), Some(&[1])).unwrap();
    assert!(p.proof_verify(pk, Some(&pick(&messages, &[1])), Some(&[1]), Some(HEADER), None).is_err());
    assert!(p.proof_verify(kp2.public_key(), Some(&pick(&messages, &[1])), Some(&[1]), Some(HEADER), None).is_err());
}

#[test]
fn proof_gen_refusals_sha256() {
    proof_gen_refusals::<BbsBls12381Sha256>();
}

#[test]
fn proof_gen_refusals_shake256() {
    proof_gen_refusals::<BbsBls12381Shake256>();
}

#[cfg(feature = "bbsplus_blind")]
mod blind {
    use super::*;
    use zkryptium::bbsplus::commitment::BlindFactor;
    use zkryptium::schemes::generics::{BlindSignature, Commitment};

    struct Setup<S: Scheme>
    where
        S::Ciphersuite: BbsCiphersuite,
    {
        kp: KeyPair<BBSplus<S::Ciphersuite>>,
        messages: Vec<Vec<u8>>,
        committed: Vec<Vec<u8>>,
        blind: Option<BlindFactor>,
        sig: [u8; 80],
    }

    fn setup<S: Scheme>(L: usize, M: Option<usize>) -> Setup<S>
    where
        S::Ciphersuite: BbsCiphersuite,
        <S::Ciphersuite as BbsCiphersuite>::Expander: for<'a> ExpandMsg<'a>,
    {
        let kp = keypair::<S>();
        let messages = msgs(L);
        let committed: Vec<Vec<u8>> = (0..M.unwrap_or(0)).map(|i| vec![0xc0 + i as u8; 3 + i]).collect();
        let (commitment, blind) = match M {
            Some(_) => {
                let (c, b) = Commitment::<BBSplus<S::Ciphersuite>>::commit(Some(&committed)).unwrap();
                (Some(c.to_bytes()), Some(b))
            }
            None => (None, None),
        };
        let sig = BlindSignature::<BBSplus<S::Ciphersuite>>::blind_sign(
            kp.private_key(),
            kp.public_key(),
            commitment.as_deref(),
            Some(HEADER),
            Some(&messages),
        )
        .unwrap();
        sig.verify_blind_sign(kp.public_key(), Some(HEADER), Some(&messages), Some(&committed), blind.as_ref())
            .unwrap();
        Setup { kp, messages, committed, blind, sig: sig.to_bytes() }
    }

    fn gen_and_check<S: Scheme>(s: &Setup<S>, d: &[usize], dc: &[usize], ph: Option<&[u8]>)
    where
        S::Ciphersuite: BbsCiphersuite,
        <S::Ciphersuite as BbsCiphersuite>::Expander: for<'a> ExpandMsg<'a>,
    {
        let pk = s.kp.public_key();
        let L = s.messages.len();
        let M = s.committed.len();
        let proof = PoKSignature::<BBSplus<S::Ciphersuite>>::blind_proof_gen(
            pk, &s.sig, Some(HEADER), ph, Some(&s.messages), Some(&s.committed), Some(d), Some(dc), s.blind.as_ref(),
        )
        .unwrap();
        let (nd, ndc) = (normalised(d), normalised(dc));
        // the blind factor is a message that stays hidden
        let U = L + M + 1 - nd.len() - ndc.len();
        let bytes = proof.to_bytes();
        assert_eq!(bytes.len(), 272 + 32 * U, "L={} M={} d={:?} dc={:?}", L, M, d, dc);
        let proof = PoKSignature::<BBSplus<S::Ciphersuite>>::from_bytes(&bytes).unwrap();
        let dm = pick(&s.messages, &nd);
        let dcm = pick(&s.committed, &ndc);
        assert!(proof
            .blind_proof_verify(pk, Some(HEADER), ph, Some(L), Some(&dm), Some(&dcm), Some(&nd), Some(&ndc))
            .is_ok(), "L={} M={} d={:?} dc={:?}", L, M, d, dc);
        assert!(proof
            .blind_proof_verify(pk, Some(HEADER), Some(b"another"), Some(L), Some(&dm), Some(&dcm), Some(&nd), Some(&ndc))
            .is_err());
        // a committed message shown as a signer message (or the reverse) is refused
        if nd.len() == 1 && ndc.len() == 1 && nd[0] < M && ndc[0] < L {
            assert!(proof
                .blind_proof_verify(pk, Some(HEADER), ph, Some(L), Some(&dcm), Some(&dm), Some(&nd), Some(&ndc))
                .is_err());
        }
    }

    fn blind_sets<S: Scheme>()
    where
        S::Ciphersuite: BbsCiphersuite,
        <S::Ciphersuite as BbsCiphersuite>::Expander: for<'a> ExpandMsg<'a>,
    {
        for &(L, M) in &[(3usize, 2usize), (1, 1), (0, 2), (2, 0), (0, 0), (5, 4)] {
            let s = setup::<S>(L, Some(M));
            let all_d: Vec<usize> = (0..L).collect();
            let all_c: Vec<usize> = (0..M).collect();
            let rev_d: Vec<usize> = (0..L).rev().collect();
            let rev_c: Vec<usize> = (0..M).rev().collect();
            gen_and_check::<S>(&s, &[], &[], Some(PH));
            gen_and_check::<S>(&s, &all_d, &all_c, Some(PH));
            gen_and_check::<S>(&s, &rev_d, &rev_c, None);
            gen_and_check::<S>(&s, &all_d, &[], Some(PH));
            gen_and_check::<S>(&s, &[], &all_c, Some(PH));
            if L > 0 {
                gen_and_check::<S>(&s, &[L - 1], &[], Some(PH));
            }
            if M > 0 {
                gen_and_check::<S>(&s, &[], &[M - 1], Some(PH));
            }
            if L > 0 && M > 0 {
                gen_and_check::<S>(&s, &[0], &[0], Some(PH));
                gen_and_check::<S>(&s, &[L - 1], &[M - 1], Some(PH));
            }
            if L > 1 {
                // repetitions within the allowed number of entries
                gen_and_check::<S>(&s, &[L - 1, L - 1], &[], Some(PH));
            }
        }
    }

    #[test]
    fn blind_sets_sha256() {
        blind_sets::<BbsBls12381Sha256>();
    }

    #[test]
    fn blind_sets_shake256() {
        blind_sets::<BbsBls12381Shake256>();
    }

    fn blind_none_and_refusals<S: Scheme>()
    where
        S::Ciphersuite: BbsCiphersuite,
        <S::Ciphersuite as BbsCiphersuite>::Expander: for<'a> ExpandMsg<'a>,
    {
        type P<S> = PoKSignature<BBSplus<<S as Scheme>::Ciphersuite>>;
        // no commitment at all: committed messages None, blind factor None
        let s = setup::<S>(3, None);
        let pk = s.kp.public_key();
        let empty_m: Vec<Vec<u8>> = vec![];
        let empty_i: Vec<usize> = vec![];
        for (cm, dci) in [(None, None), (Some(empty_m.as_slice()), Some(empty_i.as_slice()))] {
            let p = P::<S>::blind_proof_gen(pk, &s.sig, Some(HEADER), None, Some(&s.messages), cm, Some(&[2, 0]), dci, None).unwrap();
            assert_eq!(p.to_bytes().len(), 272 + 32 * 2);
            let dm = pick(&s.messages, &[0, 2]);
            assert!(p.blind_proof_verify(pk, Some(HEADER), None, Some(3), Some(&dm), None, Some(&[0, 2]), None).is_ok());
            assert!(p.blind_proof_verify(pk, Some(HEADER), Some(b""), Some(3), Some(&dm), Some(&empty_m), Some(&[0, 2]), Some(&empty_i)).is_ok());
        }
        // disclosed lists None == Some(empty)
        let p = P::<S>::blind_proof_gen(pk, &s.sig, Some(HEADER), None, Some(&s.messages), None, None, None, None).unwrap();
        assert_eq!(p.to_bytes().len(), 272 + 32 * 4);
        assert!(p.blind_proof_verify(pk, Some(HEADER), None, Some(3), None, None, None, None).is_ok());
        // a commitment index without committed messages
        let r = P::<S>::blind_proof_gen(pk, &s.sig, Some(HEADER), None, Some(&s.messages), None, None, Some(&[0]), None);
        assert!(matches!(r, Err(Error::BlindProofGenError(_))));

        let s = setup::<S>(3, Some(2));
        let pk = s.kp.public_key();
        let bad: Vec<(Vec<usize>, Vec<usize>)> = vec![
            (vec![3], vec![]),
            (vec![usize::MAX], vec![]),
            (vec![0, 1, 2, 0], vec![]), // more entries than signer messages, although all are in range
            (vec![0, 1, 2, 3], vec![]),
            (vec![], vec![2]),
            (vec![], vec![usize::MAX]),
            (vec![], vec![0, 1, 0]),
            (vec![], vec![0, 1, 2]),
            (vec![3], vec![2]),
            (vec![0], vec![usize::MAX - 3]),
            (vec![0], vec![usize::MAX - 4]),
        ];
        for (d, dc) in &bad {
            let r = P::<S>::blind_proof_gen(
                pk, &s.sig, Some(HEADER), Some(PH), Some(&s.messages), Some(&s.committed), Some(d), Some(dc), s.blind.as_ref(),
            );
            assert!(matches!(r, Err(Error::BlindProofGenError(_))), "{:?} {:?}", d, dc);
        }
        // index lists given without the lists of messages they point into
        let r = P::<S>::blind_proof_gen(pk, &s.sig, Some(HEADER), None, None, Some(&s.committed), Some(&[0]), None, s.blind.as_ref());
        assert!(matches!(r, Err(Error::BlindProofGenError(_))));
        let r = P::<S>::blind_proof_gen(pk, &s.sig, Some(HEADER), None, Some(&s.messages), None, None, Some(&[0]), s.blind.as_ref());
        assert!(matches!(r, Err(Error::BlindProofGenError(_))));

        // untrusted signature bytes
        for len in [0usize, 79, 81] {
            let r = P::<S>::blind_proof_gen(pk, &vec![7u8; len], None, None, Some(&s.messages), Some(&s.committed), None, None, s.blind.as_ref());
            assert!(matches!(r, Err(Error::InvalidSignature)));
        }
        let mut zero_e = s.sig;
        zero_e[48..].copy_from_slice(&[0u8; 32]);
        let r = P::<S>::blind_proof_gen(pk, &zero_e, None, None, Some(&s.messages), Some(&s.committed), Some(&[9]), None, s.blind.as_ref());
        assert!(matches!(r, Err(Error::InvalidSignature)));

        // the blind factor left out (taken as zero) or another one: a proof comes out and is refused
        for b in [None, Some(BlindFactor::from_bytes(&[1u8; 32]).unwrap())] {
            let p = P::<S>::blind_proof_gen(
                pk, &s.sig, Some(HEADER), Some(PH), Some(&s.messages), Some(&s.committed), Some(&[1]), Some(&[1]), b.as_ref(),
            )
            .unwrap();
            assert_eq!(p.to_bytes().len(), 272 + 32 * 4);
            assert!(p
                .blind_proof_verify(pk, Some(HEADER), Some(PH), Some(3), Some(&pick(&s.messages, &[1])), Some(&pick(&s.committed, &[1])), Some(&[1]), Some(&[1]))
                .is_err());
        }
        // the two lists of messages swapped by the prover
        let p = P::<S>::blind_proof_gen(
            pk, &s.sig, Some(HEADER), Some(PH), Some(&s.committed), Some(&s.messages), Some(&[1]), Some(&[2]), s.blind.as_ref(),
        )
        .unwrap();
        assert!(p
            .blind_proof_verify(pk, Some(HEADER), Some(PH), Some(2), Some(&pick(&s.committed, &[1])), Some(&pick(&s.messages, &[2])), Some(&[1]), Some(&[2]))
            .is_err());
    }

    #[test]
    fn blind_none_and_refusals_sha256() {
        blind_none_and_refusals::<BbsBls12381Sha256>();
    }

    #[test]
    fn blind_none_and_refusals_shake256() {
        blind_none_and_refusals::<BbsBls12381Shake256>();
    }
}
