// Behavioural pin-down tests for src/bbsplus/blind.rs and src/bbsplus/commitment.rs
// (public API only). Every assertion is on a deterministic outcome: `commit` draws
// fresh randomness in a non-test build of the library, so the random commitments are
// only checked through round-trip / accept / reject properties, while byte-exact
// expectations come from the fixtures shipped with the crate.
#![allow(non_snake_case)]

use std::fs;
use std::marker::PhantomData;

use bls12_381_plus::group::Curve;
use bls12_381_plus::G1Projective;
use elliptic_curve::hash2curve::ExpandMsg;
use zkryptium::{
    bbsplus::{
        blind::prepare_parameters,
        ciphersuites::{BbsCiphersuite, Bls12381Sha256, Bls12381Shake256},
        commitment::{BBSplusCommitment, BlindFactor},
        generators::Generators,
        keys::{BBSplusPublicKey, BBSplusSecretKey},
    },
    schemes::{
        algorithms::BBSplus,
        generics::{BlindSignature, Commitment},
    },
    utils::message::bbsplus_message::BBSplusMessage,
};

const G1: usize = 48;
const SC: usize = 32;

struct Fixture {
    sk: BBSplusSecretKey,
    pk: BBSplusPublicKey,
    header: Vec<u8>,
    messages: Vec<Vec<u8>>,
    committed: Option<Vec<Vec<u8>>>,
    blind: Option<BlindFactor>,
    cwp: Option<Vec<u8>>,
    signature: String,
    valid: bool,
}

fn hex_list(v: &serde_json::Value) -> Option<Vec<Vec<u8>>> {
    v.as_array().map(|a| {
        a.iter()
            .map(|m| hex::decode(m.as_str().unwrap()).unwrap())
            .collect()
    })
}

fn load(dir: &str, n: usize) -> Fixture {
    let path = format!("./fixture_data_blind/{}/signature/signature{:03}.json", dir, n);
    let data = fs::read_to_string(path).expect("fixture");
    let j: serde_json::Value = serde_json::from_str(&data).unwrap();
    let sk = hex::decode(j["signerKeyPair"]["secretKey"].as_str().unwrap()).unwrap();
    let pk = hex::decode(j["signerKeyPair"]["publicKey"].as_str().unwrap()).unwrap();
    Fixture {
        sk: BBSplusSecretKey::from_bytes(&sk).unwrap(),
        pk: BBSplusPublicKey::from_bytes(&pk).unwrap(),
        header: hex::decode(j["header"].as_str().unwrap()).unwrap(),
        messages: hex_list(&j["messages"]).unwrap(),
        committed: hex_list(&j["committedMessages"]),
        blind: j["proverBlind"].as_str().map(|b| {
            BlindFactor::from_bytes(&hex::decode(b).unwrap().try_into().unwrap()).unwrap()
        }),
        cwp: j["commitmentWithProof"]
            .as_str()
            .map(|c| hex::decode(c).unwrap()),
        signature: j["signature"].as_str().unwrap().to_owned(),
        valid: j["result"]["valid"].as_bool().unwrap(),
    }
}

fn blind_gens<CS: BbsCiphersuite>(n: usize) -> Generators
where
    CS::Expander: for<'a> ExpandMsg<'a>,
{
    Generators::create::<CS>(n, Some(&[b"BLIND_", CS::API_ID_BLIND].concat()))
}

fn compressed(p: &G1Projective) -> Vec<u8> {
    p.to_affine().to_compressed().to_vec()
}

fn msgs(n: usize, tag: u8) -> Vec<Vec<u8>> {
    // different lengths, including the empty message
    (0..n)
        .map(|i| (0..(i * 7) % 40).map(|k| tag ^ (k as u8) ^ (i as u8)).collect())
        .collect()
}

type Sig<CS> = BlindSignature<BBSplus<CS>>;
type Com<CS> = Commitment<BBSplus<CS>>;

// ---------------------------------------------------------------------------------
// blind_sign / verify_blind_sign against the fixtures (byte-exact signatures)
// ---------------------------------------------------------------------------------

fn fixtures<CS: BbsCiphersuite>(dir: &str)
where
    CS::Expander: for<'a> ExpandMsg<'a>,
{
    for n in 1..=5 {
        let f = load(dir, n);
        let sig = Sig::<CS>::blind_sign(
            &f.sk,
            &f.pk,
            f.cwp.as_deref(),
            Some(&f.header),
            Some(&f.messages),
        )
        .unwrap();
        assert_eq!(hex::encode(sig.to_bytes()), f.signature, "{dir} #{n}");
        assert_eq!(
            Sig::<CS>::from_bytes(&sig.to_bytes()).unwrap().to_bytes(),
            sig.to_bytes()
        );

        let res = sig.verify_blind_sign(
            &f.pk,
            Some(&f.header),
            Some(&f.messages),
            f.committed.as_deref(),
            f.blind.as_ref(),
        );
        assert_eq!(res.is_ok(), f.valid, "{dir} #{n}");

        // None <-> Some(empty) for the signer messages
        if f.messages.is_empty() {
            let sig2 =
                Sig::<CS>::blind_sign(&f.sk, &f.pk, f.cwp.as_deref(), Some(&f.header), None)
                    .unwrap();
            assert_eq!(sig2.to_bytes(), sig.to_bytes());
            assert!(sig
                .verify_blind_sign(
                    &f.pk,
                    Some(&f.header),
                    None,
                    f.committed.as_deref(),
                    f.blind.as_ref()
                )
                .is_ok());
        }
        // None <-> Some(empty) for the committed messages
        if f.committed.as_ref().map_or(true, |c| c.is_empty()) {
            for cm in [None, Some(&[][..])] {
                assert!(sig
                    .verify_blind_sign(
                        &f.pk,
                        Some(&f.header),
                        Some(&f.messages),
                        cm,
                        f.blind.as_ref()
                    )
                    .is_ok());
            }
        }
        // None <-> Some(empty) for the commitment
        if f.cwp.is_none() {
            let sig2 = Sig::<CS>::blind_sign(
                &f.sk,
                &f.pk,
                Some(&[]),
                Some(&f.header),
                Some(&f.messages),
            )
            .unwrap();
            assert_eq!(sig2.to_bytes(), sig.to_bytes());
            // no blind given == zero blind
            let zero = BlindFactor::from_bytes(&[0u8; 32]).unwrap();
            assert!(sig
                .verify_blind_sign(&f.pk, Some(&f.header), Some(&f.messages), None, Some(&zero))
                .is_ok());
        }

        // header None vs Some(empty) agree; a different header gives another signature
        let s_none =
            Sig::<CS>::blind_sign(&f.sk, &f.pk, f.cwp.as_deref(), None, Some(&f.messages))
                .unwrap();
        let s_empty = Sig::<CS>::blind_sign(
            &f.sk,
            &f.pk,
            f.cwp.as_deref(),
            Some(&[]),
            Some(&f.messages),
        )
        .unwrap();
        assert_eq!(s_none.to_bytes(), s_empty.to_bytes());
        assert_ne!(s_none.to_bytes(), sig.to_bytes());
        assert!(s_none
            .verify_blind_sign(
                &f.pk,
                None,
                Some(&f.messages),
                f.committed.as_deref(),
                f.blind.as_ref()
            )
            .is_ok());

        // negative verifications
        assert!(s_none
            .verify_blind_sign(
                &f.pk,
                Some(&f.header),
                Some(&f.messages),
                f.committed.as_deref(),
                f.blind.as_ref()
            )
            .is_err());
        let mut more = f.messages.clone();
        more.push(b"extra".to_vec());
        assert!(sig
            .verify_blind_sign(
                &f.pk,
                Some(&f.header),
                Some(&more),
                f.committed.as_deref(),
                f.blind.as_ref()
            )
            .is_err());
        if !f.messages.is_empty() {
            let fewer = &f.messages[..f.messages.len() - 1];
            assert!(sig
                .verify_blind_sign(
                    &f.pk,
                    Some(&f.header),
                    Some(fewer),
                    f.committed.as_deref(),
                    f.blind.as_ref()
                )
                .is_err());
            let mut rev = f.messages.clone();
            rev.reverse();
            assert!(sig
                .verify_blind_sign(
                    &f.pk,
                    Some(&f.header),
                    Some(&rev),
                    f.committed.as_deref(),
                    f.blind.as_ref()
                )
                .is_err());
        }
        if let Some(cm) = f.committed.as_ref().filter(|c| !c.is_empty()) {
            assert!(sig
                .verify_blind_sign(
                    &f.pk,
                    Some(&f.header),
                    Some(&f.messages),
                    Some(&cm[..cm.len() - 1]),
                    f.blind.as_ref()
                )
                .is_err());
            let mut rev = cm.clone();
            rev.reverse();
            assert!(sig
                .verify_blind_sign(
                    &f.pk,
                    Some(&f.header),
                    Some(&f.messages),
                    Some(&rev),
                    f.blind.as_ref()
                )
                .is_err());
            assert!(sig
                .verify_blind_sign(&f.pk, Some(&f.header), Some(&f.messages), Some(cm), None)
                .is_err());
        }
        if f.cwp.is_some() {
            let wrong = BlindFactor::from_bytes(&[1u8; 32]).unwrap();
            assert!(sig
                .verify_blind_sign(
                    &f.pk,
                    Some(&f.header),
                    Some(&f.messages),
                    f.committed.as_deref(),
                    Some(&wrong)
                )
                .is_err());
        }
    }
}

#[test]
fn fixtures_sha256() {
    fixtures::<Bls12381Sha256>("bls12-381-sha-256");
}

#[test]
fn fixtures_shake256() {
    fixtures::<Bls12381Shake256>("bls12-381-shake-256");
}

// ---------------------------------------------------------------------------------
// commitment codec and deserialize_and_validate_commit on untrusted bytes
// ---------------------------------------------------------------------------------

fn codec<CS: BbsCiphersuite>(dir: &str)
where
    CS::Expander: for<'a> ExpandMsg<'a>,
{
    let api = Some(CS::API_ID_BLIND);
    for n in [1usize, 2, 3, 4] {
        let f = load(dir, n);
        let bytes = f.cwp.clone().unwrap();
        let m = (bytes.len() - G1 - 2 * SC) / SC; // number of committed messages
        assert_eq!(m, f.committed.as_ref().unwrap().len());

        // codec round trips, both layers
        let inner = BBSplusCommitment::from_bytes(&bytes).unwrap();
        assert_eq!(inner.to_bytes(), bytes);
        assert_eq!(compressed(&inner.commitment), &bytes[..G1]);
        assert_eq!(inner.proof.to_bytes(), &bytes[G1..]);
        let outer = Com::<CS>::from_bytes(&bytes).unwrap();
        assert_eq!(outer.to_bytes(), bytes);
        assert!(outer == Com::<CS>::BBSplus(inner.clone()));

        // accepted with exactly m+1 generators and with any larger number
        for extra in [0usize, 1, 2, 5] {
            let p = Com::<CS>::deserialize_and_validate_commit(
                Some(&bytes),
                &blind_gens::<CS>(m + 1 + extra),
                api,
            )
            .unwrap();
            assert_eq!(compressed(&p), &bytes[..G1], "extra={extra}");
        }
        // rejected with fewer
        for k in 0..=m {
            assert!(
                Com::<CS>::deserialize_and_validate_commit(Some(&bytes), &blind_gens::<CS>(k), api)
                    .is_err(),
                "k={k}"
            );
        }
        // other api_id (None == Some(""))
        let g = blind_gens::<CS>(m + 2);
        assert!(Com::<CS>::deserialize_and_validate_commit(Some(&bytes), &g, None).is_err());
        assert!(Com::<CS>::deserialize_and_validate_commit(Some(&bytes), &g, Some(b"")).is_err());
        // generators of the wrong family
        let wrong_g = Generators::create::<CS>(m + 2, Some(CS::API_ID_BLIND));
        assert!(Com::<CS>::deserialize_and_validate_commit(Some(&bytes), &wrong_g, api).is_err());

        // nothing supplied -> identity, whatever the generators
        for g in [blind_gens::<CS>(0), blind_gens::<CS>(1), blind_gens::<CS>(3)] {
            for c in [None, Some(&[][..])] {
                let p = Com::<CS>::deserialize_and_validate_commit(c, &g, api).unwrap();
                assert_eq!(p, G1Projective::IDENTITY);
            }
        }

        // every truncation is rejected by the validation and by blind_sign
        let g_big = blind_gens::<CS>(m + 4);
        for len in 0..bytes.len() {
            let t = &bytes[..len];
            // the codec alone only checks the shape: a point, then >= 2 whole scalars
            let shape_ok = len >= G1 + 2 * SC && (len - G1) % SC == 0;
            assert_eq!(BBSplusCommitment::from_bytes(t).is_ok(), shape_ok, "len={len}");
            assert_eq!(Com::<CS>::from_bytes(t).is_ok(), shape_ok, "len={len}");
            if shape_ok {
                assert_eq!(BBSplusCommitment::from_bytes(t).unwrap().to_bytes(), t);
            }
            let r = Com::<CS>::deserialize_and_validate_commit(Some(t), &g_big, api);
            let s = Sig::<CS>::blind_sign(&f.sk, &f.pk, Some(t), Some(&f.header), Some(&f.messages));
            if len == 0 {
                assert_eq!(r.unwrap(), G1Projective::IDENTITY);
                let none =
                    Sig::<CS>::blind_sign(&f.sk, &f.pk, None, Some(&f.header), Some(&f.messages))
                        .unwrap();
                assert_eq!(s.unwrap().to_bytes(), none.to_bytes());
            } else {
                assert!(r.is_err(), "len={len}");
                assert!(s.is_err(), "len={len}");
            }
        }
        // trailing garbage
        for extra in [1usize, 31, 32, 33, 64] {
            let mut t = bytes.clone();
            t.extend(std::iter::repeat(0u8).take(extra));
            let parsed = BBSplusCommitment::from_bytes(&t);
            assert_eq!(parsed.is_ok(), extra % SC == 0, "extra={extra}");
            if let Ok(p) = parsed {
                assert_eq!(p.to_bytes(), t);
            }
            assert!(
                Com::<CS>::deserialize_and_validate_commit(Some(&t), &g_big, api).is_err(),
                "extra={extra}"
            );
            assert!(
                Sig::<CS>::blind_sign(&f.sk, &f.pk, Some(&t), Some(&f.header), Some(&f.messages))
                    .is_err(),
                "extra={extra}"
            );
        }
        // one 32-byte block removed from the middle / the end
        {
            let mut t = bytes.clone();
            t.drain(G1..G1 + SC);
            assert_eq!(BBSplusCommitment::from_bytes(&t).is_ok(), t.len() >= G1 + 2 * SC);
            assert!(Com::<CS>::deserialize_and_validate_commit(Some(&t), &g_big, api).is_err());
            assert!(
                Sig::<CS>::blind_sign(&f.sk, &f.pk, Some(&t), Some(&f.header), Some(&f.messages))
                    .is_err()
            );
        }
        // a flipped bit in any block invalidates the proof (or the encoding)
        let blocks = 1 + (bytes.len() - G1) / SC;
        for b in 0..blocks {
            let pos = if b == 0 { G1 - 1 } else { G1 + b * SC - 1 };
            let mut t = bytes.clone();
            t[pos] ^= 0x01;
            assert!(
                Com::<CS>::deserialize_and_validate_commit(Some(&t), &g_big, api).is_err(),
                "block={b}"
            );
            assert!(
                Sig::<CS>::blind_sign(&f.sk, &f.pk, Some(&t), Some(&f.header), Some(&f.messages))
                    .is_err(),
                "block={b}"
            );
        }
        // non-canonical scalar in any scalar slot
        for b in 1..blocks {
            let mut t = bytes.clone();
            for x in &mut t[G1 + (b - 1) * SC..G1 + b * SC] {
                *x = 0xff;
            }
            assert!(BBSplusCommitment::from_bytes(&t).is_err(), "block={b}");
            assert!(Com::<CS>::from_bytes(&t).is_err(), "block={b}");
            assert!(Com::<CS>::deserialize_and_validate_commit(Some(&t), &g_big, api).is_err());
        }
        // invalid point encodings
        for fill in [0x00u8, 0xff, 0x80] {
            let mut t = bytes.clone();
            for x in &mut t[..G1] {
                *x = fill;
            }
            assert!(BBSplusCommitment::from_bytes(&t).is_err(), "fill={fill}");
            assert!(Com::<CS>::deserialize_and_validate_commit(Some(&t), &g_big, api).is_err());
            assert!(
                Sig::<CS>::blind_sign(&f.sk, &f.pk, Some(&t), Some(&f.header), Some(&f.messages))
                    .is_err()
            );
        }
        // the identity as commitment point (compressed infinity) with the real proof
        {
            let mut t = bytes.clone();
            for x in &mut t[..G1] {
                *x = 0;
            }
            t[0] = 0xc0;
            let parsed = BBSplusCommitment::from_bytes(&t);
            if let Ok(p) = &parsed {
                assert_eq!(p.to_bytes(), t);
            }
            assert!(Com::<CS>::deserialize_and_validate_commit(Some(&t), &g_big, api).is_err());
            assert!(
                Sig::<CS>::blind_sign(&f.sk, &f.pk, Some(&t), Some(&f.header), Some(&f.messages))
                    .is_err()
            );
        }
    }

    // short inputs of all small lengths (shorter than a point, a point only, ...)
    let f = load(dir, 5);
    for len in 1..(G1 + 3 * SC + 2) {
        let t = vec![0u8; len];
        assert!(Com::<CS>::deserialize_and_validate_commit(
            Some(&t),
            &blind_gens::<CS>(4),
            Some(CS::API_ID_BLIND)
        )
        .is_err());
        assert!(
            Sig::<CS>::blind_sign(&f.sk, &f.pk, Some(&t), Some(&f.header), Some(&f.messages))
                .is_err(),
            "len={len}"
        );
    }
}

#[test]
fn codec_sha256() {
    codec::<Bls12381Sha256>("bls12-381-sha-256");
}

#[test]
fn codec_shake256() {
    codec::<Bls12381Shake256>("bls12-381-shake-256");
}

// ---------------------------------------------------------------------------------
// commit -> blind_sign -> verify_blind_sign round trips, several list sizes
// ---------------------------------------------------------------------------------

fn round_trip<CS: BbsCiphersuite>(dir: &str)
where
    CS::Expander: for<'a> ExpandMsg<'a>,
{
    let f = load(dir, 1);
    let header = b"hdr".to_vec();
    for m in [0usize, 1, 2, 3, 6] {
        let cm = msgs(m, 0x5a);
        let variants: Vec<Option<&[Vec<u8>]>> = if m == 0 {
            vec![None, Some(&[][..])]
        } else {
            vec![Some(&cm[..])]
        };
        for cm_opt in variants {
            let (c, blind) = Com::<CS>::commit(cm_opt).unwrap();
            let bytes = c.to_bytes();
            assert_eq!(bytes.len(), G1 + (m + 2) * SC);
            assert!(Com::<CS>::from_bytes(&bytes).unwrap() == c);
            let inner = BBSplusCommitment::from_bytes(&bytes).unwrap();
            assert_eq!(inner.to_bytes(), bytes);
            assert_eq!(inner.proof.to_bytes().len(), (m + 2) * SC);
            let bf = BlindFactor::from_bytes(&blind.to_bytes()).unwrap();
            assert_eq!(bf.to_bytes(), blind.to_bytes());

            // validation: exactly enough, more than enough, not enough generators
            let api = Some(CS::API_ID_BLIND);
            for extra in [0usize, 1, 3] {
                let p = Com::<CS>::deserialize_and_validate_commit(
                    Some(&bytes),
                    &blind_gens::<CS>(m + 1 + extra),
                    api,
                )
                .unwrap();
                assert_eq!(compressed(&p), &bytes[..G1]);
            }
            assert!(Com::<CS>::deserialize_and_validate_commit(
                Some(&bytes),
                &blind_gens::<CS>(m),
                api
            )
            .is_err());

            for l in [0usize, 1, 4] {
                let ms = msgs(l, 0xa5);
                let ms_opt: Option<&[Vec<u8>]> = if l == 0 { None } else { Some(&ms) };
                let sig =
                    Sig::<CS>::blind_sign(&f.sk, &f.pk, Some(&bytes), Some(&header), ms_opt)
                        .unwrap();
                // signing is deterministic in its inputs
                let again = Sig::<CS>::blind_sign(
                    &f.sk,
                    &f.pk,
                    Some(&bytes),
                    Some(&header),
                    Some(&ms),
                )
                .unwrap();
                assert_eq!(sig.to_bytes(), again.to_bytes());

                assert!(sig
                    .verify_blind_sign(&f.pk, Some(&header), Some(&ms), Some(&cm), Some(&blind))
                    .is_ok());
                assert!(sig
                    .verify_blind_sign(&f.pk, Some(&header), ms_opt, cm_opt, Some(&bf))
                    .is_ok());
                // wrong blind / missing blind
                let wrong = BlindFactor::from_bytes(&[2u8; 32]).unwrap();
                assert!(sig
                    .verify_blind_sign(&f.pk, Some(&header), Some(&ms), Some(&cm), Some(&wrong))
                    .is_err());
                assert!(sig
                    .verify_blind_sign(&f.pk, Some(&header), Some(&ms), Some(&cm), None)
                    .is_err());
                // wrong committed messages
                let mut cm2 = cm.clone();
                cm2.push(b"x".to_vec());
                assert!(sig
                    .verify_blind_sign(&f.pk, Some(&header), Some(&ms), Some(&cm2), Some(&blind))
                    .is_err());
                if m > 0 {
                    assert!(sig
                        .verify_blind_sign(
                            &f.pk,
                            Some(&header),
                            Some(&ms),
                            Some(&cm[..m - 1]),
                            Some(&blind)
                        )
                        .is_err());
                    let mut cm3 = cm.clone();
                    cm3[m - 1].push(1);
                    assert!(sig
                        .verify_blind_sign(
                            &f.pk,
                            Some(&header),
                            Some(&ms),
                            Some(&cm3),
                            Some(&blind)
                        )
                        .is_err());
                    // largest index swapped with the first
                    if m > 1 {
                        let mut cm4 = cm.clone();
                        cm4.swap(0, m - 1);
                        assert!(sig
                            .verify_blind_sign(
                                &f.pk,
                                Some(&header),
                                Some(&ms),
                                Some(&cm4),
                                Some(&blind)
                            )
                            .is_err());
                    }
                }
                // signer messages moved to the committed side and vice versa
                if l > 0 {
                    let mut moved = cm.clone();
                    moved.insert(0, ms[l - 1].clone());
                    assert!(sig
                        .verify_blind_sign(
                            &f.pk,
                            Some(&header),
                            Some(&ms[..l - 1]),
                            Some(&moved),
                            Some(&blind)
                        )
                        .is_err());
                }
            }

            // a proof for m messages is not a proof for the same point with another m
            if m > 0 {
                let mut t = bytes.clone();
                let at = t.len() - SC;
                t.drain(at - SC..at); // drop the last m^ scalar
                assert!(Sig::<CS>::blind_sign(&f.sk, &f.pk, Some(&t), Some(&header), None).is_err());
            }
        }
    }

    // the placeholder variant is refused, not a panic
    let ghost = Sig::<CS>::_Unreachable(PhantomData);
    assert!(ghost
        .verify_blind_sign(&f.pk, Some(&header), None, None, None)
        .is_err());
    assert!(ghost
        .verify_blind_sign(&f.pk, None, Some(&msgs(2, 1)), Some(&msgs(2, 2)), None)
        .is_err());
}

#[test]
fn round_trip_sha256() {
    round_trip::<Bls12381Sha256>("bls12-381-sha-256");
}

#[test]
fn round_trip_shake256() {
    round_trip::<Bls12381Shake256>("bls12-381-shake-256");
}

// ---------------------------------------------------------------------------------
// prepare_parameters
// ---------------------------------------------------------------------------------

fn params<CS: BbsCiphersuite>()
where
    CS::Expander: for<'a> ExpandMsg<'a>,
{
    let blind = BlindFactor::from_bytes(&[7u8; 32]).unwrap();
    for api in [None, Some(&b""[..]), Some(CS::API_ID_BLIND), Some(&b"some_api_"[..])] {
        let api_b = api.unwrap_or(b"");
        for l in [0usize, 1, 3] {
            for m in [0usize, 1, 4] {
                let ms = msgs(l, 3);
                let cm = msgs(m, 9);
                for (gn, bn) in [(l + 1, m + 1), (0, 0), (1, 0), (0, 2), (l + 3, m)] {
                    for with_blind in [false, true] {
                        let b = if with_blind { Some(&blind) } else { None };
                        let (scalars, gens) =
                            prepare_parameters::<CS>(Some(&ms), Some(&cm), gn, bn, b, api).unwrap();

                        let mut exp: Vec<BBSplusMessage> =
                            BBSplusMessage::messages_to_scalar::<CS>(&ms, api_b).unwrap();
                        let exp_cm = BBSplusMessage::messages_to_scalar::<CS>(&cm, api_b).unwrap();
                        assert_eq!(scalars.len(), l + m + with_blind as usize);
                        assert_eq!(&scalars[..l], &exp[..]);
                        if with_blind {
                            assert_eq!(scalars[l].value.to_be_bytes(), blind.to_bytes());
                        }
                        assert_eq!(&scalars[l + with_blind as usize..], &exp_cm[..]);
                        exp.extend(exp_cm);

                        let g = Generators::create::<CS>(gn, Some(api_b));
                        let bg =
                            Generators::create::<CS>(bn, Some(&[b"BLIND_", api_b].concat()));
                        assert_eq!(gens.g1_base_point, g.g1_base_point);
                        assert_eq!(gens.values.len(), gn + bn);
                        assert_eq!(&gens.values[..gn], &g.values[..]);
                        assert_eq!(&gens.values[gn..], &bg.values[..]);

                        // None <-> Some(empty)
                        if l == 0 {
                            let (s2, g2) =
                                prepare_parameters::<CS>(None, Some(&cm), gn, bn, b, api).unwrap();
                            assert_eq!(s2, scalars);
                            assert_eq!(g2, gens);
                        }
                        if m == 0 {
                            let (s2, g2) =
                                prepare_parameters::<CS>(Some(&ms), None, gn, bn, b, api).unwrap();
                            assert_eq!(s2, scalars);
                            assert_eq!(g2, gens);
                        }
                    }
                }
            }
        }
    }

    // an api_id that makes the hash-to-scalar DST too long is an error as soon as
    // there is something to hash (signer side or committed side)
    let long = vec![b'a'; 300];
    assert!(prepare_parameters::<CS>(Some(&msgs(1, 1)), None, 1, 1, None, Some(&long)).is_err());
    assert!(prepare_parameters::<CS>(None, Some(&msgs(2, 1)), 1, 1, None, Some(&long)).is_err());
    assert!(
        prepare_parameters::<CS>(None, Some(&msgs(2, 1)), 1, 1, Some(&blind), Some(&long)).is_err()
    );
}

#[test]
fn params_sha256() {
    params::<Bls12381Sha256>();
}

#[test]
fn params_shake256() {
    params::<Bls12381Shake256>();
}
