#![cfg(feature = "cl03")]
#![allow(non_snake_case)]

use rug::{
    integer::{IsPrime, Order},
    ops::Pow,
    Integer,
};
use std::panic::{catch_unwind, AssertUnwindSafe};
use std::sync::OnceLock;
use zkryptium::{
    cl03::{
        bases::Bases,
        ciphersuites::{CL1024Sha256, CLCiphersuite},
        keys::{CL03CommitmentPublicKey, CL03PublicKey, CL03SecretKey},
    },
    keys::pair::KeyPair,
    schemes::algorithms::{CL03, CL03_CL1024_SHA256},
    schemes::generics::Signature,
    utils::message::cl03_message::CL03Message,
    utils::random::{rand_int, random_bits, random_number, random_prime, random_qr},
};

type CS = CL1024Sha256;
type Sig = Signature<CL03<CS>>;
type S = CL03_CL1024_SHA256;

const LE: usize = <CS as CLCiphersuite>::le as usize;
const LS: usize = <CS as CLCiphersuite>::ls as usize;
const LN: usize = <CS as CLCiphersuite>::ln as usize;
const DELTA: usize = (<CS as CLCiphersuite>::SECPARAM as usize) / 8 + 1;

fn keypair() -> &'static KeyPair<CL03<CS>> {
    static KP: OnceLock<KeyPair<CL03<CS>>> = OnceLock::new();
    KP.get_or_init(|| KeyPair::<CL03<CS>>::generate())
}

fn panics<T>(f: impl FnOnce() -> T) -> bool {
    catch_unwind(AssertUnwindSafe(f)).is_err()
}

fn msg(i: u32) -> CL03Message {
    CL03Message::map_message_to_integer_as_hash::<CS>(&[i as u8, 7, 9, (i >> 8) as u8])
}

fn msgs(n: usize) -> Vec<CL03Message> {
    (0..n as u32).map(msg).collect()
}

fn be(x: &Integer, len: usize) -> Vec<u8> {
    let mut b = vec![0u8; len];
    x.write_digits(&mut b, Order::MsfBe);
    b
}

/// builds a signature with arbitrary non-negative components through the public decoder
fn forge(e: &Integer, s: &Integer, v: &Integer) -> Sig {
    let mut bytes = be(e, LE);
    bytes.extend(be(s, LS));
    bytes.extend(v.to_digits::<u8>(Order::MsfBe));
    Sig::from_bytes(&bytes)
}

/// (e, s, v) of a signature, through the public encoder
fn parts(sig: &Sig) -> (Integer, Integer, Integer) {
    let b = sig.to_bytes();
    (
        Integer::from_digits(&b[..LE], Order::MsfBe),
        Integer::from_digits(&b[LE..LE + LS], Order::MsfBe),
        Integer::from_digits(&b[LE + LS..], Order::MsfBe),
    )
}

fn is_unit_gt1(x: &Integer, n: &Integer) -> bool {
    *x > 1 && x < n && Integer::from(x.gcd_ref(n)) == 1
}

#[test]
fn keygen_shape() {
    let kp = keypair();
    let (pk, sk) = (kp.public_key(), kp.private_key());
    assert_eq!(pk.N, Integer::from(&sk.p * &sk.q));
    assert_ne!(sk.p, sk.q);
    for x in [&sk.p, &sk.q] {
        assert_ne!(x.is_probably_prime(30), IsPrime::No);
        let half = Integer::from(x - 1u32) / 2u32;
        assert_ne!(half.is_probably_prime(30), IsPrime::No);
        assert!(half.significant_bits() >= CS::SECPARAM);
    }
    for x in [&pk.b, &pk.c] {
        assert!(is_unit_gt1(x, &pk.N));
        assert_eq!(x.jacobi(&pk.N), 1);
        assert_eq!(x.jacobi(&sk.p), 1);
    }
}

#[test]
fn random_helpers() {
    for n in [2u32, 3, 8, 64, 258] {
        for _ in 0..5 {
            let r = random_bits(n);
            assert_eq!(r.significant_bits(), n);
            let p = random_prime(n);
            assert_ne!(p.is_probably_prime(30), IsPrime::No);
            assert!(p.significant_bits() >= n && p.significant_bits() <= n + 1);
        }
    }
    for _ in 0..20 {
        assert!(random_number(Integer::from(5)) < 5);
        let a = Integer::from(-3);
        let b = Integer::from(4);
        let r = rand_int(a.clone(), b.clone());
        assert!(r >= a && r <= b);
        assert_eq!(rand_int(Integer::from(17), Integer::from(17)), 17);
        let r = rand_int(Integer::from(17), Integer::from(18));
        assert!(r == 17 || r == 18);
    }
    assert!(panics(|| rand_int(Integer::from(5), Integer::from(4))));
    assert!(panics(|| rand_int(Integer::from(5), Integer::from(-4))));
    // small odd moduli: the result is a square, a unit and larger than one
    for n in [7u32, 15, 21, 35, 101, 3 * 5 * 7 * 11] {
        let n = Integer::from(n);
        for _ in 0..20 {
            let qr = random_qr(&n);
            assert!(is_unit_gt1(&qr, &n), "{qr} mod {n}");
            let mut is_square = false;
            let mut x = Integer::from(1);
            while x < n {
                if Integer::from(&x * &x) % &n == qr {
                    is_square = true;
                }
                x += 1;
            }
            assert!(is_square);
        }
    }
    let N = &keypair().public_key().N;
    let qr = random_qr(N);
    assert!(is_unit_gt1(&qr, N));
    assert_eq!(qr.jacobi(N), 1);
}

#[test]
fn commitment_pk_generate() {
    let N = keypair().public_key().N.clone();
    for (n_attr, expected) in [(None, 1usize), (Some(0), 0), (Some(1), 1), (Some(3), 3), (Some(6), 6)] {
        let cpk = CL03CommitmentPublicKey::generate::<CS>(Some(N.clone()), n_attr);
        assert_eq!(cpk.N, N);
        assert!(is_unit_gt1(&cpk.h, &N));
        assert_eq!(cpk.h.jacobi(&N), 1);
        assert_eq!(cpk.g_bases.len(), expected);
        for g in &cpk.g_bases {
            assert!(is_unit_gt1(g, &N));
            assert_eq!(g.jacobi(&N), 1);
        }
    }
    let cpk = CL03CommitmentPublicKey::generate::<CS>(None, Some(2));
    assert!(cpk.N.significant_bits() >= 2 * CS::SECPARAM);
    assert!(cpk.N.significant_bits() <= 2 * CS::SECPARAM + 2);
    assert_ne!(cpk.N, N);
    assert!(!cpk.N.is_perfect_square());
    assert_eq!(cpk.N.is_probably_prime(30), IsPrime::No);
    assert_eq!(Integer::from(&cpk.N % 4u32), 1);
    assert_eq!(cpk.g_bases.len(), 2);
    assert!(is_unit_gt1(&cpk.h, &cpk.N));
    for g in &cpk.g_bases {
        assert!(is_unit_gt1(g, &cpk.N));
    }
}

#[test]
fn verify_single() {
    let kp = keypair();
    let (pk, sk) = (kp.public_key(), kp.private_key());
    let bases = Bases::generate(pk, 3);
    let m = msg(1);
    let sig = Sig::sign(pk, sk, &bases, &m);
    assert!(sig.verify(pk, &bases, &m));
    assert!(sig.verify_multiattr(pk, &bases, std::slice::from_ref(&m)));
    assert!(!sig.verify(pk, &bases, &msg(2)));
    assert!(!sig.verify_multiattr(pk, &bases, &[msg(2)]));
    // other bases
    let other = Bases(vec![bases.0[1].clone(), bases.0[0].clone()]);
    assert!(!sig.verify(pk, &other, &m));
    // other key
    let pk2 = CL03PublicKey::new(pk.N.clone(), pk.c.clone(), pk.b.clone());
    assert!(!sig.verify(&pk2, &bases, &m));

    // extreme attribute values
    let top = Integer::from(2).pow(CS::lm);
    for v in [Integer::from(0), Integer::from(1), Integer::from(&top - 1u32)] {
        let mm = CL03Message::new(v);
        let sg = Sig::sign(pk, sk, &bases, &mm);
        assert!(sg.verify(pk, &bases, &mm));
        assert!(sg.verify_multiattr(pk, &bases, &[mm.clone()]));
        assert!(!sg.verify(pk, &bases, &m));
    }
    for v in [top.clone(), Integer::from(&top + 1u32), Integer::from(-1), -top.clone()] {
        let mm = CL03Message::new(v);
        assert!(!sig.verify(pk, &bases, &mm));
        assert!(!sig.verify_multiattr(pk, &bases, &[mm.clone()]));
        assert!(!sig.verify_multiattr(pk, &bases, &[m.clone(), mm.clone()]));
        // range check comes before the base is looked up
        assert!(!sig.verify(pk, &Bases(vec![]), &mm));
    }
    // no base at all for an in-range message: panics
    assert!(panics(|| sig.verify(pk, &Bases(vec![]), &m)));
    assert!(panics(|| sig.verify_multiattr(pk, &Bases(vec![]), &[m.clone()])));
    assert!(panics(|| sig.verify_multiattr(pk, &Bases(vec![]), &[CL03Message::new(top.clone())])));

    // the shifted pair (v * a^k, m + k * e) satisfies the equation but is out of range
    let (e, s, v) = parts(&sig);
    let shifted_v = Integer::from(&v * &bases.0[0]) % &pk.N;
    let shifted_m = CL03Message::new(Integer::from(&m.value + &e));
    assert!(!forge(&e, &s, &shifted_v).verify(pk, &bases, &shifted_m));
    assert!(!forge(&e, &s, &shifted_v).verify(pk, &bases, &m));

    // components
    assert!(forge(&e, &s, &v).verify(pk, &bases, &m));
    assert!(!forge(&e, &s, &Integer::from(&v + &pk.N)).verify(pk, &bases, &m));
    assert!(!forge(&e, &s, &Integer::from(&v + &pk.N)).verify_multiattr(pk, &bases, &[m.clone()]));
    assert!(!forge(&e, &s, &pk.N).verify(pk, &bases, &m));
    assert!(!forge(&e, &s, &Integer::from(0)).verify(pk, &bases, &m));
    assert!(!forge(&e, &Integer::from(&s + 1u32), &v).verify(pk, &bases, &m));
    assert!(!forge(&Integer::from(&e + 2u32), &s, &v).verify(pk, &bases, &m));
    assert!(e > Integer::from(2).pow(CS::le - 1) && e < Integer::from(2).pow(CS::le));

    // e on and beyond the interval ends: v = 1, s = 0 and c' = 1 would otherwise be accepted
    let pk1 = CL03PublicKey::new(pk.N.clone(), pk.b.clone(), Integer::from(1));
    let zero = CL03Message::new(Integer::from(0));
    let one = Integer::from(1);
    let lo = Integer::from(2).pow(CS::le - 1);
    let hi = Integer::from(2).pow(CS::le);
    for (e, ok) in [
        (Integer::from(0), false),
        (Integer::from(3), false),
        (Integer::from(&lo - 1u32), false),
        (lo.clone(), false),
        (Integer::from(&lo + 1u32), true),
        (Integer::from(&hi - 1u32), true),
        (hi.clone(), false),
        (Integer::from(&hi + 1u32), false),
    ] {
        let f = forge(&e, &Integer::from(0), &one);
        assert_eq!(f.verify(&pk1, &bases, &zero), ok, "e = {e}");
        assert_eq!(f.verify_multiattr(&pk1, &bases, &[zero.clone()]), ok, "e = {e}");
        assert_eq!(f.verify_multiattr(&pk1, &bases, &[]), ok, "e = {e}");
        assert_eq!(f.verify_multiattr(&pk1, &bases, &[zero.clone(), zero.clone(), zero.clone()]), ok);
    }

    // negative components can only come in through serde
    let json = serde_json::to_value(&sig).unwrap();
    let back: Sig = serde_json::from_value(json.clone()).unwrap();
    assert_eq!(back, sig);
    let text = serde_json::to_string(&sig).unwrap();
    let (_, _, v) = parts(&sig);
    let vs = v.to_string_radix(16);
    assert!(text.contains(&vs));
    {
        let neg: Sig = serde_json::from_str(&text.replace(&vs, &format!("-{vs}"))).unwrap();
        assert_ne!(neg, sig);
        assert!(!neg.verify(pk, &bases, &m));
        assert!(!neg.verify_multiattr(pk, &bases, &[m.clone()]));
    }
}

#[test]
fn verify_multi() {
    let kp = keypair();
    let (pk, sk) = (kp.public_key(), kp.private_key());
    for n in [0usize, 1, 2, 3, 5, 8] {
        let bases = Bases::generate(pk, n);
        let ms = msgs(n);
        let sig = Sig::sign_multiattr(pk, sk, &bases, &ms);
        assert!(sig.verify_multiattr(pk, &bases, &ms), "n = {n}");
        // more bases than messages is fine
        let mut longer = bases.clone();
        longer.0.push(Integer::from(4));
        assert!(sig.verify_multiattr(pk, &longer, &ms));
        // more messages than bases panics, also when a message is out of range
        let mut more = ms.clone();
        more.push(msg(99));
        assert!(panics(|| sig.verify_multiattr(pk, &bases, &more)));
        *more.last_mut().unwrap() = CL03Message::new(Integer::from(-1));
        assert!(panics(|| sig.verify_multiattr(pk, &bases, &more)));
        assert!(!sig.verify_multiattr(pk, &longer, &more));
        if n > 0 {
            assert!(!sig.verify_multiattr(pk, &bases, &ms[..n - 1]));
            for i in [0, n - 1] {
                let mut wrong = ms.clone();
                wrong[i] = msg(1000 + i as u32);
                assert!(!sig.verify_multiattr(pk, &bases, &wrong));
                wrong[i] = CL03Message::new(Integer::from(2).pow(CS::lm));
                assert!(!sig.verify_multiattr(pk, &bases, &wrong));
            }
            if n > 1 {
                let mut swapped = ms.clone();
                swapped.swap(0, n - 1);
                assert!(!sig.verify_multiattr(pk, &bases, &swapped));
            }
            assert_eq!(sig.verify(pk, &bases, &ms[0]), n == 1);
        } else {
            assert!(sig.verify_multiattr(pk, &Bases(vec![]), &[]));
        }
        let (e, s, v) = parts(&sig);
        assert!(!forge(&e, &s, &Integer::from(&v + &pk.N)).verify_multiattr(pk, &bases, &ms));
        assert!(forge(&e, &s, &v).verify_multiattr(pk, &bases, &ms));
    }
}

#[test]
fn disclose() {
    let kp = keypair();
    let (pk, sk) = (kp.public_key(), kp.private_key());
    for n in [1usize, 2, 4] {
        let bases = Bases::generate(pk, n);
        let ms = msgs(n);
        let sig = Sig::sign_multiattr(pk, sk, &bases, &ms);
        let all: Vec<usize> = (0..n).collect();
        let lists: Vec<Vec<usize>> = vec![
            vec![],
            vec![0],
            vec![n - 1],
            all.clone(),
            all.iter().rev().cloned().collect(),
            vec![n - 1, 0, n - 1, n - 1],
        ];
        for list in &lists {
            let (sd_m, sd_b) = sig.disclose_selectively(&ms, bases.clone(), pk, list);
            assert_eq!(sd_m.len(), n);
            assert_eq!(sd_b.0.len(), n);
            for i in 0..n {
                if list.contains(&i) {
                    assert_eq!(sd_m[i].value, 1);
                    assert_eq!(
                        sd_b.0[i],
                        bases.0[i].clone().pow_mod(&ms[i].value, &pk.N).unwrap()
                    );
                } else {
                    assert_eq!(sd_m[i], ms[i]);
                    assert_eq!(sd_b.0[i], bases.0[i]);
                }
            }
            assert!(sig.verify_multiattr(pk, &sd_b, &sd_m));
        }
        assert!(panics(|| sig.disclose_selectively(&ms, bases.clone(), pk, &[n])));
        assert!(panics(|| sig.disclose_selectively(&ms, bases.clone(), pk, &[0, usize::MAX])));
        assert!(panics(|| sig.disclose_selectively(&ms[..n - 1], bases.clone(), pk, &[])));
        let mut longer = ms.clone();
        longer.push(msg(5));
        assert!(panics(|| sig.disclose_selectively(&longer, bases.clone(), pk, &[0])));
    }
    let sig = Sig::sign_multiattr(pk, sk, &Bases(vec![]), &[]);
    let (m, b) = sig.disclose_selectively(&[], Bases(vec![]), pk, &[]);
    assert!(m.is_empty() && b.0.is_empty());
    assert!(panics(|| sig.disclose_selectively(&[], Bases(vec![]), pk, &[0])));
}

#[test]
fn signature_bytes() {
    let kp = keypair();
    let (pk, sk) = (kp.public_key(), kp.private_key());
    let bases = Bases::generate(pk, 1);
    let m = msg(3);
    let sig = Sig::sign(pk, sk, &bases, &m);
    let bytes = sig.to_bytes();
    let (e, s, v) = parts(&sig);
    assert_eq!(bytes.len(), LE + LS + v.significant_digits::<u8>());
    assert_eq!(bytes[..LE], be(&e, LE)[..]);
    assert_eq!(bytes[LE..LE + LS], be(&s, LS)[..]);
    assert_eq!(bytes[LE + LS..], v.to_digits::<u8>(Order::MsfBe)[..]);
    assert!(bytes[..LE - 33].iter().all(|b| *b == 0));
    let back = Sig::from_bytes(&bytes);
    assert_eq!(back, sig);
    assert_eq!(back.to_bytes(), bytes);
    assert!(back.verify(pk, &bases, &m));

    // v is whatever follows: nothing, leading zeros, long
    let head = &bytes[..LE + LS];
    let z = Sig::from_bytes(head);
    assert_eq!(parts(&z).2, 0);
    assert_eq!(z.to_bytes(), head);
    let mut padded = head.to_vec();
    padded.extend([0u8, 0, 0]);
    padded.extend(v.to_digits::<u8>(Order::MsfBe));
    assert_eq!(Sig::from_bytes(&padded), sig);
    assert_eq!(Sig::from_bytes(&padded).to_bytes(), bytes);
    let mut long = head.to_vec();
    long.extend(vec![0xffu8; 3 * LN]);
    assert_eq!(Sig::from_bytes(&long).to_bytes(), long);
    assert!(!Sig::from_bytes(&long).verify(pk, &bases, &m));

    // full-width e and s
    let full = vec![0xffu8; LE + LS + 5];
    let f = Sig::from_bytes(&full);
    assert_eq!(f.to_bytes(), full);
    let (fe, fs, fv) = parts(&f);
    assert_eq!(fe.significant_bits() as usize, 8 * LE);
    assert_eq!(fs.significant_bits() as usize, 8 * LS);
    assert_eq!(fv.significant_bits(), 40);
    assert_eq!(Sig::from_bytes(&vec![0u8; LE + LS + 9]).to_bytes(), vec![0u8; LE + LS]);

    // too short
    for len in [0usize, 1, LE - 1, LE, LE + 1, LE + LS - 1] {
        assert!(panics(|| Sig::from_bytes(&bytes[..len])), "len = {len}");
    }

    // components that do not fit cannot be written (reachable through serde only)
    let text = serde_json::to_string(&z).unwrap();
    let es = e.to_string_radix(16);
    assert!(text.contains(&es));
    {
        let big_e = Integer::from(1) << (8 * LE as u32);
        let big: Sig = serde_json::from_str(&text.replace(&es, &big_e.to_string_radix(16))).unwrap();
        assert!(panics(|| big.to_bytes()));
        let fit = Integer::from(&big_e - 1u32);
        let ok: Sig = serde_json::from_str(&text.replace(&es, &fit.to_string_radix(16))).unwrap();
        assert_eq!(ok.to_bytes()[..LE], vec![0xffu8; LE][..]);
        let neg: Sig = serde_json::from_str(&text.replace(&es, &format!("-{es}"))).unwrap();
        assert_eq!(neg.to_bytes(), z.to_bytes());
    }
    let ss = s.to_string_radix(16);
    assert!(text.contains(&ss));
    {
        let big_s = Integer::from(1) << (8 * LS as u32);
        let big: Sig = serde_json::from_str(&text.replace(&ss, &big_s.to_string_radix(16))).unwrap();
        assert!(panics(|| big.to_bytes()));
    }
}

#[test]
fn key_bytes() {
    let kp = keypair();
    let (pk, sk) = (kp.public_key(), kp.private_key());
    let bytes = pk.to_bytes::<S>();
    assert_eq!(bytes.len(), 3 * LN);
    assert_eq!(bytes[..LN], be(&pk.N, LN)[..]);
    assert_eq!(bytes[LN..2 * LN], be(&pk.b, LN)[..]);
    assert_eq!(bytes[2 * LN..], be(&pk.c, LN)[..]);
    assert_eq!(&CL03PublicKey::from_bytes::<S>(&bytes), pk);
    // whole extra blocks are tolerated and ignored
    for extra in [1usize, 2] {
        let mut more = bytes.clone();
        more.extend(vec![0xabu8; extra * LN]);
        assert_eq!(&CL03PublicKey::from_bytes::<S>(&more), pk);
    }
    for len in [0usize, 1, LN, 2 * LN, 3 * LN - 1, 3 * LN + 1, 4 * LN - 1, 4 * LN + 1] {
        let mut b = bytes.clone();
        b.resize(len, 0x11);
        assert!(panics(|| CL03PublicKey::from_bytes::<S>(&b)), "len = {len}");
    }
    let odd = CL03PublicKey::new(Integer::from(0), Integer::from(1), Integer::from(-5));
    let ob = odd.to_bytes::<S>();
    assert_eq!(ob.len(), 3 * LN);
    assert_eq!(
        CL03PublicKey::from_bytes::<S>(&ob),
        CL03PublicKey::new(Integer::from(0), Integer::from(1), Integer::from(5))
    );
    let full = vec![0xffu8; 3 * LN];
    assert_eq!(CL03PublicKey::from_bytes::<S>(&full).to_bytes::<S>(), full);
    let too_big = Integer::from(1) << (8 * LN as u32);
    for i in 0..3 {
        let mut v = [Integer::from(1), Integer::from(2), Integer::from(3)];
        v[i] = too_big.clone();
        let [a, b, c] = v;
        assert!(panics(|| CL03PublicKey::new(a, b, c).to_bytes::<S>()));
    }

    let sb = sk.to_bytes::<S>();
    assert_eq!(sb.len(), 2 * DELTA);
    assert_eq!(sb[..DELTA], be(&sk.p, DELTA)[..]);
    assert_eq!(sb[DELTA..], be(&sk.q, DELTA)[..]);
    assert_eq!(&CL03SecretKey::from_bytes::<S>(&sb), sk);
    let mut more = sb.clone();
    more.extend([1u8, 2, 3]);
    assert_eq!(&CL03SecretKey::from_bytes::<S>(&more), sk);
    for len in [0usize, 1, DELTA - 1, DELTA, DELTA + 1, 2 * DELTA - 1] {
        assert!(panics(|| CL03SecretKey::from_bytes::<S>(&sb[..len])), "len = {len}");
    }
    let big = Integer::from(1) << (8 * DELTA as u32);
    assert!(panics(|| CL03SecretKey::new(big.clone(), Integer::from(3)).to_bytes::<S>()));
    assert!(panics(|| CL03SecretKey::new(Integer::from(3), big.clone()).to_bytes::<S>()));
    let fit = Integer::from(&big - 1u32);
    let fb = CL03SecretKey::new(fit.clone(), Integer::from(0)).to_bytes::<S>();
    assert_eq!(fb[..DELTA], vec![0xffu8; DELTA][..]);
    assert_eq!(fb[DELTA..], vec![0u8; DELTA][..]);
}
