// Behavioural pinning tests for src/bbsplus/signature.rs and src/bbsplus/keys.rs.
//
// Everything goes through the public API and is deterministic. Each scenario appends
// what it observed (Ok bytes or the Err variant) to a transcript; the SHA-256 of the
// transcript is pinned to the value observed on the unmodified sources, and the more
// important facts are asserted explicitly as well.

#![allow(non_snake_case)]

use std::marker::PhantomData;
use std::panic::{catch_unwind, AssertUnwindSafe};

use bls12_381_plus::{G1Affine, G1Projective, G2Affine, G2Projective, Scalar};
use elliptic_curve::group::Curve;
use elliptic_curve::hash2curve::ExpandMsg;
use sha2::{Digest, Sha256};
use zkryptium::{
    bbsplus::{
        ciphersuites::{BbsCiphersuite, Bls12381Sha256, Bls12381Shake256},
        keys::{BBSplusPublicKey, BBSplusSecretKey},
        signature::BBSplusSignature,
    },
    errors::Error,
    keys::{
        pair::KeyPair,
        traits::{PrivateKey, PublicKey},
    },
    schemes::{
        algorithms::BBSplus,
        generics::{BlindSignature, Signature},
    },
};

const IKM: &[u8] = b"this-IS-just-an-Test-IKM-to-generate-$e(r@t#-key";
const KEY_INFO: &[u8] = b"this-IS-some-key-metadata-to-be-used-in-test-key-gen";
const HEADER: &[u8] = &[
    0x11, 0x22, 0x33, 0x44, 0x55, 0x66, 0x77, 0x88, 0x99, 0x00, 0xaa, 0xbb, 0xcc, 0xdd, 0xee, 0xff,
];

/// Group order r, big endian.
const R_BE: [u8; 32] = [
    0x73, 0xed, 0xa7, 0x53, 0x29, 0x9d, 0x7d, 0x48, 0x33, 0x39, 0xd8, 0x08, 0x09, 0xa1, 0xd8, 0x05,
    0x53, 0xbd, 0xa4, 0x02, 0xff, 0xfe, 0x5b, 0xfe, 0xff, 0xff, 0xff, 0xff, 0x00, 0x00, 0x00, 0x01,
];

/// The two concrete ciphersuites.
trait Suite: BbsCiphersuite + std::fmt::Debug + PartialEq + Clone {}
impl Suite for Bls12381Sha256 {}
impl Suite for Bls12381Shake256 {}

type Sig<CS> = Signature<BBSplus<CS>>;
type Keys<CS> = KeyPair<BBSplus<CS>>;

struct Transcript(Vec<String>);

impl Transcript {
    fn put(&mut self, label: &str, value: String) {
        self.0.push(format!("{label}={value}"));
    }
    fn digest(&self) -> String {
        let mut h = Sha256::new();
        for l in &self.0 {
            h.update(l.as_bytes());
            h.update(b"\n");
        }
        hex::encode(h.finalize())
    }
}

/// Error text without the (free form) message payload: only the variant matters.
fn variant(e: &Error) -> String {
    let d = format!("{e:?}");
    d.split('(').next().unwrap().to_owned()
}

fn show<T, F: Fn(&T) -> String>(r: &Result<T, Error>, f: F) -> String {
    match r {
        Ok(v) => format!("Ok:{}", f(v)),
        Err(e) => format!("Err:{}", variant(e)),
    }
}

fn messages(n: usize) -> Vec<Vec<u8>> {
    (0..n)
        .map(|i| match i % 4 {
            // an empty message is a legal message
            1 => Vec::new(),
            2 => vec![i as u8; 100 + i],
            _ => format!("message number {i}").into_bytes(),
        })
        .collect()
}

fn keypair<CS: Suite>() -> Keys<CS>
where
    CS::Expander: for<'a> ExpandMsg<'a>,
{
    Keys::<CS>::generate(IKM, Some(KEY_INFO), None).unwrap()
}

fn key_generation<CS: Suite>(t: &mut Transcript)
where
    CS::Expander: for<'a> ExpandMsg<'a>,
{
    let show_kp = |r: &Result<Keys<CS>, Error>| {
        show(r, |kp| {
            format!("{}/{}", kp.private_key().encode(), kp.public_key().encode())
        })
    };

    let base = Keys::<CS>::generate(IKM, Some(KEY_INFO), None);
    t.put("keygen.base", show_kp(&base));
    let base = base.unwrap();

    // None and Some(empty) key_info are the same thing
    let a = Keys::<CS>::generate(IKM, None, None).unwrap();
    let b = Keys::<CS>::generate(IKM, Some(&[]), None).unwrap();
    assert_eq!(a, b);
    assert_ne!(a, base);
    t.put("keygen.noinfo", show_kp(&Ok(a)));

    // the default dst spelled out gives the same key
    let dst = [CS::API_ID, CS::KEYGEN_DST].concat();
    let c = Keys::<CS>::generate(IKM, Some(KEY_INFO), Some(&dst)).unwrap();
    assert_eq!(c, base);
    let d = Keys::<CS>::generate(IKM, Some(KEY_INFO), Some(b"another dst")).unwrap();
    assert_ne!(d, base);
    t.put("keygen.dst", show_kp(&Ok(d)));

    // dst edge cases: empty, 255 and 256 bytes
    for len in [0usize, 1, 255, 256, 300] {
        let r = Keys::<CS>::generate(IKM, Some(KEY_INFO), Some(&vec![b'd'; len]));
        t.put(&format!("keygen.dstlen{len}"), show_kp(&r));
        assert_eq!(r.is_ok(), len <= 255, "dst len {len}");
    }

    // key material length
    for len in [0usize, 1, 31, 32, 33, 48] {
        let r = Keys::<CS>::generate(&IKM[..len], Some(KEY_INFO), None);
        t.put(&format!("keygen.ikm{len}"), show_kp(&r));
        assert_eq!(r.is_ok(), len >= 32, "ikm len {len}");
        if let Err(e) = r {
            assert!(matches!(e, Error::KeyGenError(_)));
        }
    }

    // key_info length
    for len in [1usize, 255, 256, 65535, 65536, 70000] {
        let r = Keys::<CS>::generate(IKM, Some(&vec![7u8; len]), None);
        t.put(&format!("keygen.info{len}"), show_kp(&r));
        assert_eq!(r.is_ok(), len <= 65535, "key_info len {len}");
        if let Err(e) = r {
            assert!(matches!(e, Error::KeyGenError(_)));
        }
    }
    // both wrong: the key material check comes first, but the variant is the same
    let r = Keys::<CS>::generate(&IKM[..3], Some(&vec![7u8; 70000]), Some(&[]));
    t.put("keygen.allwrong", show_kp(&r));

    // random keys are well formed and consistent
    let r1 = Keys::<CS>::random().unwrap();
    let r2 = Keys::<CS>::random().unwrap();
    assert_ne!(r1, r2);
    assert_eq!(&r1.private_key().public_key(), r1.public_key());
    assert_eq!(&base.private_key().public_key(), base.public_key());
    let (sk, pk) = base.clone().into_parts();
    assert_eq!(pk.0, G2Projective::GENERATOR * sk.0);
}

fn key_codecs<CS: Suite>(t: &mut Transcript)
where
    CS::Expander: for<'a> ExpandMsg<'a>,
{
    let kp = keypair::<CS>();
    let (sk, pk) = (kp.private_key(), kp.public_key());

    // library fact the pairing check may rely on
    assert_eq!(G2Projective::GENERATOR.to_affine(), G2Affine::generator());

    // ---- public key, compressed
    let pk_bytes: [u8; 96] = pk.to_bytes();
    assert_eq!(pk_bytes, pk.0.to_affine().to_compressed());
    assert_eq!(<BBSplusPublicKey as PublicKey>::to_bytes(pk), pk_bytes);
    assert_eq!(<BBSplusPublicKey as PublicKey>::encode(pk), hex::encode(pk_bytes));
    assert_eq!(pk.encode(), hex::encode(pk_bytes));
    assert_eq!(&BBSplusPublicKey::from_bytes(&pk_bytes).unwrap(), pk);
    let show_pk = |r: &Result<BBSplusPublicKey, Error>| show(r, |k| k.encode());

    for len in [0usize, 1, 48, 95, 97, 192] {
        let mut v = pk_bytes.to_vec();
        v.resize(len, 0);
        let r = BBSplusPublicKey::from_bytes(&v);
        t.put(&format!("pk.len{len}"), show_pk(&r));
        assert!(matches!(r, Err(Error::KeyDeserializationError)));
    }
    let mut identity = [0u8; 96];
    identity[0] = 0xc0;
    assert_eq!(identity, G2Affine::identity().to_compressed());
    let candidates: Vec<(&str, [u8; 96])> = vec![
        ("zero", [0u8; 96]),
        ("ones", [0xffu8; 96]),
        ("identity", identity),
        ("uncompressed_flag", {
            let mut b = pk_bytes;
            b[0] &= 0x7f;
            b
        }),
        ("infinity_flag", {
            let mut b = pk_bytes;
            b[0] |= 0x40;
            b
        }),
        ("sign_flip", {
            let mut b = pk_bytes;
            b[0] ^= 0x20;
            b
        }),
        ("last_byte", {
            let mut b = pk_bytes;
            b[95] ^= 0x01;
            b
        }),
        ("generator", G2Affine::generator().to_compressed()),
    ];
    for (name, bytes) in &candidates {
        let r = BBSplusPublicKey::from_bytes(bytes);
        t.put(&format!("pk.{name}"), show_pk(&r));
        if let Err(e) = &r {
            assert!(matches!(e, Error::KeyDeserializationError));
        }
    }
    assert!(BBSplusPublicKey::from_bytes(&identity).is_err());
    assert!(BBSplusPublicKey::from_bytes(&candidates[5].1).is_ok());
    assert!(BBSplusPublicKey::from_bytes(&candidates[7].1).is_ok());

    // ---- public key, coordinates
    let (x, y) = pk.to_coordinates();
    let unc = pk.0.to_affine().to_uncompressed();
    assert_eq!(&x[..], &unc[..96]);
    assert_eq!(&y[..], &unc[96..]);
    t.put("pk.coords", format!("{}/{}", hex::encode(x), hex::encode(y)));
    assert_eq!(&BBSplusPublicKey::from_coordinates(&x, &y).unwrap(), pk);
    let mut inf_x = [0u8; 96];
    inf_x[0] = 0x40;
    let coord_cases: Vec<(&str, [u8; 96], [u8; 96])> = vec![
        ("swapped", y, x),
        ("zero", [0u8; 96], [0u8; 96]),
        ("identity", inf_x, [0u8; 96]),
        ("identity_dirty", inf_x, y),
        ("compressed_flag", {
            let mut b = x;
            b[0] |= 0x80;
            b
        }, y),
        ("bad_y", x, {
            let mut b = y;
            b[95] ^= 1;
            b
        }),
        ("neg_y", x, {
            let neg = (-pk.0).to_affine().to_uncompressed();
            let mut b = [0u8; 96];
            b.copy_from_slice(&neg[96..]);
            b
        }),
    ];
    for (name, cx, cy) in &coord_cases {
        let r = BBSplusPublicKey::from_coordinates(cx, cy);
        t.put(&format!("pk.coords.{name}"), show_pk(&r));
        if let Err(e) = &r {
            assert!(matches!(e, Error::KeyDeserializationError));
        }
    }
    assert!(BBSplusPublicKey::from_coordinates(&inf_x, &[0u8; 96]).is_err());
    assert_eq!(
        BBSplusPublicKey::from_coordinates(&coord_cases[6].1, &coord_cases[6].2)
            .unwrap()
            .0,
        -pk.0
    );
    // a key that can only be built by hand still serializes
    let id_pk = BBSplusPublicKey(G2Projective::IDENTITY);
    assert_eq!(id_pk.to_bytes(), identity);
    assert_eq!(id_pk.to_coordinates().0, inf_x);

    // ---- secret key
    let sk_bytes: [u8; 32] = sk.to_bytes();
    assert_eq!(sk_bytes, sk.0.to_be_bytes());
    assert_eq!(<BBSplusSecretKey as PrivateKey>::to_bytes(sk), sk_bytes);
    assert_eq!(<BBSplusSecretKey as PrivateKey>::encode(sk), hex::encode(sk_bytes));
    assert_eq!(sk.encode(), hex::encode(sk_bytes));
    assert_eq!(&BBSplusSecretKey::from_bytes(&sk_bytes).unwrap(), sk);
    let show_sk = |r: &Result<BBSplusSecretKey, Error>| show(r, |k| k.encode());
    for len in [0usize, 1, 31, 33, 64] {
        let mut v = sk_bytes.to_vec();
        v.resize(len, 0);
        let r = BBSplusSecretKey::from_bytes(&v);
        t.put(&format!("sk.len{len}"), show_sk(&r));
        assert!(matches!(r, Err(Error::KeyDeserializationError)));
    }
    let mut r_minus_1 = R_BE;
    r_minus_1[31] -= 1;
    let mut r_plus_1 = R_BE;
    r_plus_1[31] += 1;
    for (name, bytes, ok) in [
        ("zero", [0u8; 32], true),
        ("one", Scalar::ONE.to_be_bytes(), true),
        ("r_minus_1", r_minus_1, true),
        ("r", R_BE, false),
        ("r_plus_1", r_plus_1, false),
        ("ones", [0xffu8; 32], false),
    ] {
        let r = BBSplusSecretKey::from_bytes(&bytes);
        t.put(&format!("sk.{name}"), show_sk(&r));
        assert_eq!(r.is_ok(), ok, "{name}");
        match r {
            Ok(k) => assert_eq!(k.to_bytes(), bytes),
            Err(e) => assert!(matches!(e, Error::KeyDeserializationError)),
        }
    }
    assert_eq!(
        BBSplusSecretKey::from_bytes(&[0u8; 32]).unwrap().public_key().0,
        G2Projective::IDENTITY
    );

    // ---- serde representation
    t.put("serde.keypair", serde_json::to_string(&kp).unwrap());
    let back: Keys<CS> = serde_json::from_str(&serde_json::to_string(&kp).unwrap()).unwrap();
    assert_eq!(back, kp);
}

fn sign_and_verify<CS: Suite>(t: &mut Transcript)
where
    CS::Expander: for<'a> ExpandMsg<'a>,
{
    let kp = keypair::<CS>();
    let (sk, pk) = (kp.private_key(), kp.public_key());
    let other = Keys::<CS>::generate(IKM, None, None).unwrap();
    let show_sig = |r: &Result<Sig<CS>, Error>| show(r, |s| hex::encode(s.to_bytes()));
    let show_unit = |r: &Result<(), Error>| show(r, |_| String::new());

    // None == Some(empty) for messages and for the header
    let s_none = Sig::<CS>::sign(None, sk, pk, None).unwrap();
    let s_empty = Sig::<CS>::sign(Some(&[]), sk, pk, Some(&[])).unwrap();
    assert_eq!(s_none, s_empty);
    assert_eq!(s_none.to_bytes(), s_empty.to_bytes());
    t.put("sign.none", show_sig(&Ok(s_none.clone())));
    assert!(s_none.verify(pk, None, None).is_ok());
    assert!(s_none.verify(pk, Some(&[]), Some(&[])).is_ok());
    assert!(s_empty.verify(pk, None, Some(&[])).is_ok());
    assert!(matches!(
        s_none.verify(pk, None, Some(HEADER)),
        Err(Error::SignatureVerificationError)
    ));
    assert!(matches!(
        s_none.verify(pk, Some(&[Vec::new()]), None),
        Err(Error::SignatureVerificationError)
    ));

    for n in [0usize, 1, 2, 3, 4, 5, 8, 13] {
        let msgs = messages(n);
        for (hname, header) in [("nohdr", None), ("hdr", Some(HEADER))] {
            let label = format!("sign.{n}.{hname}");
            let r = Sig::<CS>::sign(Some(&msgs), sk, pk, header);
            t.put(&label, show_sig(&r));
            let sig = r.unwrap();

            // deterministic
            assert_eq!(sig, Sig::<CS>::sign(Some(&msgs), sk, pk, header).unwrap());
            // accessors and codec
            let bytes = sig.to_bytes();
            assert_eq!(&bytes[..48], &sig.a().to_affine().to_compressed()[..]);
            assert_eq!(&bytes[48..], &sig.e().to_be_bytes()[..]);
            assert_eq!(sig.bbsPlusSignature().A, sig.a());
            assert_eq!(sig.bbsPlusSignature().e, sig.e());
            assert_eq!(sig.bbsPlusSignature().to_bytes(), bytes);
            assert_eq!(Sig::<CS>::from_bytes(&bytes).unwrap(), sig);
            assert_eq!(&BBSplusSignature::from_bytes(&bytes).unwrap(), sig.bbsPlusSignature());
            // e * A relation: A * (sk + e) is the signed point, so A is never the identity
            assert_ne!(sig.a(), G1Projective::IDENTITY);

            // verification
            t.put(&format!("{label}.verify"), show_unit(&sig.verify(pk, Some(&msgs), header)));
            assert!(sig.verify(pk, Some(&msgs), header).is_ok());
            let bad = |r: Result<(), Error>| {
                assert!(matches!(r, Err(Error::SignatureVerificationError)))
            };
            bad(sig.verify(other.public_key(), Some(&msgs), header));
            bad(sig.verify(pk, Some(&msgs), Some(b"other header")));
            bad(sig.verify(pk, Some(&msgs), if header.is_some() { None } else { Some(HEADER) }));
            bad(sig.verify(&BBSplusPublicKey(G2Projective::IDENTITY), Some(&msgs), header));
            // one more / one fewer message, last / first message changed, two swapped
            let mut more = msgs.clone();
            more.push(b"extra".to_vec());
            bad(sig.verify(pk, Some(&more), header));
            if n > 0 {
                bad(sig.verify(pk, Some(&msgs[..n - 1]), header));
                bad(sig.verify(pk, Some(&msgs[1..]), header));
                bad(sig.verify(pk, None, header));
                for idx in [0, n - 1] {
                    let mut changed = msgs.clone();
                    changed[idx].push(0);
                    bad(sig.verify(pk, Some(&changed), header));
                }
            }
            if n > 1 {
                let mut swapped = msgs.clone();
                swapped.swap(0, n - 1);
                bad(sig.verify(pk, Some(&swapped), header));
            }
            // tampered signature values
            let tampered_e = Sig::<CS>::BBSplus(BBSplusSignature {
                A: sig.a(),
                e: sig.e() + Scalar::ONE,
            });
            bad(tampered_e.verify(pk, Some(&msgs), header));
            let tampered_a = Sig::<CS>::BBSplus(BBSplusSignature {
                A: -sig.a(),
                e: sig.e(),
            });
            bad(tampered_a.verify(pk, Some(&msgs), header));
            let degenerate = Sig::<CS>::BBSplus(BBSplusSignature {
                A: G1Projective::IDENTITY,
                e: Scalar::ZERO,
            });
            bad(degenerate.verify(pk, Some(&msgs), header));
        }
    }

    // signing with a public key that does not belong to the secret key still signs
    // (the key only enters the domain), but does not verify under either key
    let msgs = messages(3);
    let mixed = Sig::<CS>::sign(Some(&msgs), sk, other.public_key(), Some(HEADER));
    t.put("sign.mixed", show_sig(&mixed));
    let mixed = mixed.unwrap();
    assert!(mixed.verify(pk, Some(&msgs), Some(HEADER)).is_err());
    assert!(mixed.verify(other.public_key(), Some(&msgs), Some(HEADER)).is_err());
    // zero secret key: A = B * (1/e)
    let zero_sk = BBSplusSecretKey(Scalar::ZERO);
    let zs = Sig::<CS>::sign(Some(&msgs), &zero_sk, &zero_sk.public_key(), None);
    t.put("sign.zero_sk", show_sig(&zs));
    assert!(zs.unwrap().verify(&zero_sk.public_key(), Some(&msgs), None).is_ok());

    // the value of another variant
    let unreachable = Sig::<CS>::_Unreachable(PhantomData);
    assert!(matches!(
        unreachable.verify(pk, Some(&msgs), None),
        Err(Error::UnespectedError)
    ));
    assert!(matches!(unreachable.verify(pk, None, None), Err(Error::UnespectedError)));
    assert!(catch_unwind(AssertUnwindSafe(|| unreachable.a())).is_err());
    assert!(catch_unwind(AssertUnwindSafe(|| unreachable.e())).is_err());
    assert!(catch_unwind(AssertUnwindSafe(|| unreachable.to_bytes())).is_err());
    assert!(catch_unwind(AssertUnwindSafe(|| unreachable.bbsPlusSignature().clone())).is_err());

    // serde representation
    let sig = Sig::<CS>::sign(Some(&msgs), sk, pk, Some(HEADER)).unwrap();
    let json = serde_json::to_string(&sig).unwrap();
    t.put("serde.sig", json.clone());
    assert_eq!(serde_json::from_str::<Sig<CS>>(&json).unwrap(), sig);

    // the blind flavour shares the verification core
    let blind = BlindSignature::<BBSplus<CS>>::blind_sign(sk, pk, None, Some(HEADER), Some(&msgs));
    t.put("blind.sign", show(&blind, |s| hex::encode(s.to_bytes())));
    let blind = blind.unwrap();
    let r = blind.verify_blind_sign(pk, Some(HEADER), Some(&msgs), None, None);
    t.put("blind.verify", show_unit(&r));
    assert!(r.is_ok());
    assert!(matches!(
        blind.verify_blind_sign(pk, None, Some(&msgs), None, None),
        Err(Error::SignatureVerificationError)
    ));
    assert!(matches!(
        blind.verify_blind_sign(pk, Some(HEADER), Some(&msgs[..2]), None, None),
        Err(Error::SignatureVerificationError)
    ));
    // a plain signature is not a blind one (different api id) and vice versa
    let as_plain = Sig::<CS>::from_bytes(&blind.to_bytes()).unwrap();
    assert!(as_plain.verify(pk, Some(&msgs), Some(HEADER)).is_err());
}

fn signature_codec<CS: Suite>(t: &mut Transcript)
where
    CS::Expander: for<'a> ExpandMsg<'a>,
{
    let kp = keypair::<CS>();
    let sig = Sig::<CS>::sign(Some(&messages(2)), kp.private_key(), kp.public_key(), None).unwrap();
    let good = sig.to_bytes();
    assert_eq!(BBSplusSignature::BYTES, 80);
    assert_eq!(good.len(), 80);

    let mut identity_a = good;
    identity_a[..48].copy_from_slice(&G1Affine::identity().to_compressed());
    let mut zero_e = good;
    zero_e[48..].fill(0);
    let mut one_e = good;
    one_e[48..].copy_from_slice(&Scalar::ONE.to_be_bytes());
    let mut r_e = good;
    r_e[48..].copy_from_slice(&R_BE);
    let mut r_minus_1_e = r_e;
    r_minus_1_e[79] -= 1;
    let mut ones_e = good;
    ones_e[48..].fill(0xff);
    let mut generator_a = good;
    generator_a[..48].copy_from_slice(&G1Affine::generator().to_compressed());
    let flip = |i: usize, mask: u8| {
        let mut b = good;
        b[i] ^= mask;
        b
    };
    let cases: Vec<(&str, [u8; 80], Option<bool>)> = vec![
        ("good", good, Some(true)),
        ("zeros", [0u8; 80], Some(false)),
        ("ones", [0xffu8; 80], Some(false)),
        ("identity_a", identity_a, Some(false)),
        ("zero_e", zero_e, Some(false)),
        ("one_e", one_e, Some(true)),
        ("r_e", r_e, Some(false)),
        ("r_minus_1_e", r_minus_1_e, Some(true)),
        ("ones_e", ones_e, Some(false)),
        ("generator_a", generator_a, Some(true)),
        ("a_uncompressed_flag", flip(0, 0x80), Some(false)),
        ("a_infinity_flag", flip(0, 0x40), Some(false)),
        ("a_sign", flip(0, 0x20), Some(true)),
        ("a_low_bit", flip(47, 0x01), None),
        ("a_mid_bit", flip(20, 0x10), None),
        ("e_low_bit", flip(79, 0x01), Some(true)),
        ("e_high_bit", flip(48, 0x80), None),
        ("both_bad", {
            let mut b = identity_a;
            b[48..].fill(0);
            b
        }, Some(false)),
    ];
    for (name, bytes, expect) in &cases {
        let inner = BBSplusSignature::from_bytes(bytes);
        let outer = Sig::<CS>::from_bytes(bytes);
        t.put(
            &format!("sigcodec.{name}"),
            show(&inner, |s| hex::encode(s.to_bytes())),
        );
        assert_eq!(inner.is_ok(), outer.is_ok(), "{name}");
        if let Some(ok) = expect {
            assert_eq!(inner.is_ok(), *ok, "{name}");
        }
        match (inner, outer) {
            (Ok(i), Ok(o)) => {
                assert_eq!(&i, o.bbsPlusSignature());
                assert_eq!(&i.to_bytes(), bytes);
                assert_eq!(&o.to_bytes(), bytes);
                // only the untouched one verifies
                let v = o.verify(kp.public_key(), Some(&messages(2)), None);
                assert_eq!(v.is_ok(), *name == "good", "{name}");
            }
            (Err(i), Err(o)) => {
                assert!(matches!(i, Error::InvalidSignature), "{name}");
                assert!(matches!(o, Error::InvalidSignature), "{name}");
            }
            _ => unreachable!(),
        }
    }
    // hand-made degenerate values still serialize
    let degenerate = BBSplusSignature {
        A: G1Projective::IDENTITY,
        e: Scalar::ZERO,
    };
    let bytes = degenerate.to_bytes();
    assert_eq!(bytes, cases[17].1);
    assert!(BBSplusSignature::from_bytes(&bytes).is_err());
}

fn update<CS: Suite>(t: &mut Transcript)
where
    CS::Expander: for<'a> ExpandMsg<'a>,
{
    let kp = keypair::<CS>();
    let (sk, pk) = (kp.private_key(), kp.public_key());
    let show_sig = |r: &Result<Sig<CS>, Error>| show(r, |s| hex::encode(s.to_bytes()));
    let new_message = b"a brand new message".to_vec();

    for n in [1usize, 2, 3, 5, 8] {
        let msgs = messages(n);
        let sig = Sig::<CS>::sign(Some(&msgs), sk, pk, Some(HEADER)).unwrap();
        for idx in 0..n {
            let r = sig.update_signature(sk, &msgs[idx], &new_message, idx, n);
            t.put(&format!("update.{n}.{idx}"), show_sig(&r));
            let updated = r.unwrap();
            assert_eq!(updated.e(), sig.e());
            assert_ne!(updated.a(), sig.a());
            let mut new_msgs = msgs.clone();
            new_msgs[idx] = new_message.clone();
            assert!(updated.verify(pk, Some(&new_msgs), Some(HEADER)).is_ok());
            assert!(updated.verify(pk, Some(&msgs), Some(HEADER)).is_err());
            assert!(updated.verify(pk, Some(&new_msgs), None).is_err());

            // a larger declared n does not matter as long as the index is in range
            let wide = sig
                .update_signature(sk, &msgs[idx], &new_message, idx, n + 4)
                .unwrap();
            assert_eq!(wide, updated);
            assert_eq!(wide.to_bytes(), updated.to_bytes());
            // updating back restores the original signature
            let back = updated
                .update_signature(sk, &new_message, &msgs[idx], idx, n)
                .unwrap();
            assert_eq!(back, sig);
            assert_eq!(back.to_bytes(), sig.to_bytes());
            // same old and new message: nothing changes
            let same = sig.update_signature(sk, &msgs[idx], &msgs[idx], idx, n).unwrap();
            assert_eq!(same.to_bytes(), sig.to_bytes());
            // wrong old message: a signature comes out, but it does not verify
            let wrong = sig
                .update_signature(sk, b"not the old message", &new_message, idx, n)
                .unwrap();
            assert!(wrong.verify(pk, Some(&new_msgs), Some(HEADER)).is_err());
            // empty old / new messages are legal
            let e1 = sig.update_signature(sk, &msgs[idx], &[], idx, n);
            t.put(&format!("update.{n}.{idx}.empty_new"), show_sig(&e1));
            let mut with_empty = msgs.clone();
            with_empty[idx] = Vec::new();
            assert!(e1.unwrap().verify(pk, Some(&with_empty), Some(HEADER)).is_ok());
        }

        // index out of range
        for (idx, nn) in [
            (n, n),
            (n + 1, n),
            (usize::MAX, n),
            (0, 0),
            (1, 0),
            (usize::MAX, usize::MAX),
            (usize::MAX - 1, usize::MAX),
            (0, usize::MAX),
            (5, usize::MAX),
        ] {
            let r = sig.update_signature(sk, &msgs[0], &new_message, idx, nn);
            t.put(&format!("update.{n}.range.{idx}.{nn}"), show_sig(&r));
            assert!(matches!(r, Err(Error::UpdateSignatureError(_))));
        }
    }

    let msgs = messages(3);
    let sig = Sig::<CS>::sign(Some(&msgs), sk, pk, None).unwrap();

    // the value of another variant: the variant check comes before everything else
    let unreachable = Sig::<CS>::_Unreachable(PhantomData);
    for (idx, n) in [(0usize, 3usize), (3, 3), (0, 0), (0, usize::MAX)] {
        assert!(matches!(
            unreachable.update_signature(sk, &msgs[0], &new_message, idx, n),
            Err(Error::UnespectedError)
        ));
    }

    // sk + e == 0 cannot be inverted
    let opposite = Sig::<CS>::BBSplus(BBSplusSignature {
        A: sig.a(),
        e: -sk.0,
    });
    for (old, new) in [(&msgs[1], &new_message), (&msgs[1], &msgs[1])] {
        let r = opposite.update_signature(sk, old, new, 1, 3);
        t.put("update.opposite", show_sig(&r));
        assert!(matches!(r, Err(Error::UpdateSignatureError(_))));
    }
    // ... but the range check still comes first and a wrong secret key is fine
    assert!(matches!(
        opposite.update_signature(sk, &msgs[1], &new_message, 3, 3),
        Err(Error::UpdateSignatureError(_))
    ));
    let r = opposite.update_signature(&BBSplusSecretKey(sk.0 + Scalar::ONE), &msgs[1], &new_message, 1, 3);
    t.put("update.opposite_other_sk", show_sig(&r));
    assert!(r.is_ok());

    // A == identity: the result is the identity only when nothing changes
    let flat = Sig::<CS>::BBSplus(BBSplusSignature {
        A: G1Projective::IDENTITY,
        e: sig.e(),
    });
    let r = flat.update_signature(sk, &msgs[2], &msgs[2], 2, 3);
    t.put("update.flat_same", show_sig(&r));
    assert!(matches!(r, Err(Error::UpdateSignatureError(_))));
    let r = flat.update_signature(sk, &msgs[2], &new_message, 2, 3);
    t.put("update.flat_changed", show_sig(&r));
    let r = r.unwrap();
    assert_ne!(r.a(), G1Projective::IDENTITY);
    assert_eq!(r.e(), sig.e());
    // zero secret key and e == 0
    let zero = Sig::<CS>::BBSplus(BBSplusSignature {
        A: sig.a(),
        e: Scalar::ZERO,
    });
    let r = zero.update_signature(&BBSplusSecretKey(Scalar::ZERO), &msgs[0], &new_message, 0, 3);
    t.put("update.zero_zero", show_sig(&r));
    assert!(matches!(r, Err(Error::UpdateSignatureError(_))));
    let r = zero.update_signature(sk, &msgs[0], &new_message, 0, 3);
    t.put("update.zero_e", show_sig(&r));
    assert!(r.is_ok());

    // the unit test scenario of the crate
    let r = sig.update_signature(sk, &msgs[0], &new_message, 0, msgs.len());
    t.put("update.plain", show_sig(&r));
    let mut new_msgs = msgs.clone();
    new_msgs[0] = new_message.clone();
    assert!(r.unwrap().verify(pk, Some(&new_msgs), None).is_ok());
}

fn run<CS: Suite>() -> String
where
    CS::Expander: for<'a> ExpandMsg<'a>,
{
    let mut t = Transcript(Vec::new());
    key_generation::<CS>(&mut t);
    key_codecs::<CS>(&mut t);
    sign_and_verify::<CS>(&mut t);
    signature_codec::<CS>(&mut t);
    update::<CS>(&mut t);
    if std::env::var_os("EQUIV_DUMP").is_some() {
        for l in &t.0 {
            eprintln!("{l}");
        }
    }
    eprintln!("transcript digest: {}", t.digest());
    t.digest()
}

#[test]
fn equiv_sha256() {
    assert_eq!(
        run::<Bls12381Sha256>(),
        "b227f5431628576d2ec79ae49829323815bee8fd1904523e2c5e9d87aa43a684"
    );
}

#[test]
fn equiv_shake256() {
    assert_eq!(
        run::<Bls12381Shake256>(),
        "e0bec0b4cc0df7441696af51e4b79f4500c2832d8759c9cf8c5f909b1948e75d"
    );
}
