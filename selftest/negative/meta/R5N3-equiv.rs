// Behavioural pin for the verifier side and the codecs of src/bbsplus/proof.rs
// (proof_verify, blind_proof_verify, BBSplusPoKSignature / BBSplusZKPoK to_bytes / from_bytes).
// Public API only. Outcomes are deterministic (fresh proofs are randomised, their verdicts are not).

#![allow(non_snake_case)]

use bls12_381_plus::Scalar;
use elliptic_curve::hash2curve::ExpandMsg;
use zkryptium::{
    bbsplus::{
        ciphersuites::BbsCiphersuite,
        commitment::BBSplusCommitment,
        keys::BBSplusPublicKey,
        proof::{BBSplusPoKSignature, BBSplusZKPoK},
    },
    errors::Error,
    keys::pair::KeyPair,
    schemes::{
        algorithms::{BBSplus, BbsBls12381Sha256, BbsBls12381Shake256, Scheme},
        generics::{BlindSignature, Commitment, PoKSignature, Signature},
    },
};

type Proof<S> = PoKSignature<BBSplus<<S as Scheme>::Ciphersuite>>;

const POINT: usize = 48;
const SCALAR: usize = 32;
const FIXED: usize = 3 * POINT + 3 * SCALAR; // 240
/// The order r of the scalar field, big endian: the smallest non canonical encoding.
const MODULUS_HEX: &str = "73eda753299d7d483339d80809a1d80553bda402fffe5bfeffffffff00000001";
const MODULUS_MINUS_ONE_HEX: &str =
    "73eda753299d7d483339d80809a1d80553bda402fffe5bfeffffffff00000000";

fn kind(e: &Error) -> &'static str {
    match e {
        Error::InvalidProofOfKnowledgeSignature => "InvalidProofOfKnowledgeSignature",
        Error::PoKSVerificationError(_) => "PoKSVerificationError",
        Error::NotEnoughGenerators => "NotEnoughGenerators",
        Error::DeserializationError(_) => "DeserializationError",
        Error::UnespectedError => "UnespectedError",
        Error::InvalidCommitment => "InvalidCommitment",
        Error::InvalidCommitmentProof => "InvalidCommitmentProof",
        Error::HashToScalarError => "HashToScalarError",
        _ => "other",
    }
}

fn err_kind<T>(r: Result<T, Error>) -> &'static str {
    match r {
        Ok(_) => panic!("expected an error"),
        Err(e) => kind(&e),
    }
}

fn json(path: &str) -> serde_json::Value {
    let data = std::fs::read_to_string(path).expect("Unable to read file");
    serde_json::from_str(&data).expect("Unable to parse")
}

fn hex_field(v: &serde_json::Value, name: &str) -> Vec<u8> {
    hex::decode(v[name].as_str().unwrap()).unwrap()
}

fn hex_list(v: &serde_json::Value) -> Vec<Vec<u8>> {
    v.as_array()
        .unwrap()
        .iter()
        .map(|m| hex::decode(m.as_str().unwrap()).unwrap())
        .collect()
}

fn pick(messages: &[Vec<u8>], indexes: &[usize]) -> Vec<Vec<u8>> {
    indexes.iter().map(|&i| messages[i].clone()).collect()
}

struct Fixture {
    pk: BBSplusPublicKey,
    header: Vec<u8>,
    ph: Vec<u8>,
    messages: Vec<Vec<u8>>,
    indexes: Vec<usize>,
    proof: Vec<u8>,
    valid: bool,
}

fn fixture(dir: &str, n: usize) -> Fixture {
    let v = json(&format!("{}proof/proof{:03}.json", dir, n));
    Fixture {
        pk: BBSplusPublicKey::from_bytes(&hex_field(&v, "signerPublicKey")).unwrap(),
        header: hex_field(&v, "header"),
        ph: hex_field(&v, "presentationHeader"),
        messages: hex_list(&v["messages"]),
        indexes: v["disclosedIndexes"]
            .as_array()
            .unwrap()
            .iter()
            .map(|i| i.as_u64().unwrap() as usize)
            .collect(),
        proof: hex_field(&v, "proof"),
        valid: v["result"]["valid"].as_bool().unwrap(),
    }
}

// ---------------------------------------------------------------------------------------------
// ProofVerify on the IETF fixtures
// ---------------------------------------------------------------------------------------------

fn fixtures_verify<S: Scheme>(dir: &str)
where
    S::Ciphersuite: BbsCiphersuite,
    <S::Ciphersuite as BbsCiphersuite>::Expander: for<'a> ExpandMsg<'a>,
{
    for n in 1..=15 {
        let f = fixture(dir, n);
        let proof = Proof::<S>::from_bytes(&f.proof).unwrap();
        // wire format is stable
        assert_eq!(proof.to_bytes(), f.proof, "fixture {}", n);
        assert_eq!(proof.to_bbsplus_proof().to_bytes(), f.proof);
        assert_eq!(
            BBSplusPoKSignature::from_bytes(&f.proof).unwrap(),
            *proof.to_bbsplus_proof()
        );
        let disclosed = pick(&f.messages, &f.indexes);
        let res = proof.proof_verify(
            &f.pk,
            Some(&disclosed),
            Some(&f.indexes),
            Some(&f.header),
            Some(&f.ph),
        );
        assert_eq!(res.is_ok(), f.valid, "fixture {}", n);
        if let Err(e) = res {
            assert_eq!(kind(&e), "PoKSVerificationError", "fixture {}", n);
        }
    }
}

#[test]
fn fixtures_verify_sha256() {
    fixtures_verify::<BbsBls12381Sha256>("./fixture_data/bls12-381-sha-256/");
}

#[test]
fn fixtures_verify_shake256() {
    fixtures_verify::<BbsBls12381Shake256>("./fixture_data/bls12-381-shake-256/");
}

fn verify_edge_cases<S: Scheme>(dir: &str)
where
    S::Ciphersuite: BbsCiphersuite,
    <S::Ciphersuite as BbsCiphersuite>::Expander: for<'a> ExpandMsg<'a>,
{
    // 10 messages, 0 2 4 6 disclosed, 6 hidden
    let f = fixture(dir, 3);
    assert!(f.valid);
    let proof = Proof::<S>::from_bytes(&f.proof).unwrap();
    let disclosed = pick(&f.messages, &f.indexes);
    let verify = |msgs: Option<&[Vec<u8>]>, idx: Option<&[usize]>| {
        proof.proof_verify(&f.pk, msgs, idx, Some(&f.header), Some(&f.ph))
    };

    assert!(verify(Some(&disclosed), Some(&f.indexes)).is_ok());

    // the index list is normalised (sorted, deduplicated), the messages are not
    assert!(verify(Some(&disclosed), Some(&[6, 4, 2, 0])).is_ok());
    assert!(verify(Some(&disclosed), Some(&[0, 0, 2, 4, 4, 6, 6, 6])).is_ok());
    assert!(verify(Some(&disclosed), Some(&[6, 0, 2, 6, 4, 0])).is_ok());
    let reversed: Vec<Vec<u8>> = disclosed.iter().rev().cloned().collect();
    assert_eq!(
        err_kind(verify(Some(&reversed), Some(&[6, 4, 2, 0]))),
        "PoKSVerificationError"
    );

    // None vs Some(empty)
    assert_eq!(err_kind(verify(None, None)), "PoKSVerificationError");
    assert_eq!(err_kind(verify(Some(&[]), Some(&[]))), "PoKSVerificationError");
    assert_eq!(err_kind(verify(None, Some(&[]))), "PoKSVerificationError");
    assert_eq!(err_kind(verify(Some(&[]), None)), "PoKSVerificationError");
    // number of messages != number of indexes, in both directions
    assert_eq!(err_kind(verify(Some(&disclosed), None)), "PoKSVerificationError");
    assert_eq!(err_kind(verify(None, Some(&f.indexes))), "PoKSVerificationError");
    assert_eq!(
        err_kind(verify(Some(&disclosed[..3]), Some(&f.indexes))),
        "PoKSVerificationError"
    );
    assert_eq!(
        err_kind(verify(Some(&disclosed), Some(&f.indexes[..3]))),
        "PoKSVerificationError"
    );
    // duplicates are removed first, so this is a length mismatch and not a success
    assert_eq!(
        err_kind(verify(Some(&disclosed), Some(&[0, 2, 4, 4]))),
        "PoKSVerificationError"
    );

    // largest index: U + R - 1 = 9 is in range (but wrong), 10 and above are not
    assert_eq!(
        err_kind(verify(Some(&disclosed), Some(&[0, 2, 4, 9]))),
        "PoKSVerificationError"
    );
    assert_eq!(
        err_kind(verify(Some(&disclosed), Some(&[0, 2, 4, 10]))),
        "PoKSVerificationError"
    );
    assert_eq!(
        err_kind(verify(Some(&disclosed), Some(&[0, 2, 4, usize::MAX]))),
        "PoKSVerificationError"
    );
    assert_eq!(
        err_kind(verify(Some(&disclosed[..1]), Some(&[usize::MAX]))),
        "PoKSVerificationError"
    );
    // an out of range index is reported even when the lengths disagree as well
    assert_eq!(
        err_kind(verify(None, Some(&[1000]))),
        "PoKSVerificationError"
    );

    // header / presentation header
    assert!(proof
        .proof_verify(&f.pk, Some(&disclosed), Some(&f.indexes), None, Some(&f.ph))
        .is_err());
    assert!(proof
        .proof_verify(&f.pk, Some(&disclosed), Some(&f.indexes), Some(&f.header), None)
        .is_err());
    assert!(proof
        .proof_verify(&f.pk, Some(&disclosed), Some(&f.indexes), Some(&[]), Some(&f.ph))
        .is_err());

    // fixture 14 has an empty header, fixture 15 an empty presentation header: None == Some(empty)
    let f14 = fixture(dir, 14);
    assert!(f14.header.is_empty());
    let p14 = Proof::<S>::from_bytes(&f14.proof).unwrap();
    let d14 = pick(&f14.messages, &f14.indexes);
    assert!(p14
        .proof_verify(&f14.pk, Some(&d14), Some(&f14.indexes), None, Some(&f14.ph))
        .is_ok());
    assert!(p14
        .proof_verify(&f14.pk, Some(&d14), Some(&f14.indexes), Some(&[]), Some(&f14.ph))
        .is_ok());
    let f15 = fixture(dir, 15);
    assert!(f15.ph.is_empty());
    let p15 = Proof::<S>::from_bytes(&f15.proof).unwrap();
    let d15 = pick(&f15.messages, &f15.indexes);
    assert!(p15
        .proof_verify(&f15.pk, Some(&d15), Some(&f15.indexes), Some(&f15.header), None)
        .is_ok());
    assert!(p15
        .proof_verify(&f15.pk, Some(&d15), Some(&f15.indexes), Some(&f15.header), Some(&[]))
        .is_ok());

    // fixture 2: everything disclosed, no hidden message at all (U = 0)
    let f2 = fixture(dir, 2);
    assert_eq!(f2.proof.len(), FIXED + SCALAR);
    let p2 = Proof::<S>::from_bytes(&f2.proof).unwrap();
    assert!(p2
        .proof_verify(&f2.pk, Some(&f2.messages), Some(&f2.indexes), Some(&f2.header), Some(&f2.ph))
        .is_ok());
    let mut shuffled: Vec<usize> = f2.indexes.iter().rev().copied().collect();
    shuffled.extend_from_slice(&[3, 3, 9, 0]);
    assert!(p2
        .proof_verify(&f2.pk, Some(&f2.messages), Some(&shuffled), Some(&f2.header), Some(&f2.ph))
        .is_ok());
    // U = 0 and R = 0: the message count is 0, nothing to index
    assert_eq!(
        err_kind(p2.proof_verify(&f2.pk, None, None, Some(&f2.header), Some(&f2.ph))),
        "PoKSVerificationError"
    );
    assert_eq!(
        err_kind(p2.proof_verify(&f2.pk, None, Some(&[0]), Some(&f2.header), Some(&f2.ph))),
        "PoKSVerificationError"
    );
    assert_eq!(
        err_kind(p2.proof_verify(
            &f2.pk,
            Some(&f2.messages[..1]),
            Some(&[1]),
            Some(&f2.header),
            Some(&f2.ph)
        )),
        "PoKSVerificationError"
    );

    // a value of another variant can only be built through serde
    let other: Proof<S> = serde_json::from_str(r#"{"_Unreachable":null}"#).unwrap();
    assert_eq!(
        err_kind(other.proof_verify(&f.pk, Some(&disclosed), Some(&f.indexes), None, None)),
        "UnespectedError"
    );
    assert_eq!(
        err_kind(other.blind_proof_verify(&f.pk, None, None, None, None, None, None, None)),
        "UnespectedError"
    );

    // serde representation
    let as_json = serde_json::to_value(&proof).unwrap();
    let inner = as_json["BBSplus"].as_object().unwrap();
    let mut keys: Vec<&str> = inner.keys().map(|k| k.as_str()).collect();
    keys.sort();
    assert_eq!(
        keys,
        ["Abar", "Bbar", "D", "challenge", "e_cap", "m_cap", "r1_cap", "r3_cap"]
    );
    assert_eq!(inner["m_cap"].as_array().unwrap().len(), 6);
    let back: Proof<S> = serde_json::from_value(as_json).unwrap();
    assert_eq!(back.to_bbsplus_proof(), proof.to_bbsplus_proof());
}

#[test]
fn verify_edge_cases_sha256() {
    verify_edge_cases::<BbsBls12381Sha256>("./fixture_data/bls12-381-sha-256/");
}

#[test]
fn verify_edge_cases_shake256() {
    verify_edge_cases::<BbsBls12381Shake256>("./fixture_data/bls12-381-shake-256/");
}

// ---------------------------------------------------------------------------------------------
// BBSplusPoKSignature codec on untrusted bytes
// ---------------------------------------------------------------------------------------------

fn pok_codec<S: Scheme>(dir: &str)
where
    S::Ciphersuite: BbsCiphersuite,
    <S::Ciphersuite as BbsCiphersuite>::Expander: for<'a> ExpandMsg<'a>,
{
    let f = fixture(dir, 3);
    let disclosed = pick(&f.messages, &f.indexes);
    let good = f.proof.clone();
    assert_eq!(good.len(), FIXED + 7 * SCALAR);

    // every length from 0 to a bit more than the proof (the tail is made of canonical scalars)
    let mut long = good.clone();
    long.extend_from_slice(&good[FIXED..FIXED + 3 * SCALAR]);
    for len in 0..=long.len() {
        let expected = len >= FIXED + SCALAR && (len - FIXED) % SCALAR == 0;
        let res = BBSplusPoKSignature::from_bytes(&long[..len]);
        assert_eq!(res.is_ok(), expected, "len {}", len);
        let wrapped = Proof::<S>::from_bytes(&long[..len]);
        assert_eq!(wrapped.is_ok(), expected, "len {}", len);
        match res {
            Ok(p) => {
                assert_eq!(p.to_bytes(), &long[..len]);
                let ok = wrapped
                    .unwrap()
                    .proof_verify(
                        &f.pk,
                        Some(&disclosed),
                        Some(&f.indexes),
                        Some(&f.header),
                        Some(&f.ph),
                    )
                    .is_ok();
                assert_eq!(ok, len == good.len(), "len {}", len);
            }
            Err(e) => assert_eq!(kind(&e), "InvalidProofOfKnowledgeSignature"),
        }
    }

    // scalars: e^, r1^, r3^, every m^ and the challenge
    let modulus = hex::decode(MODULUS_HEX).unwrap();
    let modulus_minus_one = hex::decode(MODULUS_MINUS_ONE_HEX).unwrap();
    let slots = (good.len() - 3 * POINT) / SCALAR;
    assert_eq!(slots, 10);
    for k in 0..slots {
        let at = 3 * POINT + k * SCALAR;
        for bad in [&modulus[..], &[0xffu8; SCALAR][..]] {
            let mut bytes = good.clone();
            bytes[at..at + SCALAR].copy_from_slice(bad);
            assert_eq!(
                err_kind(BBSplusPoKSignature::from_bytes(&bytes)),
                "InvalidProofOfKnowledgeSignature",
                "slot {}",
                k
            );
            assert_eq!(
                err_kind(Proof::<S>::from_bytes(&bytes)),
                "InvalidProofOfKnowledgeSignature"
            );
        }
        for fine in [&modulus_minus_one[..], &[0u8; SCALAR][..]] {
            let mut bytes = good.clone();
            bytes[at..at + SCALAR].copy_from_slice(fine);
            let p = Proof::<S>::from_bytes(&bytes).unwrap();
            assert_eq!(p.to_bytes(), bytes, "slot {}", k);
            assert_eq!(
                err_kind(p.proof_verify(
                    &f.pk,
                    Some(&disclosed),
                    Some(&f.indexes),
                    Some(&f.header),
                    Some(&f.ph)
                )),
                "PoKSVerificationError",
                "slot {}",
                k
            );
        }
    }

    // points: Abar, Bbar, D
    let mut identity = [0u8; POINT];
    identity[0] = 0xc0;
    for k in 0..3 {
        let at = k * POINT;
        let mut not_compressed = good[at..at + POINT].to_vec();
        not_compressed[0] &= 0x7f;
        let mut off_curve = good[at..at + POINT].to_vec();
        off_curve[POINT - 1] ^= 1; // may or may not be a point: only pin that nothing panics
        for (bad, must_fail) in [
            (&identity[..], true),
            (&[0xffu8; POINT][..], true),
            (&[0u8; POINT][..], true),
            (&not_compressed[..], true),
            (&off_curve[..], false),
        ] {
            let mut bytes = good.clone();
            bytes[at..at + POINT].copy_from_slice(bad);
            let res = Proof::<S>::from_bytes(&bytes);
            if must_fail {
                assert_eq!(err_kind(res), "InvalidProofOfKnowledgeSignature", "point {}", k);
            } else if let Ok(p) = res {
                assert!(p
                    .proof_verify(
                        &f.pk,
                        Some(&disclosed),
                        Some(&f.indexes),
                        Some(&f.header),
                        Some(&f.ph)
                    )
                    .is_err());
            }
        }
    }
    // well formed points in the wrong place
    let mut swapped = good.clone();
    swapped[0..POINT].copy_from_slice(&good[POINT..2 * POINT]);
    swapped[POINT..2 * POINT].copy_from_slice(&good[0..POINT]);
    let p = Proof::<S>::from_bytes(&swapped).unwrap();
    assert_eq!(p.to_bytes(), swapped);
    assert_eq!(
        err_kind(p.proof_verify(
            &f.pk,
            Some(&disclosed),
            Some(&f.indexes),
            Some(&f.header),
            Some(&f.ph)
        )),
        "PoKSVerificationError"
    );

    // two hidden scalars exchanged: still a well formed proof, no longer valid
    let mut exchanged = good.clone();
    exchanged[FIXED..FIXED + SCALAR].copy_from_slice(&good[FIXED + SCALAR..FIXED + 2 * SCALAR]);
    exchanged[FIXED + SCALAR..FIXED + 2 * SCALAR].copy_from_slice(&good[FIXED..FIXED + SCALAR]);
    let p = Proof::<S>::from_bytes(&exchanged).unwrap();
    assert!(p
        .proof_verify(&f.pk, Some(&disclosed), Some(&f.indexes), Some(&f.header), Some(&f.ph))
        .is_err());
}

#[test]
fn pok_codec_sha256() {
    pok_codec::<BbsBls12381Sha256>("./fixture_data/bls12-381-sha-256/");
}

#[test]
fn pok_codec_shake256() {
    pok_codec::<BbsBls12381Shake256>("./fixture_data/bls12-381-shake-256/");
}

// ---------------------------------------------------------------------------------------------
// fresh proofs, several list sizes
// ---------------------------------------------------------------------------------------------

fn fresh_proofs<S: Scheme>()
where
    S::Ciphersuite: BbsCiphersuite,
    <S::Ciphersuite as BbsCiphersuite>::Expander: for<'a> ExpandMsg<'a>,
{
    let ikm: Vec<u8> = (0u8..64).collect();
    let keypair = KeyPair::<BBSplus<S::Ciphersuite>>::generate(&ikm, None, None).unwrap();
    let (sk, pk) = (keypair.private_key(), keypair.public_key());
    let header = b"equiv header".to_vec();
    let ph = b"equiv presentation header".to_vec();

    for n in [0usize, 1, 2, 3, 5, 8] {
        let messages: Vec<Vec<u8>> = (0..n).map(|i| vec![i as u8; i % 4]).collect();
        let signature =
            Signature::<BBSplus<S::Ciphersuite>>::sign(Some(&messages), sk, pk, Some(&header))
                .unwrap();

        let mut subsets: Vec<Vec<usize>> = vec![vec![], (0..n).collect()];
        if n > 0 {
            subsets.push(vec![0]);
            subsets.push(vec![n - 1]); // the largest index
            subsets.push((0..n).step_by(2).collect());
            subsets.push((0..n).skip(1).step_by(2).collect());
        }
        for subset in subsets {
            let proof = Proof::<S>::proof_gen(
                pk,
                &signature.to_bytes(),
                Some(&header),
                Some(&ph),
                Some(&messages),
                Some(&subset),
            )
            .unwrap();
            let bytes = proof.to_bytes();
            assert_eq!(bytes.len(), FIXED + SCALAR + (n - subset.len()) * SCALAR);
            let decoded = Proof::<S>::from_bytes(&bytes).unwrap();
            assert_eq!(decoded.to_bbsplus_proof(), proof.to_bbsplus_proof());
            assert_eq!(decoded.to_bytes(), bytes);

            let disclosed = pick(&messages, &subset);
            assert!(
                decoded
                    .proof_verify(pk, Some(&disclosed), Some(&subset), Some(&header), Some(&ph))
                    .is_ok(),
                "n {} subset {:?}",
                n,
                subset
            );
            if subset.is_empty() {
                assert!(decoded
                    .proof_verify(pk, None, None, Some(&header), Some(&ph))
                    .is_ok());
                assert!(decoded
                    .proof_verify(pk, Some(&[]), None, Some(&header), Some(&ph))
                    .is_ok());
                assert!(decoded
                    .proof_verify(pk, None, Some(&[]), Some(&header), Some(&ph))
                    .is_ok());
            } else {
                let mut noisy: Vec<usize> = subset.iter().rev().copied().collect();
                noisy.push(subset[0]);
                assert!(decoded
                    .proof_verify(pk, Some(&disclosed), Some(&noisy), Some(&header), Some(&ph))
                    .is_ok());
                // one index too far
                let mut shifted = subset.clone();
                *shifted.last_mut().unwrap() = n;
                assert_eq!(
                    err_kind(decoded.proof_verify(
                        pk,
                        Some(&disclosed),
                        Some(&shifted),
                        Some(&header),
                        Some(&ph)
                    )),
                    "PoKSVerificationError"
                );
                // a wrong message
                let mut wrong = disclosed.clone();
                wrong[0].push(0x55);
                assert_eq!(
                    err_kind(decoded.proof_verify(
                        pk,
                        Some(&wrong),
                        Some(&subset),
                        Some(&header),
                        Some(&ph)
                    )),
                    "PoKSVerificationError"
                );
            }
            assert!(decoded
                .proof_verify(pk, Some(&disclosed), Some(&subset), Some(&header), None)
                .is_err());
        }
    }
}

#[test]
fn fresh_proofs_sha256() {
    fresh_proofs::<BbsBls12381Sha256>();
}

#[test]
fn fresh_proofs_shake256() {
    fresh_proofs::<BbsBls12381Shake256>();
}

// ---------------------------------------------------------------------------------------------
// BlindProofVerify
// ---------------------------------------------------------------------------------------------

struct BlindFixture {
    pk: BBSplusPublicKey,
    header: Vec<u8>,
    ph: Vec<u8>,
    L: usize,
    messages: Option<Vec<Vec<u8>>>,
    indexes: Option<Vec<usize>>,
    committed: Option<Vec<Vec<u8>>>,
    committed_indexes: Option<Vec<usize>>,
    proof: Vec<u8>,
    valid: bool,
}

fn revealed(v: &serde_json::Value) -> (Option<Vec<Vec<u8>>>, Option<Vec<usize>>) {
    match v.as_object() {
        None => (None, None),
        Some(map) => {
            let mut pairs: Vec<(usize, Vec<u8>)> = map
                .iter()
                .map(|(k, h)| (k.parse().unwrap(), hex::decode(h.as_str().unwrap()).unwrap()))
                .collect();
            pairs.sort();
            (
                Some(pairs.iter().map(|p| p.1.clone()).collect()),
                Some(pairs.iter().map(|p| p.0).collect()),
            )
        }
    }
}

fn blind_fixture(dir: &str, n: usize) -> BlindFixture {
    let v = json(&format!("{}proof/proof{:03}.json", dir, n));
    let (messages, indexes) = revealed(&v["revealedMessages"]);
    let (committed, committed_indexes) = revealed(&v["revealedCommittedMessages"]);
    BlindFixture {
        pk: BBSplusPublicKey::from_bytes(&hex_field(&v, "signerPublicKey")).unwrap(),
        header: hex_field(&v, "header"),
        ph: hex_field(&v, "presentationHeader"),
        L: v["L"].as_u64().unwrap() as usize,
        messages,
        indexes,
        committed,
        committed_indexes,
        proof: hex_field(&v, "proof"),
        valid: v["result"]["valid"].as_bool().unwrap(),
    }
}

fn blind_fixtures<S: Scheme>(dir: &str)
where
    S::Ciphersuite: BbsCiphersuite,
    <S::Ciphersuite as BbsCiphersuite>::Expander: for<'a> ExpandMsg<'a>,
{
    for n in 1..=8 {
        let f = blind_fixture(dir, n);
        let proof = Proof::<S>::from_bytes(&f.proof).unwrap();
        assert_eq!(proof.to_bytes(), f.proof);
        let res = proof.blind_proof_verify(
            &f.pk,
            Some(&f.header),
            Some(&f.ph),
            Some(f.L),
            f.messages.as_deref(),
            f.committed.as_deref(),
            f.indexes.as_deref(),
            f.committed_indexes.as_deref(),
        );
        assert_eq!(res.is_ok(), f.valid, "blind fixture {}", n);

        // None and Some(empty) are the same thing
        let m = f.messages.clone().unwrap_or_default();
        let i = f.indexes.clone().unwrap_or_default();
        let cm = f.committed.clone().unwrap_or_default();
        let ci = f.committed_indexes.clone().unwrap_or_default();
        let res = proof.blind_proof_verify(
            &f.pk,
            Some(&f.header),
            Some(&f.ph),
            Some(f.L),
            Some(&m),
            Some(&cm),
            Some(&i),
            Some(&ci),
        );
        assert_eq!(res.is_ok(), f.valid, "blind fixture {}", n);
        let opt = |v: &Vec<Vec<u8>>| if v.is_empty() { None } else { Some(v.clone()) };
        let opt_i = |v: &Vec<usize>| if v.is_empty() { None } else { Some(v.clone()) };
        let res = proof.blind_proof_verify(
            &f.pk,
            Some(&f.header),
            Some(&f.ph),
            Some(f.L),
            opt(&m).as_deref(),
            opt(&cm).as_deref(),
            opt_i(&i).as_deref(),
            opt_i(&ci).as_deref(),
        );
        assert_eq!(res.is_ok(), f.valid, "blind fixture {}", n);

        // the plain verifier uses another api_id
        assert!(proof
            .proof_verify(&f.pk, Some(&m), Some(&i), Some(&f.header), Some(&f.ph))
            .is_err());
    }
}

#[test]
fn blind_fixtures_sha256() {
    blind_fixtures::<BbsBls12381Sha256>("./fixture_data_blind/bls12-381-sha-256/");
}

#[test]
fn blind_fixtures_shake256() {
    blind_fixtures::<BbsBls12381Shake256>("./fixture_data_blind/bls12-381-shake-256/");
}

fn blind_edge_cases<S: Scheme>(dir: &str, plain_dir: &str)
where
    S::Ciphersuite: BbsCiphersuite,
    <S::Ciphersuite as BbsCiphersuite>::Expander: for<'a> ExpandMsg<'a>,
{
    // half of the committed messages and half of the signer messages revealed
    let f = blind_fixture(dir, 4);
    assert!(f.valid);
    let proof = Proof::<S>::from_bytes(&f.proof).unwrap();
    let m = f.messages.clone().unwrap();
    let i = f.indexes.clone().unwrap();
    let cm = f.committed.clone().unwrap();
    let ci = f.committed_indexes.clone().unwrap();
    assert!(!i.is_empty() && !ci.is_empty());
    let verify = |L: Option<usize>,
                  m: Option<&[Vec<u8>]>,
                  cm: Option<&[Vec<u8>]>,
                  i: Option<&[usize]>,
                  ci: Option<&[usize]>| {
        proof.blind_proof_verify(&f.pk, Some(&f.header), Some(&f.ph), L, m, cm, i, ci)
    };
    assert!(verify(Some(f.L), Some(&m), Some(&cm), Some(&i), Some(&ci)).is_ok());

    // both index lists are normalised independently
    let mut i_noisy: Vec<usize> = i.iter().rev().copied().collect();
    i_noisy.push(i[0]);
    let mut ci_noisy: Vec<usize> = ci.iter().rev().copied().collect();
    ci_noisy.push(ci[ci.len() - 1]);
    assert!(verify(Some(f.L), Some(&m), Some(&cm), Some(&i_noisy), Some(&ci_noisy)).is_ok());

    // L
    let total = i.len() + ci.len() + (f.proof.len() - FIXED - SCALAR) / SCALAR;
    assert!(verify(None, Some(&m), Some(&cm), Some(&i), Some(&ci)).is_err());
    assert!(verify(Some(0), Some(&m), Some(&cm), Some(&i), Some(&ci)).is_err());
    assert!(verify(Some(f.L - 1), Some(&m), Some(&cm), Some(&i), Some(&ci)).is_err());
    assert!(verify(Some(f.L + 1), Some(&m), Some(&cm), Some(&i), Some(&ci)).is_err());
    // L = total - 1 is the largest admissible value (M = 0), total is one too many
    assert!(verify(Some(total - 1), Some(&m), Some(&cm), Some(&i), Some(&ci)).is_err());
    for too_large in [total, total + 1, 1000, usize::MAX - 1, usize::MAX] {
        assert_eq!(
            err_kind(verify(Some(too_large), Some(&m), Some(&cm), Some(&i), Some(&ci))),
            "PoKSVerificationError",
            "L {}",
            too_large
        );
    }

    // indexes
    assert_eq!(
        err_kind(verify(Some(f.L), Some(&m), Some(&cm[..1]), Some(&i), Some(&[usize::MAX]))),
        "PoKSVerificationError"
    );
    assert_eq!(
        err_kind(verify(
            Some(f.L),
            Some(&m),
            Some(&cm[..1]),
            Some(&i),
            Some(&[usize::MAX - f.L - 1])
        )),
        "PoKSVerificationError"
    );
    let mut far = i.clone();
    *far.last_mut().unwrap() = total; // first value out of range
    assert_eq!(
        err_kind(verify(Some(f.L), Some(&m), Some(&cm), Some(&far), Some(&ci))),
        "PoKSVerificationError"
    );
    *far.last_mut().unwrap() = total - 1; // largest value in range: a committed-message slot
    assert!(verify(Some(f.L), Some(&m), Some(&cm), Some(&far), Some(&ci)).is_err());
    // a signer-side index that collides with a shifted committed index: duplicates after merging
    let mut colliding = i.clone();
    colliding.push(ci[0] + f.L + 1);
    let mut m_more = m.clone();
    m_more.push(cm[0].clone());
    assert_eq!(
        err_kind(verify(Some(f.L), Some(&m_more), Some(&cm), Some(&colliding), Some(&ci))),
        "PoKSVerificationError"
    );
    // the merged list is not sorted when a signer-side index points into the committed range
    let mut crossing = i.clone();
    *crossing.last_mut().unwrap() = total - 1;
    assert!(verify(Some(f.L), Some(&m), Some(&cm), Some(&crossing), Some(&[0])).is_err());

    // lengths
    assert_eq!(
        err_kind(verify(Some(f.L), Some(&m), None, Some(&i), Some(&ci))),
        "PoKSVerificationError"
    );
    assert_eq!(
        err_kind(verify(Some(f.L), None, Some(&cm), Some(&i), Some(&ci))),
        "PoKSVerificationError"
    );
    assert!(verify(Some(f.L), Some(&m), Some(&cm), None, Some(&ci)).is_err());
    assert!(verify(Some(f.L), Some(&m), Some(&cm), Some(&i), None).is_err());
    assert!(verify(Some(f.L), None, None, None, None).is_err());
    assert!(verify(None, None, None, None, None).is_err());
    // messages in the other list: same count, other generators
    assert!(verify(Some(f.L), Some(&cm), Some(&m), Some(&i), Some(&ci)).is_err());

    // only the blind factor hidden and nothing disclosed: total = 1
    let f1 = blind_fixture(dir, 1);
    let all = Proof::<S>::from_bytes(&f1.proof).unwrap();
    assert_eq!(f1.proof.len(), FIXED + 2 * SCALAR);
    for L in [None, Some(0), Some(1), Some(2), Some(usize::MAX)] {
        assert_eq!(
            err_kind(all.blind_proof_verify(&f1.pk, None, None, L, None, None, None, None)),
            "PoKSVerificationError"
        );
    }

    // a (plain) proof without any hidden scalar and nothing disclosed: total = 0
    let f2 = fixture(plain_dir, 2);
    let none = Proof::<S>::from_bytes(&f2.proof).unwrap();
    assert_eq!(f2.proof.len(), FIXED + SCALAR);
    for L in [None, Some(0), Some(1), Some(usize::MAX)] {
        assert_eq!(
            err_kind(none.blind_proof_verify(&f2.pk, None, None, L, None, None, None, None)),
            "PoKSVerificationError"
        );
        assert_eq!(
            err_kind(none.blind_proof_verify(
                &f2.pk,
                None,
                None,
                L,
                Some(&[]),
                Some(&[]),
                Some(&[]),
                Some(&[])
            )),
            "PoKSVerificationError"
        );
    }
    // total = 1 through one disclosed index, L = 0: in range for the arithmetic, wrong proof
    assert!(none
        .blind_proof_verify(&f2.pk, None, None, None, Some(&f2.messages[..1]), None, Some(&[0]), None)
        .is_err());
    assert!(none
        .blind_proof_verify(&f2.pk, None, None, None, None, Some(&f2.messages[..1]), None, Some(&[0]))
        .is_err());
}

#[test]
fn blind_edge_cases_sha256() {
    blind_edge_cases::<BbsBls12381Sha256>(
        "./fixture_data_blind/bls12-381-sha-256/",
        "./fixture_data/bls12-381-sha-256/",
    );
}

#[test]
fn blind_edge_cases_shake256() {
    blind_edge_cases::<BbsBls12381Shake256>(
        "./fixture_data_blind/bls12-381-shake-256/",
        "./fixture_data/bls12-381-shake-256/",
    );
}

fn fresh_blind_proofs<S: Scheme>()
where
    S::Ciphersuite: BbsCiphersuite,
    <S::Ciphersuite as BbsCiphersuite>::Expander: for<'a> ExpandMsg<'a>,
{
    let ikm: Vec<u8> = (100u8..164).collect();
    let keypair = KeyPair::<BBSplus<S::Ciphersuite>>::generate(&ikm, None, None).unwrap();
    let (sk, pk) = (keypair.private_key(), keypair.public_key());
    let header = b"equiv blind header".to_vec();
    let ph = b"equiv blind ph".to_vec();

    for (n, c) in [(0usize, 0usize), (0, 2), (3, 0), (2, 1), (3, 3)] {
        let messages: Vec<Vec<u8>> = (0..n).map(|i| vec![0xa0 + i as u8; i + 1]).collect();
        let committed: Vec<Vec<u8>> = (0..c).map(|i| vec![0xc0 + i as u8; 2 * i]).collect();
        let (commitment, blind) =
            Commitment::<BBSplus<S::Ciphersuite>>::commit(Some(&committed)).unwrap();
        let signature = BlindSignature::<BBSplus<S::Ciphersuite>>::blind_sign(
            sk,
            pk,
            Some(&commitment.to_bytes()),
            Some(&header),
            Some(&messages),
        )
        .unwrap();

        let choices: Vec<(Vec<usize>, Vec<usize>)> = vec![
            (vec![], vec![]),
            ((0..n).collect(), (0..c).collect()),
            ((0..n).skip(n.saturating_sub(1)).collect(), vec![]),
            (vec![], (0..c).skip(c.saturating_sub(1)).collect()),
            ((0..n).step_by(2).collect(), (0..c).step_by(2).collect()),
        ];
        for (idx, cidx) in choices {
            let proof = Proof::<S>::blind_proof_gen(
                pk,
                &signature.to_bytes(),
                Some(&header),
                Some(&ph),
                Some(&messages),
                Some(&committed),
                Some(&idx),
                Some(&cidx),
                Some(&blind),
            )
            .unwrap();
            let bytes = proof.to_bytes();
            // hidden: the blind factor and every message that is not disclosed
            let hidden = 1 + n + c - idx.len() - cidx.len();
            assert_eq!(bytes.len(), FIXED + SCALAR + hidden * SCALAR);
            let decoded = Proof::<S>::from_bytes(&bytes).unwrap();
            assert_eq!(decoded.to_bbsplus_proof(), proof.to_bbsplus_proof());
            let m = pick(&messages, &idx);
            let cm = pick(&committed, &cidx);
            let res = decoded.blind_proof_verify(
                pk,
                Some(&header),
                Some(&ph),
                Some(n),
                Some(&m),
                Some(&cm),
                Some(&idx),
                Some(&cidx),
            );
            assert!(res.is_ok(), "n {} c {} idx {:?} cidx {:?}", n, c, idx, cidx);
            if n == 0 {
                // L defaults to 0
                assert!(decoded
                    .blind_proof_verify(
                        pk,
                        Some(&header),
                        Some(&ph),
                        None,
                        None,
                        Some(&cm),
                        None,
                        Some(&cidx)
                    )
                    .is_ok());
            } else {
                assert!(decoded
                    .blind_proof_verify(
                        pk,
                        Some(&header),
                        Some(&ph),
                        None,
                        Some(&m),
                        Some(&cm),
                        Some(&idx),
                        Some(&cidx)
                    )
                    .is_err());
            }
            // the largest committed index plus one
            if !cidx.is_empty() {
                let mut shifted = cidx.clone();
                *shifted.last_mut().unwrap() = c + 1;
                assert_eq!(
                    err_kind(decoded.blind_proof_verify(
                        pk,
                        Some(&header),
                        Some(&ph),
                        Some(n),
                        Some(&m),
                        Some(&cm),
                        Some(&idx),
                        Some(&shifted)
                    )),
                    "PoKSVerificationError"
                );
            }
        }
    }
}

#[test]
fn fresh_blind_proofs_sha256() {
    fresh_blind_proofs::<BbsBls12381Sha256>();
}

#[test]
fn fresh_blind_proofs_shake256() {
    fresh_blind_proofs::<BbsBls12381Shake256>();
}

// ---------------------------------------------------------------------------------------------
// BBSplusZKPoK codec
// ---------------------------------------------------------------------------------------------

#[test]
fn zkpok_codec() {
    let scalar = |v: u64| Scalar::from(v);
    for n in [0usize, 1, 2, 5] {
        let m_cap: Vec<Scalar> = (0..n).map(|i| scalar(1000 + i as u64)).collect();
        let zk = BBSplusZKPoK::new(scalar(7), m_cap, -scalar(1));
        let bytes = zk.to_bytes();
        assert_eq!(bytes.len(), (n + 2) * SCALAR);
        assert_eq!(bytes[SCALAR - 1], 7);
        assert_eq!(
            hex::encode(&bytes[(n + 1) * SCALAR..]),
            MODULUS_MINUS_ONE_HEX,
            "big endian, challenge last"
        );
        if n > 0 {
            assert_eq!(&bytes[2 * SCALAR - 2..2 * SCALAR], &[0x03, 0xe8]);
        }
        let back = BBSplusZKPoK::from_bytes(&bytes).unwrap();
        assert_eq!(back, zk);
        assert_eq!(back.to_bytes(), bytes);
    }

    // lengths
    let zeros = [0u8; 6 * SCALAR + 5];
    for len in 0..=zeros.len() {
        let res = BBSplusZKPoK::from_bytes(&zeros[..len]);
        let expected = len >= 2 * SCALAR && len % SCALAR == 0;
        assert_eq!(res.is_ok(), expected, "len {}", len);
        match res {
            Ok(zk) => assert_eq!(zk.to_bytes(), &zeros[..len]),
            Err(e) => assert_eq!(kind(&e), "InvalidProofOfKnowledgeSignature"),
        }
    }

    // non canonical scalars, in every position
    let modulus = hex::decode(MODULUS_HEX).unwrap();
    let modulus_minus_one = hex::decode(MODULUS_MINUS_ONE_HEX).unwrap();
    for slots in [2usize, 3, 5] {
        for k in 0..slots {
            for bad in [&modulus[..], &[0xffu8; SCALAR][..]] {
                let mut bytes = vec![0u8; slots * SCALAR];
                bytes[k * SCALAR..(k + 1) * SCALAR].copy_from_slice(bad);
                assert_eq!(
                    err_kind(BBSplusZKPoK::from_bytes(&bytes)),
                    "DeserializationError",
                    "slot {} of {}",
                    k,
                    slots
                );
                // a bad length wins over a bad scalar
                bytes.push(0);
                assert_eq!(
                    err_kind(BBSplusZKPoK::from_bytes(&bytes)),
                    "InvalidProofOfKnowledgeSignature"
                );
            }
            let mut bytes = vec![0u8; slots * SCALAR];
            bytes[k * SCALAR..(k + 1) * SCALAR].copy_from_slice(&modulus_minus_one);
            let zk = BBSplusZKPoK::from_bytes(&bytes).unwrap();
            assert_eq!(zk.to_bytes(), bytes);
        }
    }
}

fn commitment_codec<S: Scheme>(dir: &str)
where
    S::Ciphersuite: BbsCiphersuite,
    <S::Ciphersuite as BbsCiphersuite>::Expander: for<'a> ExpandMsg<'a>,
{
    // the commitment wraps a BBSplusZKPoK after a G1 point
    let v = json(&format!("{}proof/proof001.json", dir));
    let bytes = hex_field(&v, "commitmentWithProof");
    let commitment = BBSplusCommitment::from_bytes(&bytes).unwrap();
    assert_eq!(commitment.to_bytes(), bytes);
    assert_eq!(commitment.proof.to_bytes(), &bytes[POINT..]);
    assert_eq!(
        BBSplusZKPoK::from_bytes(&bytes[POINT..]).unwrap(),
        commitment.proof
    );
    let wrapped = Commitment::<BBSplus<S::Ciphersuite>>::from_bytes(&bytes).unwrap();
    assert_eq!(wrapped.to_bytes(), bytes);
    for len in 0..bytes.len() {
        let res = BBSplusCommitment::from_bytes(&bytes[..len]);
        let expected = len >= POINT + 2 * SCALAR && (len - POINT) % SCALAR == 0;
        assert_eq!(res.is_ok(), expected, "len {}", len);
        if let Err(e) = res {
            let want = if len < POINT { "InvalidCommitment" } else { "InvalidCommitmentProof" };
            assert_eq!(kind(&e), want, "len {}", len);
        }
    }
    let mut bad = bytes.clone();
    let n = bad.len();
    bad[n - SCALAR..].copy_from_slice(&[0xff; SCALAR]);
    assert_eq!(err_kind(BBSplusCommitment::from_bytes(&bad)), "InvalidCommitmentProof");
}

#[test]
fn commitment_codec_sha256() {
    commitment_codec::<BbsBls12381Sha256>("./fixture_data_blind/bls12-381-sha-256/");
}

#[test]
fn commitment_codec_shake256() {
    commitment_codec::<BbsBls12381Shake256>("./fixture_data_blind/bls12-381-shake-256/");
}
