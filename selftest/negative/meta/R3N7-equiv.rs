#![cfg(feature = "cl03")]
// Behavioural pinning of the CL03 non-interactive sigma protocols (NISP2Commitments, NISPSecrets,
// NISPMultiSecrets, NISPSignaturePoK) through the public ZKPoK / PoKSignature wrappers.
// The protocols draw fresh randomness, so the observable, deterministic behaviour is the outcome of
// a (generate, verify) pair: accepted, rejected, or panic.

use std::panic::{catch_unwind, AssertUnwindSafe};
use std::sync::OnceLock;

use serde_json::Value;
use zkryptium::{
    cl03::{
        bases::Bases,
        ciphersuites::CL1024Sha256,
        commitment::CL03Commitment,
        keys::{CL03CommitmentPublicKey, CL03PublicKey, CL03SecretKey},
        signature::CL03Signature,
    },
    keys::pair::KeyPair,
    schemes::algorithms::CL03,
    schemes::generics::{Commitment, PoKSignature, Signature, ZKPoK},
    utils::message::cl03_message::CL03Message,
};

type CS = CL1024Sha256;
type S = CL03<CS>;

const MAX_ATTR: usize = 5;

#[derive(Debug, Clone, Copy, PartialEq, Eq)]
enum Outcome {
    Accept,
    Reject,
    Panic,
}
use Outcome::{Accept, Panic, Reject};

fn outcome<F: FnOnce() -> bool>(f: F) -> Outcome {
    match catch_unwind(AssertUnwindSafe(f)) {
        Ok(true) => Accept,
        Ok(false) => Reject,
        Err(_) => Panic,
    }
}

fn panics<T, F: FnOnce() -> T>(f: F) -> bool {
    catch_unwind(AssertUnwindSafe(f)).is_err()
}

struct Fixture {
    pk: CL03PublicKey,
    sk: CL03SecretKey,
    a_bases: Bases,
    /// verifier commitment key (same modulus as the issuer key), MAX_ATTR bases
    verifier_cpk: CL03CommitmentPublicKey,
    /// trusted party commitment key (own modulus), MAX_ATTR bases
    trusted_cpk: CL03CommitmentPublicKey,
    messages: Vec<CL03Message>,
    other_messages: Vec<CL03Message>,
}

fn fixture() -> &'static Fixture {
    static FIX: OnceLock<Fixture> = OnceLock::new();
    FIX.get_or_init(|| {
        let (sk, pk) = KeyPair::<S>::generate().into_parts();
        let a_bases = Bases::generate(&pk, MAX_ATTR);
        let verifier_cpk =
            CL03CommitmentPublicKey::generate::<CS>(Some(pk.N.clone()), Some(MAX_ATTR));
        let trusted_cpk = CL03CommitmentPublicKey::generate::<CS>(None, Some(MAX_ATTR));
        let messages = (0..MAX_ATTR)
            .map(|i| CL03Message::map_message_to_integer_as_hash::<CS>(&[0xa5, i as u8]))
            .collect();
        let other_messages = (0..MAX_ATTR)
            .map(|i| CL03Message::map_message_to_integer_as_hash::<CS>(&[0x5a, i as u8]))
            .collect();
        Fixture {
            pk,
            sk,
            a_bases,
            verifier_cpk,
            trusted_cpk,
            messages,
            other_messages,
        }
    })
}

fn commit(messages: &[CL03Message], unrevealed: &[usize]) -> CL03Commitment {
    let f = fixture();
    Commitment::<S>::commit_with_pk(messages, &f.pk, &f.a_bases, Some(unrevealed))
        .cl03Commitment()
        .clone()
}

fn commit_trusted(messages: &[CL03Message], unrevealed: &[usize]) -> CL03Commitment {
    let f = fixture();
    Commitment::<S>::commit_with_commitment_pk(messages, &f.trusted_cpk, Some(unrevealed))
        .cl03Commitment()
        .clone()
}

fn zk_gen(
    messages: &[CL03Message],
    c: &CL03Commitment,
    trusted: Option<&CL03Commitment>,
    with_cpk: bool,
    unrevealed: &[usize],
) -> ZKPoK<S> {
    let f = fixture();
    ZKPoK::<S>::generate_proof(
        messages,
        c,
        trusted,
        &f.pk,
        &f.a_bases,
        if with_cpk { Some(&f.trusted_cpk) } else { None },
        unrevealed,
    )
}

fn zk_ver(
    proof: &ZKPoK<S>,
    c: &CL03Commitment,
    trusted: Option<&CL03Commitment>,
    with_cpk: bool,
    unrevealed: &[usize],
) -> Outcome {
    let f = fixture();
    outcome(|| {
        proof.verify_proof(
            c,
            trusted,
            &f.pk,
            &f.a_bases,
            if with_cpk { Some(&f.trusted_cpk) } else { None },
            unrevealed,
        )
    })
}

/// honest generate + verify, without and with a trusted party commitment
fn zk_roundtrip(n: usize, unrevealed: &[usize]) -> (Outcome, Outcome) {
    let f = fixture();
    let msgs = &f.messages[..n];
    let c = commit(msgs, unrevealed);
    let plain = match catch_unwind(AssertUnwindSafe(|| zk_gen(msgs, &c, None, false, unrevealed))) {
        Ok(p) => zk_ver(&p, &c, None, false, unrevealed),
        Err(_) => Panic,
    };
    let ct = commit_trusted(msgs, unrevealed);
    let trusted =
        match catch_unwind(AssertUnwindSafe(|| zk_gen(msgs, &c, Some(&ct), true, unrevealed))) {
            Ok(p) => zk_ver(&p, &c, Some(&ct), true, unrevealed),
            Err(_) => Panic,
        };
    (plain, trusted)
}

#[test]
fn zkpok_roundtrip_sizes_and_index_sets() {
    // (number of messages, unrevealed indexes, expected plain, expected with trusted commitment)
    let cases: &[(usize, &[usize], Outcome, Outcome)] = &[
        (1, &[0], Accept, Accept),
        // a single message always proves index 0, the verifier takes the list literally
        (1, &[], Panic, Panic),
        (2, &[0], Accept, Accept),
        (2, &[1], Accept, Accept),
        (2, &[0, 1], Accept, Accept),
        (2, &[], Accept, Accept),
        (3, &[2], Accept, Accept),
        (3, &[0, 2], Accept, Accept),
        (3, &[2, 0], Accept, Accept),
        (3, &[0, 1, 2], Accept, Accept),
        (5, &[4], Accept, Accept),
        (5, &[1, 3, 4], Accept, Accept),
        (5, &[0, 1, 2, 3, 4], Accept, Accept),
        (5, &[], Accept, Accept),
    ];
    for (n, unrevealed, plain, trusted) in cases {
        let got = zk_roundtrip(*n, unrevealed);
        assert_eq!(got, (*plain, *trusted), "n={} unrevealed={:?}", n, unrevealed);
    }
}

#[test]
fn zkpok_wrong_statement_is_rejected() {
    let f = fixture();
    let msgs = &f.messages[..3];
    let other = &f.other_messages[..3];
    let unrevealed = [0usize, 2];
    let c = commit(msgs, &unrevealed);
    let c_other = commit(other, &unrevealed);
    let ct = commit_trusted(msgs, &unrevealed);
    let ct_other = commit_trusted(other, &unrevealed);

    let proof = zk_gen(msgs, &c, None, false, &unrevealed);
    assert_eq!(zk_ver(&proof, &c, None, false, &unrevealed), Accept);
    // another commitment
    assert_eq!(zk_ver(&proof, &c_other, None, false, &unrevealed), Reject);
    // same number of indexes, other positions
    assert_eq!(zk_ver(&proof, &c, None, false, &[0, 1]), Reject);
    assert_eq!(zk_ver(&proof, &c, None, false, &[2, 0]), Reject);
    // wrong number of indexes
    assert_eq!(zk_ver(&proof, &c, None, false, &[0]), Panic);
    assert_eq!(zk_ver(&proof, &c, None, false, &[0, 1, 2]), Panic);
    assert_eq!(zk_ver(&proof, &c, None, false, &[]), Panic);
    // index outside the bases
    assert_eq!(zk_ver(&proof, &c, None, false, &[0, MAX_ATTR]), Panic);
    // largest valid index, but not the proven one
    assert_eq!(zk_ver(&proof, &c, None, false, &[0, MAX_ATTR - 1]), Reject);
    // a trusted commitment is requested but the proof carries none
    assert_eq!(zk_ver(&proof, &c, Some(&ct), true, &unrevealed), Panic);
    // only one of the two optional arguments: the trusted part is skipped
    assert_eq!(zk_ver(&proof, &c, Some(&ct), false, &unrevealed), Accept);
    assert_eq!(zk_ver(&proof, &c, None, true, &unrevealed), Accept);

    // the prover knows other messages than the committed ones
    let lying = zk_gen(other, &c, None, false, &unrevealed);
    assert_eq!(zk_ver(&lying, &c, None, false, &unrevealed), Reject);

    let proof_t = zk_gen(msgs, &c, Some(&ct), true, &unrevealed);
    assert_eq!(zk_ver(&proof_t, &c, Some(&ct), true, &unrevealed), Accept);
    assert_eq!(zk_ver(&proof_t, &c, Some(&ct_other), true, &unrevealed), Reject);
    assert_eq!(zk_ver(&proof_t, &c_other, Some(&ct), true, &unrevealed), Reject);
    // the trusted part is optional for the verifier
    assert_eq!(zk_ver(&proof_t, &c, None, false, &unrevealed), Accept);
    assert_eq!(zk_ver(&proof_t, &c, Some(&ct), true, &[0, MAX_ATTR]), Panic);
    // trusted commitment to different messages
    let proof_t_bad = zk_gen(msgs, &c, Some(&ct_other), true, &unrevealed);
    assert_eq!(zk_ver(&proof_t_bad, &c, Some(&ct_other), true, &unrevealed), Reject);
    assert_eq!(zk_ver(&proof_t_bad, &c, Some(&ct), true, &unrevealed), Reject);
    // generated with only one of the two optional arguments: no trusted part inside
    let half = zk_gen(msgs, &c, Some(&ct), false, &unrevealed);
    assert_eq!(zk_ver(&half, &c, None, false, &unrevealed), Accept);
    assert_eq!(zk_ver(&half, &c, Some(&ct), true, &unrevealed), Panic);
}

#[test]
fn zkpok_generation_with_invalid_indexes_panics() {
    let f = fixture();
    let msgs = &f.messages[..3];
    let c = commit(msgs, &[0]);
    let ct = commit_trusted(msgs, &[0]);
    // inside the bases, outside the messages
    assert!(panics(|| zk_gen(msgs, &c, None, false, &[MAX_ATTR - 1])));
    assert!(panics(|| zk_gen(msgs, &c, None, false, &[0, 3])));
    // outside both
    assert!(panics(|| zk_gen(msgs, &c, None, false, &[MAX_ATTR])));
    assert!(panics(|| zk_gen(msgs, &c, Some(&ct), true, &[MAX_ATTR])));
    assert!(panics(|| zk_gen(msgs, &c, Some(&ct), true, &[3])));
    // no messages at all: the proof of the randomness still needs a base, the message list may be empty
    let c0 = commit(&[], &[]);
    let p0 = zk_gen(&[], &c0, None, false, &[]);
    assert_eq!(zk_ver(&p0, &c0, None, false, &[]), Accept);
    assert!(panics(|| zk_gen(&[], &c0, None, false, &[0])));
}

fn to_json<T: serde::Serialize>(t: &T) -> Value {
    serde_json::to_value(t).unwrap()
}

fn zk_from(v: &Value) -> ZKPoK<S> {
    serde_json::from_value(v.clone()).unwrap()
}

fn pop(v: &mut Value) {
    v.as_array_mut().unwrap().pop().unwrap();
}

fn dup_last(v: &mut Value) {
    let a = v.as_array_mut().unwrap();
    let last = a.last().unwrap().clone();
    a.push(last);
}

fn swap01(v: &mut Value) {
    v.as_array_mut().unwrap().swap(0, 1);
}

#[test]
fn zkpok_decoded_proofs() {
    let f = fixture();
    let msgs = &f.messages[..3];
    let unrevealed = [0usize, 2];
    let c = commit(msgs, &unrevealed);
    let ct = commit_trusted(msgs, &unrevealed);
    let proof = zk_gen(msgs, &c, Some(&ct), true, &unrevealed);
    let json = to_json(&proof);
    let check = |v: &Value| zk_ver(&zk_from(v), &c, Some(&ct), true, &unrevealed);

    // serde round trip is the identity
    assert_eq!(zk_from(&json), proof);
    assert_eq!(to_json(&zk_from(&json)), json);
    assert_eq!(check(&json), Accept);
    // field names are part of the wire format
    let inner = &json["CL03"];
    for key in [
        "proof_C_Ctrusted",
        "proof_commited_msgs",
        "proofs_commited_mi",
        "range_proofs_mi",
        "proof_r",
        "range_proof_r",
    ] {
        assert!(inner.get(key).is_some(), "missing {}", key);
    }
    assert_eq!(inner["proof_C_Ctrusted"]["d"].as_array().unwrap().len(), 2);
    assert_eq!(inner["proof_commited_msgs"]["s1"].as_array().unwrap().len(), 2);
    assert_eq!(inner["proofs_commited_mi"].as_array().unwrap().len(), 2);
    assert_eq!(inner["range_proofs_mi"].as_array().unwrap().len(), 2);

    // shorter / longer response lists
    let mut v = json.clone();
    pop(&mut v["CL03"]["proof_C_Ctrusted"]["d"]);
    assert_eq!(check(&v), Panic);
    let mut v = json.clone();
    dup_last(&mut v["CL03"]["proof_C_Ctrusted"]["d"]);
    assert_eq!(check(&v), Accept);
    let mut v = json.clone();
    swap01(&mut v["CL03"]["proof_C_Ctrusted"]["d"]);
    assert_eq!(check(&v), Reject);
    let mut v = json.clone();
    pop(&mut v["CL03"]["proof_commited_msgs"]["s1"]);
    assert_eq!(check(&v), Panic);
    let mut v = json.clone();
    dup_last(&mut v["CL03"]["proof_commited_msgs"]["s1"]);
    assert_eq!(check(&v), Panic);
    let mut v = json.clone();
    swap01(&mut v["CL03"]["proof_commited_msgs"]["s1"]);
    assert_eq!(check(&v), Reject);
    let mut v = json.clone();
    pop(&mut v["CL03"]["proofs_commited_mi"]);
    assert_eq!(check(&v), Panic);
    let mut v = json.clone();
    dup_last(&mut v["CL03"]["proofs_commited_mi"]);
    assert_eq!(check(&v), Accept);
    let mut v = json.clone();
    swap01(&mut v["CL03"]["proofs_commited_mi"]);
    assert_eq!(check(&v), Reject);
    let mut v = json.clone();
    pop(&mut v["CL03"]["range_proofs_mi"]);
    assert_eq!(check(&v), Panic);
    let mut v = json.clone();
    dup_last(&mut v["CL03"]["range_proofs_mi"]);
    assert_eq!(check(&v), Accept);
    let mut v = json.clone();
    swap01(&mut v["CL03"]["range_proofs_mi"]);
    assert_eq!(check(&v), Reject);
    // both lists swapped consistently: the proofs no longer match the bases
    let mut v = json.clone();
    swap01(&mut v["CL03"]["proofs_commited_mi"]);
    swap01(&mut v["CL03"]["range_proofs_mi"]);
    assert_eq!(check(&v), Reject);
    // missing trusted part
    let mut v = json.clone();
    v["CL03"]["proof_C_Ctrusted"] = Value::Null;
    assert_eq!(check(&v), Panic);
    assert_eq!(zk_ver(&zk_from(&v), &c, None, false, &unrevealed), Accept);
    // the range proof of r is about another commitment
    let mut v = json.clone();
    v["CL03"]["range_proof_r"]["E"] = v["CL03"]["range_proofs_mi"][0]["E"].clone();
    assert_eq!(check(&v), Reject);
    let mut v = json.clone();
    v["CL03"]["range_proofs_mi"][1]["E"] = v["CL03"]["range_proofs_mi"][0]["E"].clone();
    assert_eq!(check(&v), Reject);
    // responses of another proof
    let proof2 = to_json(&zk_gen(msgs, &c, Some(&ct), true, &unrevealed));
    for key in ["proof_C_Ctrusted", "proof_commited_msgs", "proof_r"] {
        let mut v = json.clone();
        v["CL03"][key] = proof2["CL03"][key].clone();
        let expected = if key == "proof_r" { Reject } else { Accept };
        // proof_r alone is tied to range_proof_r through the commitment, the others are self-contained
        assert_eq!(check(&v), expected, "{}", key);
    }
    let mut v = json.clone();
    v["CL03"]["proof_C_Ctrusted"]["d_1"] = proof2["CL03"]["proof_C_Ctrusted"]["d_1"].clone();
    assert_eq!(check(&v), Reject);
    let mut v = json.clone();
    v["CL03"]["proof_commited_msgs"]["s2"] = proof2["CL03"]["proof_commited_msgs"]["s2"].clone();
    assert_eq!(check(&v), Reject);
    let mut v = json.clone();
    v["CL03"]["proof_commited_msgs"]["t"] = proof2["CL03"]["proof_commited_msgs"]["t"].clone();
    assert_eq!(check(&v), Reject);
    let mut v = json.clone();
    v["CL03"]["proofs_commited_mi"][1]["value"]["s1"] =
        proof2["CL03"]["proofs_commited_mi"][1]["value"]["s1"].clone();
    assert_eq!(check(&v), Reject);

    // structurally invalid encodings are refused by the decoder
    let mut v = json.clone();
    v["CL03"]["proof_commited_msgs"]["s1"] = Value::Null;
    assert!(serde_json::from_value::<ZKPoK<S>>(v).is_err());
    let mut v = json.clone();
    v["CL03"].as_object_mut().unwrap().remove("proof_r");
    assert!(serde_json::from_value::<ZKPoK<S>>(v).is_err());
    let mut v = json.clone();
    v["CL03"].as_object_mut().unwrap().remove("proof_C_Ctrusted");
    // a missing optional field decodes as None
    match serde_json::from_value::<ZKPoK<S>>(v) {
        Ok(p) => assert_eq!(zk_ver(&p, &c, None, false, &unrevealed), Accept),
        Err(_) => {}
    }
}

// ---------------------------------------------------------------------------------------------
// signature proof of knowledge

fn sign(n: usize) -> CL03Signature {
    let f = fixture();
    let a = Bases(f.a_bases.0[..n].to_vec());
    let sig = Signature::<S>::sign_multiattr(&f.pk, &f.sk, &a, &f.messages[..n]);
    assert!(sig.verify_multiattr(&f.pk, &a, &f.messages[..n]));
    sig.cl03Signature().clone()
}

fn revealed(messages: &[CL03Message], unrevealed: &[usize]) -> Vec<CL03Message> {
    messages
        .iter()
        .enumerate()
        .filter(|(i, _)| !unrevealed.contains(i))
        .map(|(_, m)| m.clone())
        .collect()
}

fn spok_gen(sig: &CL03Signature, n: usize, unrevealed: &[usize]) -> PoKSignature<S> {
    let f = fixture();
    PoKSignature::<S>::proof_gen(
        sig,
        &f.verifier_cpk,
        &f.pk,
        &f.a_bases,
        &f.messages[..n],
        unrevealed,
    )
}

fn spok_ver(
    proof: &PoKSignature<S>,
    revealed_messages: &[CL03Message],
    unrevealed: &[usize],
    n: usize,
) -> Outcome {
    let f = fixture();
    outcome(|| {
        proof.proof_verify(
            &f.verifier_cpk,
            &f.pk,
            &f.a_bases,
            revealed_messages,
            unrevealed,
            n,
        )
    })
}

#[test]
fn spok_roundtrip_sizes_and_index_sets() {
    let f = fixture();
    let cases: &[(usize, &[usize], Outcome)] = &[
        (1, &[0], Accept),
        (1, &[], Accept),
        (2, &[0], Accept),
        (2, &[1], Accept),
        (2, &[0, 1], Accept),
        (3, &[], Accept),
        (3, &[2], Accept),
        (3, &[0, 2], Accept),
        (3, &[0, 1, 2], Accept),
        // the responses follow the order of the list, the verifier walks the attributes in order
        (3, &[2, 0], Reject),
        (5, &[4], Accept),
        (5, &[1, 3, 4], Accept),
        (5, &[0, 1, 2, 3, 4], Accept),
        (5, &[], Accept),
    ];
    for (n, unrevealed, expected) in cases {
        let sig = sign(*n);
        let proof = spok_gen(&sig, *n, unrevealed);
        let rev = revealed(&f.messages[..*n], unrevealed);
        assert_eq!(
            spok_ver(&proof, &rev, unrevealed, *n),
            *expected,
            "n={} unrevealed={:?}",
            n,
            unrevealed
        );
    }
}

#[test]
fn spok_wrong_statement_is_rejected() {
    let f = fixture();
    let n = 3usize;
    let sig = sign(n);
    let unrevealed = [0usize, 2];
    let proof = spok_gen(&sig, n, &unrevealed);
    let rev = revealed(&f.messages[..n], &unrevealed);
    let rev_other = revealed(&f.other_messages[..n], &unrevealed);
    assert_eq!(spok_ver(&proof, &rev, &unrevealed, n), Accept);
    assert_eq!(spok_ver(&proof, &rev_other, &unrevealed, n), Reject);
    // missing revealed message
    assert_eq!(spok_ver(&proof, &[], &unrevealed, n), Panic);
    // surplus revealed messages are not looked at
    let mut rev_more = rev.clone();
    rev_more.push(f.other_messages[0].clone());
    assert_eq!(spok_ver(&proof, &rev_more, &unrevealed, n), Accept);
    // other index sets
    assert_eq!(spok_ver(&proof, &rev, &[0, 1], n), Reject);
    assert_eq!(spok_ver(&proof, &rev, &[0], n), Panic);
    assert_eq!(spok_ver(&proof, &f.messages[..n], &[], n), Reject);
    assert_eq!(spok_ver(&proof, &rev, &[0, 1, 2], n), Panic);
    // an index beyond the signed messages is never visited by the first protocol, but it is by the wrappers
    assert_eq!(spok_ver(&proof, &rev, &[0, 2, MAX_ATTR], n), Panic);
    assert_eq!(spok_ver(&proof, &rev, &[0, 2, 4], n), Panic);
    // number of signed messages
    assert_eq!(spok_ver(&proof, &rev, &unrevealed, n - 1), Reject);
    assert_eq!(spok_ver(&proof, &rev, &unrevealed, n + 1), Panic);
    assert_eq!(spok_ver(&proof, &rev_more, &unrevealed, n + 1), Reject);
    assert_eq!(spok_ver(&proof, &rev, &unrevealed, MAX_ATTR + 1), Panic);
    assert_eq!(spok_ver(&proof, &rev, &unrevealed, 0), Reject);

    // signature on other messages
    let a = Bases(f.a_bases.0[..n].to_vec());
    let sig_other = Signature::<S>::sign_multiattr(&f.pk, &f.sk, &a, &f.other_messages[..n])
        .cl03Signature()
        .clone();
    let bad = spok_gen(&sig_other, n, &unrevealed);
    assert_eq!(spok_ver(&bad, &rev, &unrevealed, n), Reject);

    // generation with invalid indexes
    assert!(panics(|| spok_gen(&sig, n, &[0, 3])));
    assert!(panics(|| spok_gen(&sig, n, &[MAX_ATTR])));
    // duplicates in the list give one response per entry
    let dup = spok_gen(&sig, n, &[0, 0]);
    assert_eq!(
        to_json(&dup)["CL03"]["spok"]["s_5"].as_array().unwrap().len(),
        2
    );
}

fn spok_from(v: &Value) -> PoKSignature<S> {
    serde_json::from_value(v.clone()).unwrap()
}

#[test]
fn spok_decoded_proofs() {
    let f = fixture();
    let n = 4usize;
    let sig = sign(n);
    let unrevealed = [1usize, 3];
    let proof = spok_gen(&sig, n, &unrevealed);
    let rev = revealed(&f.messages[..n], &unrevealed);
    let json = to_json(&proof);
    let check = |v: &Value| spok_ver(&spok_from(v), &rev, &unrevealed, n);

    assert_eq!(spok_from(&json), proof);
    assert_eq!(to_json(&spok_from(&json)), json);
    assert_eq!(check(&json), Accept);
    let inner = &json["CL03"];
    for key in [
        "spok",
        "range_proof_e",
        "proofs_commited_mi",
        "range_proofs_commited_mi",
    ] {
        assert!(inner.get(key).is_some(), "missing {}", key);
    }
    for key in [
        "challenge", "s_1", "s_2", "s_3", "s_4", "s_5", "s_6", "s_7", "s_8", "s_9", "Cx", "Cv",
        "Cw", "Ce",
    ] {
        assert!(inner["spok"].get(key).is_some(), "missing {}", key);
    }
    assert_eq!(inner["spok"]["s_5"].as_array().unwrap().len(), 2);
    assert_eq!(inner["proofs_commited_mi"].as_array().unwrap().len(), 2);
    assert_eq!(inner["range_proofs_commited_mi"].as_array().unwrap().len(), 2);

    let mut v = json.clone();
    pop(&mut v["CL03"]["spok"]["s_5"]);
    assert_eq!(check(&v), Panic);
    let mut v = json.clone();
    dup_last(&mut v["CL03"]["spok"]["s_5"]);
    assert_eq!(check(&v), Accept);
    let mut v = json.clone();
    swap01(&mut v["CL03"]["spok"]["s_5"]);
    assert_eq!(check(&v), Reject);
    let mut v = json.clone();
    pop(&mut v["CL03"]["proofs_commited_mi"]);
    assert_eq!(check(&v), Panic);
    let mut v = json.clone();
    dup_last(&mut v["CL03"]["proofs_commited_mi"]);
    assert_eq!(check(&v), Accept);
    let mut v = json.clone();
    swap01(&mut v["CL03"]["proofs_commited_mi"]);
    assert_eq!(check(&v), Reject);
    let mut v = json.clone();
    pop(&mut v["CL03"]["range_proofs_commited_mi"]);
    assert_eq!(check(&v), Panic);
    let mut v = json.clone();
    dup_last(&mut v["CL03"]["range_proofs_commited_mi"]);
    assert_eq!(check(&v), Accept);
    let mut v = json.clone();
    swap01(&mut v["CL03"]["range_proofs_commited_mi"]);
    assert_eq!(check(&v), Reject);
    // the range proof of e is about another commitment
    let mut v = json.clone();
    v["CL03"]["range_proof_e"]["E"] = v["CL03"]["spok"]["Cw"]["value"].clone();
    assert_eq!(check(&v), Reject);
    let mut v = json.clone();
    v["CL03"]["range_proof_e"] = v["CL03"]["range_proofs_commited_mi"][0].clone();
    assert_eq!(check(&v), Reject);
    // every response and commitment is bound by the challenge
    let proof2 = to_json(&spok_gen(&sig, n, &unrevealed));
    for key in [
        "challenge", "s_1", "s_2", "s_3", "s_4", "s_6", "s_7", "s_8", "s_9",
    ] {
        let mut v = json.clone();
        v["CL03"]["spok"][key] = proof2["CL03"]["spok"][key].clone();
        assert_eq!(check(&v), Reject, "{}", key);
    }
    for key in ["Cx", "Cv", "Cw", "Ce"] {
        let mut v = json.clone();
        v["CL03"]["spok"][key]["value"] = proof2["CL03"]["spok"][key]["value"].clone();
        assert_eq!(check(&v), Reject, "{}", key);
    }
    // the randomness inside the commitments of the proof is not used by the verifier
    let mut v = json.clone();
    v["CL03"]["spok"]["Cx"]["randomness"] = proof2["CL03"]["spok"]["Cx"]["randomness"].clone();
    assert_eq!(check(&v), Accept);
    // a complete other proof part is fine as long as it stays consistent
    let mut v = json.clone();
    v["CL03"]["proofs_commited_mi"] = proof2["CL03"]["proofs_commited_mi"].clone();
    assert_eq!(check(&v), Reject);
    let mut v = json.clone();
    v["CL03"]["proofs_commited_mi"] = proof2["CL03"]["proofs_commited_mi"].clone();
    v["CL03"]["range_proofs_commited_mi"] = proof2["CL03"]["range_proofs_commited_mi"].clone();
    assert_eq!(check(&v), Accept);

    let mut v = json.clone();
    v["CL03"]["spok"]["s_5"] = Value::Null;
    assert!(serde_json::from_value::<PoKSignature<S>>(v).is_err());
    let mut v = json.clone();
    v["CL03"]["spok"].as_object_mut().unwrap().remove("Ce");
    assert!(serde_json::from_value::<PoKSignature<S>>(v).is_err());
}
