#![cfg(feature = "cl03")]
// Equivalence tests for the CL03 key-generation area (keys.rs, bases.rs, ciphersuites.rs,
// utils/random.rs).  Only the public API is used.  The generators draw from the thread RNG, so
// every assertion is on a property that holds for EVERY possible draw (so the file is
// deterministic in outcome), plus exact byte vectors for the serialisation helpers.

use std::panic::{catch_unwind, AssertUnwindSafe};
use std::sync::OnceLock;

use rug::{
    integer::{IsPrime, Order},
    Integer,
};
use zkryptium::{
    cl03::{
        bases::Bases,
        ciphersuites::{CL1024Sha256, CL2048Sha256, CL3072Sha256, CLCiphersuite},
        keys::{CL03CommitmentPublicKey, CL03PublicKey, CL03SecretKey},
    },
    keys::pair::KeyPair,
    schemes::algorithms::{CL03, CL03_CL1024_SHA256, CL03_CL2048_SHA256},
    utils::random::{rand_int, random_bits, random_number, random_prime, random_qr},
};

type KP = KeyPair<CL03<CL1024Sha256>>;

fn issuer() -> &'static KP {
    static K: OnceLock<KP> = OnceLock::new();
    K.get_or_init(KP::generate)
}

fn panics<T>(f: impl FnOnce() -> T) -> bool {
    catch_unwind(AssertUnwindSafe(f)).is_err()
}

fn is_prime(x: &Integer) -> bool {
    x.is_probably_prime(40) != IsPrime::No
}

/// x is a quadratic residue modulo N = p*q, coprime to N and > 1
fn is_good_qr(x: &Integer, p: &Integer, q: &Integer) -> bool {
    let n = Integer::from(p * q);
    *x > 1 && *x < n && Integer::from(x.gcd_ref(&n)) == 1 && x.legendre(p) == 1 && x.legendre(q) == 1
}

// ---------------------------------------------------------------- ciphersuite constants

#[test]
fn ciphersuite_constants() {
    fn all<CS: CLCiphersuite>() -> [u32; 12] {
        [
            CS::SECPARAM,
            CS::QSEC,
            CS::ln,
            CS::lm,
            CS::lin,
            CS::le,
            CS::ls,
            CS::t,
            CS::l,
            CS::s,
            CS::s1,
            CS::s2,
        ]
    }
    assert_eq!(
        all::<CL1024Sha256>(),
        [512, 19, 1024, 256, 256, 258, 1536, 128, 40, 40, 40, 552]
    );
    assert_eq!(
        all::<CL2048Sha256>(),
        [1024, 27, 2048, 256, 256, 258, 2560, 128, 40, 40, 40, 552]
    );
    assert_eq!(
        all::<CL3072Sha256>(),
        [1536, 27, 3072, 256, 256, 258, 3584, 128, 40, 40, 40, 552]
    );
}

// ---------------------------------------------------------------- key generation

#[test]
fn keypair_structure() {
    let kp = issuer();
    let (pk, sk) = (kp.public_key(), kp.private_key());
    let (p, q) = (&sk.p, &sk.q);
    assert_ne!(p, q);
    assert!(is_prime(p) && is_prime(q));
    // safe primes: (p-1)/2 is a prime of exactly SECPARAM bits (up to a negligible carry)
    for x in [p, q] {
        assert!(x.is_odd());
        let half = Integer::from(x - 1u32) / 2u32;
        assert!(is_prime(&half));
        assert_eq!(Integer::from(&half * 2u32) + 1u32, *x);
        assert!(half.significant_bits() == 512 || half.significant_bits() == 513);
        assert!(half.get_bit(511) || half.significant_bits() == 513);
    }
    assert_eq!(pk.N, Integer::from(p * q));
    assert!(pk.N.significant_bits() >= 1025 && pk.N.significant_bits() <= 1028);
    assert!(is_good_qr(&pk.b, p, q));
    assert!(is_good_qr(&pk.c, p, q));

    // a second key pair is different
    let (sk2, pk2) = KP::generate().into_parts();
    assert_ne!(pk2.N, pk.N);
    assert_eq!(pk2.N, Integer::from(&sk2.p * &sk2.q));
    assert!(is_good_qr(&pk2.b, &sk2.p, &sk2.q));
    assert!(is_good_qr(&pk2.c, &sk2.p, &sk2.q));
}

#[test]
fn keypair_roundtrips() {
    let kp = issuer();
    let (pk, sk) = (kp.public_key(), kp.private_key());

    let pkb = pk.to_bytes::<CL03_CL1024_SHA256>();
    assert_eq!(pkb.len(), 3 * 1024);
    assert_eq!(&CL03PublicKey::from_bytes::<CL03_CL1024_SHA256>(&pkb), pk);
    // the three fields are fixed width, big endian, left padded with zeros
    for (i, x) in [&pk.N, &pk.b, &pk.c].into_iter().enumerate() {
        let chunk = &pkb[i * 1024..(i + 1) * 1024];
        let d = x.to_digits::<u8>(Order::MsfBe);
        assert!(chunk[..1024 - d.len()].iter().all(|&z| z == 0));
        assert_eq!(&chunk[1024 - d.len()..], &d[..]);
    }
    // other suite: other widths
    let pkb2 = pk.to_bytes::<CL03_CL2048_SHA256>();
    assert_eq!(pkb2.len(), 3 * 2048);
    assert_eq!(&CL03PublicKey::from_bytes::<CL03_CL2048_SHA256>(&pkb2), pk);
    assert_eq!(&pkb2[1024..2048], &pkb[..1024]);

    let skb = sk.to_bytes::<CL03_CL1024_SHA256>();
    assert_eq!(skb.len(), 2 * 65);
    assert_eq!(&CL03SecretKey::from_bytes::<CL03_CL1024_SHA256>(&skb), sk);
    let pd = sk.p.to_digits::<u8>(Order::MsfBe);
    assert_eq!(pd.len(), 65);
    assert_eq!(&skb[..65], &pd[..]);
    assert_eq!(&skb[65..], &sk.q.to_digits::<u8>(Order::MsfBe)[..]);
    let skb2 = sk.to_bytes::<CL03_CL2048_SHA256>();
    assert_eq!(skb2.len(), 2 * 129);
    assert_eq!(&CL03SecretKey::from_bytes::<CL03_CL2048_SHA256>(&skb2), sk);

    // serde representation
    let js = serde_json::to_string(kp).unwrap();
    let back: KP = serde_json::from_str(&js).unwrap();
    assert_eq!(&back, kp);
    let v: serde_json::Value = serde_json::from_str(&js).unwrap();
    let mut ks: Vec<_> = v["public"].as_object().unwrap().keys().cloned().collect();
    ks.sort();
    assert_eq!(ks, ["N", "b", "c"]);
    let mut ks: Vec<_> = v["private"].as_object().unwrap().keys().cloned().collect();
    ks.sort();
    assert_eq!(ks, ["p", "q"]);
}

// ---------------------------------------------------------------- serialisation: exact vectors

fn be(len: usize, tail: &[u8]) -> Vec<u8> {
    let mut v = vec![0u8; len - tail.len()];
    v.extend_from_slice(tail);
    v
}

#[test]
fn public_key_bytes_exact() {
    let pk = CL03PublicKey::new(Integer::from(0x0102_03u32), Integer::from(0), Integer::from(255));
    let bytes = pk.to_bytes::<CL03_CL1024_SHA256>();
    let mut exp = be(1024, &[1, 2, 3]);
    exp.extend(be(1024, &[]));
    exp.extend(be(1024, &[255]));
    assert_eq!(bytes, exp);
    assert_eq!(CL03PublicKey::from_bytes::<CL03_CL1024_SHA256>(&bytes), pk);

    // the sign is not written
    let neg = CL03PublicKey::new(Integer::from(-0x0102_03i32), Integer::from(0), Integer::from(-255));
    assert_eq!(neg.to_bytes::<CL03_CL1024_SHA256>(), exp);

    // the largest value that fits
    let max = (Integer::from(1) << (8 * 1024u32)) - 1u32;
    let pk = CL03PublicKey::new(max.clone(), Integer::from(1), max.clone());
    let bytes = pk.to_bytes::<CL03_CL1024_SHA256>();
    assert!(bytes[..1024].iter().all(|&b| b == 0xff));
    assert_eq!(&bytes[1024..2048], &be(1024, &[1])[..]);
    assert!(bytes[2048..].iter().all(|&b| b == 0xff));
    assert_eq!(CL03PublicKey::from_bytes::<CL03_CL1024_SHA256>(&bytes), pk);

    // one bit more does not fit, in any of the three positions
    let over = Integer::from(1) << (8 * 1024u32);
    let one = Integer::from(1);
    for k in 0..3 {
        let mut f = [one.clone(), one.clone(), one.clone()];
        f[k] = over.clone();
        let [n, b, c] = f;
        let pk = CL03PublicKey::new(n, b, c);
        assert!(panics(|| pk.to_bytes::<CL03_CL1024_SHA256>()));
        // but it fits in the next suite
        assert_eq!(pk.to_bytes::<CL03_CL2048_SHA256>().len(), 3 * 2048);
    }
}

#[test]
fn public_key_from_bytes_lengths() {
    let l = 1024usize;
    let mut good = Vec::new();
    good.extend(be(l, &[9, 9]));
    good.extend(be(l, &[7]));
    good.extend(be(l, &[1, 0, 0, 0, 0]));
    let pk = CL03PublicKey::new(Integer::from(0x0909), Integer::from(7), Integer::from(1u64 << 32));
    assert_eq!(CL03PublicKey::from_bytes::<CL03_CL1024_SHA256>(&good), pk);

    // trailing whole blocks are tolerated and ignored
    for extra in [1usize, 2, 5] {
        let mut longer = good.clone();
        longer.extend(vec![0xabu8; extra * l]);
        assert_eq!(CL03PublicKey::from_bytes::<CL03_CL1024_SHA256>(&longer), pk);
    }
    // everything else panics
    for len in [0usize, 1, l - 1, l, l + 1, 2 * l, 3 * l - 1, 3 * l + 1, 4 * l - 1, 4 * l + 1, 3 * l + l / 2] {
        let mut v = good.clone();
        v.resize(len, 0x11);
        assert!(
            panics(|| CL03PublicKey::from_bytes::<CL03_CL1024_SHA256>(&v)),
            "len {len}"
        );
    }
    // the width depends on the suite
    assert!(panics(|| CL03PublicKey::from_bytes::<CL03_CL2048_SHA256>(&good)));
    let mut six = good.clone();
    six.extend(good.iter());
    let pk2 = CL03PublicKey::from_bytes::<CL03_CL2048_SHA256>(&six);
    assert_eq!(pk2.N, Integer::from_digits(&six[..2048], Order::MsfBe));
    assert_eq!(pk2.b, Integer::from_digits(&six[2048..4096], Order::MsfBe));
    assert_eq!(pk2.c, Integer::from_digits(&six[4096..], Order::MsfBe));
    // leading byte significant
    let mut top = vec![0u8; 3 * l];
    top[0] = 0x80;
    top[l] = 0x01;
    top[3 * l - 1] = 0x02;
    let pk3 = CL03PublicKey::from_bytes::<CL03_CL1024_SHA256>(&top);
    assert_eq!(pk3.N, Integer::from(1) << (8 * 1024 - 1u32));
    assert_eq!(pk3.b, Integer::from(1) << (8 * 1023u32));
    assert_eq!(pk3.c, 2);
    assert_eq!(pk3.to_bytes::<CL03_CL1024_SHA256>(), top);
}

#[test]
fn secret_key_bytes_exact() {
    let d = 65usize;
    let sk = CL03SecretKey::new(Integer::from(0xAABBu32), Integer::from(5));
    let bytes = sk.to_bytes::<CL03_CL1024_SHA256>();
    let mut exp = be(d, &[0xaa, 0xbb]);
    exp.extend(be(d, &[5]));
    assert_eq!(bytes, exp);
    assert_eq!(CL03SecretKey::from_bytes::<CL03_CL1024_SHA256>(&bytes), sk);
    let neg = CL03SecretKey::new(Integer::from(-0xAABBi32), Integer::from(-5));
    assert_eq!(neg.to_bytes::<CL03_CL1024_SHA256>(), exp);
    let zero = CL03SecretKey::new(Integer::new(), Integer::new());
    assert_eq!(zero.to_bytes::<CL03_CL1024_SHA256>(), vec![0u8; 2 * d]);

    // the largest values that fit, and one bit more
    let max = (Integer::from(1) << (8 * 65u32)) - 1u32;
    let sk = CL03SecretKey::new(max.clone(), max.clone());
    assert_eq!(sk.to_bytes::<CL03_CL1024_SHA256>(), vec![0xffu8; 2 * d]);
    let over = Integer::from(1) << (8 * 65u32);
    assert!(panics(|| CL03SecretKey::new(over.clone(), Integer::from(1)).to_bytes::<CL03_CL1024_SHA256>()));
    assert!(panics(|| CL03SecretKey::new(Integer::from(1), over.clone()).to_bytes::<CL03_CL1024_SHA256>()));
    assert_eq!(
        CL03SecretKey::new(over.clone(), over.clone()).to_bytes::<CL03_CL2048_SHA256>().len(),
        2 * 129
    );

    // from_bytes: a tail is ignored; short input panics
    for extra in [1usize, 64, 65, 200] {
        let mut longer = exp.clone();
        longer.extend(vec![0x77u8; extra]);
        assert_eq!(
            CL03SecretKey::from_bytes::<CL03_CL1024_SHA256>(&longer),
            CL03SecretKey::new(Integer::from(0xAABBu32), Integer::from(5))
        );
    }
    for len in [0usize, 1, d - 1, d, d + 1, 2 * d - 1] {
        let v = vec![1u8; len];
        assert!(
            panics(|| CL03SecretKey::from_bytes::<CL03_CL1024_SHA256>(&v)),
            "len {len}"
        );
    }
    let v = vec![1u8; 2 * 129 - 1];
    assert!(panics(|| CL03SecretKey::from_bytes::<CL03_CL2048_SHA256>(&v)));
    let v = vec![1u8; 2 * 129];
    let sk = CL03SecretKey::from_bytes::<CL03_CL2048_SHA256>(&v);
    assert_eq!(sk.p, sk.q);
    assert_eq!(sk.p.significant_bits(), 8 * 128 + 1);
}

// ---------------------------------------------------------------- commitment keys and bases

fn check_commitment_key(ck: &CL03CommitmentPublicKey, n: usize, p: &Integer, q: &Integer) {
    assert_eq!(ck.N, Integer::from(p * q));
    assert!(is_good_qr(&ck.h, p, q));
    assert_eq!(ck.g_bases.len(), n);
    for g in &ck.g_bases {
        // g = h^f: in the subgroup of quadratic residues, coprime, > 1
        assert!(is_good_qr(g, p, q));
    }
}

#[test]
fn commitment_key_with_given_modulus() {
    let kp = issuer();
    let (p, q) = (&kp.private_key().p, &kp.private_key().q);
    let n = kp.public_key().N.clone();
    for (arg, want) in [(None, 1usize), (Some(0), 0), (Some(1), 1), (Some(2), 2), (Some(7), 7)] {
        let ck = CL03CommitmentPublicKey::generate::<CL1024Sha256>(Some(n.clone()), arg);
        check_commitment_key(&ck, want, p, q);
        if want >= 2 {
            assert_ne!(ck.g_bases[0], ck.g_bases[1]);
        }
        // serde representation
        let js = serde_json::to_value(&ck).unwrap();
        let mut ks: Vec<_> = js.as_object().unwrap().keys().cloned().collect();
        ks.sort();
        assert_eq!(ks, ["N", "g_bases", "h"]);
        assert_eq!(js["g_bases"].as_array().unwrap().len(), want);
        let back: CL03CommitmentPublicKey = serde_json::from_value(js).unwrap();
        assert_eq!(back, ck);
    }
    // the suite parameter is irrelevant when N is given
    let ck = CL03CommitmentPublicKey::generate::<CL3072Sha256>(Some(n.clone()), Some(3));
    check_commitment_key(&ck, 3, p, q);

    // a small modulus given by the caller is used as it is: 7 * 11, quadratic residues coprime
    // to 77 and > 1 are a known set
    let small = Integer::from(77);
    let qrs: Vec<u32> = (2u32..77)
        .filter(|x| x % 7 != 0 && x % 11 != 0)
        .filter(|x| (1u32..77).any(|y| (y * y) % 77 == *x))
        .collect();
    assert_eq!(qrs.len(), 14);
    for _ in 0..20 {
        let ck = CL03CommitmentPublicKey::generate::<CL1024Sha256>(Some(small.clone()), Some(4));
        assert_eq!(ck.N, 77);
        assert!(qrs.contains(&ck.h.to_u32().unwrap()));
        assert_eq!(ck.g_bases.len(), 4);
        for g in &ck.g_bases {
            assert!(qrs.contains(&g.to_u32().unwrap()), "{g}");
        }
    }
    // a modulus that is not positive cannot be sampled below
    assert!(panics(|| CL03CommitmentPublicKey::generate::<CL1024Sha256>(Some(Integer::new()), Some(1))));
    assert!(panics(|| CL03CommitmentPublicKey::generate::<CL1024Sha256>(Some(Integer::from(-77)), Some(0))));
}

#[test]
fn commitment_key_with_fresh_modulus() {
    for arg in [None, Some(0usize), Some(2)] {
        let ck = CL03CommitmentPublicKey::generate::<CL1024Sha256>(None, arg);
        assert_eq!(ck.g_bases.len(), arg.unwrap_or(1));
        let bits = ck.N.significant_bits();
        assert!((1025..=1028).contains(&bits), "{bits}");
        assert!(ck.N.is_odd());
        assert!(!is_prime(&ck.N));
        assert!(!ck.N.is_perfect_square());
        // N = (2p'+1)(2q'+1) with odd p', q': N = 1 mod 4 ... and 4p'q'+2(p'+q')+1
        assert_eq!(ck.N.mod_u(4), 1);
        assert_ne!(ck.N, issuer().public_key().N);
        assert!(ck.h > 1 && ck.h < ck.N);
        assert_eq!(ck.h.jacobi(&ck.N), 1);
        assert_eq!(Integer::from(ck.h.gcd_ref(&ck.N)), 1);
        for g in &ck.g_bases {
            assert!(*g > 1 && *g < ck.N);
            assert_eq!(g.jacobi(&ck.N), 1);
            assert_eq!(Integer::from(g.gcd_ref(&ck.N)), 1);
        }
    }
}

#[test]
fn bases_generate() {
    let kp = issuer();
    let (p, q) = (&kp.private_key().p, &kp.private_key().q);
    for n in [0usize, 1, 2, 5, 16] {
        let bases = Bases::generate(kp.public_key(), n);
        assert_eq!(bases.0.len(), n);
        for a in &bases.0 {
            assert!(is_good_qr(a, p, q));
        }
        if n >= 2 {
            assert_ne!(bases.0[0], bases.0[n - 1]);
        }
        let js = serde_json::to_value(&bases).unwrap();
        assert_eq!(js.as_array().unwrap().len(), n);
    }
    // only N of the key is used
    let pk = CL03PublicKey::new(Integer::from(77), Integer::new(), Integer::new());
    let bases = Bases::generate(&pk, 30);
    assert_eq!(bases.0.len(), 30);
    for a in &bases.0 {
        let a = a.to_u32().unwrap();
        assert!(a > 1 && a < 77 && a % 7 != 0 && a % 11 != 0);
        assert!((1u32..77).any(|y| (y * y) % 77 == a));
    }
    let bad = CL03PublicKey::new(Integer::new(), Integer::new(), Integer::new());
    assert!(panics(|| Bases::generate(&bad, 1)));
    assert_eq!(Bases::generate(&bad, 0).0.len(), 0);
}

// ---------------------------------------------------------------- utils::random

#[test]
fn random_bits_has_exact_length() {
    for n in [1u32, 2, 3, 8, 31, 32, 33, 64, 65, 256, 512, 1536] {
        for _ in 0..8 {
            let x = random_bits(n);
            assert_eq!(x.significant_bits(), n);
            assert!(x > 0);
        }
    }
    assert_eq!(random_bits(1), 1);
    // not constant
    assert_ne!(random_bits(256), random_bits(256));
    // all values of a short length are reached
    let mut seen = [false; 4];
    for _ in 0..400 {
        seen[(random_bits(3).to_u32().unwrap() - 4) as usize] = true;
    }
    assert_eq!(seen, [true; 4]);
}

#[test]
fn random_number_is_below() {
    assert_eq!(random_number(Integer::from(1)), 0);
    let mut seen = [false; 5];
    for _ in 0..400 {
        let x = random_number(Integer::from(5));
        assert!(x >= 0 && x < 5);
        seen[x.to_usize().unwrap()] = true;
    }
    assert_eq!(seen, [true; 5]);
    let big = Integer::from(1) << 700u32;
    for _ in 0..8 {
        let x = random_number(big.clone());
        assert!(x >= 0 && x < big);
    }
    assert_ne!(random_number(big.clone()), random_number(big.clone()));
    assert!(panics(|| random_number(Integer::new())));
    assert!(panics(|| random_number(Integer::from(-5))));
}

#[test]
fn random_prime_is_next_prime_of_exact_length() {
    for n in [2u32, 3, 8, 16, 64, 258, 512] {
        for _ in 0..4 {
            let p = random_prime(n);
            assert!(is_prime(&p), "{p}");
            // next_prime of an n-bit number is strictly larger; overflow to n+1 bits only for
            // tiny n
            assert!(p.significant_bits() == n || (n <= 16 && p.significant_bits() == n + 1));
            assert!(p > (Integer::from(1) << (n - 1)));
        }
    }
    // n = 2: r in {2, 3}: next primes 3 and 5
    let mut seen = [false; 2];
    for _ in 0..200 {
        match random_prime(2).to_u32().unwrap() {
            3 => seen[0] = true,
            5 => seen[1] = true,
            x => panic!("{x}"),
        }
    }
    assert_eq!(seen, [true; 2]);
    // n = 1: r = 1, next prime 2
    assert_eq!(random_prime(1), 2);
}

#[test]
fn random_qr_small_and_large() {
    // modulo 77
    let n = Integer::from(77);
    let mut seen = std::collections::BTreeSet::new();
    for _ in 0..600 {
        let x = random_qr(&n).to_u32().unwrap();
        assert!(x > 1 && x < 77 && x % 7 != 0 && x % 11 != 0);
        assert!((1u32..77).any(|y| (y * y) % 77 == x));
        seen.insert(x);
    }
    assert_eq!(seen.len(), 14);
    // prime modulus 23: residues without 1
    let n = Integer::from(23);
    let mut seen = std::collections::BTreeSet::new();
    for _ in 0..400 {
        seen.insert(random_qr(&n).to_u32().unwrap());
    }
    assert_eq!(
        seen.into_iter().collect::<Vec<_>>(),
        [2, 3, 4, 6, 8, 9, 12, 13, 16, 18]
    );
    // modulo 5: only 4
    assert_eq!(random_qr(&Integer::from(5)), 4);
    // large
    let kp = issuer();
    for _ in 0..4 {
        assert!(is_good_qr(
            &random_qr(&kp.public_key().N),
            &kp.private_key().p,
            &kp.private_key().q
        ));
    }
    assert!(panics(|| random_qr(&Integer::new())));
    assert!(panics(|| random_qr(&Integer::from(-77))));
}

#[test]
fn rand_int_is_inclusive() {
    let mut seen = [false; 4];
    for _ in 0..400 {
        let x = rand_int(Integer::from(-2), Integer::from(1));
        assert!(x >= -2 && x <= 1);
        seen[(x.to_i32().unwrap() + 2) as usize] = true;
    }
    assert_eq!(seen, [true; 4]);
    assert_eq!(rand_int(Integer::from(7), Integer::from(7)), 7);
    assert_eq!(rand_int(Integer::from(-7), Integer::from(-7)), -7);
    assert_eq!(rand_int(Integer::new(), Integer::new()), 0);
    let a = Integer::from(1) << 300u32;
    let b = Integer::from(&a + 1000u32);
    for _ in 0..16 {
        let x = rand_int(a.clone(), b.clone());
        assert!(x >= a && x <= b);
    }
    let lo = -(Integer::from(1) << 600u32);
    let hi = Integer::from(1) << 600u32;
    let (x, y) = (rand_int(lo.clone(), hi.clone()), rand_int(lo.clone(), hi.clone()));
    assert!(x >= lo && x <= hi && y >= lo && y <= hi);
    assert_ne!(x, y);
    // empty interval
    assert!(panics(|| rand_int(Integer::from(5), Integer::from(4))));
    assert!(panics(|| rand_int(Integer::from(5), Integer::from(-5))));
}
