#![cfg(feature = "cl03")]
#![allow(non_snake_case)]

// Behavioural pins for the PROVER side of the Boudot range proof (src/cl03/range_proof.rs), public API only.
// The prover is randomised, so what is pinned is: (1) every proof it makes is accepted, for many shapes of range and value;
// (2) the wire form (serde) has the documented members, and the values in it satisfy the relations the algorithm promises;
// (3) where HEAD panics (empty / reversed range, value outside of the range) the prover still panics;
// (4) a proof for a statement is refused for any other statement.

use std::panic::{catch_unwind, AssertUnwindSafe};

use rug::{ops::Pow, Complete, Integer};
use serde_json::Value;
use sha2::Sha256;
use zkryptium::cl03::{commitment::CL03Commitment, range_proof::Boudot2000RangeProof};

const T_SEC: u32 = 128;
const L_SEC: u32 = 40;

struct Group {
    g: Integer,
    h: Integer,
    n: Integer,
}

/// A fixed group: n is the product of the Mersenne primes 2^521 - 1 and 2^607 - 1, g and h are small squares
fn group() -> Group {
    let p = Integer::from(2).pow(521) - Integer::from(1);
    let q = Integer::from(2).pow(607) - Integer::from(1);
    Group {
        g: Integer::from(4),
        h: Integer::from(9),
        n: p * q,
    }
}

/// A second fixed group, with a modulus of another length and other bases
fn small_group() -> Group {
    let p = Integer::from(2).pow(127) - Integer::from(1);
    let q = Integer::from(2).pow(521) - Integer::from(1);
    Group {
        g: Integer::from(25),
        h: Integer::from(49),
        n: p * q,
    }
}

/// A fixed number of about `bits` bits (deterministic, not random)
fn fixed_number(bits: u32, salt: u32) -> Integer {
    let mut v = Integer::from(salt) + Integer::from(0x9e3779b9u32);
    while v.significant_bits() < bits {
        v = v.clone() * &v + Integer::from(salt) * Integer::from(0x85ebca6bu32) + Integer::from(1);
    }
    v.keep_bits(bits)
}

fn pow_mod(base: &Integer, e: &Integer, n: &Integer) -> Integer {
    Integer::from(base.pow_mod_ref(e, n).expect("invertible"))
}

fn commit(grp: &Group, x: &Integer, r: &Integer) -> CL03Commitment {
    let value = (pow_mod(&grp.g, x, &grp.n) * pow_mod(&grp.h, r, &grp.n)) % &grp.n;
    CL03Commitment {
        value,
        randomness: r.clone(),
    }
}

fn prove(grp: &Group, x: &Integer, c: &CL03Commitment, rmin: &Integer, rmax: &Integer) -> Boudot2000RangeProof {
    Boudot2000RangeProof::prove::<Sha256>(x, c, &grp.g, &grp.h, &grp.n, rmin, rmax)
}

fn verify(grp: &Group, p: &Boudot2000RangeProof, rmin: &Integer, rmax: &Integer) -> bool {
    p.verify::<Sha256>(&grp.g, &grp.h, &grp.n, rmin, rmax)
}

fn int(v: &Value) -> Integer {
    serde_json::from_value::<Integer>(v.clone()).expect("an integer")
}

fn keys(v: &Value) -> Vec<String> {
    let mut k: Vec<String> = v.as_object().expect("an object").keys().cloned().collect();
    k.sort();
    k
}

fn big_T(rmin: &Integer, rmax: &Integer) -> u32 {
    2 * (T_SEC + L_SEC + 1) + (rmax - rmin).complete().significant_bits()
}

/// Everything that the algorithm promises about an honest proof and that can be told from the wire form
fn check_wire_form(grp: &Group, proof: &Boudot2000RangeProof, c: &CL03Commitment, rmin: &Integer, rmax: &Integer) {
    let n = &grp.n;
    let T = big_T(rmin, rmax);
    let v = serde_json::to_value(proof).unwrap();
    assert_eq!(keys(&v), ["E", "E_prime", "proof_of_tolerance"]);
    assert_eq!(int(&v["E"]), c.value);
    assert_eq!(proof.E, c.value);
    let two_T = Integer::from(2).pow(T);
    assert_eq!(int(&v["E_prime"]), pow_mod(&c.value, &two_T, n));
    assert_eq!(proof.E_prime, pow_mod(&c.value, &two_T, n));

    let wt = &v["proof_of_tolerance"];
    assert_eq!(
        keys(wt),
        [
            "E_a_1",
            "E_a_2",
            "E_b_1",
            "E_b_2",
            "proof_large_i_a",
            "proof_large_i_b",
            "proof_of_square_a",
            "proof_of_square_b"
        ]
    );

    // the two shifted commitments: E' / g^aa and g^bb / E'
    let width = (rmax - rmin).complete();
    let tol = Integer::from(2).pow(L_SEC + T_SEC + T / 2 + 1) * width.clone().sqrt();
    let aa = two_T.clone() * rmin - &tol;
    let bb = two_T.clone() * rmax + &tol;
    let e_prime = int(&v["E_prime"]);
    let e_a = (e_prime.clone() * pow_mod(&grp.g, &(-aa).into(), n)) % n;
    let e_b = (pow_mod(&grp.g, &bb, n) * pow_mod(&e_prime, &Integer::from(-1), n)) % n;

    for (side, e_side) in [("a", e_a), ("b", e_b)] {
        let e1 = int(&wt[format!("E_{side}_1")]);
        let e2 = int(&wt[format!("E_{side}_2")]);
        assert!(e1 >= 0 && &e1 < n && e2 >= 0 && &e2 < n, "canonical residues");
        assert_eq!((e1.clone() * &e2) % n, e_side, "E_1 * E_2 is the shifted commitment ({side})");

        let sq = &wt[format!("proof_of_square_{side}")];
        assert_eq!(keys(sq), ["E", "F", "proof_ss"]);
        assert_eq!(int(&sq["E"]), e1, "the proof of square is about E_1 ({side})");
        let f = int(&sq["F"]);
        assert!(f >= 0 && &f < n);
        let ss = &sq["proof_ss"];
        assert_eq!(keys(ss), ["challenge", "d", "d_1", "d_2"]);
        let ch = int(&ss["challenge"]);
        assert!(ch >= 0 && ch.significant_bits() <= 256);
        // d = omega + challenge * root with omega >= 1 and root >= 0
        assert!(int(&ss["d"]) >= 1);

        let li = &wt[format!("proof_large_i_{side}")];
        assert_eq!(keys(li), ["C", "D_1", "D_2"]);
        let C = int(&li["C"]);
        assert!(C >= 0 && C.significant_bits() <= 256);
        let c_small = C % Integer::from(2).pow(T_SEC);
        let d1 = int(&li["D_1"]);
        assert!(c_small * rmax <= d1, "D_1 is not below c * b ({side})");
        assert!(
            d1 <= two_T.clone() * (Integer::from(2).pow(T_SEC + L_SEC) * rmax - Integer::from(1)),
            "D_1 is not above 2^T (2^(t+l) b - 1) ({side})"
        );
        let d2 = int(&li["D_2"]);
        let nu_bound = two_T.clone() * Integer::from(2).pow(T_SEC + L_SEC + 40) * n;
        let slack = Integer::from(2).pow(T_SEC) * (Integer::from(2).pow(40 + T) * n);
        assert!(d2.clone().abs() <= nu_bound + slack, "D_2 out of any possible range ({side})");
    }

    // the wire form decodes to the same proof, which is still accepted
    let text = serde_json::to_string(proof).unwrap();
    let back: Boudot2000RangeProof = serde_json::from_str(&text).unwrap();
    assert_eq!(&back, proof);
    assert!(verify(grp, &back, rmin, rmax));
}

fn roundtrip(grp: &Group, x: &Integer, r: &Integer, rmin: &Integer, rmax: &Integer) -> Boudot2000RangeProof {
    let c = commit(grp, x, r);
    let proof = prove(grp, x, &c, rmin, rmax);
    assert!(
        verify(grp, &proof, rmin, rmax),
        "an honest proof is refused: x = {x}, range [{rmin}, {rmax}]"
    );
    check_wire_form(grp, &proof, &c, rmin, rmax);
    proof
}

#[test]
fn honest_proofs_small_ranges() {
    let grp = group();
    let r = fixed_number(1000, 1);
    // the narrowest ranges there are, all of their values; widths with an odd and an even number of bits
    for (lo, hi) in [(0i64, 1i64), (0, 2), (0, 3), (5, 6), (7, 12), (-3, 2), (-9, 1), (100, 355)] {
        let (lo, hi) = (Integer::from(lo), Integer::from(hi));
        let mid = (lo.clone() + &hi) / 2;
        for x in [lo.clone(), hi.clone(), mid] {
            roundtrip(&grp, &x, &r, &lo, &hi);
        }
    }
}

#[test]
fn honest_proofs_wide_ranges() {
    let grp = group();
    for (i, bits) in [8u32, 31, 32, 33, 64, 255, 256, 257, 512].into_iter().enumerate() {
        let lo = Integer::from(0);
        let hi = Integer::from(2).pow(bits);
        let r = fixed_number(1000 + bits / 8, i as u32);
        let x = fixed_number(bits - 1, 7 + i as u32);
        roundtrip(&grp, &x, &r, &lo, &hi);
        // the two ends of the range
        roundtrip(&grp, &lo, &r, &lo, &hi);
        roundtrip(&grp, &hi, &r, &lo, &hi);
        // the same width somewhere else, and a width that is not a power of two
        let shift = fixed_number(bits + 3, 3);
        roundtrip(&grp, &(x.clone() + &shift), &r, &shift, &(hi.clone() + &shift));
        let hi2 = hi.clone() - Integer::from(1);
        roundtrip(&grp, &x, &r, &lo, &hi2);
    }
}

#[test]
fn honest_proofs_odd_randomness_and_groups() {
    // the randomness of the commitment: zero, one, negative, about as long as the modulus
    // (one that is much longer than 2^s * n makes the split of the randomness draw for ever, at HEAD too: not tried)
    let (lo, hi) = (Integer::from(1000), Integer::from(5000));
    let x = Integer::from(4321);
    for grp in [group(), small_group()] {
        for r in [
            Integer::from(0),
            Integer::from(1),
            Integer::from(-1),
            -fixed_number(300, 2),
            fixed_number(640, 5),
            -fixed_number(640, 6),
        ] {
            roundtrip(&grp, &x, &r, &lo, &hi);
        }
    }
}

#[test]
fn repeated_proofs_differ_and_all_verify() {
    // the loops that draw again (the split of the randomness, the larger-interval response) get many chances to run
    let grp = small_group();
    let (lo, hi) = (Integer::from(0), Integer::from(2).pow(64));
    let x = fixed_number(60, 11);
    let r = fixed_number(640, 12);
    let c = commit(&grp, &x, &r);
    let mut seen: Vec<String> = Vec::new();
    for _ in 0..12 {
        let p = prove(&grp, &x, &c, &lo, &hi);
        assert!(verify(&grp, &p, &lo, &hi));
        check_wire_form(&grp, &p, &c, &lo, &hi);
        let text = serde_json::to_string(&p).unwrap();
        assert!(!seen.contains(&text), "two proofs are the same: the masks are not fresh");
        seen.push(text);
    }
}

#[test]
fn a_proof_is_for_one_statement_only() {
    let grp = group();
    let other = small_group();
    let (lo, hi) = (Integer::from(18), Integer::from(120));
    let x = Integer::from(42);
    let r = fixed_number(800, 21);
    let proof = roundtrip(&grp, &x, &r, &lo, &hi);

    // other ranges (also of the same width, and of the same T)
    assert!(!verify(&grp, &proof, &Integer::from(19), &Integer::from(121)));
    assert!(!verify(&grp, &proof, &Integer::from(18), &Integer::from(121)));
    assert!(!verify(&grp, &proof, &Integer::from(17), &Integer::from(120)));
    assert!(!verify(&grp, &proof, &Integer::from(0), &Integer::from(1) ));
    // other bases, other modulus
    assert!(!proof.verify::<Sha256>(&grp.h, &grp.g, &grp.n, &lo, &hi));
    assert!(!proof.verify::<Sha256>(&grp.g, &Integer::from(25), &grp.n, &lo, &hi));
    assert!(!proof.verify::<Sha256>(&grp.g, &grp.h, &other.n, &lo, &hi));
    // another hash
    assert!(!proof.verify::<sha2::Sha512>(&grp.g, &grp.h, &grp.n, &lo, &hi));
    // another commitment
    let mut p2 = proof.clone();
    p2.E = (p2.E * &grp.h) % &grp.n;
    assert!(!verify(&grp, &p2, &lo, &hi));
    let mut p3 = proof.clone();
    p3.E_prime = (p3.E_prime * &grp.h) % &grp.n;
    assert!(!verify(&grp, &p3, &lo, &hi));

    // every member of the wire form matters: add one to each in turn
    let v = serde_json::to_value(&proof).unwrap();
    let wt = &v["proof_of_tolerance"];
    let mut paths: Vec<Vec<&str>> = Vec::new();
    for k in ["E_a_1", "E_a_2", "E_b_1", "E_b_2"] {
        paths.push(vec![k]);
    }
    for side in ["proof_of_square_a", "proof_of_square_b"] {
        paths.push(vec![side, "E"]);
        paths.push(vec![side, "F"]);
        for k in ["challenge", "d", "d_1", "d_2"] {
            paths.push(vec![side, "proof_ss", k]);
        }
    }
    for side in ["proof_large_i_a", "proof_large_i_b"] {
        for k in ["C", "D_1", "D_2"] {
            paths.push(vec![side, k]);
        }
    }
    assert_eq!(paths.len(), 22);
    for path in paths {
        let mut leaf = wt;
        for k in &path {
            leaf = &leaf[*k];
        }
        let bumped = serde_json::to_value(int(leaf) + Integer::from(1)).unwrap();
        let mut v2 = v.clone();
        let mut slot = &mut v2["proof_of_tolerance"];
        for k in &path {
            slot = &mut slot[*k];
        }
        *slot = bumped;
        let tampered: Boudot2000RangeProof = serde_json::from_value(v2).unwrap();
        assert_ne!(tampered, proof);
        assert!(!verify(&grp, &tampered, &lo, &hi), "tampering with {path:?} goes unnoticed");
    }
}

#[test]
fn a_commitment_that_does_not_open_to_the_value() {
    // the prover does not check its input: it makes a proof, which is then refused
    let grp = small_group();
    let (lo, hi) = (Integer::from(0), Integer::from(1000));
    let x = Integer::from(500);
    let r = fixed_number(600, 31);
    let good = commit(&grp, &x, &r);

    let wrong_randomness = CL03Commitment {
        value: good.value.clone(),
        randomness: r.clone() + Integer::from(1),
    };
    let p = prove(&grp, &x, &wrong_randomness, &lo, &hi);
    assert_eq!(p.E, good.value);
    assert!(!verify(&grp, &p, &lo, &hi));

    // another value of the range than the committed one
    let p = prove(&grp, &Integer::from(501), &good, &lo, &hi);
    assert_eq!(p.E, good.value);
    assert!(!verify(&grp, &p, &lo, &hi));

    // a commitment value that is not a canonical residue is copied as it is, and refused
    let shifted = CL03Commitment {
        value: good.value.clone() + &grp.n,
        randomness: r.clone(),
    };
    let p = prove(&grp, &x, &shifted, &lo, &hi);
    assert_eq!(p.E, shifted.value);
    assert!(!verify(&grp, &p, &lo, &hi));
}

fn panics<F: FnOnce() -> R, R>(f: F) -> bool {
    catch_unwind(AssertUnwindSafe(f)).is_err()
}

#[test]
fn inputs_on_which_the_prover_panics() {
    let grp = small_group();
    let r = fixed_number(600, 41);
    let x = Integer::from(10);
    let c = commit(&grp, &x, &r);

    // empty and reversed ranges
    assert!(panics(|| prove(&grp, &x, &c, &Integer::from(10), &Integer::from(10))));
    assert!(panics(|| prove(&grp, &x, &c, &Integer::from(11), &Integer::from(9))));
    assert!(panics(|| prove(&grp, &x, &c, &Integer::from(0), &Integer::from(-1))));
    // ... also for the verifier
    let p = prove(&grp, &x, &c, &Integer::from(0), &Integer::from(20));
    assert!(panics(|| verify(&grp, &p, &Integer::from(20), &Integer::from(20))));
    assert!(panics(|| verify(&grp, &p, &Integer::from(20), &Integer::from(0))));

    // a value just outside of the range, on either side, for several widths: the square root of a negative number
    for (lo, hi) in [(0i64, 1i64), (0, 2), (10, 20), (-20, 10), (0, 1 << 40)] {
        let (lo, hi) = (Integer::from(lo), Integer::from(hi));
        for x in [lo.clone() - Integer::from(1), hi.clone() + Integer::from(1), lo.clone() - Integer::from(1000), hi.clone() * 3 + Integer::from(77)] {
            let c = commit(&grp, &x, &r);
            assert!(panics(|| prove(&grp, &x, &c, &lo, &hi)), "x = {x} in [{lo}, {hi}]");
        }
        // while the ends themselves are fine
        for x in [lo.clone(), hi.clone()] {
            let c = commit(&grp, &x, &r);
            assert!(!panics(|| prove(&grp, &x, &c, &lo, &hi)), "x = {x} in [{lo}, {hi}]");
        }
    }

    // an upper end of the range that is zero or negative: the masks would have to be drawn from an empty interval
    for (lo, hi) in [(-9i64, -4i64), (-3, 0), (-1, 0), (-20, -10)] {
        let (lo, hi) = (Integer::from(lo), Integer::from(hi));
        for x in [lo.clone(), hi.clone()] {
            let c = commit(&grp, &x, &r);
            assert!(panics(|| prove(&grp, &x, &c, &lo, &hi)), "x = {x} in [{lo}, {hi}]");
        }
    }

    // a modulus that is zero or negative, a second base that has no inverse while the randomness is negative
    let (lo, hi) = (Integer::from(0), Integer::from(20));
    assert!(panics(|| Boudot2000RangeProof::prove::<Sha256>(&x, &c, &grp.g, &grp.h, &Integer::from(0), &lo, &hi)));
    assert!(panics(|| Boudot2000RangeProof::prove::<Sha256>(&x, &c, &grp.g, &grp.h, &(-grp.n.clone()), &lo, &hi)));
    let p127 = Integer::from(2).pow(127) - Integer::from(1);
    assert!(panics(|| Boudot2000RangeProof::prove::<Sha256>(&x, &c, &grp.g, &p127, &grp.n, &lo, &hi)));
}

mod through_the_credential_protocol {
    // the range proofs as the CL03 protocol makes them: one per hidden message and one for the randomness / the exponent e
    use zkryptium::{
        cl03::{bases::Bases, ciphersuites::CL1024Sha256, keys::CL03CommitmentPublicKey},
        keys::pair::KeyPair,
        schemes::{
            algorithms::CL03,
            generics::{BlindSignature, Commitment, PoKSignature, ZKPoK},
        },
        utils::message::cl03_message::CL03Message,
    };

    type CS = CL1024Sha256;

    #[test]
    fn zkpok_and_spok_with_several_hidden_sets() {
        let keypair = KeyPair::<CL03<CS>>::generate();
        let pk = keypair.public_key();
        let n_attr = 3usize;
        let a_bases = Bases::generate(pk, n_attr);
        let messages: Vec<CL03Message> = (0u8..3)
            .map(|i| CL03Message::map_message_to_integer_as_hash::<CS>(&[i, 0x5a, 0xa5, i]))
            .collect();

        for hidden in [vec![0usize], vec![2usize], vec![0usize, 1, 2], vec![1usize, 2]] {
            let shown: Vec<usize> = (0..n_attr).filter(|i| !hidden.contains(i)).collect();
            let shown_messages: Vec<CL03Message> = shown.iter().map(|&i| messages[i].clone()).collect();

            let commitment = Commitment::<CL03<CS>>::commit_with_pk(&messages, pk, &a_bases, Some(&hidden));
            let zkpok = ZKPoK::<CL03<CS>>::generate_proof(
                &messages,
                commitment.cl03Commitment(),
                None,
                pk,
                &a_bases,
                None,
                &hidden,
            );
            assert!(zkpok.verify_proof(commitment.cl03Commitment(), None, pk, &a_bases, None, &hidden));

            let blind = BlindSignature::<CL03<CS>>::blind_sign(
                pk,
                keypair.private_key(),
                &a_bases,
                &zkpok,
                Some(&shown_messages),
                commitment.cl03Commitment(),
                None,
                None,
                &hidden,
                Some(&shown),
            );
            let signature = blind.unblind_sign(&commitment);
            assert!(signature.verify_multiattr(pk, &a_bases, &messages));

            let commitment_pk = CL03CommitmentPublicKey::generate::<CS>(Some(pk.N.clone()), Some(n_attr));
            let spok = PoKSignature::<CL03<CS>>::proof_gen(
                signature.cl03Signature(),
                &commitment_pk,
                pk,
                &a_bases,
                &messages,
                &hidden,
            );
            assert!(spok.proof_verify(&commitment_pk, pk, &a_bases, &shown_messages, &hidden, n_attr));

            // the proof of knowledge goes over the wire and back
            let text = serde_json::to_string(&spok).unwrap();
            let back: PoKSignature<CL03<CS>> = serde_json::from_str(&text).unwrap();
            assert_eq!(back, spok);
            assert!(back.proof_verify(&commitment_pk, pk, &a_bases, &shown_messages, &hidden, n_attr));
        }
    }
}
