#![cfg(feature = "cl03")]
//! Equivalence tests for src/cl03/sigma_protocols.rs and src/cl03/proof.rs (public API only).
//!
//! The prover side draws fresh randomness on every call, so proofs cannot be compared byte by byte.
//! Instead:
//!  * a fixed key set and two proofs produced by the unmodified code are embedded below (`GOLDEN`):
//!    the verifiers have to accept them and to react to every malformed variant of them exactly as
//!    the unmodified code does (true / false / panic);
//!  * freshly generated proofs (several index lists, also empty / unordered / duplicated / largest
//!    index) have to verify, to have the expected shape on the wire and to survive a serde round trip.

use rug::{integer::Order, Integer};
use serde_json::Value;
use sha2::{Digest, Sha256};
use std::panic::{catch_unwind, AssertUnwindSafe};
use std::sync::OnceLock;
use zkryptium::{
    cl03::{
        bases::Bases,
        ciphersuites::CL1024Sha256,
        commitment::CL03Commitment,
        keys::{CL03CommitmentPublicKey, CL03PublicKey, CL03SecretKey},
    },
    schemes::algorithms::CL03,
    schemes::generics::{Commitment, PoKSignature, Signature, ZKPoK},
    utils::message::cl03_message::CL03Message,
};

type CS = CL1024Sha256;
type S = CL03<CS>;

const N_ATTR: usize = 4;
/// index list the embedded proofs were made for
const GOLDEN_UNREVEALED: [usize; 2] = [1, 3];

struct Fixture {
    json: Value,
    pk: CL03PublicKey,
    sk: CL03SecretKey,
    a_bases: Bases,
    /// verifier commitment key (same modulus as the signer)
    cpk: CL03CommitmentPublicKey,
    /// trusted party commitment key (own modulus)
    tp_cpk: CL03CommitmentPublicKey,
    messages: Vec<CL03Message>,
    /// commitment to messages 1 and 3 under (pk, a_bases)
    c: CL03Commitment,
    /// commitment to messages 1 and 3 under tp_cpk
    ct: CL03Commitment,
    sig: Signature<S>,
}

fn fx() -> &'static Fixture {
    static FX: OnceLock<Fixture> = OnceLock::new();
    FX.get_or_init(|| {
        let json: Value = serde_json::from_str(GOLDEN).unwrap();
        let get = |k: &str| json[k].clone();
        let c: Commitment<S> = serde_json::from_value(get("c")).unwrap();
        let ct: Commitment<S> = serde_json::from_value(get("ct")).unwrap();
        Fixture {
            pk: serde_json::from_value(get("pk")).unwrap(),
            sk: serde_json::from_value(get("sk")).unwrap(),
            a_bases: serde_json::from_value(get("a_bases")).unwrap(),
            cpk: serde_json::from_value(get("cpk")).unwrap(),
            tp_cpk: serde_json::from_value(get("tp_cpk")).unwrap(),
            messages: (0u8..N_ATTR as u8)
                .map(|i| CL03Message::map_message_to_integer_as_hash::<CS>(&[i, 7, 9]))
                .collect(),
            c: c.cl03Commitment().clone(),
            ct: ct.cl03Commitment().clone(),
            sig: serde_json::from_value(get("sig")).unwrap(),
            json,
        }
    })
}

#[derive(Debug, PartialEq, Eq, Clone, Copy)]
enum Outcome {
    True,
    False,
    Panic,
}

fn outcome(f: impl FnOnce() -> bool) -> Outcome {
    match catch_unwind(AssertUnwindSafe(f)) {
        Ok(true) => Outcome::True,
        Ok(false) => Outcome::False,
        Err(_) => Outcome::Panic,
    }
}

fn panics<R>(f: impl FnOnce() -> R) -> bool {
    catch_unwind(AssertUnwindSafe(f)).is_err()
}

/// the messages that are disclosed when `unrevealed` stay hidden, in order
fn revealed(messages: &[CL03Message], unrevealed: &[usize]) -> Vec<CL03Message> {
    messages
        .iter()
        .enumerate()
        .filter(|(i, _)| !unrevealed.contains(i))
        .map(|(_, m)| m.clone())
        .collect()
}

fn len_at(v: &Value, path: &[&str]) -> usize {
    let mut cur = v;
    for p in path {
        cur = &cur[*p];
    }
    cur.as_array().unwrap_or_else(|| panic!("{:?} is not a list", path)).len()
}

/// apply `edit` to the CL03 payload of a serialized proof
fn tamper(proof: &Value, edit: impl FnOnce(&mut Value)) -> Value {
    let mut v = proof.clone();
    edit(&mut v["CL03"]);
    v
}

fn list<'a>(v: &'a mut Value, path: &[&str]) -> &'a mut Vec<Value> {
    let mut cur = v;
    for p in path {
        cur = &mut cur[*p];
    }
    cur.as_array_mut().expect("not a list")
}

fn int_at(p: &Value) -> Integer {
    serde_json::from_value(p.clone()).expect("not an integer")
}

/// challenge of the sigma protocols: hash of the decimal representations
fn challenge_of(parts: &[&Integer]) -> Integer {
    let input: String = parts.iter().map(|p| p.to_string()).collect();
    Integer::from_digits(&Sha256::digest(input)[..], Order::MsfBe)
}

fn int(s: &str) -> Value {
    serde_json::to_value(Integer::from_str_radix(s, 16).unwrap()).unwrap()
}

// ---------------------------------------------------------------------------------------------
// ZKPoK (NISP2Commitments, NISPMultiSecrets, NISPSecrets)
// ---------------------------------------------------------------------------------------------

fn zk_from(v: &Value) -> ZKPoK<S> {
    serde_json::from_value(v.clone()).expect("still well formed")
}

fn zk_verify_golden(v: &Value, unrevealed: &[usize], trusted: bool) -> Outcome {
    let f = fx();
    let zk = zk_from(v);
    outcome(|| {
        zk.verify_proof(
            &f.c,
            trusted.then_some(&f.ct),
            &f.pk,
            &f.a_bases,
            trusted.then_some(&f.tp_cpk),
            unrevealed,
        )
    })
}

#[test]
fn zkpok_golden_is_accepted() {
    let f = fx();
    let g = &f.json["zkpok"];
    assert_eq!(zk_verify_golden(g, &GOLDEN_UNREVEALED, true), Outcome::True);
    // without the trusted party the NISP2 part is simply not looked at
    assert_eq!(zk_verify_golden(g, &GOLDEN_UNREVEALED, false), Outcome::True);
    // only one of the two optional arguments: same thing
    let zk = zk_from(g);
    assert!(zk.verify_proof(&f.c, Some(&f.ct), &f.pk, &f.a_bases, None, &GOLDEN_UNREVEALED));
    assert!(zk.verify_proof(&f.c, None, &f.pk, &f.a_bases, Some(&f.tp_cpk), &GOLDEN_UNREVEALED));
    // shape
    assert_eq!(len_at(g, &["CL03", "proof_C_Ctrusted", "d"]), 2);
    assert_eq!(len_at(g, &["CL03", "proof_commited_msgs", "s1"]), 2);
    assert_eq!(len_at(g, &["CL03", "proofs_commited_mi"]), 2);
    assert_eq!(len_at(g, &["CL03", "range_proofs_mi"]), 2);
}

#[test]
fn zkpok_golden_wrong_public_input() {
    let f = fx();
    let g = &f.json["zkpok"];
    let zk = zk_from(g);
    // other index lists
    assert_eq!(zk_verify_golden(g, &[1, 2], true), Outcome::False);
    assert_eq!(zk_verify_golden(g, &[3, 1], true), Outcome::False);
    assert_eq!(zk_verify_golden(g, &[1, 2], false), Outcome::False);
    // (the NISP2 part is checked first and does not compare lengths)
    assert_eq!(zk_verify_golden(g, &[1], true), Outcome::False);
    assert_eq!(zk_verify_golden(g, &[1], false), Outcome::Panic);
    assert_eq!(zk_verify_golden(g, &[], false), Outcome::Panic);
    assert_eq!(zk_verify_golden(g, &[1, 3, 0], false), Outcome::Panic);
    assert_eq!(zk_verify_golden(g, &[1, 3, 0], true), Outcome::Panic);
    assert_eq!(zk_verify_golden(g, &[1, N_ATTR], false), Outcome::Panic);
    assert_eq!(zk_verify_golden(g, &[1, N_ATTR], true), Outcome::Panic);
    assert_eq!(zk_verify_golden(g, &[1, usize::MAX], true), Outcome::Panic);
    // other commitments
    let other = CL03Commitment {
        value: Integer::from(&f.c.value + 1u32),
        randomness: f.c.randomness.clone(),
    };
    let other_t = CL03Commitment {
        value: Integer::from(&f.ct.value + 1u32),
        randomness: f.ct.randomness.clone(),
    };
    let u = &GOLDEN_UNREVEALED;
    assert_eq!(
        outcome(|| zk.verify_proof(&other, Some(&f.ct), &f.pk, &f.a_bases, Some(&f.tp_cpk), u)),
        Outcome::False
    );
    assert_eq!(
        outcome(|| zk.verify_proof(&f.c, Some(&other_t), &f.pk, &f.a_bases, Some(&f.tp_cpk), u)),
        Outcome::False
    );
    // the randomness of the public commitments is not looked at by the verifier
    let no_rand = CL03Commitment {
        value: f.c.value.clone(),
        randomness: Integer::from(0),
    };
    let no_rand_t = CL03Commitment {
        value: f.ct.value.clone(),
        randomness: Integer::from(0),
    };
    assert_eq!(
        outcome(|| zk.verify_proof(
            &no_rand,
            Some(&no_rand_t),
            &f.pk,
            &f.a_bases,
            Some(&f.tp_cpk),
            u
        )),
        Outcome::True
    );
    // the verifier key instead of the trusted party key
    assert_eq!(
        outcome(|| zk.verify_proof(&f.c, Some(&f.ct), &f.pk, &f.a_bases, Some(&f.cpk), u)),
        Outcome::False
    );
    // not enough bases
    let short = Bases(f.a_bases.0[..3].to_vec());
    assert_eq!(
        outcome(|| zk.verify_proof(&f.c, None, &f.pk, &short, None, u)),
        Outcome::Panic
    );
    let none = Bases(Vec::new());
    assert_eq!(
        outcome(|| zk.verify_proof(&f.c, None, &f.pk, &none, None, u)),
        Outcome::Panic
    );
}

#[test]
fn zkpok_golden_malformed_proofs() {
    let g = &fx().json["zkpok"];
    let u = &GOLDEN_UNREVEALED;
    let check = |what: &str, edit: &dyn Fn(&mut Value), with_tp: Outcome, without_tp: Outcome| {
        let t = tamper(g, |v| edit(v));
        assert_eq!(zk_verify_golden(&t, u, true), with_tp, "{} (trusted party)", what);
        assert_eq!(zk_verify_golden(&t, u, false), without_tp, "{}", what);
    };
    use Outcome::*;

    // lists that are too short
    check("d short", &|v| { list(v, &["proof_C_Ctrusted", "d"]).pop(); }, Panic, True);
    check("d empty", &|v| list(v, &["proof_C_Ctrusted", "d"]).clear(), Panic, True);
    check("s1 short", &|v| { list(v, &["proof_commited_msgs", "s1"]).pop(); }, Panic, Panic);
    check("s1 empty", &|v| list(v, &["proof_commited_msgs", "s1"]).clear(), Panic, Panic);
    check("proofs short", &|v| { list(v, &["proofs_commited_mi"]).pop(); }, Panic, Panic);
    check("proofs empty", &|v| list(v, &["proofs_commited_mi"]).clear(), Panic, Panic);
    check("range proofs short", &|v| { list(v, &["range_proofs_mi"]).pop(); }, Panic, Panic);
    check("range proofs empty", &|v| list(v, &["range_proofs_mi"]).clear(), Panic, Panic);
    // lists that are too long
    let dup_last = |v: &mut Value, path: &[&str]| {
        let l = list(v, path);
        let last = l.last().unwrap().clone();
        l.push(last);
    };
    check("d long", &|v| dup_last(v, &["proof_C_Ctrusted", "d"]), True, True);
    check("s1 long", &|v| dup_last(v, &["proof_commited_msgs", "s1"]), Panic, Panic);
    check("proofs long", &|v| dup_last(v, &["proofs_commited_mi"]), True, True);
    check("range proofs long", &|v| dup_last(v, &["range_proofs_mi"]), True, True);
    // lists in the wrong order
    check("d swapped", &|v| list(v, &["proof_C_Ctrusted", "d"]).swap(0, 1), False, True);
    check("s1 swapped", &|v| list(v, &["proof_commited_msgs", "s1"]).swap(0, 1), False, False);
    check("proofs swapped", &|v| list(v, &["proofs_commited_mi"]).swap(0, 1), False, False);
    check("range proofs swapped", &|v| list(v, &["range_proofs_mi"]).swap(0, 1), False, False);
    check(
        "proofs and range proofs swapped",
        &|v| {
            list(v, &["proofs_commited_mi"]).swap(0, 1);
            list(v, &["range_proofs_mi"]).swap(0, 1);
        },
        False,
        False,
    );
    // missing NISP2 part
    check("no trusted part", &|v| v["proof_C_Ctrusted"] = Value::Null, Panic, True);
    // single values
    check("challenge", &|v| v["proof_C_Ctrusted"]["challenge"] = int("1234"), False, True);
    check("challenge zero", &|v| v["proof_C_Ctrusted"]["challenge"] = int("0"), False, True);
    check("challenge negative", &|v| v["proof_C_Ctrusted"]["challenge"] = int("-1234"), False, True);
    check("d_1", &|v| v["proof_C_Ctrusted"]["d_1"] = int("5"), False, True);
    check("d_2 negative", &|v| v["proof_C_Ctrusted"]["d_2"] = int("-5"), False, True);
    check("d[1] negative", &|v| v["proof_C_Ctrusted"]["d"][1] = int("-5"), False, True);
    check("t", &|v| v["proof_commited_msgs"]["t"] = int("2"), False, False);
    check("t zero", &|v| v["proof_commited_msgs"]["t"] = int("0"), False, False);
    check("s2", &|v| v["proof_commited_msgs"]["s2"] = int("2"), False, False);
    check("s2 negative", &|v| v["proof_commited_msgs"]["s2"] = int("-2"), False, False);
    check("s1[0] negative", &|v| v["proof_commited_msgs"]["s1"][0] = int("-2"), False, False);
    check("mi s1", &|v| v["proofs_commited_mi"][1]["value"]["s1"] = int("7"), False, False);
    check("mi t", &|v| v["proofs_commited_mi"][0]["value"]["t"] = int("7"), False, False);
    check(
        "mi commitment",
        &|v| v["proofs_commited_mi"][1]["commitment"]["value"] = int("7"),
        False,
        False,
    );
    check("mi range proof E", &|v| v["range_proofs_mi"][1]["E"] = int("7"), False, False);
    check("mi range proof E'", &|v| v["range_proofs_mi"][0]["E_prime"] = int("7"), False, False);
    check("r s2", &|v| v["proof_r"]["value"]["s2"] = int("7"), False, False);
    check("r commitment", &|v| v["proof_r"]["commitment"]["value"] = int("7"), False, False);
    check("r range proof E", &|v| v["range_proof_r"]["E"] = int("7"), False, False);
    check(
        "r range proof is the one of m1",
        &|v| v["range_proof_r"] = v["range_proofs_mi"][0].clone(),
        False,
        False,
    );
    check(
        "r proof is the one of m1",
        &|v| {
            v["proof_r"] = v["proofs_commited_mi"][0].clone();
            v["range_proof_r"] = v["range_proofs_mi"][0].clone();
        },
        False,
        False,
    );
}

#[test]
fn zkpok_malformed_json_is_rejected_by_serde() {
    let g = &fx().json["zkpok"];
    let bad = [
        tamper(g, |v| v["proof_commited_msgs"]["s1"] = int("1")),
        tamper(g, |v| v["proofs_commited_mi"] = Value::Null),
        tamper(g, |v| { v.as_object_mut().unwrap().remove("range_proof_r"); }),
        tamper(g, |v| v["proof_C_Ctrusted"] = serde_json::json!([])),
        serde_json::json!({ "CL04": g["CL03"].clone() }),
    ];
    for (i, b) in bad.iter().enumerate() {
        assert!(serde_json::from_value::<ZKPoK<S>>(b.clone()).is_err(), "case {}", i);
    }
    // an absent optional part is the same as null
    let t = tamper(g, |v| { v.as_object_mut().unwrap().remove("proof_C_Ctrusted"); });
    assert_eq!(zk_verify_golden(&t, &GOLDEN_UNREVEALED, false), Outcome::True);
    assert_eq!(zk_verify_golden(&t, &GOLDEN_UNREVEALED, true), Outcome::Panic);
}

#[test]
fn zkpok_fresh_proofs() {
    let f = fx();
    let lists: [&[usize]; 7] = [&[], &[0], &[3], &[1, 3], &[0, 1, 2, 3], &[2, 0], &[1, 1]];
    for unrevealed in lists {
        for trusted in [false, true] {
            let c = Commitment::<S>::commit_with_pk(&f.messages, &f.pk, &f.a_bases, Some(unrevealed));
            let ct = Commitment::<S>::commit_with_commitment_pk(&f.messages, &f.tp_cpk, Some(unrevealed));
            let c_trusted = trusted.then_some(ct.cl03Commitment());
            let tp = trusted.then_some(&f.tp_cpk);
            let zk = ZKPoK::<S>::generate_proof(
                &f.messages,
                c.cl03Commitment(),
                c_trusted,
                &f.pk,
                &f.a_bases,
                tp,
                unrevealed,
            );
            let what = format!("{:?} trusted={}", unrevealed, trusted);
            assert!(
                zk.verify_proof(c.cl03Commitment(), c_trusted, &f.pk, &f.a_bases, tp, unrevealed),
                "{}",
                what
            );
            assert!(
                zk.verify_proof(c.cl03Commitment(), None, &f.pk, &f.a_bases, None, unrevealed),
                "{}",
                what
            );
            // shape on the wire
            let v = serde_json::to_value(&zk).unwrap();
            let n = unrevealed.len();
            if trusted {
                assert_eq!(len_at(&v, &["CL03", "proof_C_Ctrusted", "d"]), n, "{}", what);
            } else {
                assert!(v["CL03"]["proof_C_Ctrusted"].is_null(), "{}", what);
            }
            assert_eq!(len_at(&v, &["CL03", "proof_commited_msgs", "s1"]), n, "{}", what);
            assert_eq!(len_at(&v, &["CL03", "proofs_commited_mi"]), n, "{}", what);
            assert_eq!(len_at(&v, &["CL03", "range_proofs_mi"]), n, "{}", what);
            for k in 0..n {
                assert_eq!(
                    v["CL03"]["proofs_commited_mi"][k]["commitment"]["value"],
                    v["CL03"]["range_proofs_mi"][k]["E"],
                    "{}",
                    what
                );
            }
            assert_eq!(
                v["CL03"]["proof_r"]["commitment"]["value"],
                v["CL03"]["range_proof_r"]["E"]
            );
            // responses minus challenge * secret are the blinding values: lm bits for messages, ln bits for randomness
            let cv = c.cl03Commitment();
            let pm = &v["CL03"]["proof_commited_msgs"];
            let t = int_at(&pm["t"]);
            let mut parts: Vec<&Integer> = unrevealed.iter().map(|i| &f.a_bases.0[*i]).collect();
            parts.extend([&f.pk.b, &cv.value, &t]);
            let ch = challenge_of(&parts);
            for (k, i) in unrevealed.iter().enumerate() {
                let r1 = int_at(&pm["s1"][k]) - Integer::from(&ch * &f.messages[*i].value);
                assert_eq!(r1.significant_bits(), 256, "{} s1[{}]", what, k);
            }
            let r2 = int_at(&pm["s2"]) - Integer::from(&ch * &cv.randomness);
            assert_eq!(r2.significant_bits(), 1024, "{} s2", what);
            if trusted {
                let p2 = &v["CL03"]["proof_C_Ctrusted"];
                let ch = int_at(&p2["challenge"]);
                for (k, i) in unrevealed.iter().enumerate() {
                    let omega = int_at(&p2["d"][k]) - Integer::from(&ch * &f.messages[*i].value);
                    assert_eq!(omega.significant_bits(), 256, "{} d[{}]", what, k);
                }
                let mu_1 = int_at(&p2["d_1"]) - Integer::from(&ch * &cv.randomness);
                let mu_2 = int_at(&p2["d_2"]) - Integer::from(&ch * ct.randomness());
                assert_eq!(mu_1.significant_bits(), 1024, "{} d_1", what);
                assert_eq!(mu_2.significant_bits(), 1024, "{} d_2", what);
            }
            for (k, i) in unrevealed.iter().enumerate() {
                let p = &v["CL03"]["proofs_commited_mi"][k];
                let (t, cm) = (int_at(&p["value"]["t"]), int_at(&p["commitment"]["value"]));
                let ch = challenge_of(&[&f.a_bases.0[*i], &f.pk.b, &cm, &t]);
                let r1 = int_at(&p["value"]["s1"]) - Integer::from(&ch * &f.messages[*i].value);
                let r2 = int_at(&p["value"]["s2"]) - ch * int_at(&p["commitment"]["randomness"]);
                assert_eq!(r1.significant_bits(), 256, "{} mi[{}] s1", what, k);
                assert_eq!(r2.significant_bits(), 1024, "{} mi[{}] s2", what, k);
            }
            // round trip
            let back: ZKPoK<S> = serde_json::from_str(&serde_json::to_string(&zk).unwrap()).unwrap();
            assert_eq!(back, zk);
            assert!(back.verify_proof(c.cl03Commitment(), c_trusted, &f.pk, &f.a_bases, tp, unrevealed));
            // a commitment to something else
            let wrong = Commitment::<S>::commit_with_pk(&f.messages, &f.pk, &f.a_bases, Some(&[2]));
            assert!(
                !zk.verify_proof(wrong.cl03Commitment(), c_trusted, &f.pk, &f.a_bases, tp, unrevealed),
                "{}",
                what
            );
        }
    }
}

#[test]
fn zkpok_fresh_proofs_corner_cases() {
    let f = fx();
    let c13 = Commitment::<S>::commit_with_pk(&f.messages, &f.pk, &f.a_bases, Some(&[1, 3]));
    let ct13 = Commitment::<S>::commit_with_commitment_pk(&f.messages, &f.tp_cpk, Some(&[1, 3]));
    let c = c13.cl03Commitment();
    let ct = ct13.cl03Commitment();

    // only one of the two trusted party arguments: no NISP2 part is made
    for (a, b) in [(Some(ct), None), (None, Some(&f.tp_cpk))] {
        let zk = ZKPoK::<S>::generate_proof(&f.messages, c, a, &f.pk, &f.a_bases, b, &[1, 3]);
        let v = serde_json::to_value(&zk).unwrap();
        assert!(v["CL03"]["proof_C_Ctrusted"].is_null());
        assert_eq!(outcome(|| zk.verify_proof(c, a, &f.pk, &f.a_bases, b, &[1, 3])), Outcome::True);
        assert_eq!(
            outcome(|| zk.verify_proof(c, Some(ct), &f.pk, &f.a_bases, Some(&f.tp_cpk), &[1, 3])),
            Outcome::Panic
        );
    }

    // trusted party commitment to other messages
    let mut other_messages = f.messages.clone();
    other_messages[3] = CL03Message::new(Integer::from(77));
    let ct_other = Commitment::<S>::commit_with_commitment_pk(&other_messages, &f.tp_cpk, Some(&[1, 3]));
    let zk = ZKPoK::<S>::generate_proof(
        &f.messages,
        c,
        Some(ct_other.cl03Commitment()),
        &f.pk,
        &f.a_bases,
        Some(&f.tp_cpk),
        &[1, 3],
    );
    assert_eq!(
        outcome(|| zk.verify_proof(
            c,
            Some(ct_other.cl03Commitment()),
            &f.pk,
            &f.a_bases,
            Some(&f.tp_cpk),
            &[1, 3]
        )),
        Outcome::False
    );
    assert_eq!(outcome(|| zk.verify_proof(c, None, &f.pk, &f.a_bases, None, &[1, 3])), Outcome::True);

    // indexes out of range
    for bad in [&[N_ATTR][..], &[1, N_ATTR], &[usize::MAX]] {
        assert!(panics(|| ZKPoK::<S>::generate_proof(&f.messages, c, None, &f.pk, &f.a_bases, None, bad)));
        assert!(panics(|| ZKPoK::<S>::generate_proof(
            &f.messages,
            c,
            Some(ct),
            &f.pk,
            &f.a_bases,
            Some(&f.tp_cpk),
            bad
        )));
    }
    // more bases than messages: index 3 is a valid base but not a message
    assert!(panics(|| ZKPoK::<S>::generate_proof(&f.messages[..3], c, None, &f.pk, &f.a_bases, None, &[3])));
    // fewer bases than messages
    let short = Bases(f.a_bases.0[..3].to_vec());
    assert!(panics(|| ZKPoK::<S>::generate_proof(&f.messages, c, None, &f.pk, &short, None, &[3])));
    let short_tp = CL03CommitmentPublicKey {
        N: f.tp_cpk.N.clone(),
        h: f.tp_cpk.h.clone(),
        g_bases: f.tp_cpk.g_bases[..3].to_vec(),
    };
    assert!(panics(|| ZKPoK::<S>::generate_proof(
        &f.messages,
        c,
        Some(ct),
        &f.pk,
        &f.a_bases,
        Some(&short_tp),
        &[3]
    )));
    let zk = ZKPoK::<S>::generate_proof(&f.messages, c, Some(ct), &f.pk, &f.a_bases, Some(&short_tp), &[1]);
    assert_eq!(len_at(&serde_json::to_value(&zk).unwrap(), &["CL03", "proof_C_Ctrusted", "d"]), 1);

    // one message only: the proof of the committed messages is always about index 0
    let one = &f.messages[..1];
    let c0 = Commitment::<S>::commit_with_pk(one, &f.pk, &f.a_bases, None);
    let zk = ZKPoK::<S>::generate_proof(one, c0.cl03Commitment(), None, &f.pk, &f.a_bases, None, &[0]);
    assert_eq!(
        outcome(|| zk.verify_proof(c0.cl03Commitment(), None, &f.pk, &f.a_bases, None, &[0])),
        Outcome::True
    );
    let zk = ZKPoK::<S>::generate_proof(one, c0.cl03Commitment(), None, &f.pk, &f.a_bases, None, &[]);
    let v = serde_json::to_value(&zk).unwrap();
    assert_eq!(len_at(&v, &["CL03", "proof_commited_msgs", "s1"]), 1);
    assert_eq!(len_at(&v, &["CL03", "proofs_commited_mi"]), 0);
    assert_eq!(len_at(&v, &["CL03", "range_proofs_mi"]), 0);
    assert_eq!(
        outcome(|| zk.verify_proof(c0.cl03Commitment(), None, &f.pk, &f.a_bases, None, &[])),
        Outcome::Panic
    );
    assert_eq!(
        outcome(|| zk.verify_proof(c0.cl03Commitment(), None, &f.pk, &f.a_bases, None, &[0])),
        Outcome::Panic
    );
    // ... also when the list names another index
    assert!(panics(|| ZKPoK::<S>::generate_proof(one, c0.cl03Commitment(), None, &f.pk, &f.a_bases, None, &[1])));

    // no message at all
    let c_none = Commitment::<S>::commit_with_pk(&[], &f.pk, &f.a_bases, None);
    let zk = ZKPoK::<S>::generate_proof(&[], c_none.cl03Commitment(), None, &f.pk, &f.a_bases, None, &[]);
    assert_eq!(
        outcome(|| zk.verify_proof(c_none.cl03Commitment(), None, &f.pk, &f.a_bases, None, &[])),
        Outcome::True
    );
    assert!(panics(|| ZKPoK::<S>::generate_proof(&[], c_none.cl03Commitment(), None, &f.pk, &f.a_bases, None, &[0])));
}

// ---------------------------------------------------------------------------------------------
// PoKSignature (NISPSignaturePoK, NISPSecrets)
// ---------------------------------------------------------------------------------------------

fn spok_from(v: &Value) -> PoKSignature<S> {
    serde_json::from_value(v.clone()).expect("still well formed")
}

fn spok_verify_golden(v: &Value, disclosed: &[CL03Message], unrevealed: &[usize], n: usize) -> Outcome {
    let f = fx();
    let spok = spok_from(v);
    outcome(|| spok.proof_verify(&f.cpk, &f.pk, &f.a_bases, disclosed, unrevealed, n))
}

#[test]
fn spok_golden_is_accepted() {
    let f = fx();
    let g = &f.json["spok"];
    assert!(f.sig.verify_multiattr(&f.pk, &f.a_bases, &f.messages));
    let disclosed = revealed(&f.messages, &GOLDEN_UNREVEALED);
    assert_eq!(spok_verify_golden(g, &disclosed, &GOLDEN_UNREVEALED, N_ATTR), Outcome::True);
    assert_eq!(len_at(g, &["CL03", "spok", "s_5"]), 2);
    assert_eq!(len_at(g, &["CL03", "proofs_commited_mi"]), 2);
    assert_eq!(len_at(g, &["CL03", "range_proofs_commited_mi"]), 2);
}

#[test]
fn spok_golden_wrong_public_input() {
    let f = fx();
    let g = &f.json["spok"];
    let m = &f.messages;
    let u = &GOLDEN_UNREVEALED;
    let ok = revealed(m, u);
    use Outcome::*;

    // disclosed messages
    let cases: Vec<(&str, Vec<CL03Message>, Outcome)> = vec![
        ("swapped", vec![m[2].clone(), m[0].clone()], False),
        ("hidden ones", vec![m[1].clone(), m[3].clone()], False),
        ("other value", vec![m[0].clone(), CL03Message::new(Integer::from(5))], False),
        ("zero", vec![m[0].clone(), CL03Message::new(Integer::from(0))], False),
        ("negative", vec![CL03Message::new(Integer::from(-5)), m[2].clone()], False),
        ("too few", vec![m[0].clone()], Panic),
        ("none", vec![], Panic),
        ("one more", vec![m[0].clone(), m[2].clone(), m[3].clone()], True),
        ("all", m.clone(), False),
    ];
    for (what, disclosed, expected) in cases {
        assert_eq!(spok_verify_golden(g, &disclosed, u, N_ATTR), expected, "{}", what);
    }

    // index lists and number of signed messages
    let cases: Vec<(&[usize], Vec<CL03Message>, usize, Outcome)> = vec![
        (&[3, 1], ok.clone(), N_ATTR, False),
        (&[1, 2], ok.clone(), N_ATTR, False),
        (&[1, 3, 3], ok.clone(), N_ATTR, Panic),
        (&[1, 3, 1], ok.clone(), N_ATTR, Panic),
        (&[1, 3, 7], ok.clone(), N_ATTR, Panic),
        (&[1], revealed(m, &[1]), N_ATTR, False),
        (&[1], ok.clone(), N_ATTR, Panic),
        (&[], m.clone(), N_ATTR, False),
        (&[], ok.clone(), N_ATTR, Panic),
        (&[0, 1, 3], vec![m[2].clone()], N_ATTR, Panic),
        (&[1, 2, 3], vec![m[0].clone()], N_ATTR, Panic),
        (&[1, N_ATTR], revealed(m, &[1]), N_ATTR, False),
        (&[1, N_ATTR], ok.clone(), N_ATTR, Panic),
        (&[1, 3], ok.clone(), 3, False),
        (&[1, 3], ok.clone(), 2, False),
        (&[1, 3], vec![], 2, Panic),
        (&[1, 3], vec![], 0, False),
        (&[1, 3], ok.clone(), 0, False),
        (&[1, 3], ok.clone(), N_ATTR + 1, Panic),
        (&[1, 3], m.clone(), N_ATTR + 1, Panic),
        (&[1, 3, 4], ok.clone(), N_ATTR + 1, Panic),
    ];
    for (unrevealed, disclosed, n, expected) in cases {
        assert_eq!(
            spok_verify_golden(g, &disclosed, unrevealed, n),
            expected,
            "{:?} {} {}",
            unrevealed,
            disclosed.len(),
            n
        );
    }

    // keys
    let spok = spok_from(g);
    let short = Bases(f.a_bases.0[..3].to_vec());
    assert_eq!(outcome(|| spok.proof_verify(&f.cpk, &f.pk, &short, &ok, u, N_ATTR)), Panic);
    let short_cpk = CL03CommitmentPublicKey {
        N: f.cpk.N.clone(),
        h: f.cpk.h.clone(),
        g_bases: f.cpk.g_bases[..3].to_vec(),
    };
    assert_eq!(outcome(|| spok.proof_verify(&short_cpk, &f.pk, &f.a_bases, &ok, u, N_ATTR)), Panic);
    let no_cpk = CL03CommitmentPublicKey {
        N: f.cpk.N.clone(),
        h: f.cpk.h.clone(),
        g_bases: Vec::new(),
    };
    assert_eq!(outcome(|| spok.proof_verify(&no_cpk, &f.pk, &f.a_bases, &ok, u, N_ATTR)), Panic);
    assert_eq!(outcome(|| spok.proof_verify(&no_cpk, &f.pk, &f.a_bases, &ok, u, 0)), Panic);
    assert_eq!(outcome(|| spok.proof_verify(&f.tp_cpk, &f.pk, &f.a_bases, &ok, u, N_ATTR)), False);
    let other_pk = CL03PublicKey::new(f.pk.N.clone(), f.pk.b.clone(), Integer::from(&f.pk.c + 1u32));
    assert_eq!(outcome(|| spok.proof_verify(&f.cpk, &other_pk, &f.a_bases, &ok, u, N_ATTR)), False);
    let mut other_bases = f.a_bases.clone();
    other_bases.0.swap(0, 2);
    assert_eq!(outcome(|| spok.proof_verify(&f.cpk, &f.pk, &other_bases, &ok, u, N_ATTR)), False);
    // a base that has no inverse
    let zero_b = CL03PublicKey::new(f.pk.N.clone(), Integer::from(0), f.pk.c.clone());
    assert_eq!(outcome(|| spok.proof_verify(&f.cpk, &zero_b, &f.a_bases, &ok, u, N_ATTR)), Panic);
    let zero_c = CL03PublicKey::new(f.pk.N.clone(), f.pk.b.clone(), Integer::from(0));
    assert_eq!(outcome(|| spok.proof_verify(&f.cpk, &zero_c, &f.a_bases, &ok, u, N_ATTR)), Panic);
    let mut zero_base = f.a_bases.clone();
    zero_base.0[2] = Integer::from(0);
    assert_eq!(outcome(|| spok.proof_verify(&f.cpk, &f.pk, &zero_base, &ok, u, N_ATTR)), Panic);
    let mut zero_g0 = f.cpk.clone();
    zero_g0.g_bases[0] = Integer::from(0);
    assert_eq!(outcome(|| spok.proof_verify(&zero_g0, &f.pk, &f.a_bases, &ok, u, N_ATTR)), Panic);
    let mut zero_h = f.cpk.clone();
    zero_h.h = Integer::from(0);
    assert_eq!(outcome(|| spok.proof_verify(&zero_h, &f.pk, &f.a_bases, &ok, u, N_ATTR)), Panic);
}

#[test]
fn spok_golden_malformed_proofs() {
    let f = fx();
    let g = &f.json["spok"];
    let u = &GOLDEN_UNREVEALED;
    let ok = revealed(&f.messages, u);
    let check = |what: &str, edit: &dyn Fn(&mut Value), expected: Outcome| {
        let t = tamper(g, |v| edit(v));
        assert_eq!(spok_verify_golden(&t, &ok, u, N_ATTR), expected, "{}", what);
    };
    let dup_last = |v: &mut Value, path: &[&str]| {
        let l = list(v, path);
        let last = l.last().unwrap().clone();
        l.push(last);
    };
    use Outcome::*;

    // lists
    check("s_5 short", &|v| { list(v, &["spok", "s_5"]).pop(); }, Panic);
    check("s_5 empty", &|v| list(v, &["spok", "s_5"]).clear(), Panic);
    check("s_5 long", &|v| dup_last(v, &["spok", "s_5"]), True);
    check("s_5 swapped", &|v| list(v, &["spok", "s_5"]).swap(0, 1), False);
    check("proofs short", &|v| { list(v, &["proofs_commited_mi"]).pop(); }, Panic);
    check("proofs empty", &|v| list(v, &["proofs_commited_mi"]).clear(), Panic);
    check("proofs long", &|v| dup_last(v, &["proofs_commited_mi"]), True);
    check("proofs swapped", &|v| list(v, &["proofs_commited_mi"]).swap(0, 1), False);
    check("range proofs short", &|v| { list(v, &["range_proofs_commited_mi"]).pop(); }, Panic);
    check("range proofs empty", &|v| list(v, &["range_proofs_commited_mi"]).clear(), Panic);
    check("range proofs long", &|v| dup_last(v, &["range_proofs_commited_mi"]), True);
    check("range proofs swapped", &|v| list(v, &["range_proofs_commited_mi"]).swap(0, 1), False);
    check(
        "proofs and range proofs swapped",
        &|v| {
            list(v, &["proofs_commited_mi"]).swap(0, 1);
            list(v, &["range_proofs_commited_mi"]).swap(0, 1);
        },
        False,
    );
    // the signature proof is checked before the lists are looked at
    check(
        "challenge and short lists",
        &|v| {
            v["spok"]["challenge"] = int("99");
            list(v, &["proofs_commited_mi"]).clear();
            list(v, &["range_proofs_commited_mi"]).clear();
        },
        False,
    );
    check(
        "challenge and short s_5",
        &|v| {
            v["spok"]["challenge"] = int("99");
            list(v, &["spok", "s_5"]).clear();
        },
        Panic,
    );
    // ... and the range proof of e before them
    check(
        "range proof of e and short lists",
        &|v| {
            v["range_proof_e"]["E"] = int("99");
            list(v, &["proofs_commited_mi"]).clear();
        },
        False,
    );
    check(
        "range proof of e (2) and short lists",
        &|v| {
            v["range_proof_e"]["E_prime"] = int("99");
            list(v, &["range_proofs_commited_mi"]).clear();
        },
        False,
    );
    // single values of the signature proof
    for field in ["challenge", "s_1", "s_2", "s_3", "s_4", "s_6", "s_7", "s_8", "s_9"] {
        for value in ["0", "1", "-1", "123456789abcdef", "-123456789abcdef"] {
            check(
                &format!("{} = {}", field, value),
                &|v| v["spok"][field] = int(value),
                False,
            );
        }
    }
    for k in 0..2 {
        for value in ["0", "-1", "123456789abcdef"] {
            check(&format!("s_5[{}] = {}", k, value), &|v| v["spok"]["s_5"][k] = int(value), False);
        }
    }
    for c in ["Cx", "Cv", "Cw", "Ce"] {
        check(&format!("{} = 2", c), &|v| v["spok"][c]["value"] = int("2"), False);
        check(&format!("{} randomness", c), &|v| v["spok"][c]["randomness"] = int("2"), True);
    }
    // values without an inverse: only a problem together with a negative exponent
    check("Cv = 0", &|v| v["spok"]["Cv"]["value"] = int("0"), False);
    check(
        "Cv = 0, s_4 < 0",
        &|v| {
            v["spok"]["Cv"]["value"] = int("0");
            v["spok"]["s_4"] = int("-1");
        },
        Panic,
    );
    check("Cw = 0", &|v| v["spok"]["Cw"]["value"] = int("0"), Panic);
    check("Cx = 0", &|v| v["spok"]["Cx"]["value"] = int("0"), Panic);
    check("Ce = 0", &|v| v["spok"]["Ce"]["value"] = int("0"), Panic);
    check(
        "Cw = 0, challenge < 0",
        &|v| {
            v["spok"]["Cw"]["value"] = int("0");
            v["spok"]["challenge"] = int("-5");
        },
        False,
    );
    check(
        "Cw = 0, challenge < 0, s_4 < 0",
        &|v| {
            v["spok"]["Cw"]["value"] = int("0");
            v["spok"]["challenge"] = int("-5");
            v["spok"]["s_4"] = int("-5");
        },
        Panic,
    );
    // the other parts
    check("range proof of e: E", &|v| v["range_proof_e"]["E"] = int("7"), False);
    check("range proof of e: E'", &|v| v["range_proof_e"]["E_prime"] = int("7"), False);
    check(
        "range proof of e is the one of m1",
        &|v| v["range_proof_e"] = v["range_proofs_commited_mi"][0].clone(),
        False,
    );
    check("mi s1", &|v| v["proofs_commited_mi"][1]["value"]["s1"] = int("7"), False);
    check("mi s2 negative", &|v| v["proofs_commited_mi"][0]["value"]["s2"] = int("-7"), False);
    check("mi t", &|v| v["proofs_commited_mi"][0]["value"]["t"] = int("0"), False);
    check("mi commitment", &|v| v["proofs_commited_mi"][1]["commitment"]["value"] = int("7"), False);
    check(
        "mi commitment randomness",
        &|v| v["proofs_commited_mi"][1]["commitment"]["randomness"] = int("7"),
        True,
    );
    check("mi range proof E", &|v| v["range_proofs_commited_mi"][1]["E"] = int("7"), False);
    check("mi range proof E'", &|v| v["range_proofs_commited_mi"][0]["E_prime"] = int("7"), False);

    // not a proof at all
    let bad = [
        tamper(g, |v| v["spok"]["s_5"] = int("1")),
        tamper(g, |v| v["proofs_commited_mi"] = Value::Null),
        tamper(g, |v| { v["spok"].as_object_mut().unwrap().remove("s_9"); }),
        tamper(g, |v| { v.as_object_mut().unwrap().remove("range_proof_e"); }),
    ];
    for (i, b) in bad.iter().enumerate() {
        assert!(serde_json::from_value::<PoKSignature<S>>(b.clone()).is_err(), "case {}", i);
    }
}

#[test]
fn spok_fresh_proofs() {
    let f = fx();
    let m = &f.messages;
    let sig = f.sig.cl03Signature();
    let lists: [&[usize]; 7] = [&[], &[0], &[3], &[1, 3], &[0, 1, 2, 3], &[2, 0], &[1, 1]];
    for unrevealed in lists {
        let spok = PoKSignature::<S>::proof_gen(sig, &f.cpk, &f.pk, &f.a_bases, m, unrevealed);
        let disclosed = revealed(m, unrevealed);
        let what = format!("{:?}", unrevealed);
        // the responses are consumed in increasing index order: a list that is not sorted does not verify
        let sorted = unrevealed.windows(2).all(|w| w[0] <= w[1]);
        assert_eq!(
            spok.proof_verify(&f.cpk, &f.pk, &f.a_bases, &disclosed, unrevealed, N_ATTR),
            sorted,
            "{}",
            what
        );
        // shape on the wire
        let v = serde_json::to_value(&spok).unwrap();
        let n = unrevealed.len();
        assert_eq!(len_at(&v, &["CL03", "spok", "s_5"]), n, "{}", what);
        assert_eq!(len_at(&v, &["CL03", "proofs_commited_mi"]), n, "{}", what);
        assert_eq!(len_at(&v, &["CL03", "range_proofs_commited_mi"]), n, "{}", what);
        assert_eq!(v["CL03"]["spok"]["Ce"]["value"], v["CL03"]["range_proof_e"]["E"], "{}", what);
        for k in 0..n {
            assert_eq!(
                v["CL03"]["proofs_commited_mi"][k]["commitment"]["value"],
                v["CL03"]["range_proofs_commited_mi"][k]["E"],
                "{}",
                what
            );
        }
        // responses: s_4 - e * c, s_6 - s * c, s_8 - s_7 * e ... are the blinding values, ln bits long
        let sj = &f.json["sig"]["CL03"];
        let (e, s) = (int_at(&sj["e"]), int_at(&sj["s"]));
        let c = int_at(&v["CL03"]["spok"]["challenge"]);
        let r_4 = int_at(&v["CL03"]["spok"]["s_4"]) - Integer::from(&e * &c);
        let r_6 = int_at(&v["CL03"]["spok"]["s_6"]) - Integer::from(&s * &c);
        assert_eq!(r_4.significant_bits(), 1024, "{}", what);
        assert_eq!(r_6.significant_bits(), 1024, "{}", what);
        // s_8 - r_8 = e * (s_7 - r_7) and s_2 - r_2 = e * (s_1 - r_1): check them modulo e
        let s_7 = int_at(&v["CL03"]["spok"]["s_7"]);
        let s_8 = int_at(&v["CL03"]["spok"]["s_8"]);
        let w = int_at(&v["CL03"]["spok"]["Cv"]["randomness"]);
        let r_7 = Integer::from(&s_7 - Integer::from(&w * &c));
        let r_8 = Integer::from(&s_8 - Integer::from(&w * &c) * &e);
        assert_eq!(r_7.significant_bits(), 1024, "{}", what);
        assert_eq!(r_8.significant_bits(), 1024, "{}", what);
        let rw = int_at(&v["CL03"]["spok"]["Cw"]["randomness"]);
        let r_1 = int_at(&v["CL03"]["spok"]["s_1"]) - Integer::from(&rw * &c);
        let r_2 = int_at(&v["CL03"]["spok"]["s_2"]) - Integer::from(&rw * &c) * &e;
        assert_eq!(r_1.significant_bits(), 1024, "{}", what);
        assert_eq!(r_2.significant_bits(), 1024, "{}", what);
        let rx = int_at(&v["CL03"]["spok"]["Cx"]["randomness"]);
        let r_3 = int_at(&v["CL03"]["spok"]["s_3"]) - Integer::from(&rx * &c);
        assert_eq!(r_3.significant_bits(), 1024, "{}", what);
        let re = int_at(&v["CL03"]["spok"]["Ce"]["randomness"]);
        let r_9 = int_at(&v["CL03"]["spok"]["s_9"]) - Integer::from(&re * &c);
        assert_eq!(r_9.significant_bits(), 1024, "{}", what);
        for (k, i) in unrevealed.iter().enumerate() {
            let r_5 = int_at(&v["CL03"]["spok"]["s_5"][k]) - Integer::from(&m[*i].value * &c);
            assert_eq!(r_5.significant_bits(), 1024, "{} s_5[{}]", what, k);
        }
        // round trip
        let back: PoKSignature<S> = serde_json::from_str(&serde_json::to_string(&spok).unwrap()).unwrap();
        assert_eq!(back, spok);
        assert_eq!(
            back.proof_verify(&f.cpk, &f.pk, &f.a_bases, &disclosed, unrevealed, N_ATTR),
            sorted
        );
        // wrong disclosed message
        if let Some(first) = disclosed.first() {
            let mut wrong = disclosed.clone();
            wrong[0] = CL03Message::new(Integer::from(&first.value + 1u32));
            assert!(!spok.proof_verify(&f.cpk, &f.pk, &f.a_bases, &wrong, unrevealed, N_ATTR), "{}", what);
        }
    }
}

#[test]
fn spok_fresh_proofs_corner_cases() {
    let f = fx();
    let m = &f.messages;
    let sig = f.sig.cl03Signature();
    // indexes out of range
    for bad in [&[N_ATTR][..], &[1, N_ATTR], &[usize::MAX]] {
        assert!(panics(|| PoKSignature::<S>::proof_gen(sig, &f.cpk, &f.pk, &f.a_bases, m, bad)), "{:?}", bad);
    }
    // fewer bases than messages
    let short = Bases(f.a_bases.0[..3].to_vec());
    assert!(panics(|| PoKSignature::<S>::proof_gen(sig, &f.cpk, &f.pk, &short, m, &[1])));
    let short_cpk = CL03CommitmentPublicKey {
        N: f.cpk.N.clone(),
        h: f.cpk.h.clone(),
        g_bases: f.cpk.g_bases[..3].to_vec(),
    };
    assert!(panics(|| PoKSignature::<S>::proof_gen(sig, &short_cpk, &f.pk, &f.a_bases, m, &[1])));
    assert!(panics(|| PoKSignature::<S>::proof_gen(sig, &short_cpk, &f.pk, &short, m, &[1])));
    // fewer messages than bases: a proof about the first three only (not of this signature)
    let spok = PoKSignature::<S>::proof_gen(sig, &f.cpk, &f.pk, &f.a_bases, &m[..3], &[1]);
    let v = serde_json::to_value(&spok).unwrap();
    assert_eq!(len_at(&v, &["CL03", "spok", "s_5"]), 1);
    assert_eq!(
        outcome(|| spok.proof_verify(&f.cpk, &f.pk, &f.a_bases, &revealed(&m[..3], &[1]), &[1], 3)),
        Outcome::False
    );
    // a signature on three messages
    let sig3 = Signature::<S>::sign_multiattr(&f.pk, &f.sk, &f.a_bases, &m[..3]);
    for unrevealed in [&[][..], &[2], &[0, 2]] {
        let spok = PoKSignature::<S>::proof_gen(sig3.cl03Signature(), &f.cpk, &f.pk, &f.a_bases, &m[..3], unrevealed);
        let disclosed = revealed(&m[..3], unrevealed);
        assert_eq!(
            outcome(|| spok.proof_verify(&f.cpk, &f.pk, &f.a_bases, &disclosed, unrevealed, 3)),
            Outcome::True,
            "{:?}",
            unrevealed
        );
        assert_eq!(
            outcome(|| spok.proof_verify(&f.cpk, &f.pk, &f.a_bases, &revealed(m, unrevealed), unrevealed, 4)),
            Outcome::False,
            "{:?}",
            unrevealed
        );
    }
    // one message
    let sig1 = Signature::<S>::sign_multiattr(&f.pk, &f.sk, &f.a_bases, &m[..1]);
    let spok = PoKSignature::<S>::proof_gen(sig1.cl03Signature(), &f.cpk, &f.pk, &f.a_bases, &m[..1], &[0]);
    assert_eq!(outcome(|| spok.proof_verify(&f.cpk, &f.pk, &f.a_bases, &[], &[0], 1)), Outcome::True);
    assert_eq!(outcome(|| spok.proof_verify(&f.cpk, &f.pk, &f.a_bases, &[], &[], 1)), Outcome::Panic);
    let spok = PoKSignature::<S>::proof_gen(sig1.cl03Signature(), &f.cpk, &f.pk, &f.a_bases, &m[..1], &[]);
    assert_eq!(outcome(|| spok.proof_verify(&f.cpk, &f.pk, &f.a_bases, &m[..1], &[], 1)), Outcome::True);
    assert_eq!(outcome(|| spok.proof_verify(&f.cpk, &f.pk, &f.a_bases, &m[..1], &[0], 1)), Outcome::Panic);
    // a commitment key over another modulus: the proof is made but does not verify
    let spok = PoKSignature::<S>::proof_gen(sig, &f.tp_cpk, &f.pk, &f.a_bases, m, &[1, 3]);
    assert_eq!(
        outcome(|| spok.proof_verify(&f.tp_cpk, &f.pk, &f.a_bases, &revealed(m, &[1, 3]), &[1, 3], N_ATTR)),
        Outcome::False
    );
}

// ---------------------------------------------------------------------------------------------
// Keys, commitments, a signature and two proofs made by the unmodified code (CL1024-SHA256):
//   messages      = H([i, 7, 9]) for i in 0..4
//   c / ct        = commitments to messages 1 and 3 under (pk, a_bases) / under tp_cpk
//   zkpok         = ZKPoK::generate_proof(messages, c, Some(ct), pk, a_bases, Some(tp_cpk), [1, 3])
//   sig           = Signature::sign_multiattr(pk, sk, a_bases, messages)
//   spok          = PoKSignature::proof_gen(sig, cpk, pk, a_bases, messages, [1, 3])
// ---------------------------------------------------------------------------------------------
const GOLDEN: &str = r#"
{"a_bases":[{"radix":16,"value":"b6ff9e2c52cf1b89326492efd503512e6120fea427d30cd1f1c42f06f082646c94f87c455570f19d72428b4e31103a925891a9d1afb40e0afb79e7f9e3e6b5e695f7db332772af7b66b7f613645b8cf1baeb9de4cd0021aad1ed02ce9b254f57d2c073cae37f558bee04131dc9b5826919fcb7eeaa11b9ec89d95c318965e716"},
{"radix":16,"value":"88e5516551061c6ae424c66b8a86cdb5118bd1a3f0e45e87308d1af73bd59d64022c46edf813c1ffe9763fc2763e0e5db3afd46099db594af6f35182f6c8185e6a737b1f9b919f1f9dfc04277fa31199ecfb8551d93d6f5ac5a1bbb9d46759bde948d8c0349391dbc35cb8586a5214c90bc581e2c538174f8178e70e4796c739"},
{"radix":16,"value":"c6e2558bae186142d8e536d9a7dba4f3f95b7130f39410d28fd9ad3ff7a57accfc4317d6b48ee2a3c79fa1d26999c4376b493d24d3c327526677adbd2dd0d8c8e1c3d279503a2ab0ae5fdc785d52a86bf50a98877230bca6aaf82030a611389f739935e9740d0d0a1ae2825668d05bc3896a587c44105da973d285bd3aa49195"},
{"radix":16,"value":"959bb462b53fe04978c4d5855605e79e7393141a6d52c1521895e6764275a86200ff2db7409b24004616001deef393f31a9c0b74fa88b9c96e6d309bbe9aba3a7563dab9fe84a9921d06069160f36faf18889cd951af8d72cee9e0357d5e8f67697784c0d2fd57d0452823e7c87ddb27524252f1bc5357e1d7ed8fb80e685c75"}],"c":{"CL03":{"randomness":{"radix":16,"value":"cc32f14553a2cda62f66240d05192b318ac3b57a59fac9866b6ed879cf3e2684a8fb5b6cbc1927f21e6453d3ff1e99e4003e949f8c4dccd9878e337aff377f00ef1c0a33e252f95f5716e0722df9c16878fe79d1d91030f1faab6be05abcb9e888d1b697992522944d54e8a8612cabbc203fce3b5d5c5eba8aebb792a580beaf"},
"value":{"radix":16,"value":"122b84592f44702c3daef24f91080fff9e891d1c43dccd910ee456d95a414aed71b807d042dbab0521cf51f49711da6d8baca8ad456d14e07c49d32b839f93c9c7f8ea84c1dcea358812859ce81b01090327c53c6835328df7fae2957fe17116aabe85885939218c0346921ef02d9c3748dccd9cc50cd41e9151c8e2f81d3efcb"}}},
"cpk":{"N":{"radix":16,"value":"1b593f3bd92bbb796f96b5d9cdb11c61d9e77e63ad4875ef9c0529fb60d10fb9c03a5c2ce043c9244d5f9f6b9a274bd488dea11892c941c4a2396082ace41fff5d49158871320f2f5f85c85de02fe0bb366c619e9ae7b0b8220229d83d948156c7c16d7a1d8b0c93110fb9fdbe52d61695ec80c35b54283ec9b9cd19e95da38ad"},
"g_bases":[{"radix":16,"value":"117c32d2f9dc7e370abb7db3168aa17b2a579708a08c9be9c52e95d45c422cd73a49386c8bbbaf9591283201e0f35eeb2b0182282e7d97321247f59c98e24ef9c9fa6256a940f62ae02adc61336528e23b4ef02bd178b590b335a8edfb4f451acc664fc82b1c4c8814e449017236d2ca1be86923827b5a158dc452471b69b6cf9"},
{"radix":16,"value":"b9fc7b37ea505599cd09cb99fd5d5ae4e872ef2650f519016a63b8bea61db8269a2af1e192357bf1c53c0ac8b0a861b742a897546a395b097e3822d15bbfac7383a6586936a84543cd812fbd0775b41863147afcac317e1708f146a713dbea94c4b9ba817ef3ae58217059693480183cbdc01d278f25632bcb477ff13c3269a3"},
{"radix":16,"value":"124c279b09da1185a2e64a8c03f02da3569048421849e61470850271b273b981e6047aac53c31b2b5d49850041493035d265cd3331a8fb4cdcdd9fb6b18845a6016d2bb4c58418a891c9c584c0ea1cb916c84384dd7abf78b3dc1eee44d53cabd5e70d9f4282ca86d951cded6e66d0b82a550714d722335115cbdcac80df24fc1"},
{"radix":16,"value":"63ce6a562feea24a431eb19722183290762fa9367ee14884d20a60f62b6cf539415ee54552d5b8bfcc495be372cdcafe57f2f5a719ae2109df8bf52f2d2e9f2ad3653dc31876808d35d936f0bc996ab76f5ba6020bf82c4965dfd5d7aca0b9b3c34aca1cc70df8591d18c4bd22202c06529cda71c87e6dae33860df0def4a704"}],"h":{"radix":16,"value":"199e13268991bbe10cdb70ccf3ba1c275ba8d75810f4e50d6b349489f7497b66e6b287d66ea06686e25ee601a99573a16e3d50c6c671e0dd9a2822ce23da9f35fa119980d6e5bebaa9e9f350b4fb66ec4aa1442e2e4a213815cb6941bd9a963812717ace7c563fab7c91b7f2dc700ae31d73a0864acbd051088561c45604288d5"}},
"ct":{"CL03":{"randomness":{"radix":16,"value":"aa583ed04e2f0683cedc0ba2edce1584e148f0cc94a272537e1e7d5189c88de75d67ca7bc224f946cfb0243b3bc4fdf19b4556b776820a5033d48495dde8ef05247ac338f2fc502ef84c4b2b74a85869fb40b5f35c38e37760887ae69b7a60dd75ee9b4f61dd72182ddad8de1d6a8342a95533cc2a1674fee472bf2d37919380"},
"value":{"radix":16,"value":"1a3cd85ff1583e30825b2092b7fea4cab631b973364d89e6c5290d7f9f45f5905682d13e16479830e4c89bd34eebbaa0c29ca834243fe53555c6db33134632452de6d1c4b7a93b63a3a6f9e8b73b4d3173bd1eb388bbfdae786c07e6866f94ea072d7a86affeb7a3fb1ebe61a6ad2b6700655457d1e87c2ad9504d21b1ec513a4"}}},
"pk":{"N":{"radix":16,"value":"1b593f3bd92bbb796f96b5d9cdb11c61d9e77e63ad4875ef9c0529fb60d10fb9c03a5c2ce043c9244d5f9f6b9a274bd488dea11892c941c4a2396082ace41fff5d49158871320f2f5f85c85de02fe0bb366c619e9ae7b0b8220229d83d948156c7c16d7a1d8b0c93110fb9fdbe52d61695ec80c35b54283ec9b9cd19e95da38ad"},
"b":{"radix":16,"value":"d357739f5a46a6cc4159b599e411c7a9d8680d26e6bf2aa4bed34460f2a42aaaaa900e7e2710527ec55c9567e4387c951316ccd18139c6cca8cc961037533f58022c933fe7047130a705888e893609e0064c35a1bc1e2a854385e489eaea03a9fbac921ac764e2eb4944f143f3ca754f4e4eecab2ea6b588b1808193bc598417"},
"c":{"radix":16,"value":"abca88db48156dc16776de76d8212cab600f1e562985bbed982848e5cf74d672c27e2d861a21b2e05f23ea312eb249bfdbce3ceb947a18d5190e14f5a1c0f9b14794c140795512f6596c6ab1a03fa237cabab01f7815e0964e3fa998e6d6a07e51ff50380eb5ac2348325ed2cdb3f3bafda98c0470fee7e81ed40a3ab411ec4d"}},
"sig":{"CL03":{"e":{"radix":16,"value":"3cc955124b7ff3d14ca757899c31571d1cb8e41fec4a5c069178cff15a9fefacf"},
"s":{"radix":16,"value":"91aafc6d60fa526b97f1473ac3d89be7e995f5f284650bc284d12b502824270b05cce9d56603f4fc2fd2015bed7a736a8c777a2849a4a98821b73a7761e4b557493698e0c3e72cc77daeb30ceb5ffe11ac32db6faf1b822f4b298ceca4059c6bc26aef6972b3d56b4df3ba20bf178cd0be2d9030a61a030a9db45a4420ad4264b3d6e3196c3be4fdb2bdc304b40153830f9fcec37f7e1d2ed54fda95a3ca8d5ac6e898fa0c70263cc42c54a9a3357cc9addaef7d93649c92dfc72439e019e56a"},
"v":{"radix":16,"value":"ed9ba12a17aea16b507eab7f2aeb4b9a15574e2526a8a77363caeaea01eb6e41e29d9a1a4cdd9a622cf1c5da6c6a6685f17fe6f252cea53c38cad76e50df018c4aa9d334b5f4259ca67fe1c02642cac3f6c8a9e00499545ee9c4041ebd8ccf6c7c00d0c691b5aebd581e84058cf430d1d8b52652908ac1f043ec28776b675612"}}},
"sk":{"p":{"radix":16,"value":"1067b54e365b03732fa608a5d0971c7f64111dc64cf7a28aee59f76d8c5e8ac5e2b54e7294625eba23cd43de6c3900d5f47a9fc50128fc15b808df3131943bfbf"},
"q":{"radix":16,"value":"1aac5b6f10fad0b299d663379279e13e1a5b33f503532a8f435b70fdb563f0aa04528ef351bb8477ac2cd2d39b05b05e1f76bb44deb4496ea860623283e746293"}},
"spok":{"CL03":{"proofs_commited_mi":[{"commitment":{"randomness":{"radix":16,"value":"95bf715ab24c0d10a2c2d6fd2fe83f9135f486bb6effba5b8e37ad845ce29d80868b823e2697e9bbb2b8e6b8eddcc3b5814750839996e1a8fd6838fe92868769f4ed26b7d68288baef172e2128b291285a1414fb1a6bd235f95f9fb50817c447c9ce403819a8f120433f46eae25ff471d562478e02d3fa7b441027c8bf31d49e"},
"value":{"radix":16,"value":"d133118b97a332a47770b63518aed61378b30a5c8381c00fa151beb436dd81371511a13fca1cf0782e758a0eb84ed960f1954781c776be6187f9a641a1afc8ce0e04488c1f06cbb00bf43e480b85d684078afc379aa83e7ac4d4f57f69dc03050d1d3e1b8f847664ade78a6f85e6cc59a80984663975f02eed16ed79e3e0666d"}},
"value":{"s1":{"radix":16,"value":"26dccd01f24874ab0103ca17f5777884ea04d8720e7ab19f23051ce058da6d0a805d2362d830343a905471b31063a86c89818f68f77971d87895e50d99a1e4de"},
"s2":{"radix":16,"value":"57a420267e0c42b0bad6be915d87de032f4dd17b4bca848278778b60aefc81523000d68ccfd6428752b0ffac315fa3254053e55eefe092f50b981cf1c7fe63dc71dd88f76c8281c9a812a612d1694fb62f796f84d42557a741005866d2ae6307c5ebdb7000da75dc4ac0d7c592ee6a25e53f8ecb9b1f560e450057057f4400ee2847488bf47b65410cb094ecf32edb5657ec068cd14b3d7d99d90e92df85d33a"},
"t":{"radix":16,"value":"1178a19968d734d971cee029c789da638eddeab673a94c4dfffea714a01538c1cb5780fe9afc377c4760603afd7c93a1a602ea976988fcd3773758898d50ab101a31a21621c1b9c5d8ec869d1b17a2a5915779afc40836d48a06cf53810431f689617b5badb83ca94af5d043b94dff51bd0c0f2ef2d5923b7bf50dc0d9ca2a446"}}},
{"commitment":{"randomness":{"radix":16,"value":"b15a3848b8b930f03a4c1c9f0db5626842480a0dcfb1e42eafee6ee9137010391cdf9b535c703121f0a22006caa54fe6ec6ea50911670f87cd773c5e27c2d002b617a629cc506a5324b3682881c27cbfd8f27e1e616f6aecfcfa213a9cb2e70467cc6ee1c52c1eb0d8e0504052bfd7c22aee464f4d8ee83aa87c45ade22efba6"},
"value":{"radix":16,"value":"92876cea2edf0ebbcb478de22eed95d9e7e687ce7100d83a2fc585d02e6466c5731e4c0dfd14448e3bcf366e6e059dfa06f443c2fee4868e8b5c37b556337f49fca6dd0de88f9dc1e0425142d61265ccd466cd55b00975ff1b06fbf1a59812f868fcbca019e2b8c432eec0d3204056a8240b1bc4a6448cd518dfbd8c7e66af5c"}},
"value":{"s1":{"radix":16,"value":"46154e3bdbabf06695f0e3abaa4ca220dc84676f46792e94c55d12f88c5bd872e70faf3dd75225f6d870d05d4fd059b0631ed12dec3f6af5bb0e360222639e35"},
"s2":{"radix":16,"value":"b04518d9f0d1b2a7176804c41667990f5068fa1d8530605b7c13f73952247a332e8b7176f65031e0210087f6b9a643bc137e99216507dea55b7468a333ccd8c409bcabdd0d9c7db1b8ee8e17b958328fa34cfbaff95f98367d8cd86cff3609b2702390d91f92441c9cabcf29aeeae7c85327266deff1589d51279809190ea44a02f8572194ef1e0f8828cd14f849bb99b98e3c6561b19a433ffe18d31aafd19b"},
"t":{"radix":16,"value":"c3feb40753dcc543d2def3f813dc7f2cd4abba66b6f066c65cf36eff58bb81bd4ffae1d460438dc5f6e5ad32631630cc5999682f1dfa54792efe28224e15612207b3b558e69fb5d4beedb90d28880b14962dc88dfbb318cbed019b48475adf48efc799eddd131d5a39cee439be2a221be8dbfaae7c10f7c6c4d634c8f57545ea"}}}],"range_proof_e":{"E":{"radix":16,"value":"98df7db0b0349163b28b02b1db15d82a202b3947d1977e5165c64f49ddca33b0302d337bfade6975fb5d99c0c2d640df8983d44c7ef9db624d9ddeb5ee67faf9ff430a6ca0f84c3c3fc73c93b05a4d2142f74346c82881f4bdf36e231907f878aeed4ae86a7aab032002b4b6725915b05ba3cf6e607605f1fa68f86ac7a9d899"},
"E_prime":{"radix":16,"value":"160cf767b9a382dbad6dd92e68bd5e8de11b69ef9885aab2bb962ec61640d2f198b8c296192f86ab60dd40792e61c6adc0cac9794008f84e285e71f945fcd7e21c39c4869a43f3fa0dc37abf5a18bd05319f8de9dd33eb88137832051da5bf0f2ef30eb6903ba8ddc0550c663692788283e167dc6910ae568582c1400b9b33f4f"},
"proof_of_tolerance":{"E_a_1":{"radix":16,"value":"e9d0ce3563c8f395c6747533b6e24f6ee0f8ccdad4fba401e9312fa359c509b3608002fc404ec9ba5e26a0608df640d2ce3804bdce1bbb9c345dc27d21707c0ab36be778b91f82441b22e4b72eabf4166bd00f244e9fdfcbb057e96d5cf31f4e3ceb6b983801225a4f70f3a58ea992275a0f4ad0c0911c6855c3efe1574f749c"},
"E_a_2":{"radix":16,"value":"877be36d38faae86e6160f931ea57ae5afd4b2a48d9cab0424328656c4f8699156581f27aeb6c0350afc45ee3d0ce99320581c3808fa5b0887287259a57c7a96edc0419a46c0248363b2414e83ab4436befa3277cffe19e9c7275edc3a603a8018efae91efc1a8f5f8bec746a2167abe9c742adbdd48bfab68828b61fe81252f"},
"E_b_1":{"radix":16,"value":"14cac2dc5c280234817d5e53987400cbd6e40767272bf4c5d6942116f9787ae99f8d5015604f406aef6a26374a91cc6f17405fcd1c452cd4f09fd9fca2302043e7dd04702968689fc797eb57b8115a38843abe082c089a27a3ad57ef86d7ab2e9d0961c8af94df8b2ac370e625fece72988d7c5ff5472968c470cb0661d47a741"},
"E_b_2":{"radix":16,"value":"9f3211480bbc25f635dc1e6c134e70507db8b8bf6dc07139a95b4dde14e0190fb6f6d5b0f922f3ccb537a16226f7b9f956240e72fd6a388ef1f6b12acd15e785e5687ba70850c74c044ed2086296e7015008864d5e8bbcb84a13bb0ad00244d9e582bbb991f139493ead58c27219db0fbc76ab4798314f6e7f80833ff2099481"},
"proof_large_i_a":{"C":{"radix":16,"value":"c5735871c1d43cdc1bb30184159e424ebfb79d409c42fb63dfa3e7ec9c7f720a"},
"D_1":{"radix":16,"value":"151a023ff85988c32e862beacd408e2a77c00edb64817942e42f17506b659571587b00f347287aecdb0959db68ceb295e0857ccfadc834bb8706ab27203a7438ccf063f65122d34af1588bf9aa5d896d4e544af9b8b04001d82ccc52f41a365b3e4044dc0773472babb85f20ce48ef7d104e5fd2cb45ae5706507cbd78a3957c"},
"D_2":{"radix":16,"value":"-d1e5ab702691bfa07bbc06f35096a089a45029f353c20f65305b06b83cfd4a0d766d1133fd79f4791301e9496bcc7fe4e4e0d37f40cfd18c7a666e66b46c758f7aa86fa6a5941a4e4eed34f6b084ac251e015e7c1c02191c150ffc44ea1a8abf62ac16a6333e427455ca791a076bf81b2c9ed08e88f8d992c0590d24b77c2ad86daa8b81abff4e5609b2981d10714d2d6e8e0a1687b5c564870b0776b54b5222e5917ac7cb0684579c7b007dbadf05f847347b42ed285da98808c1397d2b276eee30e57eb524251cf64a6003f5380c41f726c6610bb2a0d82022126e9d5b3847872f9c9c9"}},
"proof_large_i_b":{"C":{"radix":16,"value":"6280c0281adba0792bba3669d2aaf0a7bfeb98bb93f6663a83886bbb9eecfa94"},
"D_1":{"radix":16,"value":"1d20d3d2bbf00b6ff88b4b341ab2038a2bb07461d324501d72f04bcbdf021608d0d622dd6c1281579e219cca0085441e40dfa6f4663cc9beb8ebd3f8e1329f0f997d481cc254444038da9080e5929a43ac48a4b4250f4b631199e677bf25d8b4810fa6f459baff8be2af0ca3cb0141c90ef478038b5e277206420f91208feb5a"},
"D_2":{"radix":16,"value":"-1e668cac8b384ab69ab91312f1b6bc60213ead08d80975540321fc89f370a1e6268d021d92c250af6c58eb1260b7de3c011e4cc6278f4ac0e634cc38150d93091cac4485a7f1cfa70834a26b06d0056a685d8021900ac53ac8acbdc04bd076d9796604c7812f7d141d956bc882e8f317af953bf6e172db09bc0b29dc8e28dc50f7e07fea4bafabf879ca7712210fe0efb9559123eb6f6252fde5e2e637de12eb4ff72317fa689322af26db28a8ece94dcb61cf7fa15e16f92a9c4feb93ed6dbb435f3ad5eff5c0060faefe885967d5bc882dd0d0471572e9fdf9fa3f5c544b9c2e399080d"}},
"proof_of_square_a":{"E":{"radix":16,"value":"e9d0ce3563c8f395c6747533b6e24f6ee0f8ccdad4fba401e9312fa359c509b3608002fc404ec9ba5e26a0608df640d2ce3804bdce1bbb9c345dc27d21707c0ab36be778b91f82441b22e4b72eabf4166bd00f244e9fdfcbb057e96d5cf31f4e3ceb6b983801225a4f70f3a58ea992275a0f4ad0c0911c6855c3efe1574f749c"},
"F":{"radix":16,"value":"9bc7d698d4e72a387793a72049dd77857d99c820b5fcb4b4ddb0f87f3687f30a44b8c7a54f07f0b178c82e92c90b164019df35121a79b623ce71a76f3cd211d02036ffd9eec624e3040670a348d1704f5669be6b400a8ce67219209b6537dbf60a8957b88a0474ca00f902fd291585deb0dcc6064aee04a61cfb7dcd36b72424"},
"proof_ss":{"challenge":{"radix":16,"value":"5cfc079dfab873b659951cccffe7d30d5993e4ded08c3ca0ee2a762d5d14c159"},
"d":{"radix":16,"value":"160c4b2564b1c808107e60c1b6a06401c61e591b6835ba75664d9d23a5db4f44781a6ea790759a2da40630923f717a6ce76c1c51891bfd9a594827eb973d67213d6d55edc02eff472458a8e3ac00271dcb5d7a726bd"},
"d_1":{"radix":16,"value":"-4b6173459cfcd382c5d7727e7c04d73836eb24a9aae04098f4f9d36e9ee0e3308f6a20b7200630e048fc285b316f82be04473cf01f2e1af5da71686a887d2bb63b70e31078c0948b8c7de4be8ff48f5d060b3d0c3389f3f378221d69e595d1cdb4a92586533ca75d8932cb0b4b81d0cef3d5c1dc5aca1ad2f92e3a3ae9ea4b4273f4883ba9f80b6f500fe1d4f788f6af35c209aa9710e89e81affd6d9b3c9112c7404f2a43"},
"d_2":{"radix":16,"value":"2bb4e8c18f3801746601348dbeddfd8f00ca4a544d7499e165b07f3ef709b49c01ddf3f69f9deed824a69b9493597447a2c3632a484c07735bce866e74ba5e2b5cabba6fec16e4f812e8cb42fdb5b0acf948bec430c56bf9eb98cde7c7defa66d12c9178854b0ebbeabee8ef4a81b3706d1e0be5e8d974675659320b3936e0b454409002db0c839c5b8a10d7cf520c6556f9725c95156d1fc727d0de878d3fa96c47ad244c39cb1284c0b1f2306ed88d015bb4cd17a755f394fc2093a64c5eec57a88b7d5305cafb0d5d187fe09de50851bd3c89b679ddb305f5c95723180eec9d7cbf16b6b64d5e2b9b3cd1ff46250"}}},
"proof_of_square_b":{"E":{"radix":16,"value":"14cac2dc5c280234817d5e53987400cbd6e40767272bf4c5d6942116f9787ae99f8d5015604f406aef6a26374a91cc6f17405fcd1c452cd4f09fd9fca2302043e7dd04702968689fc797eb57b8115a38843abe082c089a27a3ad57ef86d7ab2e9d0961c8af94df8b2ac370e625fece72988d7c5ff5472968c470cb0661d47a741"},
"F":{"radix":16,"value":"149fb01afcbf64eacefa837e0e514c1d6951da64e16e7a9001851b40d02b3965f73ae3d7505d396361f5fc95457d228b14f9da2232427d66c8e26c243e711771ad9552ffb681f6b42901842defe2c7b4e436cd09bd31c40c3478f58e2e920b3c57e326a32fc2ad6411c27ed1ef9e12303c73f10366d32755b7451545c5d7cc1f3"},
"proof_ss":{"challenge":{"radix":16,"value":"14fabe17997976ffc5d537f30345ae4e6a2063c9a95d143cc3e309d88257075c"},
"d":{"radix":16,"value":"1a97e00156f7bd13fbc05a31ca41f2f64aaf04fcff943b4ce67fb2fcf55e2cb406b6659c91ff795eafbb41ffdf844c008206bdbc9f2c8b44f7bfcafbb33622064a207ea5dfb4f98e1c40330d92d57f7c191243114d"},
"d_1":{"radix":16,"value":"-1d559ce77894ce7b3110e6ddaae2d4df0ecaf05309719ec8d04b3191eafa8512144157d0bf3ba6b41480616c89beaec74869a9248229ab8d373fe4be81603f76471dbcbb60361d28282bf00f0ad800d85582857e3af0dbfb9f8b502471117ad4a7de94c109785c9d27ed621e58c974af841ed66fdc99ae3feaa32f7b9c29fb4ba4493848275ff5ac16208646d12f15092a9a597fad60042d979d5ff602d4cfbadd7da6bfd3"},
"d_2":{"radix":16,"value":"-1973c5df324d92c60430a3c3aef0cff5bcf921d00f5a28d08e60b64668087837b41ca16233adc2614245aaf02d207e1c01303a3d34e1604b303d5426b664ed6c224de93dbae66e29928f1051b04afb1f1acfe8d90e71468f4ab2cd78f4a2ec88b4411be443b9266b499f4fc3e4f632e86828376978d93ceead40ba99ebcb40ea57cf1d95f4fd0be6075cf0990d7fe1affd325ef7ee44e3bf20f61c97f5fbd372f53f0ae7a5d472e5aa7beff0bb214241c42b584d9135fbdd5ca0f4097fa82cfeacd180cc08da6e8dcbcd14d40f392c40ecaff0bbb249319e62f9e4c88eff0000f47963fa73f4ead0aaac8cea55b3ee"}}}}},
"range_proofs_commited_mi":[{"E":{"radix":16,"value":"d133118b97a332a47770b63518aed61378b30a5c8381c00fa151beb436dd81371511a13fca1cf0782e758a0eb84ed960f1954781c776be6187f9a641a1afc8ce0e04488c1f06cbb00bf43e480b85d684078afc379aa83e7ac4d4f57f69dc03050d1d3e1b8f847664ade78a6f85e6cc59a80984663975f02eed16ed79e3e0666d"},
"E_prime":{"radix":16,"value":"1a03438d15fcdcf96266c498e2f2be7b9aec876fe8318d937ff53de7c51aca44b42dba6b3be45ee8ed35b1423a1d25075aa21b03c62d96ffcc09806a4ec325a4758ab40b6e29a163b69bda01e60592ba069b161db2a4289ac509327c35980cf8f9ce4d2cb6754ba7c3c2eda6cfe5ade90e600863cbdf3d8be491f26f17300c829"},
"proof_of_tolerance":{"E_a_1":{"radix":16,"value":"d1700c9a1c56696a88c808c1222ee1043d5dc58dd5cf4f9e320b937f87e9be1e79864a6fdf2e0fd9fccbad19c6e80aa3c825546931c4bc71fc9377fc808f5e5e52f7853eabd6131226657b3e38789b28adcda5d272c25c69e29ceb10cb7ab97051bac98005bc7df4a9b3cbf41f65c6c431dea799add9b00f5561f8de343810da"},
"E_a_2":{"radix":16,"value":"969897bc20c3386ab374b9c58512970f358632ccdbfb1cf163422959a8b17bcf45da887c1ec17fdb4d6a989461bb87b99ea6095e798b16005dd44d50f3ad83267a82b9e48ef298f41538d0f3784b46beb52491d40bf6461d55a293b355abeb058498bbc976baaf89903d32e090d9036f6fe92fa5b95c50f9e7b056e6e88f16"},
"E_b_1":{"radix":16,"value":"1c4b1751a35b242346763713254408886acebaace8e3db05166c4aee9dda44f2f266646d2adc81b1d3677a08280ad244a014aea126e110d6be84025b84ea1b30ff54bc85498c9b11cd896bc45adadf77fde56f56f55f2682ed5e699a06f883d343832e8f30b67c2df428fa13654ef65e8e878b157506512e25aafb63a7a27ddb"},
"E_b_2":{"radix":16,"value":"649c3729a2cfde39f362f19c3297622697f30bf8bec9fb1429f11f28f3e2520a59874a32be758372980c88833218b34c3fe72b676c6d2f7badd4c9887bac6e373f21d540f034a4f4994070b79d311f26adb61305fac3bd8c7a51ab58563d05a95baadf86bbed6061e19663e142325e10febf78a8f312dfff97823c52ed3a5cb7"},
"proof_large_i_a":{"C":{"radix":16,"value":"6e1e3cdb182917f83166e0481d5ac085baad737ae638283b8464c677389ec6a6"},
"D_1":{"radix":16,"value":"34533705e49856a97da7e68a2454f99b99ccf7391b827e2631fbac0b5409dcd46c1602f1696d4fe17e03fc4df759fcade803791e6bfaf3a4abfe47f6ca0b82ca1bb3fd6cfc7179a49064a7bdd5fc674c9ab10de7086a8517a4f0c369dfec2e885e1adf81a11bd681e2724303adc9b2e96dcb9b6d8b87704cbde4cedfd1db960"},
"D_2":{"radix":16,"value":"68c7c2bb40111524d3a83b1339bd1e2c8c938e1e659588f6cf4f65e75e63d90adb6e17cdcd5eebcfbe7e3582a329a25f39da00f38ef248cdbe962e5ae8712183af14ede5002e64bc156fee6e6b713480bce4827c3385b9b1b3e12a6e99b23aaa7602f9d5b63b665062c77ce2e1a14573c32cf353c772dbadce40d0ce84283f47814b258e21406ae3b4d030b522df753e7ed57876d1e55e75939090426ca4612a6fa9b9f0c61c720e836de8b27c2c6f2ba5236c0cdbb69afd59495a65577d26a2ede5e52dc4c0b644d9edafaa274e404c2cc774f8c916a887888131991b94141d3269a9a1"}},
"proof_large_i_b":{"C":{"radix":16,"value":"dda58e4e992ea13be89b757e650d4db3173740b67a89e4df1f27dc3be1296021"},
"D_1":{"radix":16,"value":"2d5ef4a757f7394fb04fbde63168fd455a7b9c59b5a7d1f8cfee85c69610fcfb525afc53d824336035c62b1b6d0fc8b769b7c2aac2b0e5038da443153a29411a5ba0fd74f50ad079106205bd352250d976169ea6ec70f5f6a90c998c4d15e9a170821b3014e4ade71fc79786c4a55b80bf1936bdebedec1ca383755af52915c"},
"D_2":{"radix":16,"value":"-3362404b9ca083171e4af1599365f67c39b7846db76ad2061c9c356e880b5dd0ba94beb460ce5a8d9bdc89dc4296476ead7c0f6249adb50e15c6f81fcbf87fb3bed43a73dd42c94f576d227a06d9843912389e3dc4e6a80366cf782614223d8eb17f88c33693f0fab81a3102af92e714ff7211cbfb8f35f34f55942294158fb8e93544115308cd62f86cc5d9702b83f77e507e9aeae506e30d54348f48f5a945511e8648c175f5a71cbd3d37df2757d71d69d335afbce7894b46c2561a60cde7a5e8313c2c7893c8166e52003e11f8beca212c21d77e825d7bd3c6e805bd3fa8a615ec67a"}},
"proof_of_square_a":{"E":{"radix":16,"value":"d1700c9a1c56696a88c808c1222ee1043d5dc58dd5cf4f9e320b937f87e9be1e79864a6fdf2e0fd9fccbad19c6e80aa3c825546931c4bc71fc9377fc808f5e5e52f7853eabd6131226657b3e38789b28adcda5d272c25c69e29ceb10cb7ab97051bac98005bc7df4a9b3cbf41f65c6c431dea799add9b00f5561f8de343810da"},
"F":{"radix":16,"value":"62bfc726ab1cf10b9fab44f7ab06d6ca7133df8ca971dbd9dc4fe59dd12549849a0172b7d1092eebf681808623a3b66e49af7bf2f3049d2353b10b98fcd8072ac5a6d930acd562cd0ae830aaa113bb99e006fe46994e102d99d90492e47802313ef1b88a88e3d75bbcb82df2bfe0178ed29d71972a1364b690d1f1a5c5e421b5"},
"proof_ss":{"challenge":{"radix":16,"value":"10492cc45f4826326c13030d9ba34990c8c74dbb8665d396b63a3ff4e2454596"},
"d":{"radix":16,"value":"1096b3cbf27aa1197d8ebafde496d3ff1cc065c38a85b67285b364b95e1e7d57b5da7a0156a0ec562332c2a25bdef3c357ca51974abef37d5fe416290a12eefb23309b47c087cab18809d904c9c5b7b9e9a5b894d2"},
"d_1":{"radix":16,"value":"1817d10a64804b37ffccc9e4162db5934000c83d068f7f7511c089601550b5a21dae27d6c8722deb0aed4ff43070b8ee0aa55a31b6252a01658ebab362e8fe4a4a2f8751f7508fbcf08318b05bbd1bcf2c4a5e43e46b745df97e7ac20a14b63b57d34d1f4fa27292993e41f7a7f7a75fd8175b36d4111c8b4a75e37fd1273b2cae6105c0ff6c464e5b147bd6827f6f62ca0d40ded409c8ed56cf7899a9113f675a1000646d"},
"d_2":{"radix":16,"value":"-4bd1e8f79c7a41c24dab1cc38732e103efcf3aa5e26170949c669c2150cc6916daff00720077534b2766d34ed2d55d4112eb127e971607be7e2ac07c4906a66b854e85d0ac0677776b7630d925a0f7ef97b4f5194536c6f8a53ff28c41738057cf397f9460b7682fb508feb08835ff7de0fda56bfcb0caeda8bc2e27f52b58887e2bcaa190dd546ffd5fb9a9e5840c5ae242c4901a6b8c6c5201ded3e71a6658f2f7dc33971ea019881c86db6e80a4f89dab0b9df95734b8791259894d06d527aab0368f3784bfd89c9bb6700c8e65b28c49c07557633b8cabcc022ea0b1fe17240b19fa6a35850dde3d639b97b526"}}},
"proof_of_square_b":{"E":{"radix":16,"value":"1c4b1751a35b242346763713254408886acebaace8e3db05166c4aee9dda44f2f266646d2adc81b1d3677a08280ad244a014aea126e110d6be84025b84ea1b30ff54bc85498c9b11cd896bc45adadf77fde56f56f55f2682ed5e699a06f883d343832e8f30b67c2df428fa13654ef65e8e878b157506512e25aafb63a7a27ddb"},
"F":{"radix":16,"value":"94fde10b4adeece8f64a56068d891f76d99c1f2ac09a37fda16d3f89def3f60ce66476fddb041107506e37d98b1fc50f577f96ff4718e92b11593a3646faddf7b817784c99d2bd7f5d7c7202a0fccca8687606962101d82cf5f2488ab850debc5c2bd14e1d7628358280b59bcacac2efdc09c01435296d3d40ae16eea642b373"},
"proof_ss":{"challenge":{"radix":16,"value":"f4702d9128e503b376620d2de328303a31897626889a2cac154c612c596d0cde"},
"d":{"radix":16,"value":"1a4b8eadbcdddda4e6a990de364c68eb5ac91167deb2a5a85db37a6858e1d687d730aba1f4ab14168d015deaaa693d1bf141d07bcf60cb24140546d43d73c027fde290a3633c3c19142107d9bb25fb9cdcace021296"},
"d_1":{"radix":16,"value":"-41781ab1e52c43c9bca822ed28feac763ea6df30be08ec79a196cc1f2d358aaee9c4307a33a1dbd0db554ddb0a1e4251aa9da06aa1d0e935b2d627295cee08de1ff7cb4e71ae6a818046e6a40dc215c338dff630a8f653af03ca058f4b2c4ffdcfbcd4116a677d4d1afbff615ed848bff260636d4cb2598ab729fdf504ea57ce079b4d061c19a37d630d2f58a38e7d5a849b26b8f6d5f496921f520c84e54c9bd4cd6ca9d"},
"d_2":{"radix":16,"value":"-5961d4bb5ceed8851fa1b394d6e2fa8572e3aea2cc87429c279da888e774b495e3e4027f234f0e9edc7c6b697fd19762b85580eabca612a4a4d2dc98252f24570b569f82315876bfbb9ee55a3b75af698bcf9264ec23c00a0f8fbe0ca969b3a103bdcb2a8a946b2e56be598537f489b763e732177dd57debedf60005e04433bfca0ee4ffb3023beaa1a6c683633016c86bbb348e7876e534928fe359bc58b99acf0ff19ea57de9a4b88dbb184201db333c2a8c28e2465edcbc6273d983f439459ef80966e22cc8e7f31bdc1729d97ceefd979a70619e394bbc2d9c7e502b58b217e7d21643e2918a5615b0f9bd0813f"}}}}},
{"E":{"radix":16,"value":"92876cea2edf0ebbcb478de22eed95d9e7e687ce7100d83a2fc585d02e6466c5731e4c0dfd14448e3bcf366e6e059dfa06f443c2fee4868e8b5c37b556337f49fca6dd0de88f9dc1e0425142d61265ccd466cd55b00975ff1b06fbf1a59812f868fcbca019e2b8c432eec0d3204056a8240b1bc4a6448cd518dfbd8c7e66af5c"},
"E_prime":{"radix":16,"value":"1a31ca2a340a3d7c3ebff3bcaf441229112bcb52e09e6368458495b3bcdbc41d8d2fb824b050fbde70d77406a00321ab61a623393746435086a666f532cc7b92e4720ab2e430209420b09f81be24454bebfb12d6689a29a88190603ce6da1c7bacf9cecb13d1866f0cb9b4621b9b2bcbfb50e10244d9d824a47695978388e1841"},
"proof_of_tolerance":{"E_a_1":{"radix":16,"value":"140fad36fbafa763ca143c4ce0077ec1ca4ca772c343182f0eeaa2e927263ac7928b3160881551bb2d0ceb5efb840619a0dbfd5e101bd781731c10b280bf2e4fb89041137b6438a690a12fd70dfa4353716423c5f0ce043265a4adf621c73f640ee71e405547516f27f7191065a84933f7d827c1bc4d9c6bfbf3c468e304641d7"},
"E_a_2":{"radix":16,"value":"5eaef91594ceb0fc244c617a8164bb411a05c61a3555fcd5c7de7b57ed26a798c39094b74c2deee3c6f860c24fcb6a72790030ff263d7726e6675754625fec622543afdf88e35fd60e6ae53ae79db68a1a80748e24ef0965ffe92b4d2b81534a801980bf98664222ad48fae8d451733f8178e8c93405a39964b5a099e130b8ac"},
"E_b_1":{"radix":16,"value":"15a3d2bd277d19f7b6b7ac7805ac9f4d69ad429f78cf39e3ed619624c4f5a5221d0ead67f0a989de4d7119f142240b0731ca831b6ccd2702771475de3665f9416d2a112594ef012d44a66cf33c6b2d48bcb64315e79104089d10059e6f36ccd9a95123756375edb767abdda690c74a6af42359af975d544b61d16618b1b58ff4d"},
"E_b_2":{"radix":16,"value":"163ad691a6377fd1c1270a90fbece4b9d3604a9455b4c471c60f14ef7f7c76d2d89702c091aebdb9311f216a000bdf2fa895e895600658ca079486dcb97e4703d36fe6818f8b91a2319a709d876fb97bd903b6973264ee8878e20e01fbdd6bf00d1a60c5fef1cf93f58fc65cd0ec6645d7af560a64add8046aa04df835262cfb4"},
"proof_large_i_a":{"C":{"radix":16,"value":"1a9e64e6bde48d778e51b1e567a63a063c414f26fd3711a06e94256183b0b44f"},
"D_1":{"radix":16,"value":"2ba66a00ba6435a8bc8057cb82ec7f86060aa0ce67c013a2cc566f579d25a05e4f1b815801365b635638dd7c0f516ad7443bff32731e87b1bd9487ca4bd83803bcc4fe4e776e80aea4ed72d026202d2901328f91dfc511eb4179b52d477342df0a5bb3128aeb7c7806f17eac5cd522518fafe3e6fe07aee1b8b7dabd788d1e2"},
"D_2":{"radix":16,"value":"-11d7b736a8d6bb700b42fcb6678e5a79e55434d94c2c0a4fd8798219f7933b002d7574aa6e94950a662b9ab2c31c4527d99db7755de37ca276579a8e3c90a04ac65603653216959580603085e9c2c4c2e94d59711a645df77025bbfbec194d50e2beb88fbc12c35cd6e7115747b3a30337fa28dba7db0a126fa975b7c8cc027527225e49740711fd7f4ceeb8e9628d40b3750d6a85816fd27bcfe1d6c480df570ebf80c885ec51b45b431560081ec3330dea615ec167ffa0526b637a240abaae4a8b0f16fbc41580cac517341255561ac07a30f45c7a0f814c6a663c8b5f6f8d9cf6fb194"}},
"proof_large_i_b":{"C":{"radix":16,"value":"d1855ee2dcaef7b0aba587c92e35217f94c54673a23b5931c220ca07ddc8ade4"},
"D_1":{"radix":16,"value":"33a74b1c5a7334e2d2e936a7a2772960e662b368ecfc9033bf1914d7e11b6893365158a224ca458c25ec06b761b0abc01dec0bd37b311b0f9692daba22b46376453e8f5a9b845c527ae5f847e188a01ba55cc920baf98d6181634496876c8e2f16208cdf352a40834c13fcb528672cae6a78dea92759b3f46cf292d93d8a682"},
"D_2":{"radix":16,"value":"663b1a54ab89f7056464bc68419ef28a6c904cb68a219ef57137607dd89f1cd051b54aec40d1230a997917a3429292b26119048b4df4844c819254d1dfd8f2e6d0e1fb1014ec614cc571cd053d2d466748ca0e861419f3dbbbf7de47fda35a9b1d2d1f2aeb77827f07d921a045444d2e20d62234c64c39657ca764b8762ce2e0b53a9ee9ab7cd76c6a073e74f56d9c31f87fbe1c2a799591e3cb33753b2a95cc6d8864b4f9a77fe5bcacfe51306d3c51fd13c70d586fc0d6c88141a81c2b04538c246946c87c0609544c7b94efc4aa3fa8db69c4bda1c8724310f947ea5196e87fd3c3ba"}},
"proof_of_square_a":{"E":{"radix":16,"value":"140fad36fbafa763ca143c4ce0077ec1ca4ca772c343182f0eeaa2e927263ac7928b3160881551bb2d0ceb5efb840619a0dbfd5e101bd781731c10b280bf2e4fb89041137b6438a690a12fd70dfa4353716423c5f0ce043265a4adf621c73f640ee71e405547516f27f7191065a84933f7d827c1bc4d9c6bfbf3c468e304641d7"},
"F":{"radix":16,"value":"1057d2763a9cf31bb5cd2246cb0f9e6d1dc6cfedb291f5f09e7855a5178fb7d14c2cfbdd483b8cc9c67e53c6fcd6cba334b233fc964c73d1e305af8e2d312d1c7018da7ec8825c4f3084bb91530ccde81317bad43b8f882464869db0afd7d3ebcd59bc40058a95713c3bf8f625187b797e3a63166ef72d3a78769c929d71dbbb7"},
"proof_ss":{"challenge":{"radix":16,"value":"679647ecba23c9b8fde573455b1fbab167f0d7822a2856fe204128208d4a1685"},
"d":{"radix":16,"value":"6cbb0ae1f5c373e88c70d41270e7a3a996f732538ad746e86898b2078018eeb292e41bd4737077662f80c3170047202c801e01da67f2e4e70b944e9cac0036f240f9c64d3df70ed1c1555a391be5391ed87a96ec5f"},
"d_1":{"radix":16,"value":"-e3bc1378078a7b524f9712c88cf5e6eccaa1c6613f558666c0aa0c16e24a2c999b0d2a051f94349abe04f6fb88fe061ac9ad55fdafb9b3ba2ab9f901c71b1b6a10ed7cafe80bbc8950ea8981fc593013e3c5ed342dc73a9e29c8701f83237ea3f180f88f8691ce5cb755a7adba9942d40419af8fddd13057c0c3b33489d6afac77719d831dee8e2632134f427acf83f435c02d237a3cd3cf57cb4aae587acddb4e955d5ba"},
"d_2":{"radix":16,"value":"26db7cc8d6333a8fb972a4fc8691d901facf913f0b91192c52fcc7c0f6e12d12171339fafa022a2ffc0d20aeaef2f1029e28e1544037d219b96ddcb125ef387965a0502c3c05790d0e1f7ad04832bb6075ee3d649fc88c176735bfdba460873befc0c64f27c1a4e7254ea3cb1d37cc2a2aaf3f5fd2d69c536afea3dadf9adf2774af44136ceb367be6194582766f6776d7bce00be5bcf95ff49f97dce39657dfe192ad31025df454c372f3f6a94360dc72571ff0a32b1c7a0a4a6408d097102a9219eed66c196673ceabd8412f62ce09384712c1160b89a0092d61475b525145f690cc205e7fe815e21e5327b792a69"}}},
"proof_of_square_b":{"E":{"radix":16,"value":"15a3d2bd277d19f7b6b7ac7805ac9f4d69ad429f78cf39e3ed619624c4f5a5221d0ead67f0a989de4d7119f142240b0731ca831b6ccd2702771475de3665f9416d2a112594ef012d44a66cf33c6b2d48bcb64315e79104089d10059e6f36ccd9a95123756375edb767abdda690c74a6af42359af975d544b61d16618b1b58ff4d"},
"F":{"radix":16,"value":"e5708f26fc3fca847ee69383538e16ac9a847dc6a7fb18f6ed43789160a4243f190355adb39f6a1bb24b6f0b2eb7dcb09ae9268c6d91b38ca77309b0e348b2716fbdb5d1461d6fd6fcd33c58a6ed6d95ada4dd3d07138773ace0866245c4a75395d90707922f00f057bbacf757bc4cbeaa7f42a8f7b3f9e7445254ab7a667294"},
"proof_ss":{"challenge":{"radix":16,"value":"e0c4761d0e16aaee79588d6b8fdbd0cb57ebe2e67441fac9bdc2f8f9a6620e8f"},
"d":{"radix":16,"value":"17ea5e08750ce0da9889eac62f87a1b2d3d94af7087d3cc8f51e45bf9add0ad0d6b79135844508bd4d2308d4c98af62616606b19aa0a48cd068a708057839dcab05836b1655307493410bfa1072163a60a11e45b0b1"},
"d_1":{"radix":16,"value":"c4faf3bd1273cf308ad5cfd4a344da1ca8ab8c5c0e33137f6a0cdc1d4a86cf6dabc4b033e9ae899d3e582d639a1b51b4c4acfde24c96a0844d7b8c3e867e61b4fe165495ff2ebca7eb1ee7c50ed08f6122230abf5528921327c44f092d7d01bc2fbc492efdb28a3c0e57e448b70244bacafa85cdfa171bdedb172e6029ba499873c1810871611a9d140299ec6fe43d2193f2eac12690d51a2331cf4acb0dd5982da604010a"},
"d_2":{"radix":16,"value":"4fd672f74458f8d24bd65b6cf3592fb6716720266397b9910599c58b6fcfdb3d7a2afa3b3c5121c4c950fafda41212c9a990ed0ab0f7c780db84abed31dcfaf4912047f7b6089a7295a25dab777156acdae5c78e8f7792d9788a3e25ad25040fa0475b7f625ab8b809f2db90e7b42d1fb3f6d73043f3e9e674143aafc089f74b4654c7d717169778ff1f64b206db036e119d4d5851cc23bc15cdfd63b5c3d2df448e11d12434a0b237e054f4a2c55e48b736135fd778bb572836ddb07977dc13dd96a9a98095581b3305d1fdc6a36a0403f9e38139654da493dacf2aa379f3ba1d3b11afc8e5606b0d41632095f2280"}}}}}],"spok":{"Ce":{"randomness":{"radix":16,"value":"e1c628c4d2b032d52113b3523e5c689f78d0c2faa9fe1b87d54ee3687c9b686c610940311c83c54d62a16e76925e840d7f1f132127f4df261193e3da1cdaf553892b25369c27bd4a35013912f15766439e9d914523e0a8d0b6de31373e21000b1b292678ce72a728cb4664ddb415f12d472b9fb9a802cbb7602d98e9e928d397"},
"value":{"radix":16,"value":"98df7db0b0349163b28b02b1db15d82a202b3947d1977e5165c64f49ddca33b0302d337bfade6975fb5d99c0c2d640df8983d44c7ef9db624d9ddeb5ee67faf9ff430a6ca0f84c3c3fc73c93b05a4d2142f74346c82881f4bdf36e231907f878aeed4ae86a7aab032002b4b6725915b05ba3cf6e607605f1fa68f86ac7a9d899"}},
"Cv":{"randomness":{"radix":16,"value":"a2f195457e1154c93c65c6cb82c41b8c0ff6e415920d0178e0d5e05039ec5656d5d268de623b2c417794971ad28cacac5339e7a9796c0bf2eadcc7df0fc10e3224de2feada98c862b94a151c3f306ac8be8dbd617a89b267af88c4443ed313f24e599f10456f404e1e6d5c55626cabae20ef03fdc7b9c6ef25dac810675d5344"},
"value":{"radix":16,"value":"193839a76b07aab8c791128b43887c9e8aa4b46d6b89cbd618faa89d92090b7cbcf49ba3064be21388dcab9f8c65937b74956dedbdcb89c514bbebc212924c550e7417f67e2963a1ff36659a0a4244409a74299172ca190f1c3c363cc9a5fd34886737e980583cb211e93e0bd60b0431a5a3d6b3a147734072998cc6d43298095"}},
"Cw":{"randomness":{"radix":16,"value":"fb5a5365dfafdf7f1eeed4833db84d2e27dbcf0f9c8455f009c71a62000b9cbabe5f6772d8283eae45d31e9cfe1bed4e721601e5cfa825a20af2c3a2dee8dae147c68057e43442443f8cd21aab68ac3b2ab347a9e4347eae2007f4789d0fb449e47ca3d3b5d85cba4b378303bf54c853f851b86fd095679da980ffd761a9c42b"},
"value":{"radix":16,"value":"59b39b3d8eb1bb6b6e34cf8d19f075b2f4ad6830465476d87921f1db95a3535953916df5c7add96821b9bdb7bc0601716751354f13b1d8c77ba11027d4eeddbbab61e6c88b5f16a68ba2f64207aa618e0891462727ba0c11224805ffd1cb25fe20c3bb62ee47eb4124c4d531c279d4edfc5d510bca30e6831c4440713b0d4fc4"}},
"Cx":{"randomness":{"radix":16,"value":"eace96a751ce96fe1d2a35ea8fa01993840a0932ac3767bbdda6b8667a8c30ae09f11aa0c75060d64bc4c09a50d2ab353b8f0c453f84c9a9277e93208a844918c04346270457389332070cf034acaf3f6c141d31b8eccfebfd8a1c20896c246292527811eb84c0b883b1cf989f3318a9b4d4a89d7528726305e030c95e888098"},
"value":{"radix":16,"value":"f1c916870b58a0992beb29fe03875863ba8a5a460f2f07721fcb710fa82b73dc9f871b05bdb8c857f2331ad4193095c2f6912c2dda550ae0040532d40d79feea0ef9b449211f9353e87cacd125e28be4aab2572a21cb671fa74c824466b2f3ad31e38287147c0b755096e9f9491e2db0f49d1a774dbfc0f6e9dae853c2c34cee"}},
"challenge":{"radix":16,"value":"e406a3d5e92baaf71db4e8619a6de39a9c13cf4031a08b301548785bf983a522"},
"s_1":{"radix":16,"value":"dfe2f74139cd384ce490f23e6514f3ad95615656b74648c07b419e71f520081ee32b65783f4da4f68ce8570a936db9930f4fcb7e46656789fdf569bae9c80ace52828dc9f69afc4b4e434b9be6c81c04b7fdf5e3cf4456693d5f32b2bac5e4fbe9fe7dd8f8f30f7cfaa4c59339f3b87bf7b35803581e91b5d67b8e0f5eb6519e57223c4dd769e8548ea8a7be4c4e24b2faf6dd73898ad8b35eca6165c8ae1ded"},
"s_2":{"radix":16,"value":"3529458dc7d7eb5eaf6439519b32688f9d115cbd0c5f71d7daf0c624e3620590265a9d340582b82f6c49d84b516b8b9bdfc2966ed7fb625520c99c3f9ee5a1dd29ca08fcdd088807c1887c2bb7dcaa179f7200ce59c29cd9c0390941ab0d929ba2ff178a8a6ea90c9ac3e420620e2b43e9524b83972e06d778e8e861d6a5a83506056efe77dc36c6d5b9466e19ca49038657c6a884c2a811a4c96cdb581ed80c9c78e93bc3f9c0bc43a6b124a49f19419933099aadbceeb294830297807f15d98"},
"s_3":{"radix":16,"value":"d126154a4a75e040e723475db40d9f1a19c3d0d174650e264ba905fc08b306491eb18ef90759714b93ed9cac28c1255f4107c6cc6701f8f5c6bc1f5d82c071277eb0dc14e454dd2e394928f2b97e8992698a17e5104b550c91c728380b882f02c20009487b99eef59cb4df8790af7fcadd0b7e78de2020a228f2fc19e35ecc0136001d47fc2803b78c604d855a0c6366fdbde8d12850ddf9a5be17f279f1f5ed"},
"s_4":{"radix":16,"value":"bb767b181da27359373ef10abc99687a8920cd6997dedbbe16907411950565f8512023eb68b9bc1c42eb2a32539e19edd09afbf1edce9cf1ff3337dd4bb741884281783fdbb50f5b7d23b34f318997e046ab7685f2d6a8c9a815c11186468c509c82e3413a587466ddc52e3cb7376d52a571b32737e23c3d792a6d6a52f3aee9"},
"s_5":[{"radix":16,"value":"d031ed9bc31f65ebf59220b6ecd098871bac52653531714480627151a8208df872de10597c109338548e915acecb597f7dce04d51bfc765567e5f17562f1e12ba543c9f80e290f2f5a8930e76c66554f4e5ee818d9c0dcff170712a2e0839b7dabd70a2cd489231f17b06d26b09fafc1482d7b51f8ffbfeebb021fb3412b28a4"},
{"radix":16,"value":"b1c6bc4b3f0c400c088f1598e423d6e41b2cbeeff202533b1d9c708617dce10017f2617901ad5f9aa141f75e678f801127998ee483830590fd73a76aee487c55fe451ca4caa1c7478c3a673ffaf127d16472c7f8e6b6079fdd8e0fa801176a5ea0bcb73ed5982bdeb75d74f5b932b5d8261a8a9c2d69b96630cc15090ad0cb47"}],"s_6":{"radix":16,"value":"81c0100ceb9a5bc6f0be2666fed6fc6df4004adcebb7fa88ada4221c6193edb9c3d882dcb77366da852976e420313105b80043ce58db32e7036dc92215ef77d245e5ac8685315ded77fcee495efd4f132928dcec9c237b35aa0f2c2768a5cc14d0c296f513b3dec3c70ac753274a07d798e244ae594d307e6f58ece44585dcb2e87186bd149d0feb0e3d1364573b554d5f6ec01431744237d17074c08cba753054a3049bb7f9a63dc2fb80078aae6bcd9dc0be2bfd1a9be1e468bc810ffec60fef004247f212cfdda76135754e28ebe51764172e7c8222a3de4b64f15df3df38"},
"s_7":{"radix":16,"value":"912362e35d5e82442d735edb658a55ea67d199ad7bb4a5efc48626721d740a5bd1d337d3fc4cace4eac2726f3004eefe071631c3ba81955c90b680fc016b104b8f9837b4cb474511f7613fb67afc6f3beb5d171ab67d7e86c4be080cbf33654092db32621d6ba2905b0c17f534e2bd477fa674c006253b578c8c9ba201a6e0fa6c3c523c20ee2ebc83d99b4a7a70ed382b1c09e5e7eda75290a5a4c9f3ed8c70"},
"s_8":{"radix":16,"value":"227670310d86d07b1f717611fcbfc4dfbb9484bbff14b01353a08ad45781b1d811496b90c22ad82f97c77b005249d28b718d30b2a5a0ff5b1b3df58b0e85c1c6ec32ff7f9d2dc5ba9deac109d4c4ff0d51e4fb89a3557327bd84a887dac3f4400e30f81b2ea4b84d2002fb1b9146c00b2c6b38a355a31f29cfe2f81c0990fde4be113cd6ee7eccdc68ffb0f4d26b0eb59a8631642903f998cb19727f3820fdf937b8d18d8f404040dfa0f8ce9d28e0fa9fc3aeca0bbbcb8918e14849bb28179bc"},
"s_9":{"radix":16,"value":"c91a577213baf97c03b51c20f22f6e64667c6fb7f2596f3a17675bae7af776382dcf36a7b50223503d991f000bc7c95ae399e572f0b4a32f0ebc4a06ef6247957930c202ec9ede21440b65e437a810ccb7a0e848d6eaa78557615be3f5881f4e45967f4319d2c91a9475a6f6089835a963812ebc23424b326ed4ec74fae8084fa2f96ac47b649a1571dc9479b6f8620307e6277cf37c39a81de57df82bc63e2f"}}}},
"tp_cpk":{"N":{"radix":16,"value":"2985dd9864888dbb3239014dcee2ab5e9aa3ebb2a2948fb85860204be78d77a6a5f7b258a7cbf7ff215bb1697f6737917013708f66b10bcb8fcf8be90caf0d6c5d7a7de6d0329f5d849f0be5c9b16bfe4df1cf1c87a3ca338524d5105849e72922caa44e3658bf2ebae0e9aa5ce0c5f4e0fd05dda60cea2b03a951b0e51c741c5"},
"g_bases":[{"radix":16,"value":"16de2076a293c94da91bb7d9fbd6bb077e0fde4fefd2b1816e7ba03617d0f7f967af0c23eaeafff835910c55c7caade2ade32d581350bf8a686e8b98cc690d2bff158269810461984cca5c9bedf973136bc1d9d37807eb38aa486a5566191cc169d6f21b2382d10e9709505168b21fc79d2fbab24191998436ebbb878ca8182a5"},
{"radix":16,"value":"6ed4fb8c42e8d312e837cfdd8cb682238c1e329a6e5bbdae2d1307182e3613a47f30fed362b31869b418b06eb23fe20b7290752d7a045c1fa216ebe2ebc555b034f025288dee4c6de520de4c1341cf1171e963d8655822ba483dbaa7402f3a8aeddb7a931dc64ace6d21787afb8d787570fab9fd25af5c6f3e78ae086039ea02"},
{"radix":16,"value":"12dd41e4590be601c370f6e86f9e79298f4766bbb6a12038596f0456e946c33db0b55fa2b86567cc39ec14a80461daac5dd0083a7ad19f28a08c5c96453e3dc273be64dd662ec849ff8adb100d5c9675c8cb3097d68047c2ed0a79ae629710748c94f9ce8eaf9a8891283dd744906963be4937e067129e8290f8b6b5ae388a61b"},
{"radix":16,"value":"b50941f0a72e6bef74fabcea897fdb181821652d28a0c62d40cbfb3f6a613a4c457068174c432a9f9090c4f4513375afce670a1b35c313eb3d0172cf94410e8e3981f07f0e0419e3f2fb0ca62553cc439ac283944a98bf7b32e1c623190609e5e855f36ad643e56758ed1c832e52efedf352ef725846b478c9b76b7ba1885bbe"}],"h":{"radix":16,"value":"1e9eff4e5303ec01c02b477b88b44a67211934a964b929747560e14cdc718b564097ffde0045345a820f97da92601ce4757ec6ef3ae0205a7a6db906f29546f20b770f10dc41e46cdc5fdd83de89d2aa893ddc51d0ca913112d87f6cf12fa10ec206e316f2dd6a26ebeef639c59a8cf4ea0fbaa700fa9cfb8254a32f417424e70"}},
"zkpok":{"CL03":{"proof_C_Ctrusted":{"challenge":{"radix":16,"value":"beb431c3cdea7be7079e4344ed226aef5c740f919f50fecf2c66237bd7726bb6"},
"d":[{"radix":16,"value":"31772f34dd35a91fa85f3fab10f553a40a80a667b71cdfebbbbed6c90ce795bd18c0773535bc4abbf489c546e277436251bd9fc7267d5796172c52c43744b622"},
{"radix":16,"value":"348738ae85bcf803b25f5dfb174afacabf4f7421a02ade5129e402a72fec281bbc6618bd16612f8e6362c4791b40bc4a4107704baba6d5b51b229bb8e8ac23dc"}],"d_1":{"radix":16,"value":"981d8a95080d84849db60f29871daa719a81a38861de3d0084d4df7cb24c3ce131909e544365ca755e8882ee024de4cf36eff50e9cacd37559fbe8c7927c7fcd2b8830959a25cf9c066da842d8e303feaad29ea26a157fe6a49cf863e67fa497e665ccbece5760982924f5fabb0e88beedc1c4ffce3af294e894405c8a7ee5ee0a131069153f9353d2cd3ad9426d5ea59ad0f94153345723688b61ced69fc3de"},
"d_2":{"radix":16,"value":"7ee565c7f2c048f150299005dcf60c4c8766368b4f4d0c5c560496f3646b760e48cd5288498b91caf128f55f141737e639d586f242f2e4d9bf0fb3a1f6a54ea0036d21b296e2b012931fdc60d17e4f53103e2ce0b57aad4f8b48442a2cf46d41147ea7b89ebe4e6b923a7f37eb795858efe00ea9bce8f95fea1ebe726b16ae787a2cfcdc239cf4d2767f210acca72d0f400c6361e508e8f737e225839dfc38f3"}},
"proof_commited_msgs":{"s1":[{"radix":16,"value":"1356af24b3684a82ec040e3296b2d46ccb56ebcaabf2dc50449bd42b495c99de777e2a4a28351b9f8e1f1b1207ff60cc3f0effd7f0b7ca2b5b214a1672b9a724"},
{"radix":16,"value":"14893445236be03d40d8ffff23c8191e37cc191a03fceb02ce7ca029c059d523f96de68cd8829c8618cf5ee42f17bcee02f75ff2443ad2b6062bda0cc6a8a91a"}],"s2":{"radix":16,"value":"3b783baf1f4201a78eabb6d8038307744568ea9592b7dc5e6a12d21717f6c85372ebd262f739d73d92944d931bd7aeb25a4515d24e17520cbb95c77f8115c9066c598a3e2ec06b45c5040025c29be52d5ae21883e7f095db282b2fac78f3ca452cea48e2383e0f37f43c6aabadffe4b5c50f400a1d71af95b6423d32ab32a99d5e02788aca38ff2a4c179c21a80d06eb898ed2dcf5bb795a1f3534475f5b9aec"},
"t":{"radix":16,"value":"17eebd05c22616f948901a9dc0b1ced1b594decd2645aa2ea71bcb0a9386eca85a56a032926361ca1cf4aaf65de51cf62460af10677d86bc719cec6e426973e25cd79fcf9076ea1db720b0fc034945562d6edfdf54bdd7f2e9de11bbdc114bdfa3b471b4fa60659207395656d838fd54d09d6729c9cfd0ede2604dcaa846445a1"}},
"proof_r":{"commitment":{"randomness":{"radix":16,"value":"c1c92cf3bd08a0881dfa28f66b4173a955eb3241550d5f60a7096d4b1e9b2a85faf3f90ccc4ce120cf2815b431cdebf9fb2f32ecc8b13dac49f519180d7d3a1f4d8ffba558d8fc16f6bd1a6b112c0efc1d989781f243cd7514be2323d46315e8fe6b75a3794921140ebf89fb9ba81b11a9eaf564eafb729dc5fc92bb6ab41db8"},
"value":{"radix":16,"value":"137144e09183f48419d3ddb7660cc09b51afaf3e671bb971607b3d66f03f4a64c0b042439246a5bd3a2642844f890bf9675f8e87267911737de6391be649c393a7b388175ebbfa9d6ae5b03063b9be4e3eacabed394af4e19c365f948c4fb988021abb33bc12491895d56171ff2273bb2558c9d7a61da8659da7b29853afe29b1"}},
"value":{"s1":{"radix":16,"value":"51b1a6c444f363a021a00526261138cc7d6325a8566d5938ada6fdd62219e6ae4dff19256ca4932bcdf0a159834210ca3e9569baf5abccb0c6dc8e943f2c77fa2573e3c2b0582071372c844b6b806d235cf9405a79838d3c21fb66be4855cdfea0c3db7048ae5bc60761ac35840089a34d5ab384d8b92a6bc002eb53b359168fab72768f0343ba04d357171b67a1161198449c5fe19c877e6036c1a04057b728"},
"s2":{"radix":16,"value":"4d8728452c93c8afb0d00e77e60fe8eaa2e34f6d3b217dbe6fc7114b298567f74208610a90454ac5960431ed264c3ef56019a018009bd5ac307d274f390d9ff10d815849603d7228dece43340eaa59fd48360afbe022e25b06e3e83d3f8f57a20cb4d96e8ae2f8ca6cb2f0aae6145c3f7ef3ef9c110634c5eeeed6de649ad3f60d85cd5e99cd1607a868016211f8f57523a1dcd963ea094433cd435faee58c4b"},
"t":{"radix":16,"value":"a014bd9e2f3032fbe812c38792fb685dff85e81872b43ab677349e8663358142676b04e18fad7d5d075f7280c91b130993e5904c6e03ca806cafe31105aa9d39ccfe757b82bfe1fda207506b091cd17edce3f51c632be5b55a25c8df63e2705c0fb6f9c00167d90b9868fc5269143d6243a7f51ae170fa9a4395415242762a40"}}},
"proofs_commited_mi":[{"commitment":{"randomness":{"radix":16,"value":"add78d1ef2ad61ba5a3c9f5345e8804bfc3ec1d2f2bac25951a52825a3c0f82c2c61327f4377782b109d3e956c36877aada3c1583c6d97110d8c02ee0e5a2e454a4e4ffb4b2c2f1ab9e7ae1713539cf9dfa2783a96c90346eb0d4e186c1f496f2ba4dc209b484e1340f29a5c68abcf1edbe893e29ac100338f5939f553c4859c"},
"value":{"radix":16,"value":"8a73b1a5601b175bed68649dfdf7d9a67b690df6291e617173f3bb5d2060d2e2596278f5fe911a5d0f02493b8f1bd4d79f38b476b6133039deafe62cd0dac53ade8b5921abfbd27faac889a2797350a8c7cd12365357e7b3907e2709133090df8e196f8ca12cbd6c8e606744c9df4ac08e870c491afaf201300e4230d4a6b1fe"}},
"value":{"s1":{"radix":16,"value":"3578691bc6db3072937674b64e64df7f3a7691e767dd009c4908b63ea90070b245ebcade9240346ff076b601f51f7808d50d45e5c519bea3ccebd56a13278590"},
"s2":{"radix":16,"value":"8bfc6584b0b5801f76998a3f2d365376f16580f812f2245016ab07d13eb8d583ecc433d3b60d569d564565d27387fabeea4923e33bd99800b1d7e944112c91bf8ca65def158ed15306fab7c2708e7a11ce9077316bf3132d0a0df4161c613c576d15fcd29f85702963d21d7a48f071ffec3564f3be9b2d601f627ca91764015d2c53d3cc5ab458f8ae916b510294acefeb3328102260125401e31b4e946548c0"},
"t":{"radix":16,"value":"1419b4d14ceab2f53eac2b6e5913f08cb1abc7122c34a67b31a3d1efa596024e005706777676a91593a6e6559270b04e3044cc03c0b1d294606a8bba167ccffc27220dea9a2d5d1a60036c9e65e38d6f7f6db1f1b4197dd88f95843975f419e27b96fbe0f5fcdf43d75cc971fbe44f594c05a75b01387628b50aa6b872d7dd36"}}},
{"commitment":{"randomness":{"radix":16,"value":"bcb59ce76add26c7b662ef0dc93677f4f68f822e26e2c878c1e52a5b1bedc39773b865f31e128d30898c1420aa14892c82b027a2a860019fd0865c0799f83fb537a91c1ba8de2bfe7867798a75684ba16ebb12c02d06f0a7c37f87ae581f74d40f6b1933cb11129139541cd61f6fc957e56876026aab2c930b43ba87c04166e2"},
"value":{"radix":16,"value":"143e43bd96186566e8e77bcd4c4455fc0ff8e131ae43420576d67ac0fa8eceb2cca7db8781bed721f7c0d2214d57f3f25bb53d6de4ef911b7484d2268844239672e6e4dc571b7a630abc5ec40c3b0d3c100ee6ecc60b823d43296ca458e4218cbd58f88ac2ca6813700fe293ec038e1a75afb65962fca75aa60c7ba69ea4a7b8e"}},
"value":{"s1":{"radix":16,"value":"14c15970fdec270d9a591089a18614075b6efd432d071a7cb97d08478721213f3ad3415a36411e365954fab055b5576f5843f7a612b0adc9af9b86ec97e873f5"},
"s2":{"radix":16,"value":"378ba6c208994d2c1b3c103ee10f17f8bca68b5d320a149cf83c842020205263381bfcb3024bd17911ba163c611bad52ded6dcbaf2558959ba52c6f136a16ae8f64287e30c92e0817f8a8d2ac0dbdfec3c41442500dcc01446b45e04051984df9babad305c04c3ca56da5ed65a93cb651f4a468e38122f923f1f1e67b6af1b18a0192eac19f8b3d454133482593b33ccdcf3bd919578e7ca3e87c93985cd31d1"},
"t":{"radix":16,"value":"12910b2c3bed729a5349a5ff8fa66c00e8152ecec3b5ccb0c1b369cf626ca8c4d5b2ed84099ba00b2b1a2706440b2a8386d6574abfba25425c61d457e870628b4a9e735650a952f72d5499eea993172437105f70f4cda45d6cfd2482e072da413f908568c9d332872625984c622f15bd63acb8db90905b1df94905d53f9cfe074"}}}],"range_proof_r":{"E":{"radix":16,"value":"137144e09183f48419d3ddb7660cc09b51afaf3e671bb971607b3d66f03f4a64c0b042439246a5bd3a2642844f890bf9675f8e87267911737de6391be649c393a7b388175ebbfa9d6ae5b03063b9be4e3eacabed394af4e19c365f948c4fb988021abb33bc12491895d56171ff2273bb2558c9d7a61da8659da7b29853afe29b1"},
"E_prime":{"radix":16,"value":"13566b554c5ca90cb3453b165f2ba243f612ceeed999ee778df6972f03a9b9f509b8e31393251f2ba2cb6d3cdea5d11b6851a0230c716966711ddafe8adbe41b4b8e190cf2ca8533b963150a66904f38ded56f7d873f920841fcf4530d876db1b0402b520bf5b79b7bf6c12feac22cf0cb582d67a60c4cc06d63f722505b30385"},
"proof_of_tolerance":{"E_a_1":{"radix":16,"value":"5b18c2b9bf08f05bea31cf534b6473dd3a05313eb027e4da4783501ca8f484c1980455f7fa6cdffcd9f08ec5769e4c0601ec0efa7cc21578aabbe7cf10430ffe2d61f7e0d2839db8c74977cd628829257f6c444c7875f20861949845ae8f76369c15aa5f2579b4fa14f27d8e493f0ab23fea1537504234acf87db320a38cd598"},
"E_a_2":{"radix":16,"value":"15584932015d8ba35d8401c099a24d5b2c65e92821c73124a058c3091a11a084fee971ca443f960b5834ff6a318d468fcd62228ff76f7971cf260379e097e304d062c20b4eea864b35e396aab08ebb00fa3949679d3caa1b13447e45eb7981256cb77d51cf4db2aa1ae66dbdd0029a46d6fb6b723dc334b029e6100ad5729a3bd"},
"E_b_1":{"radix":16,"value":"bc0248b2196d20ed73dabc5fab3b2b17cd147e90b7f69a5745902f89d934cc5e1f8f94682197f7523b7ac244a1107da30633f1ecf9001feec3dd10fe66bafc1b4aa09b1d96bd1221eec021c54dae9b7c0a578f285c692bfc625ea52744d39bd77525367a08d185d03e398e772b0445e1ded1b47699b9fc7e877dcb3cc9bed820"},
"E_b_2":{"radix":16,"value":"495ce9cca33bcc55758c20219f57103f4c5fd12301ff62576a9f5da696fb450a294f4f4403d2ea43d3e7bcf6c3bb44d74016dccec55020068725d9e9ddea77fb348269e8c212ca9b2dd72454f5d2a8d15b4de9e22a06e7233d5a99ed64542fec2b6bdfadfb5eb5cc1dd17b218c9a1055bc46928af0df3df12c1cce0da80f7213"},
"proof_large_i_a":{"C":{"radix":16,"value":"621f8c576ca4fece2851fa9875f46ba518680cdc972810185a398bf145a05b35"},
"D_1":{"radix":16,"value":"36c1fde4379a233cdbec3a3876215c927fdc3f106cd95979aa10a06cc2e9fe1ab1d38ae4619740001153732792824bfdbec14f32444242db757e5a40e16c37d0aba9e090fafb6995cc91ef9c74ac8337bf3d92815871ef0bfd1e33c4879984b631f75ab49e1b6d96372fe4819e2862baeb6df822e13ffb218939847995c67542d637956ff61ea4d4642da2bc13365525cd047faf0b8ef2b94d6b0da61ceac4545fca9fd387c250fe8bca023ce1d1da2e95bff90b75c4a85652888b8a33bd4e151ec6f0395f2eedc799a1d682717bb48806fecdd3f6b04103a347e3d589bc0c1e575b377f00ca4ffecbdffc3429d6c66bb1315d1b6c59e5b4d21dc149a9b51ea225b3f1922d0565389a21a04bd5a6468550e5e6757f705659d9f33817a1efc9f287fdc9ccc8c4bfd47768d9f0600cf5e8c31e4bb157ee8b0202379d7ed4bb07a"},
"D_2":{"radix":16,"value":"33a98e0038bad14c42cf3b12373113904c11321a521b13db115be288bd0c54b2556e24685deeb0d93f7c5f0b70c915a3fb203d06555113301c5ebb5672efb16f3f1c005488a1111f8b866d2b70650f948acb6a24fc0295e408ab374a8b187a19ef8d4d218b1c7423228ef758041bd9e02a4a9a4385dd4011f76912e18b9b8888eb6db50d695af42b93e9f490311fa4c5860853b7d53b99db09910f6e1ed95ee8bb968f90934b0e2cb09b57491c5902a503d1ba4a01384ac8d1f8320ed0dbef71fcce14a0f304522d998a0fc88f3209a0d6ff8863942e3588b407554606873b6712d4ede3f75219532fb5d350484aa827578f178342b9f4f6d12a7a35e8a15b4d86700bc9d3347544aee17b6012f47138e2dcd9e3801e73a6a79bda697b93eba93b941652a18863539cd54b5971258b9940eeeddb163ba3ebfc285995ccc13073c4c26855b"}},
"proof_large_i_b":{"C":{"radix":16,"value":"5e746524d1e16d5584f537a21e7d29ca28f5ce00f871bff4f48c6fa2ba85b426"},
"D_1":{"radix":16,"value":"1e78e881b4e48e64c51e9801c0d970863063e91b938c2851a205d434e1eba1cc41410c68392a5608201888cd634e901bbb1bdb0c4f96275d53584cfa185f01e68d94b319c14311899cd3141dbc111249bd3bc45ecc61dbf682f66db6aa8178016b734b915de1a792c5ed14b494077c55d01ca067b1faa83b5dfef3497e005498e8acc8fe5b155d86f577154ff378650ec545928a708c98ac936b9ca98b22849e8c7293a4f3127d0b6fbf65e8686fb034281aaf9b9ea0a0be8b83a81c3a14dc66d32e1c105012f71ebd1b6098537e81a1e5d50e99acef9f06e294568150d52d309c317284dc9adefdc0bfdff0c1b1d83bd991cb50624159d3662d54c1fe89723d2e6d80ecc9fe5d937430e81660b6695225cf55ce397ff806f1150ce8484cdd67d6c750bd0994206a6a8270c42ff19dc7895ba20724db373930fef734c85ada0"},
"D_2":{"radix":16,"value":"-182f1dc242bed27e6684275a86a916fafa8078fd5004b349e734c1908407f8ab54283500cc136ef7783155d6e4e1becdc3ab8314ea001e46d48e540a0da6d32a5f5067804b501b4695b31a9c3d1b9a26df837f2a8f825de5191d5eefc5941b40d9e7e245198eabe63362f40aac9460fb15a6f953c16d6bc774af0cb37fe11662c9fadfdf56c9cef170e25bda930956c7d9fc39ea496a5953cb43effd1cc7e51c356b77e9b3e2b7b4d0148845e6ae0a0a34edbe64a13a114322ed7ef492be6eef7647573d0289785e9e752e7d708321cef98747d6faeb285c1e26fc7b946b568bb58946f42418883f4f1b075c1b7aae8d2011259c722fd0f6165a6044bbfbc294a45dd366e795b2cc1837e4f834c172c1dd8488f2ddc62a4ae3bc604dc5dc0617dd67c7782c221e0b813c90f91ef249b79e322e3ef6a45cda6916bb4e0688937b6b998e15b"}},
"proof_of_square_a":{"E":{"radix":16,"value":"5b18c2b9bf08f05bea31cf534b6473dd3a05313eb027e4da4783501ca8f484c1980455f7fa6cdffcd9f08ec5769e4c0601ec0efa7cc21578aabbe7cf10430ffe2d61f7e0d2839db8c74977cd628829257f6c444c7875f20861949845ae8f76369c15aa5f2579b4fa14f27d8e493f0ab23fea1537504234acf87db320a38cd598"},
"F":{"radix":16,"value":"1214944eab3ce35a850f26a803b7f3dd291b26eb6d3f0ee72499237e0d5f5f3afff2078314f3f0a3fea501d1498136349d81b310edc9ca94abcdda649fd0597cfe7bcc90d5084d8806f131f920598ae8f373006f6ba5c00f53fd6b47a9774ace3f5f234bae9413d26e9506c42b76d463473ef885ce7fd2494e133de97d65bb5"},
"proof_ss":{"challenge":{"radix":16,"value":"828d36546d57fa6d1eab710411e557aaab469bdafa39eeb7dac09a8659b113cc"},
"d":{"radix":16,"value":"e931e4db2e83e95de158970c0b688ac580d9c6ad0258231581ba45ab50538bbfaf4a818d464a8ef9720ca6651d0e0645a0d2a9dbf29f111654052a071d7a51a5262d876f4a0e9e91fee1f0f1fabcce1be3c995bc2dde65adb5c16eb942ba819b7dfba30c08ce25dd9c15d42ee583739a68a4481d2034a4d04234e8e04712851b9a563cc258b423e1f113a90d8c63bfc16e55e4244805d3349a048ed0a23125985af50d28d97820c53bd2bf02f71e602bcfede1375e"},
"d_1":{"radix":16,"value":"b8e3591985757af1b0693d255088447b162e1459d00efb9dd15451bbdab9cc4523b7162718b058522b7f8769008ca46201644428557a67bb229fc11c0eae52ef9d8d0bda1fdb9158338d5974f38c84efac2bcf828a7bc715797f2e6a370c3702b9bdbdb3a9421c8b944a06e0bb00e4da4fb230936afb78b46ddeabfef0bbbca64d782f269ee5b8248865ed90fb8703cd90dc55e61ac09a8fb4da1c1b192c77b69fd60de021"},
"d_2":{"radix":16,"value":"20a44ef6422ee3dee9b8ab53041810a7cc0e63a228d61045245dedd7c332a808ad0952dc0df34b51953548dafaf8a67b8d94459103f64b6548bee0cf69de037bbafceb2aaaff3d532d3e89bdc79d9c58f65e14c05f465a7bb338ea172a22522fe25d7695e85f7d3af05c0d633b3ed8a824027c0d4c40bcf51f5361bffe38f0cb2d488b05b77bf5d396e6047d4a55ba3cb54b2d1a6445558fdb76d90cdb622fd128a0e5e8c6c255783b843385be3e353265952b0d59e0c3269c9b7d2685dbdbe6f71d36aa6b431ae3816c7ef4be27b53f10cb277f9b882c802bdf5c37371046be4b873132d1ceea274be56dec42fb10dfd9bc3d386747cae48def77af81c5d18468f6c6e7e437837742c0036f7cf2eec8c4e2de74345ecc7eb9fbe14760338deb20c3ad4f5b55ec4bbd2003f8a5815ed3a2e81549c0c9d737f59219c51d975b0d3e843da8cd9b37bebe2778c6c5f76b8"}}},
"proof_of_square_b":{"E":{"radix":16,"value":"bc0248b2196d20ed73dabc5fab3b2b17cd147e90b7f69a5745902f89d934cc5e1f8f94682197f7523b7ac244a1107da30633f1ecf9001feec3dd10fe66bafc1b4aa09b1d96bd1221eec021c54dae9b7c0a578f285c692bfc625ea52744d39bd77525367a08d185d03e398e772b0445e1ded1b47699b9fc7e877dcb3cc9bed820"},
"F":{"radix":16,"value":"195733e2ca75089559a4661547a0b96fb0ee2596b81d314aa3fcc8df30ef8c33eae3e2e2f3b5ae6747571aaed0b5045b7cdce444546f3246de7c06d1fbc8eb0938844f5412894f9cd735a5907bad36132194eb7a5404d5d883dfe1f74eb8141ce78d2f95dd6444e9d59e649764a0c697eafad3b1589b64c17048fe2c5fe0ba881"},
"proof_ss":{"challenge":{"radix":16,"value":"6758d48918de3f8a37990e03e929040905fbf87d6bf8aeb20d0ba2934f0fb1a2"},
"d":{"radix":16,"value":"5cfa30ad9b7674a2b420c018d0b42acd472cca9dcb88f12c2c9d61ada5d552923f67ac5f177392f4523d1e0cd8b2704ecbf7946c0b6f1a6b2c4dc441532ee01fb9b95c52fb2796d7fe7156695c915748847f521dbe2cdab284ccfb6044358af1cac2074d570f9dae152a2f3f8c9bc95c8c70d51633d9b2165309f94f11925c98375af2fbacc93bde0a4dadd66958e62200578ba60f41433df79bcdcf4a41f7e1a0dd4a8952559b1d41da07be842bb58f656f6f3318"},
"d_1":{"radix":16,"value":"-10dbf52455a2444f6f4b4753a6098fa03dc76e80a2480c8e1b4e8ab384a2a1fc2573089c6391f9b0f32b99b727ac4be8af202beb89fadea0e0132ab4f334703e51548e3ebb9c251867e5620ad13dbb7efb9af2dadc421e83030cbd0f4b768e4038fea3e24f9287143df7b212b8dd41a68ab8b6b9ffeb5cae74a40ae90a3159f4640d7f30a0ad67723e88a94746eb468038405875e404b1694d950df4532fddfd8321bf6f24"},
"d_2":{"radix":16,"value":"111933ff3f010f0a4567bd596dee4ead25561d3154f68394374f1d37a42b4b8ce9d74bee6f39a740fc040fa40de33b69f6c63c31c60b5780e32df476051160965bc1b665140abeed621f71444abb3e85570f7d102bc6346933cd99ab6b45669f16754768d377454288ec3d1bf16ca1f99d6342ddc4ae67b773bcc2a1f3606979b73770543c898d0825770c9057a6b0d8bda0cedf2b04401303255d89f1839e90db70ac50b786d6ab3acd78454d2f501b629678f41bd474bf0accd0c9284a7d03bc9669e982fb5912b8a4584d4c7a60473db46642c948dfc9e6270ea685662792596e45959eff19dcf285c5f379ce96529850a5ef48a8df029936f69cc082b4f435434b160680d209fa7e309733f19abfdf2e52a385145a773dc555b9b579879526e7a7b9450b424fe2dbb9ad57cbd3ec9c7b516a97e72a5de49ee5f8f3b2bbb49b65c2c97164d2851bd78febe8f487"}}}}},
"range_proofs_mi":[{"E":{"radix":16,"value":"8a73b1a5601b175bed68649dfdf7d9a67b690df6291e617173f3bb5d2060d2e2596278f5fe911a5d0f02493b8f1bd4d79f38b476b6133039deafe62cd0dac53ade8b5921abfbd27faac889a2797350a8c7cd12365357e7b3907e2709133090df8e196f8ca12cbd6c8e606744c9df4ac08e870c491afaf201300e4230d4a6b1fe"},
"E_prime":{"radix":16,"value":"7c4bbdbd572fa74730b1a5d29245ea162462314a630aebfcb5956375cbfaa4e038742a6a196f4fe56f9a79e655b1f2a28f186abf10cc622c31daae0472d90b73f335d7bf2245442fd7c7b16cc1ed35ae9a157010c4aec6818e71e81eb4dfa6349ad16e721971d44c2b59e3f659d6279f84fd1ac11e29c096e82b7c3ef7652dd8"},
"proof_of_tolerance":{"E_a_1":{"radix":16,"value":"117b215671570187844ada93d1330ce772a23e6f891c102a1ff0b131203dccf3149ab5b8dd01bb4df50786e42c8a43c516fce7fcdd0d1525759c4255b79be568d2cd7bfbb7a5f0afdfd453f056ad0fc1be6e0447b5d6ef887a8023af4cc77ac4b5fd4876a186f8634ba7c08790ef6c6eea643981a22728a38af38d4b261b5c56c"},
"E_a_2":{"radix":16,"value":"ae70f4f965cb078893e148c8dcabffa469615d4ad19ab800e411ab1436f810588ffeb29acc6b5ed5676abdf833bdc7dfe32253ee43c172fb326d2ac7bc5d426b1e34ba0d5573cdd50099d8a76e5db49faa2fe4919d955ed38321d190fcb289854c2ca25dc5365915b4dc20e4163e4eb384b3d7f000017692d1c0f01508686bb4"},
"E_b_1":{"radix":16,"value":"6c9583149abe5127faead11fbfe98bc45d86c9ca0faaddabf6e53ef5119864340b580cf79ed2683c71f59c6fa15582a6b45416daa266081efe7713582281555e68a968c0a062aa2b41fbd5c03b72513ef12ea9e4fde35955fec2314eb17ff1e6084cb4f0de35e232ee0d975637be22d10b9cd0a2692bf4c3a595d364ecdc0ec8"},
"E_b_2":{"radix":16,"value":"c12cee9bf0af9672305aaaa6c95aabe1feaa1793cee1d5fab100567bba208de92ef79aa238c72f4c46ad19ddf14bb6c7d4011d69c0c43421b37ef07316792a11972577d165939194761291b8801a0904cfd3238cdf3ef08a439da40cb82e95f440b231a87beb52db395b306bd636f55f61c4e31000cbe5b6264553b8df4df0ba"},
"proof_large_i_a":{"C":{"radix":16,"value":"c538039fca5a764f9906f709afdfaddc474c1f2739f3fd67c5e7fe583fff6ac1"},
"D_1":{"radix":16,"value":"442fff516bf4186306fa1ed70aa5500ce55ad8874d6de6359f481ef06436db61392be9438f2522a6c04c3647c432738c7cbeb052df936c28d4a97fd1e22ce31c248310b1a11cd9fd45fe1c521714745f2558071bfe59896c6e4245166294f49582fafcdd71234d22c923fb92ddacd1c3e0caf93f9ef3965f68f8deba4518a9"},
"D_2":{"radix":16,"value":"2245854f8c4d1fdb7c5f04d6ac50010fa16793639ab8ac3d7e7f5d50e885eb208777452312bf2cb941f3c167bce76ab799830700bb17233596ca591abc2d8e4cbdc1cebce5bb9a2dff976d97be9fbfc2780198fa6a4b832a899493da2a9905e94d3f963777205767e9d22319067799cbdb9e4192eb344b89332d6147ccb817139f856780a1b240e454daece0d0860c35f1305d574550a28c9b8ab573c7fffa661abfbcdfe8a8ac13790dd04bb85e5f60a04911d8a7235dfe99a1ba819817e33237e72d2e8442f7f7e79b85c045bb1959a43060ae5eacea247849e1ad12d445f5f559d3c85"}},
"proof_large_i_b":{"C":{"radix":16,"value":"ee3ff55cb256c30254ce324d3aeddb54ffc24e2bca4702e425fe2bb945f0d3cc"},
"D_1":{"radix":16,"value":"28d1dd1e39e21cb290fb6af21699770c08c175d7560d9f03f6d37762fdfd5b79a881d378fddcb78b6fe1310a81e8eabf6ccbd376a7ab4d911600a5e822117ea7258c17f02a28a32a1e852ad7143bdcd46b4967ffe17198bf721cb8d190219a31987fd2ee2b576a0e42e2dcabbd1bea5c4ac802f13c898a06a0a37ca496a59be"},
"D_2":{"radix":16,"value":"5aae33da6a3d7466b80fdd1b612ab611617219fcc291c6f54256efa16ddda4a660d8ce1b1ec566cdc008efdb20c2eb19191410f5a9a09c1f00274a11d81d04dcc69c77e20139add58481e0c9a7a751bc1b14fd34de822661dd4ece30a9e9161a61963db715305ea706d1d8b0c3ba0bc32cdbdb06b28fb1277e46826e1a0e2c6bdf91202c770ff66a8abeb1c4d72d2fac0f7546acc084e7d5fb9cd0008c575ffd22ad6b91029fc860a69315599721e3acc88b2310cc7514032d65e181ea029bd091cfbb40e988d59be1b663d6931ee1784b9018de841af70194550e4c98c9c8b2199152ff6"}},
"proof_of_square_a":{"E":{"radix":16,"value":"117b215671570187844ada93d1330ce772a23e6f891c102a1ff0b131203dccf3149ab5b8dd01bb4df50786e42c8a43c516fce7fcdd0d1525759c4255b79be568d2cd7bfbb7a5f0afdfd453f056ad0fc1be6e0447b5d6ef887a8023af4cc77ac4b5fd4876a186f8634ba7c08790ef6c6eea643981a22728a38af38d4b261b5c56c"},
"F":{"radix":16,"value":"1a95611a0a85aef6ddc20f19a7f45926ab6d05e099cf0e7644e4fcda4fc85ec6ff645003b026187483c0fae94094b24575b91d3e90e6ee58dba496f89d8f74538d3f7f810b7d3ee7272ba0927124657c795139fba0b67d80006f6c38409347b95123373d6309a7bd52586cb144e004069860eca1f30555c4f4a0d903a5af71e5c"},
"proof_ss":{"challenge":{"radix":16,"value":"b636fa2005968a2df3fa36ab3f28922b6c3ba4c57e72b190b8f83359b7f80f8"},
"d":{"radix":16,"value":"b99a65657899a7a8473f11e3e0929d5a6dfa544dbbd5fb75624938b6985089cabd912de9aacd92f46b2b347360f763d468eeca236d694cb009a3e4f75d3a5ae3beab4960bfac076a1298c26d1ce07dc98101e17c7"},
"d_1":{"radix":16,"value":"-f28302cbe525eef447df8728d74efcefc02b5dc82bde9b2243b39d65666757f0c5cba768cd44f961748c12414f41fa6ebe6c2f1407a7f9d6a95d8eeb14fb480279e1e621500714f7f208767dc655c2fee5a1115c0704c577bbbe94a1cf6a63988e41a546a02797ffdc8c811558222b25da01c81cbb90371d47a0890b26cdb0c21f91ed63d432b0c489ea466020d04e2f5d0cd2a918dccfa99f7abf01b3a23e17f87dbed27"},
"d_2":{"radix":16,"value":"3ceffd1ac248a5b98c2fec32e37eed42c0efce0c90112b784eff6671cc40902394fcf12cd61d8dbacd991eae65ea866e5ee6d39385d1b888e1404a3776b91acc4d0271c1def132af7a69b94475476dfbfa984a2eb00720e08d5db7c5cdcfe02048130b966db017e36ff28f2ae4d33ea5c01bfbd34d43d0a1a2f4be3bfc9df287a0c657d919e881f366e5f2abc1959cddf82a6d087fe09e2ddde1322760932c3c3281b82d61a077efa3c285606042075df4189ceaa3cba4cfff84f813cee22153085bf6febf322244f0760eed511704b35f132995244887fa88da230921057d0273c7976285e74da39f6b3e5a49900f"}}},
"proof_of_square_b":{"E":{"radix":16,"value":"6c9583149abe5127faead11fbfe98bc45d86c9ca0faaddabf6e53ef5119864340b580cf79ed2683c71f59c6fa15582a6b45416daa266081efe7713582281555e68a968c0a062aa2b41fbd5c03b72513ef12ea9e4fde35955fec2314eb17ff1e6084cb4f0de35e232ee0d975637be22d10b9cd0a2692bf4c3a595d364ecdc0ec8"},
"F":{"radix":16,"value":"ed5708e067c1b1070ea806186345e4a86239b25dfc7ed11d59e283951db8a92122d259cd1db96554261191e5e351e4e3686db327d93cc5867114f03f4a2d25c419b178609e342c75d3cd46e38b97fccdec29391718a72b9de741189cddabf51ca4da36e834b6111009f513c22eccbfc5d1978de394a3ce93d0963135b5b1034c"},
"proof_ss":{"challenge":{"radix":16,"value":"33a23380013cd858485a2389d09166f149385b083aa41a17c749e38024e528f7"},
"d":{"radix":16,"value":"58deea1280b9a08c8868f4365127b1a19b389e87de2b2651db3ed902079c3893f782f177dd45d1158f8c83be8167d644d1d7e6078c762caaf214f99c22159851048cd1c864a1d70b47ee0140b88255f8c975d9059a"},
"d_1":{"radix":16,"value":"-3b4c54b9286486ed34436e2166e2f5ccb4580a5714d4b3fa86d26f2bac624ea56f24a6222e8b88e1e32d9cb21d110faf0b64ae3c84192b1b832fe434c018b9db7bfab3188f5b83a4cfe0a33e84dccdb8efa8cbc9111e1b03f81fb1633baeadf177faccaebd0d66b41feda3d34edd54852ec09b0b7a9083713cd685611d25363a4625b965ef30efa251faf7898b35b54228540aa15f996c3069110c8141fc1484098993fd24"},
"d_2":{"radix":16,"value":"-628f236c2d336c11a164c32ea7786402a478472d02f7b96d30644c4251b17af6eacce54654983603d9bb5ae913c62e30bd3827e0a4cdd8565b3e49306d9c251d755abc50e79af0c944edafccee8229c30cd56da09de4a96d9f9605e2bf0517a176ae024d9a6a91f33caa3a760368de544a204a16fbb6425a3ee46d2aac4d02927a1010b943a13277ca69c34f70ac523c2a01c532bb34c92fee2c129e4c338cdc05ebd1c40dcb1a2e1e71633f80d4dface576e4ab6afc7499ab6687cfe0c616e0e0dca6ac4664eb96c2211fca4e8e3c9ebba140dc7dbde6f89e4ca73c5baaf90cfed22d433676ca5de183cb89367f32"}}}}},
{"E":{"radix":16,"value":"143e43bd96186566e8e77bcd4c4455fc0ff8e131ae43420576d67ac0fa8eceb2cca7db8781bed721f7c0d2214d57f3f25bb53d6de4ef911b7484d2268844239672e6e4dc571b7a630abc5ec40c3b0d3c100ee6ecc60b823d43296ca458e4218cbd58f88ac2ca6813700fe293ec038e1a75afb65962fca75aa60c7ba69ea4a7b8e"},
"E_prime":{"radix":16,"value":"10edf0e7a8a2b8d025385d2a2a5f6fe9303795fe298d60ab583acdca2d325ee7d844c649c13fb0dc904922d8cc7d97d89103f2e04552cb67a6c31fa0ac52db18154e284072d3b858e7882a2248d64458f4a751a3f4962982c1a34ed89cdad4ddb1c0755a3b3f8f887ea6df5a664fc90364a55a66415f739a8429a9c1292a4816d"},
"proof_of_tolerance":{"E_a_1":{"radix":16,"value":"a3ce8621ea7c270a21f10b1c8b685e7c94b1227fdfb0f00747df5f44359629361c810db0d82aea3067126a1cc7247137c5ba10e7e5a93fa4e1dc4a0bd39cd883877090c85f34862c0962743ac0d8a32f101f015ece349637a05bd5116c64abe92abd8ccac197491162bbcbf8d2f3af8ae116b125ca2f3c143c3d4da153c94797"},
"E_a_2":{"radix":16,"value":"131ad48764e084c87100e4f5bdce151b170c1561bef8b0cc1fd1e6e525328f246ee9a5d4c4571eee2033020c4eae6a72ead16cd909a3d2d8289cd47f0b5f9cf60070bbd26f3f2fed10021c17dc663bd982b5d9359102cd83093c7347ef2e564dc9acd2205976504bdafabb6f23e79fa512eb725976b6498fa657e6be617370ecb"},
"E_b_1":{"radix":16,"value":"16013dd5ab8ce2533cc7c5f02b8743da2d24d3451b373de6a1e4eca9e53e42f8ed2817affb6521651e50641ef6b26e4a7075eaa8a4013a29e6ee85627d0c5a8cc883342f2e9cbd88e738201166b9218ba885750895313a6edd740465a2bd509fe48a95f0a9ea1d9dd0142c0416e0d15bc533c5489cc558bd4406168317fa6e5bc"},
"E_b_2":{"radix":16,"value":"47dfdfea1b4dc7162d87f8bd45753533adf9ce945e14a03ab7527772c792ebcfb966e6bc0c50c34d32f6df0ed550900e81f76b0bdcffb88cde08d3bcef315f50c9b279bade35c6310d1d4d29fdf996b2934080bae97015bcece5e04d73e167d9f80740f8e57350e36ffd62baebd63f4e9a5a3e5d588d4ccf4979830f995293df"},
"proof_large_i_a":{"C":{"radix":16,"value":"5d3f523c97acacccbe26ef2ef994e53244cda7f154ecb1c6c06814c2edf94bc1"},
"D_1":{"radix":16,"value":"21d8eeafc6de6f73ce1bebb2e8ce23314628e2805c4d7ea8c3f637404edcbb56ca8f1dd2ba1210d417961ea90d8da8ba2ccf16e6d6191d3d59b8ed3edbf5a92dba7a030c0bd693263dbb75682cfdc576d837cc51a9885aa25e4a538a692dbf908f3758a954d332d27bac0d002b6aacdd6a8cb3f35ba3bf686c3fd0262dc37fa"},
"D_2":{"radix":16,"value":"1f89b0e2f00a78befc9061ac275bb0bd59831605859b388ee11e234955361e1298bc56c594d1b822a2d44d78dd7901f0ee91bb4112cb4a59e998f15288d72a2b36218defa150276752e59a01edd4ab835b7b141cbd4f0ececb51026591ea54b0c0a0fff24a8e954e6387e3cfedf631006fbaf0c124ae3430ba426355af45109cb2c982561f31b9480d1435a78e0303fb910f370a385d3fed588760585a4ef3f0035ea2d7f029b0b6eab7711f6daffe758ba0ea832515ad8590b868e499b7dec0fad43f7ff071da7198d5322a32b0a9bc238840fd80a9e9072ec95f5ed7c473512d393d69e"}},
"proof_large_i_b":{"C":{"radix":16,"value":"d39b18ce21dccec44b393c6b47b7c433e57a59ed0006cd3bbbe56308e61174a9"},
"D_1":{"radix":16,"value":"24d81ae9d0c11f168b8b5cba4fe310eed189d7b7bd54e2f8017d58b9e939bff0f7b59dea000c604eab4411682e96f54303738d905ad33b9b5d4f7fcbca6d5b208202b9e255fe715334f1bf89b360083b8d828c02b40ee141aa816b68907293a89706b82aa7436516fefcead282f722170f425d4ace61fe0fdd650c156cc3b54"},
"D_2":{"radix":16,"value":"-665507b0234a3692279c6a0e7582222a517cc27a4fe038d32fb2899d8eb8f12c5eb1efb9a96d1255fa6c7e0d1ca2dc37f84f3e2cdaa38c64fe38c572545d8c11a1846edf144b44aa498f48dc41c158fba6cf2543c4a541353e4dc4a10570936033de7c10da08d6afbad681ece4cae8808010a53d1312a0442e59e1158f76dfea15dc1e0c400098a7f2ccabd3ec320944df4a9bb6f4f1980293e23b1d1bc38d09bd69cbbea6350fe3544e71caa409c718b783ad4695047b54a3dd757c6f3d3a2b2279070486de97c08e1fc9badd159384ea316c6c095eed000589846bb8ad2ba06724aab70"}},
"proof_of_square_a":{"E":{"radix":16,"value":"a3ce8621ea7c270a21f10b1c8b685e7c94b1227fdfb0f00747df5f44359629361c810db0d82aea3067126a1cc7247137c5ba10e7e5a93fa4e1dc4a0bd39cd883877090c85f34862c0962743ac0d8a32f101f015ece349637a05bd5116c64abe92abd8ccac197491162bbcbf8d2f3af8ae116b125ca2f3c143c3d4da153c94797"},
"F":{"radix":16,"value":"61c29dab176cb9e3401310d2c5a46b090ce7a380d1c3275de9b2d4e96f0f692caa55775147cd5259a46f6d7fb5e40c4165ba4ec7b47c7b0d81f353815b93b752cfebed6d035caf599315935e900af73728666d9871390894f68b8d08f980da814b6a1bcc9606d80a92c938c155f8ac1152bc34c30bad752c9221efc949a6b2a"},
"proof_ss":{"challenge":{"radix":16,"value":"75c4afec5cf12bf32a8183f96ab45c8b05da681244922102b5295ec8fcaa4226"},
"d":{"radix":16,"value":"7b9db750822d295e175cca512936b2108f2948ffdb8a1c5ace2bd715527d37442a76e2403c669987359ee00f680beedce3776d628c51ecf0f349c177db6b577969b5cf9f58e339c3039bae499681f9e7e1c30f750e"},
"d_1":{"radix":16,"value":"4fd6b38f0ac238d8664c5fe0588d3c34811888cd5d7faca5bb2eb0dfaa64720d5aabba8ce5c65234fafa09047e2bc5985536aa25f2ab402b67a4b62b463dad87de256ee9b2e10f5a0badca58a9537437472a2e51ad1ae93773a9c2a4a8ed23928c48ac12fcfb8c318ca50bd2fd08d0b0b443409a0ac081f5201d9896b382c7cfc7d385b13346b79c1aa3ab74af14c52a7dd46e40ec1655ee913c25c99e11a670f1757fd981"},
"d_2":{"radix":16,"value":"2d25f515ced6e0279b31df5737a7b401f22b94ea90f8d4641a14a1a1e512301688caef1b2a5d4b728ec30dd1aa89f286ef6887068438e3400323e8f0871ee2fe9bcf3c160361ef7173574d03a38912083f323137189fa5b89617c21d68903dafc36ae48d856cbc195534015ff3898447c9cac97c8b6cbcb7d37991d0ccd1b7dd1ea18d723b67c7b52a7be8d659ef213c46e6348ebe4c756ac8852bad6f09b2d28b66f8dc304d1658ba9a44a33d0b16557ee9c27cb348593b4b3ffb85ade9df820ac6b38d00fa4fd11a6b3116600a3f40da087fadc3647e6c12097281871c8694d6df5055709bf05989f9ad84b71a74"}}},
"proof_of_square_b":{"E":{"radix":16,"value":"16013dd5ab8ce2533cc7c5f02b8743da2d24d3451b373de6a1e4eca9e53e42f8ed2817affb6521651e50641ef6b26e4a7075eaa8a4013a29e6ee85627d0c5a8cc883342f2e9cbd88e738201166b9218ba885750895313a6edd740465a2bd509fe48a95f0a9ea1d9dd0142c0416e0d15bc533c5489cc558bd4406168317fa6e5bc"},
"F":{"radix":16,"value":"13a76fbf64e8af942ff844e939a4ab1c3ff3b6dde6c6cc5269316bc000741a37b723205165029e79ff209d96f6b4a014c9d5d7f6419d1408cb2e0e6d3805ca1481b74f7be4655698d12c3b856478b37c53854fcf70db756332e1fdb23ae69434b5d8091c86cd76636997666cc394a45a555541b61623997d11751ffb493943d51"},
"proof_ss":{"challenge":{"radix":16,"value":"da99bdd14a6e089f768e6764206c26adb73b2419cf0cf24907f7086f16c7a5c1"},
"d":{"radix":16,"value":"174263caabf901d9cf5ee36ff02992a7686eacafadb20a1a5c926a1e9dd7cc376bc5ff91eed08864b56b645ee8d309b2cdf379c4624dde008bc3e731e4f66bd3fa9be6862ac42febd36ade989cbe7da5edd0ddf717d"},
"d_1":{"radix":16,"value":"-136b2ccdb568506a501ee622165203de2bc472ef0aeae490229a0015e044711a69477227b1b9d8f741818ed21e9c3acdc3e604dadd9b8fe79f7a4b7bc1d7cf25dac3da0edab5ad1e022ea3089152d52ef7974296692c18362cb6013295824d75caeaefadfbf93233c6eaf1fef698b086ec7f2224111b497a4a885682b8040ddc31a39a4051c4b7260fe1ef7859588ffb25e13b29374a83ca562402b982219ed594c36f97adf"},
"d_2":{"radix":16,"value":"15f9b1f7822b6a31aad0b836967b286df76e7ce717cd97fd19e0ef3cd659d8eaefd74751afa140c2aae0b54fe423c66ef263243cf277d475bf070b4cd598647f31d2da9bb83527a478b5adcb1eead2aa422e0353c307299d9feb0fa817001557ec5b2e25269284def84d72c8de4aa363906a1c99105e298e548d6f596a709d8006356c3e5cc0fe25bb0958ea08f9369bf544d63fae2c0c5d9a26f9532fa3162a03201e4e5bcee96507e11291e945a0d80a79efce87fe0dc9798f1e392ee29a30dd3779a9b5b92bba8c88166359c8020523eaf1f1d0f691fcd755f30b1bc642934eeba3f5fe8ccdd349f1ebb6d03f093"}}}}}]}}}
"#;
