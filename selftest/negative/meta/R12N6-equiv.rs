#![cfg(feature = "cl03")]
#![allow(non_snake_case)]

// Behaviour pins for the CL03 prover side (PoKSignature::proof_gen, ZKPoK::generate_proof), the commitments
// (commit_with_pk, commit_with_commitment_pk, extend_commitment_with_pk, accessors) and the blind issuance
// (blind_sign, unblind_sign, update_signature). The scheme is randomised: every check below is an algebraic relation,
// a structural property of the serialised value, or a panic / no-panic observation, all of which are deterministic.

use rug::{ops::Pow, Integer};
use serde_json::Value;
use std::marker::PhantomData;
use std::panic::{catch_unwind, AssertUnwindSafe};
use std::sync::OnceLock;
use zkryptium::{
    cl03::{
        bases::Bases,
        ciphersuites::{CL1024Sha256, CLCiphersuite},
        commitment::CL03Commitment,
        keys::{CL03CommitmentPublicKey, CL03PublicKey, CL03SecretKey},
    },
    keys::pair::KeyPair,
    schemes::{
        algorithms::CL03,
        generics::{BlindSignature, Commitment, PoKSignature, Signature, ZKPoK},
    },
    utils::message::cl03_message::CL03Message,
};

type CS = CL1024Sha256;
type S = CL03<CS>;

const N_ATTR: usize = 5;

struct Fixture {
    kp: KeyPair<S>,
    a_bases: Bases,
    messages: Vec<CL03Message>,
    // commitment key of a verifier: same modulus as the signer
    cpk: CL03CommitmentPublicKey,
    // commitment key of a trusted party: modulus of its own
    tpk: CL03CommitmentPublicKey,
}

fn fx() -> &'static Fixture {
    static F: OnceLock<Fixture> = OnceLock::new();
    F.get_or_init(|| {
        let kp = KeyPair::<S>::generate();
        let a_bases = Bases::generate(kp.public_key(), N_ATTR);
        let messages = (0..N_ATTR)
            .map(|i| CL03Message::map_message_to_integer_as_hash::<CS>(&[i as u8, 0x42, 0x17]))
            .collect();
        let cpk = CL03CommitmentPublicKey::generate::<CS>(Some(kp.public_key().N.clone()), Some(N_ATTR));
        let tpk = CL03CommitmentPublicKey::generate::<CS>(None, Some(N_ATTR));
        Fixture { kp, a_bases, messages, cpk, tpk }
    })
}

fn pk() -> &'static CL03PublicKey {
    fx().kp.public_key()
}

fn sk() -> &'static CL03SecretKey {
    fx().kp.private_key()
}

fn panics<R>(f: impl FnOnce() -> R) -> bool {
    catch_unwind(AssertUnwindSafe(f)).is_err()
}

fn powm(b: &Integer, e: &Integer, n: &Integer) -> Integer {
    Integer::from(b.pow_mod_ref(e, n).unwrap())
}

// prod_k bases[idx_k] ^ msgs[pos_k]  *  h ^ r   mod n
fn expected(bases: &[Integer], msgs: &[&Integer], h: &Integer, r: &Integer, n: &Integer) -> Integer {
    assert_eq!(bases.len(), msgs.len());
    let mut acc = Integer::from(1);
    for (b, m) in bases.iter().zip(msgs) {
        acc = acc * powm(b, m, n);
    }
    (acc * powm(h, r, n)) % n
}

fn expected_pk(messages: &[CL03Message], a_bases: &Bases, idx: &[usize], r: &Integer) -> Integer {
    let b: Vec<Integer> = idx.iter().map(|&i| a_bases.0[i].clone()).collect();
    let m: Vec<&Integer> = idx.iter().map(|&i| &messages[i].value).collect();
    expected(&b, &m, &pk().b, r, &pk().N)
}

fn int(v: &Value) -> Integer {
    serde_json::from_value(v.clone()).unwrap()
}

fn full_width(x: &Integer, bits: u32) -> bool {
    *x > 0 && x.significant_bits() == bits
}

// ---------------------------------------------------------------------------------------------------------------------
// commitments

#[test]
fn commit_with_pk_value_and_randomness() {
    let f = fx();
    let all: Vec<usize> = (0..N_ATTR).collect();
    let cases: Vec<Option<Vec<usize>>> = vec![
        None,
        Some(vec![]),
        Some(vec![0]),
        Some(vec![N_ATTR - 1]),
        Some(vec![1, 3]),
        Some(vec![3, 1]),
        Some(vec![2, 2]),
        Some(vec![4, 0, 2]),
        Some(all.clone()),
    ];
    for case in &cases {
        let c = Commitment::<S>::commit_with_pk(&f.messages, pk(), &f.a_bases, case.as_deref());
        let idx = case.clone().unwrap_or_else(|| all.clone());
        assert!(full_width(c.randomness(), CS::ln), "{:?}", case);
        assert_eq!(*c.value(), expected_pk(&f.messages, &f.a_bases, &idx, c.randomness()), "{:?}", case);
        assert!(*c.value() >= 0 && *c.value() < pk().N);
        // the accessors agree with each other
        assert_eq!(c.value(), &c.cl03Commitment().value);
        assert_eq!(c.randomness(), &c.cl03Commitment().randomness);
    }

    // None means "all the messages", also when there are fewer messages than bases
    for n in [0usize, 1, 2, N_ATTR] {
        let c = Commitment::<S>::commit_with_pk(&f.messages[..n], pk(), &f.a_bases, None);
        let idx: Vec<usize> = (0..n).collect();
        assert_eq!(*c.value(), expected_pk(&f.messages, &f.a_bases, &idx, c.randomness()), "n = {}", n);
    }

    // two commitments on the same input use different randomness
    let c1 = Commitment::<S>::commit_with_pk(&f.messages, pk(), &f.a_bases, None);
    let c2 = Commitment::<S>::commit_with_pk(&f.messages, pk(), &f.a_bases, None);
    assert_ne!(c1.randomness(), c2.randomness());
}

#[test]
fn commit_with_pk_unusual_message_values() {
    let f = fx();
    // zero, one, a negative exponent (the bases are units modulo N), a value wider than lm
    let msgs = vec![
        CL03Message::new(Integer::from(0)),
        CL03Message::new(Integer::from(1)),
        CL03Message::new(Integer::from(-3)),
        CL03Message::new(Integer::from(2).pow(300) + 7),
    ];
    for case in [None, Some(vec![2usize]), Some(vec![3, 0]), Some(vec![0, 1, 2, 3])] {
        let c = Commitment::<S>::commit_with_pk(&msgs, pk(), &f.a_bases, case.as_deref());
        let idx = case.clone().unwrap_or_else(|| (0..msgs.len()).collect());
        assert_eq!(*c.value(), expected_pk(&msgs, &f.a_bases, &idx, c.randomness()), "{:?}", case);
    }
    // a base that is not a unit together with a negative exponent: no inverse
    let bad_bases = Bases(vec![Integer::from(0), f.a_bases.0[1].clone()]);
    let neg = vec![CL03Message::new(Integer::from(-1)), CL03Message::new(Integer::from(5))];
    assert!(panics(|| Commitment::<S>::commit_with_pk(&neg, pk(), &bad_bases, None)));
    assert!(!panics(|| Commitment::<S>::commit_with_pk(&neg, pk(), &bad_bases, Some(&[1]))));
}

#[test]
fn commit_with_pk_bad_indexes_panic() {
    let f = fx();
    let short_bases = Bases(f.a_bases.0[..3].to_vec());
    // index beyond the bases and the messages
    assert!(panics(|| Commitment::<S>::commit_with_pk(&f.messages, pk(), &f.a_bases, Some(&[N_ATTR]))));
    assert!(panics(|| Commitment::<S>::commit_with_pk(&f.messages, pk(), &f.a_bases, Some(&[0, usize::MAX]))));
    // index within the messages, beyond the bases
    assert!(panics(|| Commitment::<S>::commit_with_pk(&f.messages, pk(), &short_bases, Some(&[3]))));
    assert!(panics(|| Commitment::<S>::commit_with_pk(&f.messages, pk(), &short_bases, None)));
    assert!(!panics(|| Commitment::<S>::commit_with_pk(&f.messages, pk(), &short_bases, Some(&[2, 0]))));
    // index within the bases, beyond the messages
    assert!(panics(|| Commitment::<S>::commit_with_pk(&f.messages[..3], pk(), &f.a_bases, Some(&[1, 3]))));
    assert!(!panics(|| Commitment::<S>::commit_with_pk(&f.messages[..3], pk(), &f.a_bases, Some(&[1, 2]))));
    // nothing to commit to: fine
    assert!(!panics(|| Commitment::<S>::commit_with_pk(&[], pk(), &Bases(vec![]), None)));
    assert!(!panics(|| Commitment::<S>::commit_with_pk(&[], pk(), &Bases(vec![]), Some(&[]))));
    assert!(panics(|| Commitment::<S>::commit_with_pk(&[], pk(), &Bases(vec![]), Some(&[0]))));
}

#[test]
fn commit_with_commitment_pk_value() {
    let f = fx();
    for key in [&f.cpk, &f.tpk] {
        for case in [None, Some(vec![]), Some(vec![0usize]), Some(vec![4]), Some(vec![3, 1]), Some(vec![2, 2])] {
            let c = Commitment::<S>::commit_with_commitment_pk(&f.messages, key, case.as_deref());
            let idx = case.clone().unwrap_or_else(|| (0..N_ATTR).collect());
            let b: Vec<Integer> = idx.iter().map(|&i| key.g_bases[i].clone()).collect();
            let m: Vec<&Integer> = idx.iter().map(|&i| &f.messages[i].value).collect();
            assert!(full_width(c.randomness(), CS::ln));
            assert_eq!(*c.value(), expected(&b, &m, &key.h, c.randomness(), &key.N), "{:?}", case);
        }
        assert!(panics(|| Commitment::<S>::commit_with_commitment_pk(&f.messages, key, Some(&[N_ATTR]))));
        assert!(panics(|| Commitment::<S>::commit_with_commitment_pk(&f.messages[..2], key, Some(&[2]))));
        assert!(!panics(|| Commitment::<S>::commit_with_commitment_pk(&f.messages[..2], key, None)));
    }
    let mut short = f.cpk.clone();
    short.g_bases.truncate(2);
    assert!(panics(|| Commitment::<S>::commit_with_commitment_pk(&f.messages, &short, None)));
    assert!(panics(|| Commitment::<S>::commit_with_commitment_pk(&f.messages, &short, Some(&[2]))));
    assert!(!panics(|| Commitment::<S>::commit_with_commitment_pk(&f.messages, &short, Some(&[1, 0]))));
}

#[test]
fn extend_commitment_with_pk_value() {
    let f = fx();
    let n = &pk().N;
    let base = Commitment::<S>::commit_with_pk(&f.messages, pk(), &f.a_bases, Some(&[0]));

    // explicit indexes: the k-th revealed message goes with the base of the k-th index
    for idx in [vec![], vec![1usize], vec![4], vec![1, 2], vec![2, 1], vec![3, 3], vec![4, 3, 2, 1]] {
        let revealed: Vec<CL03Message> = idx.iter().map(|&i| f.messages[i].clone()).collect();
        let mut c = base.clone();
        c.extend_commitment_with_pk(&revealed, pk(), &f.a_bases, Some(&idx));
        let mut want = base.value().clone();
        for &i in &idx {
            want = (want * powm(&f.a_bases.0[i], &f.messages[i].value, n)) % n;
        }
        assert_eq!(*c.value(), want, "{:?}", idx);
        assert_eq!(c.randomness(), base.randomness());
    }

    // positional pairing: messages that do NOT sit at their own index
    let revealed = vec![f.messages[0].clone(), f.messages[1].clone()];
    let mut c = base.clone();
    c.extend_commitment_with_pk(&revealed, pk(), &f.a_bases, Some(&[4, 2]));
    let want = (base.value().clone() * powm(&f.a_bases.0[4], &f.messages[0].value, n)) % n;
    let want = (want * powm(&f.a_bases.0[2], &f.messages[1].value, n)) % n;
    assert_eq!(*c.value(), want);

    // no indexes: bases 0..len
    for k in [0usize, 1, 3, N_ATTR] {
        let mut c = base.clone();
        c.extend_commitment_with_pk(&f.messages[..k], pk(), &f.a_bases, None);
        let mut want = base.value().clone();
        for i in 0..k {
            want = (want * powm(&f.a_bases.0[i], &f.messages[i].value, n)) % n;
        }
        assert_eq!(*c.value(), want, "k = {}", k);
    }

    // a value that is not reduced stays as it is when there is nothing to add, and is reduced otherwise
    let big = Integer::from(n + 5u32);
    let mk = || Commitment::<S>::CL03(CL03Commitment { value: big.clone(), randomness: Integer::from(9) });
    let mut c = mk();
    c.extend_commitment_with_pk(&[], pk(), &f.a_bases, Some(&[]));
    assert_eq!(*c.value(), big);
    let mut c = mk();
    c.extend_commitment_with_pk(&[], pk(), &f.a_bases, None);
    assert_eq!(*c.value(), big);
    let mut c = mk();
    c.extend_commitment_with_pk(&f.messages[1..2], pk(), &f.a_bases, Some(&[1]));
    assert_eq!(*c.value(), (big.clone() * powm(&f.a_bases.0[1], &f.messages[1].value, n)) % n);
    assert_eq!(*c.randomness(), 9);
}

#[test]
fn extend_commitment_with_pk_panics() {
    let f = fx();
    let base = Commitment::<S>::commit_with_pk(&f.messages, pk(), &f.a_bases, Some(&[0]));
    let try_extend = |msgs: &[CL03Message], bases: &Bases, idx: Option<&[usize]>| {
        let mut c = base.clone();
        let r = panics(|| c.extend_commitment_with_pk(msgs, pk(), bases, idx));
        (r, c)
    };
    // list lengths differ
    assert!(try_extend(&f.messages[..2], &f.a_bases, Some(&[1])).0);
    assert!(try_extend(&f.messages[..1], &f.a_bases, Some(&[1, 2])).0);
    assert!(try_extend(&[], &f.a_bases, Some(&[1])).0);
    assert!(try_extend(&f.messages[..1], &f.a_bases, Some(&[])).0);
    // index beyond the bases
    assert!(try_extend(&f.messages[..1], &f.a_bases, Some(&[N_ATTR])).0);
    assert!(try_extend(&f.messages[..2], &f.a_bases, Some(&[0, usize::MAX])).0);
    let short = Bases(f.a_bases.0[..2].to_vec());
    assert!(try_extend(&f.messages[..3], &short, None).0);
    assert!(!try_extend(&f.messages[..2], &short, None).0);
    // a failed extension leaves the commitment as it was
    let (p, c) = try_extend(&f.messages[..2], &f.a_bases, Some(&[1, N_ATTR]));
    assert!(p);
    assert_eq!(c, base);
    // not a CL03 commitment
    let mut u = Commitment::<S>::_Unreachable(PhantomData);
    assert!(panics(|| u.extend_commitment_with_pk(&[], pk(), &f.a_bases, None)));
}

#[test]
fn commitment_accessors() {
    let inner = CL03Commitment { value: Integer::from(11), randomness: Integer::from(-4) };
    let mut c = Commitment::<S>::CL03(inner.clone());
    assert_eq!(*c.value(), 11);
    assert_eq!(*c.randomness(), -4);
    assert_eq!(c.cl03Commitment(), &inner);
    c.cl03Commitment_mut().value = Integer::from(12);
    c.cl03Commitment_mut().randomness += 1;
    assert_eq!(*c.value(), 12);
    assert_eq!(*c.randomness(), -3);
    assert_eq!(c.cl03Commitment(), &CL03Commitment { value: Integer::from(12), randomness: Integer::from(-3) });

    let mut u = Commitment::<S>::_Unreachable(PhantomData);
    assert!(panics(|| u.value().clone()));
    assert!(panics(|| u.randomness().clone()));
    assert!(panics(|| u.cl03Commitment().clone()));
    assert!(panics(|| u.cl03Commitment_mut().clone()));
}

// ---------------------------------------------------------------------------------------------------------------------
// ZKPoK::generate_proof

fn zk_json(z: &ZKPoK<S>) -> Value {
    let v = serde_json::to_value(z).unwrap();
    // serde representation: externally tagged enum with the six named fields
    let inner = v.get("CL03").expect("CL03 tag").clone();
    let mut keys: Vec<&str> = inner.as_object().unwrap().keys().map(|k| k.as_str()).collect();
    keys.sort();
    assert_eq!(
        keys,
        ["proof_C_Ctrusted", "proof_commited_msgs", "proof_r", "proofs_commited_mi", "range_proof_r", "range_proofs_mi"]
    );
    let back: ZKPoK<S> = serde_json::from_value(v).unwrap();
    assert_eq!(&back, z);
    inner
}

// the per-attribute parts of a proof: the k-th commitment is on the attribute of the k-th index, under the base of
// that index, and the k-th range proof is about that same commitment
fn check_per_attribute(
    pov: &Value,
    rps: &Value,
    idx: &[usize],
    messages: &[CL03Message],
    bases: &[Integer],
    h: &Integer,
    n: &Integer,
) {
    let pov = pov.as_array().unwrap();
    let rps = rps.as_array().unwrap();
    assert_eq!(pov.len(), idx.len());
    assert_eq!(rps.len(), idx.len());
    for (k, &i) in idx.iter().enumerate() {
        let value = int(&pov[k]["commitment"]["value"]);
        let rand = int(&pov[k]["commitment"]["randomness"]);
        assert!(full_width(&rand, CS::ln));
        assert_eq!(value, expected(&[bases[i].clone()], &[&messages[i].value], h, &rand, n), "k = {}", k);
        assert_eq!(int(&rps[k]["E"]), value, "k = {}", k);
        let mut keys: Vec<&str> = pov[k]["value"].as_object().unwrap().keys().map(|s| s.as_str()).collect();
        keys.sort();
        assert_eq!(keys, ["s1", "s2", "t"]);
    }
}

#[test]
fn zkpok_generate_proof_shapes() {
    let f = fx();
    let cases: Vec<Vec<usize>> = vec![vec![0], vec![N_ATTR - 1], vec![1, 3], vec![3, 1], vec![0, 1, 2, 3, 4]];
    for idx in &cases {
        let c = Commitment::<S>::commit_with_pk(&f.messages, pk(), &f.a_bases, Some(idx));
        let z = ZKPoK::<S>::generate_proof(&f.messages, c.cl03Commitment(), None, pk(), &f.a_bases, None, idx);
        assert!(z.verify_proof(c.cl03Commitment(), None, pk(), &f.a_bases, None, idx), "{:?}", idx);

        let j = zk_json(&z);
        assert!(j["proof_C_Ctrusted"].is_null());
        assert_eq!(j["proof_commited_msgs"]["s1"].as_array().unwrap().len(), idx.len());
        check_per_attribute(
            &j["proofs_commited_mi"],
            &j["range_proofs_mi"],
            idx,
            &f.messages,
            &f.a_bases.0,
            &pk().b,
            &pk().N,
        );
        // the proof about the randomness of C: a commitment to it under the first base
        let r_value = int(&j["proof_r"]["commitment"]["value"]);
        let r_rand = int(&j["proof_r"]["commitment"]["randomness"]);
        assert!(full_width(&r_rand, CS::ln));
        assert_eq!(
            r_value,
            expected(&[f.a_bases.0[0].clone()], &[c.randomness()], &pk().b, &r_rand, &pk().N),
            "{:?}",
            idx
        );
        assert_eq!(int(&j["range_proof_r"]["E"]), r_value);

        // the proof is bound to the list of indexes and to the commitment
        let other = Commitment::<S>::commit_with_pk(&f.messages, pk(), &f.a_bases, Some(idx));
        assert!(!z.verify_proof(other.cl03Commitment(), None, pk(), &f.a_bases, None, idx));
        if idx.len() > 1 {
            let mut rev = idx.clone();
            rev.reverse();
            assert!(!z.verify_proof(c.cl03Commitment(), None, pk(), &f.a_bases, None, &rev));
            assert!(!z.verify_proof(c.cl03Commitment(), None, pk(), &f.a_bases, None, &idx[1..]));
        }
    }
}

#[test]
fn zkpok_generate_proof_no_hidden_attribute() {
    let f = fx();
    let c = Commitment::<S>::commit_with_pk(&f.messages, pk(), &f.a_bases, Some(&[]));
    let z = ZKPoK::<S>::generate_proof(&f.messages, c.cl03Commitment(), None, pk(), &f.a_bases, None, &[]);
    let j = zk_json(&z);
    assert!(j["proofs_commited_mi"].as_array().unwrap().is_empty());
    assert!(j["range_proofs_mi"].as_array().unwrap().is_empty());
    assert!(j["proof_commited_msgs"]["s1"].as_array().unwrap().is_empty());
    assert!(z.verify_proof(c.cl03Commitment(), None, pk(), &f.a_bases, None, &[]));
    assert!(!z.verify_proof(c.cl03Commitment(), None, pk(), &f.a_bases, None, &[0]));
}

#[test]
fn zkpok_generate_proof_trusted_commitment() {
    let f = fx();
    let idx = [0usize, 2];
    let c = Commitment::<S>::commit_with_pk(&f.messages, pk(), &f.a_bases, Some(&idx));
    let ct = Commitment::<S>::commit_with_commitment_pk(&f.messages, &f.tpk, Some(&idx));

    // both given: the proof has the equality part and verifies only together with it
    let z = ZKPoK::<S>::generate_proof(
        &f.messages,
        c.cl03Commitment(),
        Some(ct.cl03Commitment()),
        pk(),
        &f.a_bases,
        Some(&f.tpk),
        &idx,
    );
    let j = zk_json(&z);
    assert!(j["proof_C_Ctrusted"].is_object());
    assert!(z.verify_proof(c.cl03Commitment(), Some(ct.cl03Commitment()), pk(), &f.a_bases, Some(&f.tpk), &idx));
    assert!(!z.verify_proof(c.cl03Commitment(), None, pk(), &f.a_bases, None, &idx));
    check_per_attribute(&j["proofs_commited_mi"], &j["range_proofs_mi"], &idx, &f.messages, &f.a_bases.0, &pk().b, &pk().N);

    // only one of the two given: the equality part is left out, the rest is a complete proof
    let z1 = ZKPoK::<S>::generate_proof(&f.messages, c.cl03Commitment(), Some(ct.cl03Commitment()), pk(), &f.a_bases, None, &idx);
    let z2 = ZKPoK::<S>::generate_proof(&f.messages, c.cl03Commitment(), None, pk(), &f.a_bases, Some(&f.tpk), &idx);
    for z in [&z1, &z2] {
        let j = zk_json(z);
        assert!(j["proof_C_Ctrusted"].is_null());
        assert!(z.verify_proof(c.cl03Commitment(), None, pk(), &f.a_bases, None, &idx));
        assert!(!z.verify_proof(c.cl03Commitment(), Some(ct.cl03Commitment()), pk(), &f.a_bases, Some(&f.tpk), &idx));
    }
}

#[test]
fn zkpok_generate_proof_panics() {
    let f = fx();
    let c = Commitment::<S>::commit_with_pk(&f.messages, pk(), &f.a_bases, Some(&[0]));
    let gen = |msgs: &[CL03Message], bases: &Bases, idx: &[usize]| {
        panics(|| ZKPoK::<S>::generate_proof(msgs, c.cl03Commitment(), None, pk(), bases, None, idx))
    };
    // index beyond the messages and the bases
    assert!(gen(&f.messages, &f.a_bases, &[N_ATTR]));
    assert!(gen(&f.messages, &f.a_bases, &[0, usize::MAX]));
    // beyond the messages only, beyond the bases only
    assert!(gen(&f.messages[..2], &f.a_bases, &[0, 2]));
    assert!(gen(&f.messages, &Bases(f.a_bases.0[..2].to_vec()), &[0, 2]));
    // the proof about the randomness needs the first base
    assert!(gen(&f.messages, &Bases(vec![]), &[]));
    assert!(!gen(&f.messages, &Bases(f.a_bases.0[..1].to_vec()), &[]));
    // not a CL03 proof
    let u = ZKPoK::<S>::_Unreachable(PhantomData);
    assert!(panics(|| u.to_cl03_zkpok().clone()));
}

// ---------------------------------------------------------------------------------------------------------------------
// blind issuance

fn check_blind(bs: &BlindSignature<S>, extended: &Integer) {
    let n = &pk().N;
    let phi = Integer::from(&sk().p - 1u32) * Integer::from(&sk().q - 1u32);
    let e = bs.e();
    assert!(*e > Integer::from(2).pow(CS::le - 1) && *e < Integer::from(2).pow(CS::le));
    assert!(e.significant_bits() == CS::le);
    assert_ne!(e.is_probably_prime(30), rug::integer::IsPrime::No);
    assert_eq!(Integer::from(e.gcd_ref(&phi)), 1);
    assert!(full_width(bs.rprime(), CS::ls));
    assert!(*bs.v() >= 0 && bs.v() < n);
    // v^e = Cx * b^rprime * c
    let lhs = powm(bs.v(), e, n);
    let rhs = (extended.clone() * powm(&pk().b, bs.rprime(), n) * &pk().c) % n;
    assert_eq!(lhs, rhs);
    // serde representation
    let j = serde_json::to_value(bs).unwrap();
    let mut keys: Vec<&str> = j["CL03"].as_object().unwrap().keys().map(|s| s.as_str()).collect();
    keys.sort();
    assert_eq!(keys, ["e", "rprime", "v"]);
    assert_eq!(&int(&j["CL03"]["e"]), e);
    assert_eq!(&int(&j["CL03"]["rprime"]), bs.rprime());
    assert_eq!(&int(&j["CL03"]["v"]), bs.v());
}

fn extended_value(c: &Integer, idx: &[usize], msgs: &[CL03Message]) -> Integer {
    let f = fx();
    let n = &pk().N;
    let mut v = c.clone();
    for (k, &i) in idx.iter().enumerate() {
        v = (v * powm(&f.a_bases.0[i], &msgs[k].value, n)) % n;
    }
    v
}

#[test]
fn blind_sign_unblind_update() {
    let f = fx();
    let hidden = [0usize, 3];
    let shown = [1usize, 2, 4];
    let shown_msgs: Vec<CL03Message> = shown.iter().map(|&i| f.messages[i].clone()).collect();
    let c = Commitment::<S>::commit_with_pk(&f.messages, pk(), &f.a_bases, Some(&hidden));
    let z = ZKPoK::<S>::generate_proof(&f.messages, c.cl03Commitment(), None, pk(), &f.a_bases, None, &hidden);
    let sign = |rm: Option<&[CL03Message]>, ri: Option<&[usize]>| {
        BlindSignature::<S>::blind_sign(pk(), sk(), &f.a_bases, &z, rm, c.cl03Commitment(), None, None, &hidden, ri)
    };

    // revealed messages and their indexes: a signature on all the attributes
    let bs = sign(Some(&shown_msgs), Some(&shown));
    check_blind(&bs, &extended_value(c.value(), &shown, &shown_msgs));
    let sig = bs.unblind_sign(&c);
    assert!(sig.verify_multiattr(pk(), &f.a_bases, &f.messages));
    let inner = sig.cl03Signature();
    let j = serde_json::to_value(&sig).unwrap();
    assert_eq!(&int(&j["CL03"]["e"]), bs.e());
    assert_eq!(&int(&j["CL03"]["v"]), bs.v());
    assert_eq!(int(&j["CL03"]["s"]), Integer::from(c.randomness() + bs.rprime()));
    assert_eq!(inner, Signature::<S>::from_bytes(&sig.to_bytes()).cl03Signature());

    // two issuances on the same input: fresh e and rprime each time
    let bs2 = sign(Some(&shown_msgs), Some(&shown));
    assert_ne!(bs.e(), bs2.e());
    assert_ne!(bs.rprime(), bs2.rprime());

    // only one of the two lists, or none: the commitment is signed as it is
    for (rm, ri) in [(None, None), (Some(&shown_msgs[..]), None), (None, Some(&shown[..]))] {
        let bs = sign(rm, ri);
        check_blind(&bs, c.value());
        assert!(!bs.unblind_sign(&c).verify_multiattr(pk(), &f.a_bases, &f.messages));
    }
    // empty lists are the same as none
    let bs = sign(Some(&[]), Some(&[]));
    check_blind(&bs, c.value());

    // the k-th revealed message goes with the k-th index
    let swapped = [2usize, 1, 4];
    let bs = sign(Some(&shown_msgs), Some(&swapped));
    check_blind(&bs, &extended_value(c.value(), &swapped, &shown_msgs));
    assert!(!bs.unblind_sign(&c).verify_multiattr(pk(), &f.a_bases, &f.messages));

    // unblinding with a commitment of one's own choice: s = randomness + rprime, whatever the sign
    let odd = Commitment::<S>::CL03(CL03Commitment { value: Integer::from(3), randomness: Integer::from(-1000) });
    let j = serde_json::to_value(bs.unblind_sign(&odd)).unwrap();
    assert_eq!(int(&j["CL03"]["s"]), Integer::from(bs.rprime() - 1000u32));
    assert!(panics(|| bs.unblind_sign(&Commitment::<S>::_Unreachable(PhantomData))));

    // update: the second attribute changes
    let mut new_messages = f.messages.clone();
    new_messages[1] = CL03Message::map_message_to_integer_as_hash::<CS>(b"another value");
    let new_shown: Vec<CL03Message> = shown.iter().map(|&i| new_messages[i].clone()).collect();
    let up = bs.update_signature(Some(&new_shown), c.cl03Commitment(), sk(), pk(), &f.a_bases, Some(&shown));
    check_blind(&up, &extended_value(c.value(), &shown, &new_shown));
    assert_ne!(up.e(), bs.e());
    assert_ne!(up.rprime(), bs.rprime());
    let usig = up.unblind_sign(&c);
    assert!(usig.verify_multiattr(pk(), &f.a_bases, &new_messages));
    assert!(!usig.verify_multiattr(pk(), &f.a_bases, &f.messages));
    for (rm, ri) in [(None, None), (Some(&new_shown[..]), None), (None, Some(&shown[..])), (Some(&[][..]), Some(&[][..]))] {
        let up = bs.update_signature(rm, c.cl03Commitment(), sk(), pk(), &f.a_bases, ri);
        check_blind(&up, c.value());
    }
    // update does not look at the receiver
    let up = BlindSignature::<S>::_Unreachable(PhantomData).update_signature(
        Some(&new_shown),
        c.cl03Commitment(),
        sk(),
        pk(),
        &f.a_bases,
        Some(&shown),
    );
    check_blind(&up, &extended_value(c.value(), &shown, &new_shown));

    // accessors of something that is not a CL03 blind signature
    let u = BlindSignature::<S>::_Unreachable(PhantomData);
    assert!(panics(|| u.e().clone()));
    assert!(panics(|| u.rprime().clone()));
    assert!(panics(|| u.v().clone()));
}

#[test]
fn blind_sign_panics() {
    let f = fx();
    let hidden = [0usize];
    let c = Commitment::<S>::commit_with_pk(&f.messages, pk(), &f.a_bases, Some(&hidden));
    let z = ZKPoK::<S>::generate_proof(&f.messages, c.cl03Commitment(), None, pk(), &f.a_bases, None, &hidden);
    let sign = |c: &CL03Commitment, rm: Option<&[CL03Message]>, ri: Option<&[usize]>, hidden: &[usize]| {
        panics(|| BlindSignature::<S>::blind_sign(pk(), sk(), &f.a_bases, &z, rm, c, None, None, hidden, ri))
    };
    assert!(!sign(c.cl03Commitment(), None, None, &hidden));
    // the proof does not verify: another commitment, another list of indexes
    let other = Commitment::<S>::commit_with_pk(&f.messages, pk(), &f.a_bases, Some(&hidden));
    assert!(sign(other.cl03Commitment(), None, None, &hidden));
    assert!(sign(c.cl03Commitment(), None, None, &[1]));
    assert!(sign(c.cl03Commitment(), None, None, &[]));
    // a trusted commitment without its key
    assert!(panics(|| BlindSignature::<S>::blind_sign(
        pk(),
        sk(),
        &f.a_bases,
        &z,
        None,
        c.cl03Commitment(),
        Some(c.cl03Commitment()),
        None,
        &hidden,
        None
    )));
    // lists of different lengths, index beyond the bases
    assert!(sign(c.cl03Commitment(), Some(&f.messages[1..3]), Some(&[1]), &hidden));
    assert!(sign(c.cl03Commitment(), Some(&f.messages[1..2]), Some(&[1, 2]), &hidden));
    assert!(sign(c.cl03Commitment(), Some(&f.messages[1..2]), Some(&[N_ATTR]), &hidden));
    assert!(!sign(c.cl03Commitment(), Some(&f.messages[1..2]), Some(&[N_ATTR - 1]), &hidden));

    let bs = BlindSignature::<S>::blind_sign(pk(), sk(), &f.a_bases, &z, None, c.cl03Commitment(), None, None, &hidden, None);
    let upd = |rm: Option<&[CL03Message]>, ri: Option<&[usize]>| {
        panics(|| bs.update_signature(rm, c.cl03Commitment(), sk(), pk(), &f.a_bases, ri))
    };
    assert!(upd(Some(&f.messages[1..3]), Some(&[1])));
    assert!(upd(Some(&f.messages[1..2]), Some(&[N_ATTR])));
    assert!(!upd(Some(&f.messages[1..2]), Some(&[1])));
    assert!(!upd(Some(&f.messages[1..3]), None));
    // a secret key that does not belong to N: (p-1)(q-1) = 8 is coprime with every odd e, a value comes out all the same
    let odd_sk = CL03SecretKey::new(Integer::from(3), Integer::from(5));
    let up = bs.update_signature(None, c.cl03Commitment(), &odd_sk, pk(), &f.a_bases, None);
    let d = Integer::from(up.e().invert_ref(&Integer::from(8)).unwrap());
    let x = (c.value().clone() * powm(&pk().b, up.rprime(), &pk().N) * &pk().c) % &pk().N;
    assert_eq!(*up.v(), powm(&x, &d, &pk().N));
}

// ---------------------------------------------------------------------------------------------------------------------
// PoKSignature::proof_gen

fn spok_json(p: &PoKSignature<S>) -> Value {
    let v = serde_json::to_value(p).unwrap();
    let inner = v.get("CL03").expect("CL03 tag").clone();
    let mut keys: Vec<&str> = inner.as_object().unwrap().keys().map(|k| k.as_str()).collect();
    keys.sort();
    assert_eq!(keys, ["proofs_commited_mi", "range_proof_e", "range_proofs_commited_mi", "spok"]);
    let back: PoKSignature<S> = serde_json::from_value(v).unwrap();
    assert_eq!(&back, p);
    inner
}

#[test]
fn spok_proof_gen_shapes() {
    let f = fx();
    let sig = Signature::<S>::sign_multiattr(pk(), sk(), &f.a_bases, &f.messages);
    assert!(sig.verify_multiattr(pk(), &f.a_bases, &f.messages));
    let sig_e = int(&serde_json::to_value(&sig).unwrap()["CL03"]["e"]);
    let cases: Vec<Vec<usize>> = vec![vec![0], vec![N_ATTR - 1], vec![1, 3], vec![0, 1, 2, 3, 4]];
    for idx in &cases {
        let p = PoKSignature::<S>::proof_gen(sig.cl03Signature(), &f.cpk, pk(), &f.a_bases, &f.messages, idx);
        let revealed: Vec<CL03Message> =
            (0..N_ATTR).filter(|i| !idx.contains(i)).map(|i| f.messages[i].clone()).collect();
        assert!(p.proof_verify(&f.cpk, pk(), &f.a_bases, &revealed, idx, N_ATTR), "{:?}", idx);

        let j = spok_json(&p);
        check_per_attribute(
            &j["proofs_commited_mi"],
            &j["range_proofs_commited_mi"],
            idx,
            &f.messages,
            &f.cpk.g_bases,
            &f.cpk.h,
            &f.cpk.N,
        );
        // the range proof on e is about the commitment to e of the signature proof
        assert_eq!(int(&j["range_proof_e"]["E"]), int(&j["spok"]["Ce"]["value"]));
        let re = int(&j["spok"]["Ce"]["randomness"]);
        assert_eq!(
            int(&j["spok"]["Ce"]["value"]),
            expected(&[f.cpk.g_bases[0].clone()], &[&sig_e], &f.cpk.h, &re, &f.cpk.N)
        );

        // wrong revealed messages, wrong list
        if !revealed.is_empty() {
            let mut wrong = revealed.clone();
            wrong[0] = CL03Message::new(Integer::from(&wrong[0].value + 1u32));
            assert!(!p.proof_verify(&f.cpk, pk(), &f.a_bases, &wrong, idx, N_ATTR));
        }
        if idx.len() > 1 {
            let mut rev = idx.clone();
            rev.reverse();
            assert!(!p.proof_verify(&f.cpk, pk(), &f.a_bases, &revealed, &rev, N_ATTR));
        }
    }
}

#[test]
fn spok_proof_gen_edges() {
    let f = fx();
    let sig = Signature::<S>::sign_multiattr(pk(), sk(), &f.a_bases, &f.messages);
    let gen = |cpk: &CL03CommitmentPublicKey, msgs: &[CL03Message], idx: &[usize]| {
        catch_unwind(AssertUnwindSafe(|| {
            PoKSignature::<S>::proof_gen(sig.cl03Signature(), cpk, pk(), &f.a_bases, msgs, idx)
        }))
    };
    // nothing hidden: no per-attribute parts
    let p = gen(&f.cpk, &f.messages, &[]).expect("no panic");
    let j = spok_json(&p);
    assert!(j["proofs_commited_mi"].as_array().unwrap().is_empty());
    assert!(j["range_proofs_commited_mi"].as_array().unwrap().is_empty());
    assert!(p.proof_verify(&f.cpk, pk(), &f.a_bases, &f.messages, &[], N_ATTR));

    // index beyond the messages
    assert!(gen(&f.cpk, &f.messages, &[N_ATTR]).is_err());
    assert!(gen(&f.cpk, &f.messages, &[0, usize::MAX]).is_err());
    // a commitment key with fewer bases than attributes
    let mut short = f.cpk.clone();
    short.g_bases.truncate(2);
    assert!(gen(&short, &f.messages, &[0]).is_err());
    // not a CL03 proof
    let u = PoKSignature::<S>::_Unreachable(PhantomData);
    assert!(panics(|| u.to_cl03_proof().clone()));
}
