// Behavioural pin-down of the verifier side and of the byte codecs of src/bbsplus/proof.rs
// (public API only). Every outcome asserted here is an Ok / Err decision or an exact byte string,
// so the file is deterministic although proof generation itself draws fresh randomness.

#![allow(non_snake_case)]

use std::marker::PhantomData;

use bls12_381_plus::{G1Projective, Scalar};
use elliptic_curve::hash2curve::ExpandMsg;
use zkryptium::{
    bbsplus::{
        ciphersuites::BbsCiphersuite,
        keys::BBSplusPublicKey,
        proof::{BBSplusPoKSignature, BBSplusZKPoK},
    },
    keys::pair::KeyPair,
    schemes::{
        algorithms::{BBSplus, BbsBls12381Sha256, BbsBls12381Shake256, Scheme},
        generics::{BlindSignature, Commitment, PoKSignature, Signature},
    },
};

const SUITES: [&str; 2] = ["bls12-381-sha-256", "bls12-381-shake-256"];

/// big-endian encoding of the order r of the scalar field (not a canonical scalar)
const R_BE: &str = "73eda753299d7d483339d80809a1d80553bda402fffe5bfeffffffff00000001";
/// big-endian encoding of r - 1 (the largest canonical scalar)
const R_MINUS_1_BE: &str = "73eda753299d7d483339d80809a1d80553bda402fffe5bfeffffffff00000000";

fn unhex(s: &str) -> Vec<u8> {
    hex::decode(s).unwrap()
}

fn read_json(path: &str) -> serde_json::Value {
    let data = std::fs::read_to_string(path).unwrap_or_else(|_| panic!("cannot read {}", path));
    serde_json::from_str(&data).unwrap()
}

fn identity_point_bytes() -> [u8; 48] {
    let mut b = [0u8; 48];
    b[0] = 0xc0;
    b
}

fn select(msgs: &[Vec<u8>], idx: &[usize]) -> Vec<Vec<u8>> {
    idx.iter().map(|&i| msgs[i].clone()).collect()
}

struct ProofFixture {
    pk: BBSplusPublicKey,
    signature: Vec<u8>,
    header: Vec<u8>,
    ph: Vec<u8>,
    messages: Vec<Vec<u8>>,
    disclosed_indexes: Vec<usize>,
    proof: Vec<u8>,
    valid: bool,
}

fn load_proof_fixture(suite: &str, n: usize) -> ProofFixture {
    let j = read_json(&format!("./fixture_data/{}/proof/proof{:03}.json", suite, n));
    ProofFixture {
        pk: BBSplusPublicKey::from_bytes(&unhex(j["signerPublicKey"].as_str().unwrap())).unwrap(),
        signature: unhex(j["signature"].as_str().unwrap()),
        header: unhex(j["header"].as_str().unwrap()),
        ph: unhex(j["presentationHeader"].as_str().unwrap()),
        messages: j["messages"]
            .as_array()
            .unwrap()
            .iter()
            .map(|m| unhex(m.as_str().unwrap()))
            .collect(),
        disclosed_indexes: j["disclosedIndexes"]
            .as_array()
            .unwrap()
            .iter()
            .map(|i| i.as_u64().unwrap() as usize)
            .collect(),
        proof: unhex(j["proof"].as_str().unwrap()),
        valid: j["result"]["valid"].as_bool().unwrap(),
    }
}

// ---------------------------------------------------------------------------------------------
// proof_verify on the IETF fixtures
// ---------------------------------------------------------------------------------------------

fn fixtures_verify_and_roundtrip<S: Scheme>(suite: &str)
where
    S::Ciphersuite: BbsCiphersuite,
    <S::Ciphersuite as BbsCiphersuite>::Expander: for<'a> ExpandMsg<'a>,
{
    for n in 1..=15 {
        let f = load_proof_fixture(suite, n);
        let proof = PoKSignature::<BBSplus<S::Ciphersuite>>::from_bytes(&f.proof).unwrap();
        // the codec is a bijection on well-formed proofs
        assert_eq!(proof.to_bytes(), f.proof, "{} {}", suite, n);
        let inner = BBSplusPoKSignature::from_bytes(&f.proof).unwrap();
        assert_eq!(&inner, proof.to_bbsplus_proof());
        assert_eq!(inner.to_bytes(), f.proof);
        assert_eq!((f.proof.len() - 240) % 32, 0);

        let disclosed = select(&f.messages, &f.disclosed_indexes);
        let res = proof.proof_verify(
            &f.pk,
            Some(&disclosed),
            Some(&f.disclosed_indexes),
            Some(&f.header),
            Some(&f.ph),
        );
        assert_eq!(res.is_ok(), f.valid, "{} fixture {}", suite, n);
    }
}

#[test]
fn fixtures_verify_and_roundtrip_sha256() {
    fixtures_verify_and_roundtrip::<BbsBls12381Sha256>(SUITES[0]);
}

#[test]
fn fixtures_verify_and_roundtrip_shake256() {
    fixtures_verify_and_roundtrip::<BbsBls12381Shake256>(SUITES[1]);
}

fn verify_input_variants<S: Scheme>(suite: &str)
where
    S::Ciphersuite: BbsCiphersuite,
    <S::Ciphersuite as BbsCiphersuite>::Expander: for<'a> ExpandMsg<'a>,
{
    // fixture 3: 10 messages, [0, 2, 4, 6] disclosed, 6 undisclosed
    let f = load_proof_fixture(suite, 3);
    assert_eq!(f.disclosed_indexes, vec![0, 2, 4, 6]);
    let proof = PoKSignature::<BBSplus<S::Ciphersuite>>::from_bytes(&f.proof).unwrap();
    let disclosed = select(&f.messages, &f.disclosed_indexes);
    let hdr = Some(f.header.as_slice());
    let ph = Some(f.ph.as_slice());

    let run = |msgs: Option<&[Vec<u8>]>, idx: Option<&[usize]>| {
        proof.proof_verify(&f.pk, msgs, idx, hdr, ph).is_ok()
    };

    assert!(run(Some(&disclosed), Some(&[0, 2, 4, 6])));
    // the index list is sorted and de-duplicated by the verifier, the messages are not touched
    assert!(run(Some(&disclosed), Some(&[6, 4, 2, 0])));
    assert!(run(Some(&disclosed), Some(&[0, 0, 2, 4, 6, 6])));
    assert!(run(Some(&disclosed), Some(&[6, 0, 4, 2, 0])));
    let mut reversed = disclosed.clone();
    reversed.reverse();
    assert!(!run(Some(&reversed), Some(&[0, 2, 4, 6])));
    // largest admissible index (L - 1 = 9): well-formed, wrong statement
    assert!(!run(Some(&disclosed), Some(&[0, 2, 4, 9])));
    // first index out of range and far out of range
    assert!(!run(Some(&disclosed), Some(&[0, 2, 4, 10])));
    assert!(!run(Some(&disclosed), Some(&[0, 2, 4, usize::MAX])));
    assert!(!run(Some(&disclosed), Some(&[usize::MAX, usize::MAX - 1, 1, 0])));
    // the other positions
    assert!(!run(Some(&disclosed), Some(&[1, 2, 4, 6])));
    assert!(!run(Some(&disclosed), Some(&[0, 2, 4, 5])));
    // length mismatches between messages and indexes
    assert!(!run(Some(&disclosed[..3]), Some(&[0, 2, 4, 6])));
    assert!(!run(Some(&disclosed), Some(&[0, 2, 4])));
    assert!(!run(Some(&disclosed), Some(&[0, 2, 4, 6, 8])));
    let mut five = disclosed.clone();
    five.push(f.messages[8].clone());
    assert!(!run(Some(&five), Some(&[0, 2, 4, 6])));
    assert!(!run(Some(&five), Some(&[0, 2, 4, 6, 8])));
    // duplicates do not count as further indexes
    assert!(!run(Some(&five), Some(&[0, 2, 4, 6, 6])));
    // None and Some(empty) are the same thing
    assert!(!run(None, None));
    assert!(!run(Some(&[]), Some(&[])));
    assert!(!run(None, Some(&[])));
    assert!(!run(Some(&[]), None));
    assert!(!run(None, Some(&[0, 2, 4, 6])));
    assert!(!run(Some(&disclosed), None));
    assert!(!run(Some(&disclosed), Some(&[])));
    // a wrong message
    let mut wrong = disclosed.clone();
    wrong[3] = b"something else".to_vec();
    assert!(!run(Some(&wrong), Some(&[0, 2, 4, 6])));
    let mut wrong = disclosed.clone();
    wrong[0].push(0);
    assert!(!run(Some(&wrong), Some(&[0, 2, 4, 6])));

    // header / presentation header
    let v = |h: Option<&[u8]>, p: Option<&[u8]>| {
        proof
            .proof_verify(&f.pk, Some(&disclosed), Some(&f.disclosed_indexes), h, p)
            .is_ok()
    };
    assert!(v(hdr, ph));
    assert!(!v(None, ph));
    assert!(!v(Some(&[]), ph));
    assert!(!v(hdr, None));
    assert!(!v(hdr, Some(&[])));
    assert!(!v(ph, hdr));
    let mut ph2 = f.ph.clone();
    ph2.push(0);
    assert!(!v(hdr, Some(&ph2)));
    assert!(!v(hdr, Some(&f.ph[1..])));

    // a different key
    let other = load_proof_fixture(if suite == SUITES[0] { SUITES[1] } else { SUITES[0] }, 3);
    assert!(proof
        .proof_verify(&other.pk, Some(&disclosed), Some(&f.disclosed_indexes), hdr, ph)
        .is_err());

    // fixture 14 has an empty header, fixture 15 an empty presentation header: None == Some("")
    let f14 = load_proof_fixture(suite, 14);
    assert!(f14.header.is_empty());
    let p14 = PoKSignature::<BBSplus<S::Ciphersuite>>::from_bytes(&f14.proof).unwrap();
    let d14 = select(&f14.messages, &f14.disclosed_indexes);
    for h in [None, Some(&[][..])] {
        assert!(p14
            .proof_verify(&f14.pk, Some(&d14), Some(&f14.disclosed_indexes), h, Some(&f14.ph))
            .is_ok());
    }
    assert!(p14
        .proof_verify(&f14.pk, Some(&d14), Some(&f14.disclosed_indexes), Some(&[0]), Some(&f14.ph))
        .is_err());
    let f15 = load_proof_fixture(suite, 15);
    assert!(f15.ph.is_empty());
    let p15 = PoKSignature::<BBSplus<S::Ciphersuite>>::from_bytes(&f15.proof).unwrap();
    let d15 = select(&f15.messages, &f15.disclosed_indexes);
    for p in [None, Some(&[][..])] {
        assert!(p15
            .proof_verify(&f15.pk, Some(&d15), Some(&f15.disclosed_indexes), Some(&f15.header), p)
            .is_ok());
    }
    assert!(p15
        .proof_verify(&f15.pk, Some(&d15), Some(&f15.disclosed_indexes), Some(&f15.header), Some(&[0]))
        .is_err());

    // fixture 2: everything disclosed (no undisclosed message scalar in the proof)
    let f2 = load_proof_fixture(suite, 2);
    assert_eq!(f2.proof.len(), 272);
    let p2 = PoKSignature::<BBSplus<S::Ciphersuite>>::from_bytes(&f2.proof).unwrap();
    let all: Vec<usize> = (0..10).collect();
    let run2 = |msgs: &[Vec<u8>], idx: &[usize]| {
        p2.proof_verify(&f2.pk, Some(msgs), Some(idx), Some(&f2.header), Some(&f2.ph))
            .is_ok()
    };
    assert!(run2(&f2.messages, &all));
    let rev: Vec<usize> = (0..10).rev().collect();
    assert!(run2(&f2.messages, &rev));
    assert!(!run2(&f2.messages[..9], &all[..9]));
    assert!(!run2(&f2.messages, &[0, 1, 2, 3, 4, 5, 6, 7, 8, 10]));
    assert!(!run2(&f2.messages, &[1, 2, 3, 4, 5, 6, 7, 8, 9, 10]));
    assert!(!run2(&[], &[]));
    assert!(p2.proof_verify(&f2.pk, None, None, Some(&f2.header), Some(&f2.ph)).is_err());

    // nothing disclosed at all (fresh proof over the signature of fixture 3)
    for none in [None, Some(&[][..])] {
        let p0 = PoKSignature::<BBSplus<S::Ciphersuite>>::proof_gen(
            &f.pk,
            &f.signature,
            hdr,
            ph,
            Some(&f.messages),
            none,
        )
        .unwrap();
        assert_eq!(p0.to_bytes().len(), 272 + 320);
        let p0 = PoKSignature::<BBSplus<S::Ciphersuite>>::from_bytes(&p0.to_bytes()).unwrap();
        assert!(p0.proof_verify(&f.pk, None, None, hdr, ph).is_ok());
        assert!(p0.proof_verify(&f.pk, Some(&[]), Some(&[]), hdr, ph).is_ok());
        assert!(p0.proof_verify(&f.pk, None, Some(&[]), hdr, ph).is_ok());
        assert!(p0.proof_verify(&f.pk, Some(&[]), None, hdr, ph).is_ok());
        assert!(p0.proof_verify(&f.pk, Some(&f.messages[..1]), Some(&[0]), hdr, ph).is_err());
        assert!(p0.proof_verify(&f.pk, Some(&f.messages[..1]), Some(&[10]), hdr, ph).is_err());
        assert!(p0.proof_verify(&f.pk, Some(&f.messages[..1]), Some(&[11]), hdr, ph).is_err());
        assert!(p0.proof_verify(&f.pk, None, None, None, ph).is_err());
    }

    // fixture 1: a single message
    let f1 = load_proof_fixture(suite, 1);
    let p1 = PoKSignature::<BBSplus<S::Ciphersuite>>::from_bytes(&f1.proof).unwrap();
    let run1 = |msgs: Option<&[Vec<u8>]>, idx: Option<&[usize]>| {
        p1.proof_verify(&f1.pk, msgs, idx, Some(&f1.header), Some(&f1.ph)).is_ok()
    };
    assert!(run1(Some(&f1.messages), Some(&[0])));
    assert!(run1(Some(&f1.messages), Some(&[0, 0])));
    assert!(!run1(Some(&f1.messages), Some(&[1])));
    assert!(!run1(Some(&f1.messages), Some(&[0, 1])));
    assert!(!run1(None, None));
    assert!(!run1(Some(&[]), Some(&[0])));

    // a value of another enum variant is refused, not unwrapped
    let other_variant = PoKSignature::<BBSplus<S::Ciphersuite>>::_Unreachable(PhantomData);
    assert!(other_variant
        .proof_verify(&f.pk, Some(&disclosed), Some(&f.disclosed_indexes), hdr, ph)
        .is_err());
    assert!(other_variant
        .blind_proof_verify(&f.pk, hdr, ph, None, None, None, None, None)
        .is_err());
}

#[test]
fn verify_input_variants_sha256() {
    verify_input_variants::<BbsBls12381Sha256>(SUITES[0]);
}

#[test]
fn verify_input_variants_shake256() {
    verify_input_variants::<BbsBls12381Shake256>(SUITES[1]);
}

// ---------------------------------------------------------------------------------------------
// tampered and malformed encodings of a signature proof of knowledge
// ---------------------------------------------------------------------------------------------

fn pok_codec_malformed<S: Scheme>(suite: &str)
where
    S::Ciphersuite: BbsCiphersuite,
    <S::Ciphersuite as BbsCiphersuite>::Expander: for<'a> ExpandMsg<'a>,
{
    type P<S> = PoKSignature<BBSplus<<S as Scheme>::Ciphersuite>>;
    let f = load_proof_fixture(suite, 3);
    let disclosed = select(&f.messages, &f.disclosed_indexes);
    let good = f.proof.clone();
    assert_eq!(good.len(), 272 + 6 * 32);

    let verify = |bytes: &[u8]| -> Option<bool> {
        let a = P::<S>::from_bytes(bytes);
        let b = BBSplusPoKSignature::from_bytes(bytes);
        assert_eq!(a.is_ok(), b.is_ok());
        match a {
            Err(_) => None,
            Ok(p) => {
                assert_eq!(p.to_bbsplus_proof(), &b.unwrap());
                assert_eq!(p.to_bytes(), bytes);
                Some(
                    p.proof_verify(
                        &f.pk,
                        Some(&disclosed),
                        Some(&f.disclosed_indexes),
                        Some(&f.header),
                        Some(&f.ph),
                    )
                    .is_ok(),
                )
            }
        }
    };
    assert_eq!(verify(&good), Some(true));

    // every length from 0 to the full length and a bit beyond: only 240 + 32 k (k >= 1) can decode
    for len in 0..=good.len() + 70 {
        let mut b = good.clone();
        b.resize(len, 0);
        let r = verify(&b);
        if len < 272 || (len - 240) % 32 != 0 {
            assert_eq!(r, None, "length {}", len);
        } else if len == good.len() {
            assert_eq!(r, Some(true));
        } else {
            // a whole number of scalars was cut off or zero scalars were appended: decodes, does not verify
            assert_eq!(r, Some(false), "length {}", len);
        }
    }
    // all-zero buffers: the first point is not a valid encoding
    for len in [0usize, 1, 31, 32, 48, 239, 240, 241, 271, 272, 273, 303, 304, 336] {
        assert!(P::<S>::from_bytes(&vec![0u8; len]).is_err());
        assert!(P::<S>::from_bytes(&vec![0xffu8; len]).is_err());
    }

    // identity points are refused in each of the three positions, alone and together
    let id = identity_point_bytes();
    for mask in 1u8..8 {
        let mut b = good.clone();
        for k in 0..3 {
            if mask & (1 << k) != 0 {
                b[48 * k..48 * (k + 1)].copy_from_slice(&id);
            }
        }
        assert_eq!(verify(&b), None, "identity mask {}", mask);
    }
    // ... also when something else is wrong as well
    let mut b = good.clone();
    b[96..144].copy_from_slice(&id);
    b[144..176].copy_from_slice(&unhex(R_BE));
    assert_eq!(verify(&b), None);
    let mut b = good.clone();
    b[0..48].copy_from_slice(&id);
    let n = b.len();
    b[n - 32..].copy_from_slice(&unhex(R_BE));
    assert_eq!(verify(&b), None);

    // points: not on the curve / flag bits
    for k in 0..3 {
        let mut b = good.clone();
        b[48 * k] &= 0x7f; // compression flag cleared
        assert_eq!(verify(&b), None);
        let mut b = good.clone();
        b[48 * k] |= 0x40; // infinity flag set on a non-zero body
        assert_eq!(verify(&b), None);
        let mut b = good.clone();
        b[48 * k] ^= 0x20; // the other square root: a valid, different point
        assert_eq!(verify(&b), Some(false));
        // swap two of the points
        let mut b = good.clone();
        let other = (k + 1) % 3;
        let (x, y) = (good[48 * k..48 * (k + 1)].to_vec(), good[48 * other..48 * (other + 1)].to_vec());
        b[48 * k..48 * (k + 1)].copy_from_slice(&y);
        b[48 * other..48 * (other + 1)].copy_from_slice(&x);
        assert_eq!(verify(&b), Some(false));
    }

    // scalars: every 32-byte slot after the points (3 fixed, 6 message scalars, the challenge)
    let slots = (good.len() - 144) / 32;
    assert_eq!(slots, 10);
    for s in 0..slots {
        let at = 144 + 32 * s;
        let mut b = good.clone();
        b[at..at + 32].copy_from_slice(&unhex(R_BE));
        assert_eq!(verify(&b), None, "slot {} = r", s);
        let mut b = good.clone();
        b[at..at + 32].copy_from_slice(&[0xff; 32]);
        assert_eq!(verify(&b), None, "slot {} = ff..ff", s);
        let mut b = good.clone();
        b[at..at + 32].copy_from_slice(&unhex(R_MINUS_1_BE));
        assert_eq!(verify(&b), Some(false), "slot {} = r - 1", s);
        let mut b = good.clone();
        b[at..at + 32].copy_from_slice(&[0; 32]);
        assert_eq!(verify(&b), Some(false), "slot {} = 0", s);
        let mut b = good.clone();
        b[at + 31] ^= 1;
        assert_eq!(verify(&b), Some(false), "slot {} bit flip", s);
    }
    // two message scalars exchanged
    let mut b = good.clone();
    let (x, y) = (good[240..272].to_vec(), good[272..304].to_vec());
    b[240..272].copy_from_slice(&y);
    b[272..304].copy_from_slice(&x);
    assert_eq!(verify(&b), Some(false));

    // shortest well-formed proof: no undisclosed message
    let f2 = load_proof_fixture(suite, 2);
    assert_eq!(f2.proof.len(), 272);
    assert!(P::<S>::from_bytes(&f2.proof).is_ok());
    assert!(P::<S>::from_bytes(&f2.proof[..271]).is_err());
    assert!(P::<S>::from_bytes(&f2.proof[..240]).is_err());
    assert!(P::<S>::from_bytes(&f2.proof[1..]).is_err());
    assert!(P::<S>::from_bytes(&f2.proof[32..]).is_err());
}

#[test]
fn pok_codec_malformed_sha256() {
    pok_codec_malformed::<BbsBls12381Sha256>(SUITES[0]);
}

#[test]
fn pok_codec_malformed_shake256() {
    pok_codec_malformed::<BbsBls12381Shake256>(SUITES[1]);
}

/// A proof that carries an identity point cannot come out of `from_bytes`, but it can be built
/// through serde: the verifier has to refuse it by itself.
fn serde_identity_points<S: Scheme>(suite: &str)
where
    S::Ciphersuite: BbsCiphersuite,
    <S::Ciphersuite as BbsCiphersuite>::Expander: for<'a> ExpandMsg<'a>,
{
    let f = load_proof_fixture(suite, 3);
    let disclosed = select(&f.messages, &f.disclosed_indexes);
    let proof = PoKSignature::<BBSplus<S::Ciphersuite>>::from_bytes(&f.proof).unwrap();
    let json = serde_json::to_value(&proof).unwrap();
    let back: PoKSignature<BBSplus<S::Ciphersuite>> = serde_json::from_value(json.clone()).unwrap();
    assert!(back == proof);
    assert_eq!(back.to_bytes(), f.proof);
    let fields: Vec<String> = json["BBSplus"].as_object().unwrap().keys().cloned().collect();
    let mut sorted = fields.clone();
    sorted.sort();
    let mut expected: Vec<String> = ["Abar", "Bbar", "D", "e_cap", "r1_cap", "r3_cap", "m_cap", "challenge"]
        .iter()
        .map(|s| s.to_string())
        .collect();
    expected.sort();
    assert_eq!(sorted, expected);
    assert_eq!(json["BBSplus"]["m_cap"].as_array().unwrap().len(), 6);

    let identity = serde_json::to_value(G1Projective::IDENTITY).unwrap();
    for mask in 0u8..8 {
        let mut j = json.clone();
        for (k, name) in ["Abar", "Bbar", "D"].iter().enumerate() {
            if mask & (1 << k) != 0 {
                j["BBSplus"][*name] = identity.clone();
            }
        }
        let p: PoKSignature<BBSplus<S::Ciphersuite>> = serde_json::from_value(j).unwrap();
        let ok = p
            .proof_verify(
                &f.pk,
                Some(&disclosed),
                Some(&f.disclosed_indexes),
                Some(&f.header),
                Some(&f.ph),
            )
            .is_ok();
        assert_eq!(ok, mask == 0, "identity mask {}", mask);
        // with bad index / message lists as well
        assert!(p
            .proof_verify(&f.pk, Some(&disclosed), Some(&[0, 2, 4, 99]), Some(&f.header), Some(&f.ph))
            .is_err());
        assert!(p
            .proof_verify(&f.pk, None, Some(&f.disclosed_indexes), Some(&f.header), Some(&f.ph))
            .is_err());
        // the encoder does not care
        let bytes = p.to_bytes();
        assert_eq!(bytes.len(), f.proof.len());
        assert_eq!(&bytes[144..], &f.proof[144..]);
        assert_eq!(
            PoKSignature::<BBSplus<S::Ciphersuite>>::from_bytes(&bytes).is_ok(),
            mask == 0
        );
    }

    // m_cap emptied / extended through serde: lengths no longer agree with the statement
    let mut j = json.clone();
    j["BBSplus"]["m_cap"] = serde_json::json!([]);
    let p: PoKSignature<BBSplus<S::Ciphersuite>> = serde_json::from_value(j).unwrap();
    assert_eq!(p.to_bytes().len(), 272);
    assert!(p
        .proof_verify(&f.pk, Some(&disclosed), Some(&f.disclosed_indexes), Some(&f.header), Some(&f.ph))
        .is_err());
    assert!(p
        .proof_verify(&f.pk, Some(&disclosed), Some(&[0, 1, 2, 3]), Some(&f.header), Some(&f.ph))
        .is_err());
    assert!(p.proof_verify(&f.pk, None, None, Some(&f.header), Some(&f.ph)).is_err());
}

#[test]
fn serde_identity_points_sha256() {
    serde_identity_points::<BbsBls12381Sha256>(SUITES[0]);
}

#[test]
fn serde_identity_points_shake256() {
    serde_identity_points::<BbsBls12381Shake256>(SUITES[1]);
}

// ---------------------------------------------------------------------------------------------
// fresh proofs for several list sizes and disclosure sets
// ---------------------------------------------------------------------------------------------

fn fresh_proofs<S: Scheme>()
where
    S::Ciphersuite: BbsCiphersuite,
    <S::Ciphersuite as BbsCiphersuite>::Expander: for<'a> ExpandMsg<'a>,
{
    let ikm: Vec<u8> = (0..64u8).collect();
    let kp = KeyPair::<BBSplus<S::Ciphersuite>>::generate(&ikm, None, None).unwrap();
    let (sk, pk) = (kp.private_key(), kp.public_key());
    let header = b"equiv header".to_vec();
    let ph = b"equiv presentation header".to_vec();

    for L in [0usize, 1, 2, 3, 5, 8] {
        let messages: Vec<Vec<u8>> = (0..L).map(|i| format!("message #{}", i).into_bytes()).collect();
        let signature =
            Signature::<BBSplus<S::Ciphersuite>>::sign(Some(&messages), sk, pk, Some(&header)).unwrap();

        let mut sets: Vec<Vec<usize>> = vec![vec![], (0..L).collect()];
        if L > 0 {
            sets.push(vec![0]);
            sets.push(vec![L - 1]);
        }
        if L > 2 {
            sets.push(vec![0, L - 1]);
            sets.push((1..L).collect());
            sets.push((0..L - 1).collect());
            sets.push((0..L).step_by(2).collect());
        }
        for set in sets {
            let proof = PoKSignature::<BBSplus<S::Ciphersuite>>::proof_gen(
                pk,
                &signature.to_bytes(),
                Some(&header),
                Some(&ph),
                Some(&messages),
                Some(&set),
            )
            .unwrap();
            let bytes = proof.to_bytes();
            assert_eq!(bytes.len(), 272 + 32 * (L - set.len()), "L {} set {:?}", L, set);
            let decoded = PoKSignature::<BBSplus<S::Ciphersuite>>::from_bytes(&bytes).unwrap();
            assert!(decoded == proof);
            assert_eq!(decoded.to_bytes(), bytes);

            let disclosed = select(&messages, &set);
            assert!(
                decoded
                    .proof_verify(pk, Some(&disclosed), Some(&set), Some(&header), Some(&ph))
                    .is_ok(),
                "L {} set {:?}",
                L,
                set
            );
            if set.is_empty() {
                assert!(decoded.proof_verify(pk, None, None, Some(&header), Some(&ph)).is_ok());
                assert!(decoded.proof_verify(pk, None, Some(&[]), Some(&header), Some(&ph)).is_ok());
                assert!(decoded.proof_verify(pk, Some(&[]), None, Some(&header), Some(&ph)).is_ok());
            } else {
                assert!(decoded.proof_verify(pk, None, None, Some(&header), Some(&ph)).is_err());
                // shift the last index by one: out of range when it was L - 1
                let mut shifted = set.clone();
                *shifted.last_mut().unwrap() += 1;
                assert!(decoded
                    .proof_verify(pk, Some(&disclosed), Some(&shifted), Some(&header), Some(&ph))
                    .is_err());
                // reversed index list, same messages
                let mut rev = set.clone();
                rev.reverse();
                assert!(decoded
                    .proof_verify(pk, Some(&disclosed), Some(&rev), Some(&header), Some(&ph))
                    .is_ok());
            }
            // one more index than there are messages in total
            let mut more = set.clone();
            more.push(L);
            let mut more_msgs = disclosed.clone();
            more_msgs.push(b"x".to_vec());
            assert!(decoded
                .proof_verify(pk, Some(&more_msgs), Some(&more), Some(&header), Some(&ph))
                .is_err());
            assert!(decoded.proof_verify(pk, Some(&disclosed), Some(&set), None, Some(&ph)).is_err());
            assert!(decoded.proof_verify(pk, Some(&disclosed), Some(&set), Some(&header), None).is_err());

            // the plain proof is not a proof for the blind interface (different api id)
            assert!(decoded
                .blind_proof_verify(pk, Some(&header), Some(&ph), Some(L), Some(&disclosed), None, Some(&set), None)
                .is_err());
        }
    }
}

#[test]
fn fresh_proofs_sha256() {
    fresh_proofs::<BbsBls12381Sha256>();
}

#[test]
fn fresh_proofs_shake256() {
    fresh_proofs::<BbsBls12381Shake256>();
}

// ---------------------------------------------------------------------------------------------
// blind_proof_verify
// ---------------------------------------------------------------------------------------------

fn map_of(v: &serde_json::Value) -> Option<(Vec<Vec<u8>>, Vec<usize>)> {
    v.as_object().map(|o| {
        (
            o.values().map(|h| unhex(h.as_str().unwrap())).collect(),
            o.keys().map(|k| k.parse().unwrap()).collect(),
        )
    })
}

fn blind_fixtures<S: Scheme>(suite: &str)
where
    S::Ciphersuite: BbsCiphersuite,
    <S::Ciphersuite as BbsCiphersuite>::Expander: for<'a> ExpandMsg<'a>,
{
    for n in 1..=8 {
        let j = read_json(&format!("./fixture_data_blind/{}/proof/proof{:03}.json", suite, n));
        let pk = BBSplusPublicKey::from_bytes(&unhex(j["signerPublicKey"].as_str().unwrap())).unwrap();
        let header = unhex(j["header"].as_str().unwrap());
        let ph = unhex(j["presentationHeader"].as_str().unwrap());
        let L = j["L"].as_u64().unwrap() as usize;
        let valid = j["result"]["valid"].as_bool().unwrap();
        let bytes = unhex(j["proof"].as_str().unwrap());
        let (msgs, idx) = map_of(&j["revealedMessages"]).map_or((None, None), |(m, i)| (Some(m), Some(i)));
        let (cmsgs, cidx) =
            map_of(&j["revealedCommittedMessages"]).map_or((None, None), |(m, i)| (Some(m), Some(i)));

        let proof = PoKSignature::<BBSplus<S::Ciphersuite>>::from_bytes(&bytes).unwrap();
        assert_eq!(proof.to_bytes(), bytes);

        let run = |l: Option<usize>,
                   m: Option<&[Vec<u8>]>,
                   cm: Option<&[Vec<u8>]>,
                   i: Option<&[usize]>,
                   ci: Option<&[usize]>| {
            proof
                .blind_proof_verify(&pk, Some(&header), Some(&ph), l, m, cm, i, ci)
                .is_ok()
        };
        let (m, cm, i, ci) = (msgs.as_deref(), cmsgs.as_deref(), idx.as_deref(), cidx.as_deref());
        assert_eq!(run(Some(L), m, cm, i, ci), valid, "{} blind fixture {}", suite, n);
        assert!(valid);

        // None and Some(empty) lists are interchangeable
        let e_m: &[Vec<u8>] = &[];
        let e_i: &[usize] = &[];
        let m2 = Some(m.unwrap_or(e_m));
        let cm2 = Some(cm.unwrap_or(e_m));
        let i2 = Some(i.unwrap_or(e_i));
        let ci2 = Some(ci.unwrap_or(e_i));
        assert!(run(Some(L), m2, cm2, i2, ci2));
        let none_if_empty_m = |x: Option<&'_ [Vec<u8>]>| x.filter(|s| !s.is_empty()).map(|s| s.to_vec());
        let none_if_empty_i = |x: Option<&'_ [usize]>| x.filter(|s| !s.is_empty()).map(|s| s.to_vec());
        let (m3, cm3, i3, ci3) = (none_if_empty_m(m), none_if_empty_m(cm), none_if_empty_i(i), none_if_empty_i(ci));
        assert!(run(Some(L), m3.as_deref(), cm3.as_deref(), i3.as_deref(), ci3.as_deref()));

        // the number of signer messages is part of the statement
        assert!(!run(None, m, cm, i, ci));
        assert!(!run(Some(0), m, cm, i, ci));
        assert!(!run(Some(L - 1), m, cm, i, ci));
        assert!(!run(Some(L + 1), m, cm, i, ci));
        // total = R1 + R2 + U = 10 + 5 + 1: L may be at most total - 1
        assert!(!run(Some(15), m, cm, i, ci));
        assert!(!run(Some(16), m, cm, i, ci));
        assert!(!run(Some(17), m, cm, i, ci));
        assert!(!run(Some(usize::MAX), m, cm, i, ci));
        assert!(!run(Some(usize::MAX - 1), m, cm, i, ci));

        // index lists
        let ci_v = ci.unwrap_or(e_i).to_vec();
        let i_v = i.unwrap_or(e_i).to_vec();
        if !ci_v.is_empty() {
            let mut rev = ci_v.clone();
            rev.reverse();
            assert!(run(Some(L), m, cm, i, Some(&rev)));
            let mut dup = ci_v.clone();
            dup.push(ci_v[0]);
            assert!(run(Some(L), m, cm, i, Some(&dup)));
            let mut big = ci_v.clone();
            *big.last_mut().unwrap() = usize::MAX;
            assert!(!run(Some(L), m, cm, i, Some(&big)));
            *big.last_mut().unwrap() = usize::MAX - L - 1;
            assert!(!run(Some(L), m, cm, i, Some(&big)));
            *big.last_mut().unwrap() = usize::MAX - L;
            assert!(!run(Some(L), m, cm, i, Some(&big)));
            *big.last_mut().unwrap() = 5; // M = 5 committed messages: first index out of range
            assert!(!run(Some(L), m, cm, i, Some(&big)));
            assert!(!run(Some(L), m, cm, i, Some(&ci_v[1..])));
            assert!(!run(Some(L), m, cm.map(|c| &c[1..]), i, ci));
            assert!(!run(Some(L), m, None, i, ci));
            assert!(!run(Some(L), m, cm, i, None));
        }
        if !i_v.is_empty() {
            let mut rev = i_v.clone();
            rev.reverse();
            assert!(run(Some(L), m, cm, Some(&rev), ci));
            let mut dup = i_v.clone();
            dup.insert(0, *i_v.last().unwrap());
            assert!(run(Some(L), m, cm, Some(&dup), ci));
            let mut big = i_v.clone();
            *big.last_mut().unwrap() = usize::MAX;
            assert!(!run(Some(L), m, cm, Some(&big), ci));
            // an index of the signer list that points into the committed part
            *big.last_mut().unwrap() = L + 1;
            assert!(!run(Some(L), m, cm, Some(&big), ci));
            assert!(!run(Some(L), m, cm, Some(&i_v[1..]), ci));
            assert!(!run(Some(L), m.map(|c| &c[1..]), cm, i, ci));
            assert!(!run(Some(L), None, cm, i, ci));
            assert!(!run(Some(L), m, cm, None, ci));
        }
        // wrong headers
        assert!(proof
            .blind_proof_verify(&pk, None, Some(&ph), Some(L), m, cm, i, ci)
            .is_err());
        assert!(proof
            .blind_proof_verify(&pk, Some(&header), None, Some(L), m, cm, i, ci)
            .is_err());
        // the blind proof is not a proof for the plain interface
        assert!(proof.proof_verify(&pk, m, i, Some(&header), Some(&ph)).is_err());
    }
}

#[test]
fn blind_fixtures_sha256() {
    blind_fixtures::<BbsBls12381Sha256>(SUITES[0]);
}

#[test]
fn blind_fixtures_shake256() {
    blind_fixtures::<BbsBls12381Shake256>(SUITES[1]);
}

/// The two index lists of the blind verifier are merged after sorting each of them, so the merged
/// list can contain repetitions and be out of order.
fn blind_merged_index_lists<S: Scheme>(suite: &str)
where
    S::Ciphersuite: BbsCiphersuite,
    <S::Ciphersuite as BbsCiphersuite>::Expander: for<'a> ExpandMsg<'a>,
{
    // fixture 4: signer messages 0, 2, 4, 6, 8 of 10 and committed messages 0, 2, 4 of 5 disclosed
    let j = read_json(&format!("./fixture_data_blind/{}/proof/proof004.json", suite));
    let pk = BBSplusPublicKey::from_bytes(&unhex(j["signerPublicKey"].as_str().unwrap())).unwrap();
    let header = unhex(j["header"].as_str().unwrap());
    let ph = unhex(j["presentationHeader"].as_str().unwrap());
    let bytes = unhex(j["proof"].as_str().unwrap());
    let (msgs, idx) = map_of(&j["revealedMessages"]).unwrap();
    let (cmsgs, cidx) = map_of(&j["revealedCommittedMessages"]).unwrap();
    assert_eq!(idx, vec![0, 2, 4, 6, 8]);
    assert_eq!(cidx, vec![0, 2, 4]);
    let proof = PoKSignature::<BBSplus<S::Ciphersuite>>::from_bytes(&bytes).unwrap();
    let run = |l: usize, m: &[Vec<u8>], cm: &[Vec<u8>], i: &[usize], ci: &[usize]| {
        proof
            .blind_proof_verify(&pk, Some(&header), Some(&ph), Some(l), Some(m), Some(cm), Some(i), Some(ci))
            .is_ok()
    };
    assert!(run(10, &msgs, &cmsgs, &idx, &cidx));

    // the same statement with the committed indexes moved into the first list (11 + j): the merged
    // list is the same, the split of the messages is not looked at
    let all_msgs: Vec<Vec<u8>> = msgs.iter().chain(cmsgs.iter()).cloned().collect();
    let all_idx = [0usize, 2, 4, 6, 8, 11, 13, 15];
    assert!(run(10, &all_msgs, &[], &all_idx, &[]));
    assert!(run(10, &msgs, &cmsgs, &all_idx, &[]));
    assert!(run(10, &[], &all_msgs, &all_idx, &[]));
    // the same index through both lists: a repetition in the merged list
    assert!(!run(10, &msgs, &cmsgs, &[0, 2, 4, 6, 11], &cidx));
    assert!(!run(10, &all_msgs, &cmsgs, &all_idx, &cidx));
    // merged list out of order
    assert!(!run(10, &msgs, &cmsgs, &[0, 2, 4, 6, 15], &[0, 1]));
    assert!(!run(10, &msgs, &cmsgs, &[2, 4, 6, 8, 13], &[0, 4]));
    // largest merged index is L + M = 15 (16 messages with the prover blind)
    assert!(!run(10, &msgs, &cmsgs, &idx, &[0, 2, 5]));
    assert!(!run(10, &msgs, &cmsgs, &[0, 2, 4, 6, 16], &cidx));
    assert!(!run(10, &msgs, &cmsgs, &[0, 2, 4, 6, 10], &cidx));
    // other splits of the 16 messages
    for l in 0..=20 {
        assert_eq!(run(l, &msgs, &cmsgs, &idx, &cidx), l == 10, "L = {}", l);
    }
}

#[test]
fn blind_merged_index_lists_sha256() {
    blind_merged_index_lists::<BbsBls12381Sha256>(SUITES[0]);
}

#[test]
fn blind_merged_index_lists_shake256() {
    blind_merged_index_lists::<BbsBls12381Shake256>(SUITES[1]);
}

fn blind_fresh<S: Scheme>()
where
    S::Ciphersuite: BbsCiphersuite,
    <S::Ciphersuite as BbsCiphersuite>::Expander: for<'a> ExpandMsg<'a>,
{
    let ikm: Vec<u8> = (100..164u8).collect();
    let kp = KeyPair::<BBSplus<S::Ciphersuite>>::generate(&ikm, None, None).unwrap();
    let (sk, pk) = (kp.private_key(), kp.public_key());
    let header = b"blind header".to_vec();
    let ph = b"blind ph".to_vec();

    for (L, M) in [(0usize, 0usize), (0, 1), (1, 0), (1, 1), (2, 3), (3, 2)] {
        let messages: Vec<Vec<u8>> = (0..L).map(|i| vec![i as u8; i + 1]).collect();
        let committed: Vec<Vec<u8>> = (0..M).map(|i| vec![0x80 + i as u8; 2 * i + 1]).collect();
        let (commitment, blind) = Commitment::<BBSplus<S::Ciphersuite>>::commit(Some(&committed)).unwrap();
        let signature = BlindSignature::<BBSplus<S::Ciphersuite>>::blind_sign(
            sk,
            pk,
            Some(&commitment.to_bytes()),
            Some(&header),
            Some(&messages),
        )
        .unwrap();
        assert!(signature
            .verify_blind_sign(pk, Some(&header), Some(&messages), Some(&committed), Some(&blind))
            .is_ok());

        let mut choices: Vec<(Vec<usize>, Vec<usize>)> = vec![(vec![], vec![]), ((0..L).collect(), (0..M).collect())];
        if L > 0 {
            choices.push((vec![L - 1], vec![]));
        }
        if M > 0 {
            choices.push((vec![], vec![M - 1]));
        }
        if L > 1 && M > 1 {
            choices.push((vec![0], vec![0, M - 1]));
        }
        for (di, dci) in choices {
            let proof = PoKSignature::<BBSplus<S::Ciphersuite>>::blind_proof_gen(
                pk,
                &signature.to_bytes(),
                Some(&header),
                Some(&ph),
                Some(&messages),
                Some(&committed),
                Some(&di),
                Some(&dci),
                Some(&blind),
            )
            .unwrap();
            let bytes = proof.to_bytes();
            // L + M + 1 messages (the prover blind is one of them and never disclosed)
            assert_eq!(bytes.len(), 272 + 32 * (L + M + 1 - di.len() - dci.len()));
            let decoded = PoKSignature::<BBSplus<S::Ciphersuite>>::from_bytes(&bytes).unwrap();
            assert!(decoded == proof);
            let dm = select(&messages, &di);
            let dcm = select(&committed, &dci);
            let run = |l: Option<usize>, m: Option<&[Vec<u8>]>, cm: Option<&[Vec<u8>]>, i: Option<&[usize]>, ci: Option<&[usize]>| {
                decoded
                    .blind_proof_verify(pk, Some(&header), Some(&ph), l, m, cm, i, ci)
                    .is_ok()
            };
            assert!(
                run(Some(L), Some(&dm), Some(&dcm), Some(&di), Some(&dci)),
                "L {} M {} {:?} {:?}",
                L,
                M,
                di,
                dci
            );
            if L == 0 {
                assert!(run(None, Some(&dm), Some(&dcm), Some(&di), Some(&dci)));
            } else {
                assert!(!run(None, Some(&dm), Some(&dcm), Some(&di), Some(&dci)));
                assert!(!run(Some(L - 1), Some(&dm), Some(&dcm), Some(&di), Some(&dci)));
            }
            assert!(!run(Some(L + 1), Some(&dm), Some(&dcm), Some(&di), Some(&dci)));
            assert!(!run(Some(L + M + 1), Some(&dm), Some(&dcm), Some(&di), Some(&dci)));
            assert!(!run(Some(L + M + 2), Some(&dm), Some(&dcm), Some(&di), Some(&dci)));
            assert!(!run(Some(usize::MAX), Some(&dm), Some(&dcm), Some(&di), Some(&dci)));
            if di.is_empty() {
                assert!(run(Some(L), None, Some(&dcm), None, Some(&dci)));
            }
            if dci.is_empty() {
                assert!(run(Some(L), Some(&dm), None, Some(&di), None));
            } else {
                let mut bad = dci.clone();
                *bad.last_mut().unwrap() = M; // first index behind the committed messages
                assert!(!run(Some(L), Some(&dm), Some(&dcm), Some(&di), Some(&bad)));
                *bad.last_mut().unwrap() = usize::MAX;
                assert!(!run(Some(L), Some(&dm), Some(&dcm), Some(&di), Some(&bad)));
            }
            if !di.is_empty() {
                let mut bad = di.clone();
                *bad.last_mut().unwrap() = L; // the slot of the prover blind
                assert!(!run(Some(L), Some(&dm), Some(&dcm), Some(&bad), Some(&dci)));
            }
        }
    }
}

#[test]
fn blind_fresh_sha256() {
    blind_fresh::<BbsBls12381Sha256>();
}

#[test]
fn blind_fresh_shake256() {
    blind_fresh::<BbsBls12381Shake256>();
}

// ---------------------------------------------------------------------------------------------
// BBSplusZKPoK codec
// ---------------------------------------------------------------------------------------------

#[test]
fn zkpok_codec() {
    let s = |n: u64| Scalar::from(n);
    let be = |n: u64| {
        let mut b = [0u8; 32];
        b[24..].copy_from_slice(&n.to_be_bytes());
        b
    };
    for U in [0usize, 1, 2, 3, 7] {
        let m_cap: Vec<Scalar> = (0..U as u64).map(|i| s(1000 + i)).collect();
        let p = BBSplusZKPoK::new(s(7), m_cap.clone(), s(0xdead_beef));
        let bytes = p.to_bytes();
        let mut expected = Vec::new();
        expected.extend_from_slice(&be(7));
        for i in 0..U as u64 {
            expected.extend_from_slice(&be(1000 + i));
        }
        expected.extend_from_slice(&be(0xdead_beef));
        assert_eq!(bytes, expected);
        assert_eq!(bytes.len(), 64 + 32 * U);
        let q = BBSplusZKPoK::from_bytes(&bytes).unwrap();
        assert_eq!(q, p);
        assert_eq!(q.to_bytes(), bytes);
        assert_eq!(q, BBSplusZKPoK::new(s(7), m_cap, s(0xdead_beef)));

        // every truncation / extension that is not a whole number of scalars (or is too short) fails
        for len in 0..=bytes.len() + 40 {
            let mut b = bytes.clone();
            b.resize(len, 0);
            let r = BBSplusZKPoK::from_bytes(&b);
            assert_eq!(r.is_ok(), len >= 64 && len % 32 == 0, "U {} len {}", U, len);
            if let Ok(r) = r {
                assert_eq!(r.to_bytes(), b);
            }
        }
        // a non-canonical scalar in any slot
        for slot in 0..U + 2 {
            for bad in [unhex(R_BE), vec![0xff; 32]] {
                let mut b = bytes.clone();
                b[32 * slot..32 * slot + 32].copy_from_slice(&bad);
                assert!(BBSplusZKPoK::from_bytes(&b).is_err(), "U {} slot {}", U, slot);
            }
            let mut b = bytes.clone();
            b[32 * slot..32 * slot + 32].copy_from_slice(&unhex(R_MINUS_1_BE));
            let r = BBSplusZKPoK::from_bytes(&b).unwrap();
            assert_eq!(r.to_bytes(), b);
            assert_ne!(r, p);
        }
    }
    // largest canonical scalars everywhere
    let top = unhex(R_MINUS_1_BE);
    let b: Vec<u8> = top.iter().chain(top.iter()).chain(top.iter()).cloned().collect();
    let r = BBSplusZKPoK::from_bytes(&b).unwrap();
    assert_eq!(r, BBSplusZKPoK::new(-s(1), vec![-s(1)], -s(1)));
    for len in [0usize, 1, 31, 32, 33, 63] {
        assert!(BBSplusZKPoK::from_bytes(&vec![0u8; len]).is_err());
    }
    assert_eq!(
        BBSplusZKPoK::from_bytes(&[0u8; 64]).unwrap(),
        BBSplusZKPoK::new(s(0), vec![], s(0))
    );
    assert_eq!(
        BBSplusZKPoK::from_bytes(&[0u8; 96]).unwrap(),
        BBSplusZKPoK::new(s(0), vec![s(0)], s(0))
    );
}

fn commitment_with_proof_codec<S: Scheme>(suite: &str)
where
    S::Ciphersuite: BbsCiphersuite,
    <S::Ciphersuite as BbsCiphersuite>::Expander: for<'a> ExpandMsg<'a>,
{
    // the commitment with proof of the blind fixtures is a point followed by a BBSplusZKPoK
    let j = read_json(&format!("./fixture_data_blind/{}/proof/proof001.json", suite));
    let cwp = unhex(j["commitmentWithProof"].as_str().unwrap());
    let zk = BBSplusZKPoK::from_bytes(&cwp[48..]).unwrap();
    assert_eq!(zk.to_bytes(), &cwp[48..]);
    assert_eq!(cwp.len(), 48 + 64 + 32 * 5);
    let c = Commitment::<BBSplus<S::Ciphersuite>>::from_bytes(&cwp).unwrap();
    assert_eq!(c.to_bytes(), cwp);
    assert!(Commitment::<BBSplus<S::Ciphersuite>>::from_bytes(&cwp[..cwp.len() - 1]).is_err());
    assert!(Commitment::<BBSplus<S::Ciphersuite>>::from_bytes(&cwp[..48 + 32]).is_err());
    assert!(Commitment::<BBSplus<S::Ciphersuite>>::from_bytes(&cwp[..48 + 64]).is_ok());

    for M in [0usize, 1, 4] {
        let committed: Vec<Vec<u8>> = (0..M).map(|i| vec![i as u8; 3]).collect();
        let (c, _blind) = Commitment::<BBSplus<S::Ciphersuite>>::commit(Some(&committed)).unwrap();
        let bytes = c.to_bytes();
        assert_eq!(bytes.len(), 48 + 64 + 32 * M);
        let zk = BBSplusZKPoK::from_bytes(&bytes[48..]).unwrap();
        assert_eq!(zk.to_bytes(), &bytes[48..]);
        assert!(Commitment::<BBSplus<S::Ciphersuite>>::from_bytes(&bytes).unwrap() == c);
    }
}

#[test]
fn commitment_with_proof_codec_sha256() {
    commitment_with_proof_codec::<BbsBls12381Sha256>(SUITES[0]);
}

#[test]
fn commitment_with_proof_codec_shake256() {
    commitment_with_proof_codec::<BbsBls12381Shake256>(SUITES[1]);
}
