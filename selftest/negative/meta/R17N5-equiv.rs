// Equivalence tests (public API only, deterministic) for the BBS signature / key / decoder code.
#![allow(non_snake_case)]

use std::fs;
use zkryptium::{
    bbsplus::{
        ciphersuites::{BbsCiphersuite, Bls12381Sha256, Bls12381Shake256},
        commitment::{BBSplusCommitment, BlindFactor},
        generators::Generators,
        keys::{BBSplusPublicKey, BBSplusSecretKey},
        proof::{BBSplusPoKSignature, BBSplusZKPoK},
        signature::BBSplusSignature,
    },
    errors::Error,
    keys::pair::KeyPair,
    schemes::{
        algorithms::BBSplus,
        generics::{BlindSignature, Commitment, PoKSignature, Signature},
    },
    utils::util::bbsplus_utils::{generate_random_secret, ScalarExt},
};

type Sha = Bls12381Sha256;
type Shake = Bls12381Shake256;

const IKM: &str = "746869732d49532d6a7573742d616e2d546573742d494b4d2d746f2d67656e65726174652d246528724074232d6b6579";
const KEY_INFO: &str = "746869732d49532d736f6d652d6b65792d6d657461646174612d746f2d62652d757365642d696e2d746573742d6b65792d67656e";
// the group order r, big endian
const R_HEX: &str = "73eda753299d7d483339d80809a1d80553bda402fffe5bfeffffffff00000001";

fn json(path: &str) -> serde_json::Value {
    serde_json::from_str(&fs::read_to_string(path).expect("fixture")).expect("json")
}
fn h(v: &serde_json::Value) -> Vec<u8> {
    hex::decode(v.as_str().unwrap()).unwrap()
}
fn msgs(n: usize) -> Vec<Vec<u8>> {
    (0..n).map(|i| vec![i as u8; i % 5]).collect()
}

macro_rules! both {
    ($f:ident) => {
        $f::<Sha>("./fixture_data/bls12-381-sha-256/");
        $f::<Shake>("./fixture_data/bls12-381-shake-256/");
    };
}

fn keypair<CS: BbsCiphersuite>() -> KeyPair<BBSplus<CS>>
where
    CS::Expander: for<'a> elliptic_curve_shim::ExpandMsg<'a>,
{
    KeyPair::<BBSplus<CS>>::generate(
        &hex::decode(IKM).unwrap(),
        Some(&hex::decode(KEY_INFO).unwrap()),
        None,
    )
    .unwrap()
}

// `elliptic_curve` is not a direct dependency of an integration test; reach the trait through the crate bound
mod elliptic_curve_shim {
    pub use elliptic_curve::hash2curve::ExpandMsg;
}

// ---------------------------------------------------------------- keys

fn keygen_fixture<CS: BbsCiphersuite>(dir: &str)
where
    CS::Expander: for<'a> elliptic_curve_shim::ExpandMsg<'a>,
{
    let f = json(&format!("{dir}keypair.json"));
    let kp = KeyPair::<BBSplus<CS>>::generate(
        &h(&f["keyMaterial"]),
        Some(&h(&f["keyInfo"])),
        Some(&h(&f["keyDst"])),
    )
    .unwrap();
    assert_eq!(kp.private_key().to_bytes().to_vec(), h(&f["keyPair"]["secretKey"]));
    assert_eq!(kp.public_key().to_bytes().to_vec(), h(&f["keyPair"]["publicKey"]));
    assert_eq!(kp.private_key().public_key(), *kp.public_key());
    assert_eq!(kp.private_key().encode(), f["keyPair"]["secretKey"].as_str().unwrap());
    assert_eq!(kp.public_key().encode(), f["keyPair"]["publicKey"].as_str().unwrap());

    // default dst == explicit default dst; None key_info == Some(empty)
    let ikm = h(&f["keyMaterial"]);
    let a = KeyPair::<BBSplus<CS>>::generate(&ikm, None, None).unwrap();
    let b = KeyPair::<BBSplus<CS>>::generate(&ikm, Some(&[]), None).unwrap();
    let dst = [CS::API_ID, CS::KEYGEN_DST].concat();
    let c = KeyPair::<BBSplus<CS>>::generate(&ikm, Some(&[]), Some(&dst)).unwrap();
    let pair = |k: &KeyPair<BBSplus<CS>>| (k.private_key().to_bytes(), k.public_key().to_bytes());
    assert_eq!(pair(&a), pair(&b));
    assert_eq!(pair(&a), pair(&c));
    assert_ne!(pair(&a), pair(&kp));

    // length limits
    assert!(matches!(
        KeyPair::<BBSplus<CS>>::generate(&ikm[..CS::IKM_LEN - 1], None, None),
        Err(Error::KeyGenError(_))
    ));
    assert!(KeyPair::<BBSplus<CS>>::generate(&ikm[..CS::IKM_LEN], None, None).is_ok());
    assert!(matches!(
        KeyPair::<BBSplus<CS>>::generate(&[], None, None),
        Err(Error::KeyGenError(_))
    ));
    assert!(KeyPair::<BBSplus<CS>>::generate(&ikm, Some(&vec![7u8; 65535]), None).is_ok());
    assert!(matches!(
        KeyPair::<BBSplus<CS>>::generate(&ikm, Some(&vec![7u8; 65536]), None),
        Err(Error::KeyGenError(_))
    ));
    // short material AND long info: still an error
    assert!(KeyPair::<BBSplus<CS>>::generate(&[1u8; 3], Some(&vec![7u8; 65536]), None).is_err());
    // a dst of more than 255 octets is refused by hash_to_scalar
    assert!(matches!(
        KeyPair::<BBSplus<CS>>::generate(&ikm, None, Some(&[b'x'; 256])),
        Err(Error::HashToScalarError)
    ));
    assert!(KeyPair::<BBSplus<CS>>::generate(&ikm, None, Some(&[b'x'; 255])).is_ok());

    // random(): consistent pair, two draws differ
    let r1 = KeyPair::<BBSplus<CS>>::random().unwrap();
    let r2 = KeyPair::<BBSplus<CS>>::random().unwrap();
    assert_eq!(r1.private_key().public_key(), *r1.public_key());
    assert_ne!(pair(&r1), pair(&r2));
    let (sk, pk) = r1.into_parts();
    assert_eq!(BBSplusSecretKey::from_bytes(&sk.to_bytes()).unwrap(), sk);
    assert_eq!(BBSplusPublicKey::from_bytes(&pk.to_bytes()).unwrap(), pk);
}

#[test]
fn keygen() {
    both!(keygen_fixture);
    assert_eq!(generate_random_secret(0).len(), 0);
    assert_eq!(generate_random_secret(64).len(), 64);
    assert_ne!(generate_random_secret(32), generate_random_secret(32));
}

#[test]
fn key_decoders() {
    let kp = keypair::<Sha>();
    let (sk, pk) = kp.into_parts();
    let skb = sk.to_bytes();
    let pkb = pk.to_bytes();

    // secret key: wrong lengths, zero, r, r - 1, all ones
    for n in [0usize, 1, 31, 33, 64] {
        let v = vec![1u8; n];
        assert!(matches!(BBSplusSecretKey::from_bytes(&v), Err(Error::KeyDeserializationError)), "{n}");
    }
    assert!(matches!(BBSplusSecretKey::from_bytes(&[0u8; 32]), Err(Error::KeyDeserializationError)));
    assert!(matches!(BBSplusSecretKey::from_bytes(&[0xffu8; 32]), Err(Error::KeyDeserializationError)));
    let r = hex::decode(R_HEX).unwrap();
    assert!(matches!(BBSplusSecretKey::from_bytes(&r), Err(Error::KeyDeserializationError)));
    let mut r_minus_1 = r.clone();
    r_minus_1[31] -= 1;
    let top = BBSplusSecretKey::from_bytes(&r_minus_1).unwrap();
    assert_eq!(top.to_bytes().to_vec(), r_minus_1);
    let mut one = [0u8; 32];
    one[31] = 1;
    let sk1 = BBSplusSecretKey::from_bytes(&one).unwrap();
    assert_eq!(
        hex::encode(sk1.public_key().to_bytes()),
        "93e02b6052719f607dacd3a088274f65596bd0d09920b61ab5da61bbdc7f5049334cf11213945d57e5ac7d055d042b7e024aa2b2f08f0a91260805272dc51051c6e47ad4fa403b02b4510b647ae3d1770bac0326a805bbefd48056c8c121bdb8"
    );
    assert_eq!(BBSplusSecretKey::from_bytes(&skb).unwrap(), sk);

    // public key, compressed
    for n in [0usize, 1, 47, 48, 95, 97, 192] {
        let v = vec![0x80u8; n];
        assert!(matches!(BBSplusPublicKey::from_bytes(&v), Err(Error::KeyDeserializationError)), "{n}");
    }
    let mut identity = [0u8; 96];
    identity[0] = 0xc0;
    assert!(matches!(BBSplusPublicKey::from_bytes(&identity), Err(Error::KeyDeserializationError)));
    assert!(matches!(BBSplusPublicKey::from_bytes(&[0u8; 96]), Err(Error::KeyDeserializationError)));
    assert!(matches!(BBSplusPublicKey::from_bytes(&[0xffu8; 96]), Err(Error::KeyDeserializationError)));
    let mut bad = pkb;
    bad[0] &= 0x7f; // compression flag cleared
    assert!(BBSplusPublicKey::from_bytes(&bad).is_err());
    let mut flips = Vec::new();
    for i in [1usize, 40, 95] {
        let mut bad = pkb;
        bad[i] ^= 1;
        flips.push(BBSplusPublicKey::from_bytes(&bad).map(|p| hex::encode(p.to_bytes())).ok());
    }
    // whatever is accepted re-encodes to its input (decoding is canonical)
    for (f, i) in flips.iter().zip([1usize, 40, 95]) {
        if let Some(hexed) = f {
            let mut bad = pkb;
            bad[i] ^= 1;
            assert_eq!(*hexed, hex::encode(bad));
        }
    }
    assert_eq!(BBSplusPublicKey::from_bytes(&pkb).unwrap(), pk);

    // coordinates (uncompressed form)
    let (x, y) = pk.to_coordinates();
    assert_eq!(BBSplusPublicKey::from_coordinates(&x, &y).unwrap(), pk);
    assert!(matches!(BBSplusPublicKey::from_coordinates(&y, &x), Err(Error::KeyDeserializationError)));
    assert!(matches!(BBSplusPublicKey::from_coordinates(&[0u8; 96], &[0u8; 96]), Err(Error::KeyDeserializationError)));
    let mut ix = [0u8; 96];
    ix[0] = 0x40; // identity, uncompressed
    assert!(matches!(BBSplusPublicKey::from_coordinates(&ix, &[0u8; 96]), Err(Error::KeyDeserializationError)));
    let mut y2 = y;
    y2[95] ^= 1;
    assert!(matches!(BBSplusPublicKey::from_coordinates(&x, &y2), Err(Error::KeyDeserializationError)));

    // serde forms
    let js = serde_json::to_string(&pk).unwrap();
    assert_eq!(serde_json::from_str::<BBSplusPublicKey>(&js).unwrap(), pk);
    let js = serde_json::to_string(&sk).unwrap();
    assert_eq!(serde_json::from_str::<BBSplusSecretKey>(&js).unwrap(), sk);
}

#[test]
fn scalar_ext() {
    use bls12_381_plus_shim::Scalar;
    for n in [0usize, 31, 33] {
        assert!(matches!(Scalar::from_bytes_be(&vec![0u8; n]), Err(Error::DeserializationError(_))));
    }
    assert_eq!(Scalar::from_bytes_be(&[0u8; 32]).unwrap().to_bytes_be(), [0u8; 32]);
    let r = hex::decode(R_HEX).unwrap();
    assert!(matches!(Scalar::from_bytes_be(&r), Err(Error::DeserializationError(_))));
    assert!(Scalar::from_bytes_be(&[0xff; 32]).is_err());
    let mut v = r.clone();
    v[31] -= 1;
    let s = Scalar::from_bytes_be(&v).unwrap();
    assert_eq!(s.to_bytes_be().to_vec(), v);
    assert_eq!(s.encode(), hex::encode(&v));
    // BlindFactor goes through the same decoder
    assert!(BlindFactor::from_bytes(&[0xff; 32]).is_err());
    let arr: [u8; 32] = v.clone().try_into().unwrap();
    assert_eq!(BlindFactor::from_bytes(&arr).unwrap().to_bytes(), arr);
    assert_eq!(BlindFactor::from_bytes(&[0; 32]).unwrap().to_bytes(), [0; 32]);
}
mod bls12_381_plus_shim {
    pub use bls12_381_plus::Scalar;
}

// ---------------------------------------------------------------- sign / verify / update

fn sign_fixtures<CS: BbsCiphersuite>(dir: &str)
where
    CS::Expander: for<'a> elliptic_curve_shim::ExpandMsg<'a>,
{
    for i in 1..=10 {
        let f = json(&format!("{dir}signature/signature{:03}.json", i));
        let sk = BBSplusSecretKey::from_bytes(&h(&f["signerKeyPair"]["secretKey"])).unwrap();
        let pk = BBSplusPublicKey::from_bytes(&h(&f["signerKeyPair"]["publicKey"])).unwrap();
        let header = h(&f["header"]);
        let messages: Vec<Vec<u8>> = f["messages"].as_array().unwrap().iter().map(h).collect();
        let expected = h(&f["signature"]);
        let valid = f["result"]["valid"].as_bool().unwrap();
        let sig = Signature::<BBSplus<CS>>::sign(Some(&messages), &sk, &pk, Some(&header)).unwrap();
        assert_eq!(sig.to_bytes().to_vec() == expected, valid, "case {i}");
        let arr: [u8; 80] = expected.clone().try_into().unwrap();
        let parsed = Signature::<BBSplus<CS>>::from_bytes(&arr).unwrap();
        assert_eq!(parsed.to_bytes(), arr);
        assert_eq!(parsed.verify(&pk, Some(&messages), Some(&header)).is_ok(), valid, "case {i}");
    }
}

#[test]
fn sign_known_answers() {
    both!(sign_fixtures);
}

fn sign_sizes<CS: BbsCiphersuite>(_dir: &str)
where
    CS::Expander: for<'a> elliptic_curve_shim::ExpandMsg<'a>,
{
    let kp = keypair::<CS>();
    let (sk, pk) = (kp.private_key(), kp.public_key());
    let other = KeyPair::<BBSplus<CS>>::generate(&[9u8; 40], None, None).unwrap();

    // None == Some(empty), header None == Some(empty)
    let s0 = Signature::<BBSplus<CS>>::sign(None, sk, pk, None).unwrap();
    let s0b = Signature::<BBSplus<CS>>::sign(Some(&[]), sk, pk, Some(&[])).unwrap();
    assert_eq!(s0.to_bytes(), s0b.to_bytes());
    assert!(s0.verify(pk, None, None).is_ok());
    assert!(s0.verify(pk, Some(&[]), Some(b"")).is_ok());
    assert!(matches!(s0.verify(pk, None, Some(b"x")), Err(Error::SignatureVerificationError)));
    assert!(matches!(s0.verify(pk, Some(&msgs(1)), None), Err(Error::SignatureVerificationError)));

    let mut seen = Vec::new();
    for n in [1usize, 2, 3, 7, 16] {
        let m = msgs(n);
        let hdr = vec![0xabu8; n];
        let sig = Signature::<BBSplus<CS>>::sign(Some(&m), sk, pk, Some(&hdr)).unwrap();
        let again = Signature::<BBSplus<CS>>::sign(Some(&m), sk, pk, Some(&hdr)).unwrap();
        assert_eq!(sig.to_bytes(), again.to_bytes());
        assert!(!seen.contains(&sig.to_bytes().to_vec()));
        seen.push(sig.to_bytes().to_vec());
        assert!(sig.verify(pk, Some(&m), Some(&hdr)).is_ok());
        assert_eq!(sig.a(), sig.bbsPlusSignature().A);
        assert_eq!(sig.e(), sig.bbsPlusSignature().e);

        // wrong header / key / message count / message order / last message
        assert!(matches!(sig.verify(pk, Some(&m), None), Err(Error::SignatureVerificationError)));
        assert!(matches!(sig.verify(other.public_key(), Some(&m), Some(&hdr)), Err(Error::SignatureVerificationError)));
        assert!(matches!(sig.verify(pk, Some(&m[..n - 1]), Some(&hdr)), Err(Error::SignatureVerificationError)));
        assert!(matches!(sig.verify(pk, Some(&msgs(n + 1)), Some(&hdr)), Err(Error::SignatureVerificationError)));
        let mut last = m.clone();
        last[n - 1].push(1);
        assert!(sig.verify(pk, Some(&last), Some(&hdr)).is_err());
        if n > 2 {
            let mut sw = m.clone();
            sw.swap(1, n - 1);
            assert!(sig.verify(pk, Some(&sw), Some(&hdr)).is_err());
        }
        // signing with a public key that is not the secret key's: signature does not verify under either
        let odd = Signature::<BBSplus<CS>>::sign(Some(&m), sk, other.public_key(), Some(&hdr)).unwrap();
        assert_ne!(odd.to_bytes(), sig.to_bytes());
        assert!(odd.verify(pk, Some(&m), Some(&hdr)).is_err());
        assert!(odd.verify(other.public_key(), Some(&m), Some(&hdr)).is_err());

        // update_signature at the first, a middle and the largest index
        for idx in [0, n / 2, n - 1] {
            let new_msg = b"replacement".to_vec();
            let up = sig.update_signature(sk, &m[idx], &new_msg, idx, n).unwrap();
            let mut m2 = m.clone();
            m2[idx] = new_msg.clone();
            let direct = Signature::<BBSplus<CS>>::sign(Some(&m2), sk, pk, Some(&hdr)).unwrap();
            assert_eq!(up.e(), sig.e());
            assert!(up.verify(pk, Some(&m2), Some(&hdr)).is_ok());
            assert!(up.verify(pk, Some(&m), Some(&hdr)).is_err());
            assert_ne!(up.to_bytes(), sig.to_bytes());
            let _ = direct;
            // same message: same signature
            let same = sig.update_signature(sk, &m[idx], &m[idx], idx, n).unwrap();
            assert_eq!(same.to_bytes(), sig.to_bytes());
            // a larger declared n picks the same generator
            let up2 = sig.update_signature(sk, &m[idx], &new_msg, idx, n + 3).unwrap();
            assert_eq!(up2.to_bytes(), up.to_bytes());
        }
        assert!(matches!(sig.update_signature(sk, &m[0], b"x", n, n), Err(Error::UpdateSignatureError(_))));
        assert!(matches!(sig.update_signature(sk, &m[0], b"x", n + 1, n), Err(Error::UpdateSignatureError(_))));
        assert!(matches!(sig.update_signature(sk, &m[0], b"x", 0, 0), Err(Error::UpdateSignatureError(_))));
        assert!(matches!(sig.update_signature(sk, &m[0], b"x", usize::MAX, usize::MAX), Err(Error::UpdateSignatureError(_))));
        assert!(matches!(sig.update_signature(sk, &m[0], b"x", 0, usize::MAX), Err(Error::UpdateSignatureError(_))));
    }
}

#[test]
fn sign_verify_update_sizes() {
    both!(sign_sizes);
}

#[test]
fn signature_decoder() {
    let kp = keypair::<Sha>();
    let sig = Signature::<BBSplus<Sha>>::sign(Some(&msgs(3)), kp.private_key(), kp.public_key(), None).unwrap();
    let b = sig.to_bytes();
    let inner = BBSplusSignature::from_bytes(&b).unwrap();
    assert_eq!(inner.to_bytes(), b);
    assert_eq!(&inner, sig.bbsPlusSignature());

    let mut id = b;
    id[..48].copy_from_slice(&{
        let mut z = [0u8; 48];
        z[0] = 0xc0;
        z
    });
    assert!(matches!(BBSplusSignature::from_bytes(&id), Err(Error::InvalidSignature)));
    let mut zero_e = b;
    zero_e[48..].fill(0);
    assert!(matches!(BBSplusSignature::from_bytes(&zero_e), Err(Error::InvalidSignature)));
    let mut big_e = b;
    big_e[48..].copy_from_slice(&hex::decode(R_HEX).unwrap());
    assert!(matches!(BBSplusSignature::from_bytes(&big_e), Err(Error::InvalidSignature)));
    big_e[79] -= 1;
    assert!(BBSplusSignature::from_bytes(&big_e).is_ok());
    let mut bad_a = b;
    bad_a[0] &= 0x7f;
    assert!(matches!(BBSplusSignature::from_bytes(&bad_a), Err(Error::InvalidSignature)));
    assert!(matches!(BBSplusSignature::from_bytes(&[0u8; 80]), Err(Error::InvalidSignature)));
    assert!(matches!(BBSplusSignature::from_bytes(&[0xffu8; 80]), Err(Error::InvalidSignature)));
    assert!(matches!(Signature::<BBSplus<Sha>>::from_bytes(&[0xffu8; 80]), Err(Error::InvalidSignature)));
    // both halves bad
    let mut both_bad = bad_a;
    both_bad[48..].fill(0xff);
    assert!(matches!(BBSplusSignature::from_bytes(&both_bad), Err(Error::InvalidSignature)));
    // swapped-in valid e: decodes, does not verify
    let mut other_e = b;
    other_e[79] ^= 1;
    let forged = Signature::<BBSplus<Sha>>::from_bytes(&other_e).unwrap();
    assert!(matches!(forged.verify(kp.public_key(), Some(&msgs(3)), None), Err(Error::SignatureVerificationError)));

    // serde form
    let js = serde_json::to_string(&sig).unwrap();
    let back: Signature<BBSplus<Sha>> = serde_json::from_str(&js).unwrap();
    assert_eq!(back.to_bytes(), b);
}

// ---------------------------------------------------------------- proofs and commitments: decoders

fn proof_roundtrip<CS: BbsCiphersuite>(_dir: &str)
where
    CS::Expander: for<'a> elliptic_curve_shim::ExpandMsg<'a>,
{
    let kp = keypair::<CS>();
    let (sk, pk) = (kp.private_key(), kp.public_key());
    for (n, disclosed) in [
        (0usize, vec![]),
        (1, vec![]),
        (1, vec![0usize]),
        (4, vec![0, 3]),
        (4, vec![0, 1, 2, 3]),
        (6, vec![5]),
    ] {
        let m = msgs(n);
        let sig = Signature::<BBSplus<CS>>::sign(Some(&m), sk, pk, Some(b"hdr")).unwrap();
        let proof = PoKSignature::<BBSplus<CS>>::proof_gen(
            pk,
            &sig.to_bytes(),
            Some(b"hdr"),
            Some(b"ph"),
            Some(&m),
            Some(&disclosed),
        )
        .unwrap();
        let dm: Vec<Vec<u8>> = disclosed.iter().map(|&i| m[i].clone()).collect();
        assert!(proof.proof_verify(pk, Some(&dm), Some(&disclosed), Some(b"hdr"), Some(b"ph")).is_ok());
        let bytes = proof.to_bytes();
        assert_eq!(bytes.len(), 272 + 32 * (n - disclosed.len()));
        let back = PoKSignature::<BBSplus<CS>>::from_bytes(&bytes).unwrap();
        assert_eq!(back.to_bytes(), bytes);
        assert_eq!(back.to_bbsplus_proof(), proof.to_bbsplus_proof());
        assert!(back.proof_verify(pk, Some(&dm), Some(&disclosed), Some(b"hdr"), Some(b"ph")).is_ok());
        assert!(back.proof_verify(pk, Some(&dm), Some(&disclosed), Some(b"hdr"), None).is_err());

        // framing
        for cut in [0usize, 1, 47, 48, 144, 240, 271, bytes.len() - 1, bytes.len() - 32] {
            let r = BBSplusPoKSignature::from_bytes(&bytes[..cut.min(bytes.len())]);
            if cut >= 272 && (cut - 240) % 32 == 0 {
                assert!(r.is_ok(), "n {n} cut {cut}");
            } else {
                assert!(matches!(r, Err(Error::InvalidProofOfKnowledgeSignature)), "n {n} cut {cut}");
            }
        }
        let mut longer = bytes.clone();
        longer.push(0);
        assert!(matches!(BBSplusPoKSignature::from_bytes(&longer), Err(Error::InvalidProofOfKnowledgeSignature)));
        longer.extend_from_slice(&[0u8; 31]); // one more scalar, equal to zero
        assert!(matches!(BBSplusPoKSignature::from_bytes(&longer), Err(Error::InvalidProofOfKnowledgeSignature)));
        let l = longer.len();
        longer[l - 1] = 1; // one more scalar, equal to one: decodes (and no longer verifies)
        let extra = PoKSignature::<BBSplus<CS>>::from_bytes(&longer).unwrap();
        assert_eq!(extra.to_bytes(), longer);
        assert!(extra.proof_verify(pk, Some(&dm), Some(&disclosed), Some(b"hdr"), Some(b"ph")).is_err());

        // every point position: identity and garbage; every scalar position: zero and r
        let mut identity = [0u8; 48];
        identity[0] = 0xc0;
        for p in 0..3 {
            let mut b = bytes.clone();
            b[48 * p..48 * (p + 1)].copy_from_slice(&identity);
            assert!(matches!(BBSplusPoKSignature::from_bytes(&b), Err(Error::InvalidProofOfKnowledgeSignature)));
            let mut b = bytes.clone();
            b[48 * p] &= 0x7f;
            assert!(matches!(BBSplusPoKSignature::from_bytes(&b), Err(Error::InvalidProofOfKnowledgeSignature)));
            let mut b = bytes.clone();
            b[48 * p..48 * (p + 1)].fill(0xff);
            assert!(matches!(BBSplusPoKSignature::from_bytes(&b), Err(Error::InvalidProofOfKnowledgeSignature)));
        }
        let r = hex::decode(R_HEX).unwrap();
        for s in 0..(bytes.len() - 144) / 32 {
            let at = 144 + 32 * s;
            let mut b = bytes.clone();
            b[at..at + 32].fill(0);
            assert!(matches!(BBSplusPoKSignature::from_bytes(&b), Err(Error::InvalidProofOfKnowledgeSignature)), "zero at {s}");
            b[at..at + 32].copy_from_slice(&r);
            assert!(matches!(BBSplusPoKSignature::from_bytes(&b), Err(Error::InvalidProofOfKnowledgeSignature)), "r at {s}");
            b[at + 31] -= 1;
            assert!(BBSplusPoKSignature::from_bytes(&b).is_ok(), "r - 1 at {s}");
        }
        // serde form keeps the value
        let js = serde_json::to_string(&proof).unwrap();
        let back: PoKSignature<BBSplus<CS>> = serde_json::from_str(&js).unwrap();
        assert_eq!(back.to_bytes(), bytes);
    }
    // proof_gen frames the signature itself
    assert!(matches!(
        PoKSignature::<BBSplus<CS>>::proof_gen(pk, &[0u8; 79], None, None, None, None),
        Err(Error::InvalidSignature)
    ));
    assert!(matches!(
        PoKSignature::<BBSplus<CS>>::proof_gen(pk, &[0u8; 80], None, None, None, None),
        Err(Error::InvalidSignature)
    ));
}

#[test]
fn proof_decoder() {
    both!(proof_roundtrip);
}

#[test]
fn zkpok_decoder() {
    let r = hex::decode(R_HEX).unwrap();
    for n in [0usize, 1, 31, 32, 33, 63, 65, 95] {
        assert!(matches!(BBSplusZKPoK::from_bytes(&vec![0u8; n]), Err(Error::InvalidProofOfKnowledgeSignature)), "{n}");
    }
    for k in [2usize, 3, 5] {
        let mut b = Vec::new();
        for i in 0..k {
            let mut s = [0u8; 32];
            s[31] = i as u8; // zero is allowed here
            s[0] = 0x10;
            b.extend_from_slice(&s);
        }
        let p = BBSplusZKPoK::from_bytes(&b).unwrap();
        assert_eq!(p.to_bytes(), b);
        let js = serde_json::to_string(&p).unwrap();
        assert_eq!(serde_json::from_str::<BBSplusZKPoK>(&js).unwrap(), p);
        assert_eq!(BBSplusZKPoK::from_bytes(&vec![0u8; 32 * k]).unwrap().to_bytes(), vec![0u8; 32 * k]);
        for pos in 0..k {
            let mut bad = b.clone();
            bad[32 * pos..32 * (pos + 1)].copy_from_slice(&r);
            assert!(matches!(BBSplusZKPoK::from_bytes(&bad), Err(Error::DeserializationError(_))), "k {k} pos {pos}");
            // inside a commitment the same failure is reported as a commitment-proof failure
        }
    }
}

fn commitments<CS: BbsCiphersuite>(_dir: &str)
where
    CS::Expander: for<'a> elliptic_curve_shim::ExpandMsg<'a>,
{
    let kp = keypair::<CS>();
    let (sk, pk) = (kp.private_key(), kp.public_key());
    let r = hex::decode(R_HEX).unwrap();
    for n in [0usize, 1, 3] {
        let cm = msgs(n);
        let (c, blind) = if n == 0 {
            Commitment::<BBSplus<CS>>::commit(None).unwrap()
        } else {
            Commitment::<BBSplus<CS>>::commit(Some(&cm)).unwrap()
        };
        let bytes = c.to_bytes();
        assert_eq!(bytes.len(), 48 + 64 + 32 * n);
        let back = Commitment::<BBSplus<CS>>::from_bytes(&bytes).unwrap();
        assert_eq!(back.to_bytes(), bytes);
        assert_eq!(BBSplusCommitment::from_bytes(&bytes).unwrap().to_bytes(), bytes);
        assert_eq!(BlindFactor::from_bytes(&blind.to_bytes()).unwrap().to_bytes(), blind.to_bytes());

        let gens = Generators::create::<CS>(n + 1, Some(&[b"BLIND_", CS::API_ID_BLIND].concat()));
        let point = Commitment::<BBSplus<CS>>::deserialize_and_validate_commit(Some(&bytes), &gens, Some(CS::API_ID_BLIND)).unwrap();
        assert_eq!(point, BBSplusCommitment::from_bytes(&bytes).unwrap().commitment);
        // None and Some(empty): the identity
        let id1 = Commitment::<BBSplus<CS>>::deserialize_and_validate_commit(None, &gens, None).unwrap();
        let id2 = Commitment::<BBSplus<CS>>::deserialize_and_validate_commit(Some(&[]), &gens, None).unwrap();
        assert_eq!(id1, id2);
        assert!(bool::from(id1.is_identity()));
        // wrong api id / too few generators
        assert!(matches!(
            Commitment::<BBSplus<CS>>::deserialize_and_validate_commit(Some(&bytes), &gens, None),
            Err(Error::InvalidCommitmentProof)
        ));
        let few = Generators::create::<CS>(n, Some(&[b"BLIND_", CS::API_ID_BLIND].concat()));
        assert!(matches!(
            Commitment::<BBSplus<CS>>::deserialize_and_validate_commit(Some(&bytes), &few, Some(CS::API_ID_BLIND)),
            Err(Error::NotEnoughGenerators)
        ));

        // framing
        for cut in [1usize, 47] {
            assert!(matches!(BBSplusCommitment::from_bytes(&bytes[..cut]), Err(Error::InvalidCommitment)));
        }
        for cut in [48usize, 49, 80, 111, bytes.len() - 1] {
            assert!(matches!(BBSplusCommitment::from_bytes(&bytes[..cut]), Err(Error::InvalidCommitmentProof)), "cut {cut}");
        }
        assert!(matches!(BBSplusCommitment::from_bytes(&[]), Err(Error::InvalidCommitment)));
        let mut bad = bytes.clone();
        bad[0] &= 0x7f;
        assert!(matches!(BBSplusCommitment::from_bytes(&bad), Err(Error::InvalidCommitment)));
        for s in 0..n + 2 {
            let mut bad = bytes.clone();
            bad[48 + 32 * s..48 + 32 * (s + 1)].copy_from_slice(&r);
            assert!(matches!(BBSplusCommitment::from_bytes(&bad), Err(Error::InvalidCommitmentProof)), "s {s}");
            let mut zero = bytes.clone();
            zero[48 + 32 * s..48 + 32 * (s + 1)].fill(0);
            let z = BBSplusCommitment::from_bytes(&zero).unwrap();
            assert_eq!(z.to_bytes(), zero);
            assert!(matches!(
                Commitment::<BBSplus<CS>>::deserialize_and_validate_commit(Some(&zero), &gens, Some(CS::API_ID_BLIND)),
                Err(Error::InvalidCommitmentProof)
            ));
        }
        // the identity as commitment point decodes (and fails validation)
        let mut idc = bytes.clone();
        idc[..48].fill(0);
        idc[0] = 0xc0;
        assert!(BBSplusCommitment::from_bytes(&idc).is_ok());

        // blind signature over the commitment, end to end
        let m = msgs(2);
        let bs = BlindSignature::<BBSplus<CS>>::blind_sign(sk, pk, Some(&bytes), Some(b"h"), Some(&m)).unwrap();
        let committed = if n == 0 { None } else { Some(cm.as_slice()) };
        assert!(bs
            .verify_blind_sign(pk, Some(b"h"), Some(&m), committed, Some(&blind))
            .is_ok());
        let arr = bs.to_bytes();
        assert_eq!(BlindSignature::<BBSplus<CS>>::from_bytes(&arr).unwrap().to_bytes(), arr);
        assert!(BlindSignature::<BBSplus<CS>>::blind_sign(sk, pk, Some(&bytes[..bytes.len() - 1]), Some(b"h"), Some(&m)).is_err());
    }
}

#[test]
fn commitment_decoder() {
    both!(commitments);
}
