#![cfg(feature = "cl03")]
#![allow(non_snake_case)]

// Behaviour checks of the CL03 issuance path (commitment, proof of knowledge of the committed attributes, blind signature,
// update, unblinding) and of the prover of the signature proof of knowledge. The randomness of the library cannot be seeded:
// the checks are relations that hold for every choice of the random values.

use rug::{ops::Pow, Integer};
use std::panic::{catch_unwind, AssertUnwindSafe};
use zkryptium::{
    cl03::{bases::Bases, ciphersuites::CLCiphersuite, keys::CL03CommitmentPublicKey},
    keys::pair::KeyPair,
    schemes::algorithms::{Scheme, CL03, CL03_CL1024_SHA256},
    schemes::generics::{BlindSignature, Commitment, PoKSignature, ZKPoK},
    utils::message::cl03_message::CL03Message,
};

type S = CL03_CL1024_SHA256;
type CS = <S as Scheme>::Ciphersuite;
type Alg = CL03<CS>;

fn msgs(n: usize, salt: u8) -> Vec<CL03Message> {
    (0..n)
        .map(|i| CL03Message::map_message_to_integer_as_hash::<CS>(&[salt, i as u8, 0x5a, 0x17]))
        .collect()
}

fn pick(all: &[CL03Message], idx: &[usize]) -> Vec<CL03Message> {
    idx.iter().map(|&i| all[i].clone()).collect()
}

fn panics<T>(f: impl FnOnce() -> T) -> bool {
    let hook = std::panic::take_hook();
    std::panic::set_hook(Box::new(|_| {}));
    let r = catch_unwind(AssertUnwindSafe(f)).is_err();
    std::panic::set_hook(hook);
    r
}

fn prod(bases: &[Integer], ms: &[CL03Message], idx: &[usize], N: &Integer) -> Integer {
    let mut acc = Integer::from(1);
    for &i in idx {
        acc = acc * Integer::from(bases[i].pow_mod_ref(&ms[i].value, N).unwrap()) % N;
    }
    acc
}

#[test]
fn commitments_and_issuance() {
    let kp = KeyPair::<Alg>::generate();
    let (pk, sk) = (kp.public_key(), kp.private_key());
    let n = 4usize;
    let a_bases = Bases::generate(pk, n);
    let m = msgs(n, 1);
    let two = Integer::from(2);

    // commit_with_pk: the value is prod a_i^m_i * b^r mod N over the listed positions; None means all positions, Some(&[]) none
    let cases: Vec<(Option<Vec<usize>>, Vec<usize>)> = vec![
        (None, vec![0, 1, 2, 3]),
        (Some(vec![]), vec![]),
        (Some(vec![3]), vec![3]),
        (Some(vec![2, 0]), vec![2, 0]),
        (Some(vec![1, 1]), vec![1, 1]),
        (Some(vec![0, 1, 2, 3]), vec![0, 1, 2, 3]),
    ];
    for (arg, expect_idx) in &cases {
        let c = Commitment::<Alg>::commit_with_pk(&m, pk, &a_bases, arg.as_deref());
        let r = c.randomness().clone();
        assert!(r >= 0 && r < two.clone().pow(<CS as CLCiphersuite>::ln));
        let expected = prod(&a_bases.0, &m, expect_idx, &pk.N)
            * Integer::from(pk.b.pow_mod_ref(&r, &pk.N).unwrap())
            % &pk.N;
        assert_eq!(c.value(), &expected, "commit_with_pk {:?}", arg);
    }
    // no attributes at all
    let c = Commitment::<Alg>::commit_with_pk(&[], pk, &a_bases, None);
    assert_eq!(
        c.value(),
        &Integer::from(pk.b.pow_mod_ref(c.randomness(), &pk.N).unwrap())
    );
    // positions outside the bases or outside the messages are refused
    assert!(panics(|| Commitment::<Alg>::commit_with_pk(&m, pk, &a_bases, Some(&[4]))));
    assert!(panics(|| Commitment::<Alg>::commit_with_pk(&m[..2], pk, &a_bases, Some(&[2]))));
    assert!(panics(|| Commitment::<Alg>::commit_with_pk(&msgs(5, 1), pk, &a_bases, None)));

    // extend_commitment_with_pk: multiplies the k-th message to the base of the k-th position; None means positions 0..len
    let base = Commitment::<Alg>::commit_with_pk(&m, pk, &a_bases, Some(&[0]));
    let ext_cases: Vec<(Vec<CL03Message>, Option<Vec<usize>>, Vec<usize>)> = vec![
        (vec![], None, vec![]),
        (vec![], Some(vec![]), vec![]),
        (pick(&m, &[0, 1]), None, vec![0, 1]),
        (pick(&m, &[3]), Some(vec![3]), vec![3]),
        (pick(&m, &[3, 1, 2]), Some(vec![3, 1, 2]), vec![3, 1, 2]),
        (pick(&m, &[2, 2]), Some(vec![2, 2]), vec![2, 2]),
    ];
    for (rev, arg, idx) in &ext_cases {
        let mut c = base.clone();
        c.extend_commitment_with_pk(rev, pk, &a_bases, arg.as_deref());
        let expected = base.value().clone() * prod(&a_bases.0, &m, idx, &pk.N) % &pk.N;
        assert_eq!(c.value(), &expected, "extend {:?}", arg);
        assert_eq!(c.randomness(), base.randomness());
    }
    // a message in a position other than its own: the message list is read in order, not by position
    let mut c = base.clone();
    c.extend_commitment_with_pk(&pick(&m, &[1]), pk, &a_bases, Some(&[3]));
    let expected = base.value().clone()
        * Integer::from(a_bases.0[3].pow_mod_ref(&m[1].value, &pk.N).unwrap())
        % &pk.N;
    assert_eq!(c.value(), &expected);
    // refused: lengths that differ (both ways, also with an empty side), positions outside the bases
    for (rev, arg) in [
        (pick(&m, &[1, 2]), Some(vec![1])),
        (pick(&m, &[1]), Some(vec![1, 2])),
        (pick(&m, &[1]), Some(vec![])),
        (vec![], Some(vec![1])),
        (pick(&m, &[1]), Some(vec![4])),
        (msgs(5, 1), None),
    ] {
        let mut c = base.clone();
        assert!(
            panics(|| c.extend_commitment_with_pk(&rev, pk, &a_bases, arg.as_deref())),
            "extend must refuse {:?}",
            arg
        );
    }

    // issuance for several splits of hidden / revealed positions
    let splits: Vec<(Vec<usize>, Vec<usize>)> = vec![
        (vec![0], vec![1, 2, 3]),
        (vec![3], vec![0, 1, 2]),
        (vec![1, 2], vec![0, 3]),
        (vec![0, 1, 2, 3], vec![]),
    ];
    for (hidden, revealed) in &splits {
        let commitment = Commitment::<Alg>::commit_with_pk(&m, pk, &a_bases, Some(hidden));
        let C = commitment.cl03Commitment();
        let zkpok = ZKPoK::<Alg>::generate_proof(&m, C, None, pk, &a_bases, None, hidden);
        assert!(zkpok.verify_proof(C, None, pk, &a_bases, None, hidden));
        // shape of the proof: no part on a trusted commitment; one proof and one range proof per hidden attribute
        let v = serde_json::to_value(&zkpok).unwrap();
        let inner = &v["CL03"];
        assert!(inner["proof_C_Ctrusted"].is_null());
        assert_eq!(inner["proofs_commited_mi"].as_array().unwrap().len(), hidden.len());
        assert_eq!(inner["range_proofs_mi"].as_array().unwrap().len(), hidden.len());
        assert_eq!(
            inner["proof_commited_msgs"]["s1"].as_array().unwrap().len(),
            hidden.len()
        );
        // only one of the two optional arguments: still no part on a trusted commitment
        let half = ZKPoK::<Alg>::generate_proof(&m, C, Some(C), pk, &a_bases, None, hidden);
        assert!(serde_json::to_value(&half).unwrap()["CL03"]["proof_C_Ctrusted"].is_null());
        assert!(half.verify_proof(C, None, pk, &a_bases, None, hidden));
        // the proof does not verify for another list of hidden positions or another commitment
        if hidden.len() == 1 {
            let other = [(hidden[0] + 1) % n];
            assert!(!zkpok.verify_proof(C, None, pk, &a_bases, None, &other));
        }
        let other_c = Commitment::<Alg>::commit_with_pk(&m, pk, &a_bases, Some(hidden));
        assert!(!zkpok.verify_proof(other_c.cl03Commitment(), None, pk, &a_bases, None, hidden));

        let rev_msgs = pick(&m, revealed);
        let variants: Vec<(Option<&[CL03Message]>, Option<&[usize]>)> = if revealed.is_empty() {
            vec![(None, None), (Some(&[]), None), (Some(&[]), Some(&[])), (None, Some(&[]))]
        } else {
            vec![(Some(&rev_msgs), Some(revealed))]
        };
        for (rm, ri) in variants {
            let bs = BlindSignature::<Alg>::blind_sign(
                pk, sk, &a_bases, &zkpok, rm, C, None, None, hidden, ri,
            );
            // e is a prime of exactly le bits, rprime has at most ls bits
            let le = <CS as CLCiphersuite>::le;
            assert!(bs.e() > &two.clone().pow(le - 1) && bs.e() < &two.clone().pow(le));
            assert_eq!(bs.e().significant_bits(), le);
            assert!(bs.e().is_probably_prime(30) != rug::integer::IsPrime::No);
            assert!(*bs.rprime() >= 0 && bs.rprime().significant_bits() <= <CS as CLCiphersuite>::ls);
            // v^e = C * prod revealed * b^rprime * c mod N
            let lhs = Integer::from(bs.v().pow_mod_ref(bs.e(), &pk.N).unwrap());
            let rhs = C.value.clone() * prod(&a_bases.0, &m, revealed, &pk.N) % &pk.N
                * Integer::from(pk.b.pow_mod_ref(bs.rprime(), &pk.N).unwrap())
                % &pk.N
                * &pk.c
                % &pk.N;
            assert_eq!(lhs, rhs);
            let sig = bs.unblind_sign(&commitment);
            // the signature is (e, r + rprime, v)
            let expected = serde_json::json!({
                "e": serde_json::to_value(bs.e()).unwrap(),
                "s": serde_json::to_value(Integer::from(commitment.randomness() + bs.rprime())).unwrap(),
                "v": serde_json::to_value(bs.v()).unwrap(),
            });
            assert_eq!(serde_json::to_value(sig.cl03Signature()).unwrap(), expected);
            assert!(sig.verify_multiattr(pk, &a_bases, &m));
            assert!(!sig.verify_multiattr(pk, &a_bases, &msgs(n, 2)));

            // update: a fresh exponent and blinding value, valid on the new attribute vector only
            let mut m2 = m.clone();
            if let Some(&j) = revealed.last() {
                m2[j] = msgs(n, 9)[j].clone();
            }
            let rev2 = pick(&m2, revealed);
            let rm2: Option<&[CL03Message]> = rm.map(|_| &rev2[..]);
            let up = bs.update_signature(rm2, C, sk, pk, &a_bases, ri);
            assert_ne!(up.e(), bs.e());
            assert_eq!(up.e().significant_bits(), le);
            let sig2 = up.unblind_sign(&commitment);
            assert!(sig2.verify_multiattr(pk, &a_bases, &m2));
            if !revealed.is_empty() {
                assert!(!sig2.verify_multiattr(pk, &a_bases, &m));
            }
        }
    }

    // without a list of positions the revealed attributes are those of positions 0..len
    let hidden = [2usize, 3];
    let commitment = Commitment::<Alg>::commit_with_pk(&m, pk, &a_bases, Some(&hidden));
    let C = commitment.cl03Commitment();
    let zkpok = ZKPoK::<Alg>::generate_proof(&m, C, None, pk, &a_bases, None, &hidden);
    let bs = BlindSignature::<Alg>::blind_sign(
        pk, sk, &a_bases, &zkpok, Some(&m[..2]), C, None, None, &hidden, None,
    );
    assert!(bs.unblind_sign(&commitment).verify_multiattr(pk, &a_bases, &m));
    let up = bs.update_signature(Some(&m[..2]), C, sk, pk, &a_bases, None);
    assert!(up.unblind_sign(&commitment).verify_multiattr(pk, &a_bases, &m));
    // None for the messages: nothing is added, whatever the list of positions says
    let bs = BlindSignature::<Alg>::blind_sign(
        pk, sk, &a_bases, &zkpok, None, C, None, None, &hidden, Some(&[0, 1]),
    );
    assert!(!bs.unblind_sign(&commitment).verify_multiattr(pk, &a_bases, &m));
    let lhs = Integer::from(bs.v().pow_mod_ref(bs.e(), &pk.N).unwrap());
    let rhs = C.value.clone() * Integer::from(pk.b.pow_mod_ref(bs.rprime(), &pk.N).unwrap()) % &pk.N
        * &pk.c
        % &pk.N;
    assert_eq!(lhs, rhs);
    // refused: a proof for other positions, lists of different lengths, a position outside the bases
    assert!(panics(|| BlindSignature::<Alg>::blind_sign(
        pk, sk, &a_bases, &zkpok, Some(&m[..2]), C, None, None, &[2], None
    )));
    assert!(panics(|| BlindSignature::<Alg>::blind_sign(
        pk, sk, &a_bases, &zkpok, Some(&m[..2]), C, None, None, &hidden, Some(&[0])
    )));
    assert!(panics(|| BlindSignature::<Alg>::blind_sign(
        pk, sk, &a_bases, &zkpok, Some(&m[..1]), C, None, None, &hidden, Some(&[7])
    )));
    assert!(panics(|| bs.update_signature(Some(&m[..2]), C, sk, pk, &a_bases, Some(&[0]))));
    assert!(panics(|| bs.update_signature(Some(&m[..1]), C, sk, pk, &a_bases, Some(&[4]))));
    // the prover refuses positions outside the messages / the bases
    assert!(panics(|| ZKPoK::<Alg>::generate_proof(&m, C, None, pk, &a_bases, None, &[4])));
    assert!(panics(|| ZKPoK::<Alg>::generate_proof(&m[..2], C, None, pk, &a_bases, None, &[2])));
}

#[test]
fn trusted_commitment_and_signature_pok() {
    let kp = KeyPair::<Alg>::generate();
    let (pk, sk) = (kp.public_key(), kp.private_key());
    let n = 3usize;
    let a_bases = Bases::generate(pk, n);
    let m = msgs(n, 3);
    let cpk = CL03CommitmentPublicKey::generate::<CS>(Some(pk.N.clone()), Some(n));
    let tp_cpk = CL03CommitmentPublicKey::generate::<CS>(None, Some(n));

    for hidden in [vec![0usize], vec![2], vec![0, 2], vec![0, 1, 2]] {
        let revealed: Vec<usize> = (0..n).filter(|i| !hidden.contains(i)).collect();
        let commitment = Commitment::<Alg>::commit_with_pk(&m, pk, &a_bases, Some(&hidden));
        let C = commitment.cl03Commitment();
        let trusted = Commitment::<Alg>::commit_with_commitment_pk(&m, &tp_cpk, Some(&hidden));
        let Ct = trusted.cl03Commitment();

        let zkpok =
            ZKPoK::<Alg>::generate_proof(&m, C, Some(Ct), pk, &a_bases, Some(&tp_cpk), &hidden);
        let v = serde_json::to_value(&zkpok).unwrap();
        assert_eq!(
            v["CL03"]["proof_C_Ctrusted"]["d"].as_array().unwrap().len(),
            hidden.len()
        );
        assert!(zkpok.verify_proof(C, Some(Ct), pk, &a_bases, Some(&tp_cpk), &hidden));
        assert!(!zkpok.verify_proof(C, None, pk, &a_bases, None, &hidden));
        assert!(!zkpok.verify_proof(C, Some(C), pk, &a_bases, Some(&tp_cpk), &hidden));
        // a trusted commitment to other values
        let wrong = Commitment::<Alg>::commit_with_commitment_pk(&msgs(n, 4), &tp_cpk, Some(&hidden));
        let bad = ZKPoK::<Alg>::generate_proof(
            &m, C, Some(wrong.cl03Commitment()), pk, &a_bases, Some(&tp_cpk), &hidden,
        );
        assert!(!bad.verify_proof(C, Some(wrong.cl03Commitment()), pk, &a_bases, Some(&tp_cpk), &hidden));

        let rev = pick(&m, &revealed);
        let bs = BlindSignature::<Alg>::blind_sign(
            pk, sk, &a_bases, &zkpok, Some(&rev), C, Some(Ct), Some(&tp_cpk), &hidden, Some(&revealed),
        );
        let sig = bs.unblind_sign(&commitment);
        assert!(sig.verify_multiattr(pk, &a_bases, &m));

        // signature proof of knowledge
        let pok = PoKSignature::<Alg>::proof_gen(sig.cl03Signature(), &cpk, pk, &a_bases, &m, &hidden);
        let v = serde_json::to_value(&pok).unwrap();
        assert_eq!(v["CL03"]["spok"]["s_5"].as_array().unwrap().len(), hidden.len());
        assert_eq!(v["CL03"]["proofs_commited_mi"].as_array().unwrap().len(), hidden.len());
        assert_eq!(v["CL03"]["range_proofs_commited_mi"].as_array().unwrap().len(), hidden.len());
        assert!(pok.proof_verify(&cpk, pk, &a_bases, &rev, &hidden, n));
        assert!(!pok.proof_verify(&cpk, pk, &a_bases, &pick(&msgs(n, 4), &revealed), &hidden, n) || revealed.is_empty());
        if hidden.len() == 1 {
            assert!(!pok.proof_verify(&cpk, pk, &a_bases, &rev, &[(hidden[0] + 1) % n], n));
        }
        // a signature on other attributes gives a proof that is rejected
        let pok_bad =
            PoKSignature::<Alg>::proof_gen(sig.cl03Signature(), &cpk, pk, &a_bases, &msgs(n, 4), &hidden);
        assert!(!pok_bad.proof_verify(&cpk, pk, &a_bases, &pick(&msgs(n, 4), &revealed), &hidden, n));
    }

    // hidden positions given out of order or twice, or beyond the attributes
    let commitment = Commitment::<Alg>::commit_with_pk(&m, pk, &a_bases, Some(&[0, 2]));
    let C = commitment.cl03Commitment();
    let zkpok = ZKPoK::<Alg>::generate_proof(&m, C, None, pk, &a_bases, None, &[0, 2]);
    let bs = BlindSignature::<Alg>::blind_sign(
        pk, sk, &a_bases, &zkpok, Some(&m[1..2]), C, None, None, &[0, 2], Some(&[1]),
    );
    let sig = bs.unblind_sign(&commitment);
    let rev = pick(&m, &[1]);
    let unordered = PoKSignature::<Alg>::proof_gen(sig.cl03Signature(), &cpk, pk, &a_bases, &m, &[2, 0]);
    assert_eq!(
        serde_json::to_value(&unordered).unwrap()["CL03"]["spok"]["s_5"].as_array().unwrap().len(),
        2
    );
    assert!(!unordered.proof_verify(&cpk, pk, &a_bases, &rev, &[2, 0], n));
    let twice = PoKSignature::<Alg>::proof_gen(sig.cl03Signature(), &cpk, pk, &a_bases, &m, &[0, 0, 2]);
    assert_eq!(
        serde_json::to_value(&twice).unwrap()["CL03"]["spok"]["s_5"].as_array().unwrap().len(),
        3
    );
    assert!(!twice.proof_verify(&cpk, pk, &a_bases, &rev, &[0, 0, 2], n));
    assert!(panics(|| PoKSignature::<Alg>::proof_gen(sig.cl03Signature(), &cpk, pk, &a_bases, &m, &[0, 3])));
    let none_hidden = PoKSignature::<Alg>::proof_gen(sig.cl03Signature(), &cpk, pk, &a_bases, &m, &[]);
    assert!(none_hidden.proof_verify(&cpk, pk, &a_bases, &m, &[], n));
    // the prover of the proof on two commitments refuses positions outside the bases of the commitment key
    let small_cpk = CL03CommitmentPublicKey::generate::<CS>(None, Some(1));
    assert!(panics(|| ZKPoK::<Alg>::generate_proof(
        &m, C, Some(C), pk, &a_bases, Some(&small_cpk), &[0, 2]
    )));
}
