// Behaviour-pinning tests for src/bbsplus/signature.rs (sign, verify, update_signature and the
// to_bytes / from_bytes codecs). Public API only, fully deterministic.
//
// Every observable output (wire bytes, Debug rendering, serde JSON, Ok/Err outcome) is appended to
// a transcript whose SHA-256 digest is compared with a value recorded on the reference revision,
// in addition to the explicit assertions.

#![allow(non_snake_case)]

use bls12_381_plus::{G1Projective, Scalar};
use elliptic_curve::group::Curve;
use sha2::{Digest, Sha256};
use zkryptium::{
    bbsplus::{
        ciphersuites::{Bls12381Sha256, Bls12381Shake256},
        keys::{BBSplusPublicKey, BBSplusSecretKey},
        signature::BBSplusSignature,
    },
    keys::pair::KeyPair,
    schemes::{algorithms::BBSplus, generics::Signature},
};

const IKM: &str = "746869732d49532d6a7573742d616e2d546573742d494b4d2d746f2d67656e65726174652d246528724074232d6b6579";
const KEY_INFO: &str = "746869732d49532d736f6d652d6b65792d6d657461646174612d746f2d62652d757365642d696e2d746573742d6b65792d67656e";
const HEADER: &[u8] = &[
    0x11, 0x22, 0x33, 0x44, 0x55, 0x66, 0x77, 0x88, 0x99, 0x00, 0xaa, 0xbb, 0xcc, 0xdd, 0xee, 0xff,
];
/// Order r of the BLS12-381 scalar field, big endian.
const R_BE: &str = "73eda753299d7d483339d80809a1d80553bda402fffe5bfeffffffff00000001";
/// Compressed encoding of the point at infinity of G1.
fn identity_g1() -> [u8; 48] {
    let mut b = [0u8; 48];
    b[0] = 0xc0;
    b
}

/// Deterministic messages of assorted lengths (the one with index 3 is the empty octet string).
fn message(i: usize) -> Vec<u8> {
    let len = match i % 6 {
        0 => 32,
        1 => 1,
        2 => 7,
        3 => 0,
        4 => 64,
        _ => 200,
    };
    (0..len)
        .map(|j| (i as u8).wrapping_mul(37).wrapping_add((j as u8).wrapping_mul(11)) ^ 0x5a)
        .collect()
}

fn messages(n: usize) -> Vec<Vec<u8>> {
    (0..n).map(message).collect()
}

struct Transcript(Vec<String>);

impl Transcript {
    fn new() -> Self {
        Self(Vec::new())
    }
    fn push(&mut self, label: &str, value: String) {
        self.0.push(format!("{label}={value}"));
    }
    fn digest(&self) -> String {
        let mut h = Sha256::new();
        for line in &self.0 {
            h.update(line.as_bytes());
            h.update(b"\n");
        }
        hex::encode(h.finalize())
    }
}

fn check_digest(name: &str, t: &Transcript, expected: &str) {
    let got = t.digest();
    if got != expected {
        for l in &t.0 {
            let short: String = l.chars().take(200).collect();
            eprintln!("{short}");
        }
    }
    assert_eq!(got, expected, "transcript digest of {name} changed");
}

macro_rules! suite {
    ($modname:ident, $cs:ty, $fixtures:literal,
     $d_sign:literal, $d_update:literal, $d_codec:literal, $sig3:literal) => {
        mod $modname {
            use super::*;

            type CS = $cs;
            type Sig = Signature<BBSplus<CS>>;

            fn keypair() -> KeyPair<BBSplus<CS>> {
                KeyPair::<BBSplus<CS>>::generate(
                    &hex::decode(IKM).unwrap(),
                    Some(&hex::decode(KEY_INFO).unwrap()),
                    None,
                )
                .unwrap()
            }

            fn other_keypair() -> KeyPair<BBSplus<CS>> {
                KeyPair::<BBSplus<CS>>::generate(&[7u8; 40], None, None).unwrap()
            }

            fn record(t: &mut Transcript, label: &str, s: &Sig) {
                t.push(&format!("{label}.bytes"), hex::encode(s.to_bytes()));
                t.push(&format!("{label}.debug"), format!("{:?}", s));
                t.push(&format!("{label}.json"), serde_json::to_string(s).unwrap());
            }

            fn not_bbs_variant() -> Sig {
                serde_json::from_str::<Sig>(r#"{"_Unreachable":null}"#).unwrap()
            }

            #[test]
            fn fixtures_sign_and_verify() {
                for i in 1..=10 {
                    let path = format!("{}signature/signature{:03}.json", $fixtures, i);
                    let data = std::fs::read_to_string(&path).expect("fixture");
                    let v: serde_json::Value = serde_json::from_str(&data).unwrap();
                    let header = hex::decode(v["header"].as_str().unwrap()).unwrap();
                    let msgs: Vec<Vec<u8>> = v["messages"]
                        .as_array()
                        .unwrap()
                        .iter()
                        .map(|m| hex::decode(m.as_str().unwrap()).unwrap())
                        .collect();
                    let sk = BBSplusSecretKey::from_bytes(
                        &hex::decode(v["signerKeyPair"]["secretKey"].as_str().unwrap()).unwrap(),
                    )
                    .unwrap();
                    let pk = BBSplusPublicKey::from_bytes(
                        &hex::decode(v["signerKeyPair"]["publicKey"].as_str().unwrap()).unwrap(),
                    )
                    .unwrap();
                    let expected_sig = v["signature"].as_str().unwrap();
                    let expected_valid = v["result"]["valid"].as_bool().unwrap();

                    let sig = Sig::sign(Some(&msgs), &sk, &pk, Some(&header)).unwrap();
                    assert_eq!(
                        hex::encode(sig.to_bytes()) == expected_sig,
                        expected_valid,
                        "{path}: sign"
                    );
                    let raw: [u8; 80] = hex::decode(expected_sig).unwrap().try_into().unwrap();
                    let parsed = Sig::from_bytes(&raw).unwrap();
                    assert_eq!(parsed.to_bytes(), raw, "{path}: codec");
                    assert_eq!(
                        parsed.verify(&pk, Some(&msgs), Some(&header)).is_ok(),
                        expected_valid,
                        "{path}: verify"
                    );
                }
            }

            #[test]
            fn sign_verify_sizes_and_options() {
                let kp = keypair();
                let (sk, pk) = (kp.private_key(), kp.public_key());
                let other = other_keypair();
                let mut t = Transcript::new();

                for &n in &[0usize, 1, 2, 3, 4, 5, 8, 13] {
                    let msgs = messages(n);
                    let s_none = Sig::sign(Some(&msgs), sk, pk, None).unwrap();
                    let s_empty = Sig::sign(Some(&msgs), sk, pk, Some(b"")).unwrap();
                    let s_hdr = Sig::sign(Some(&msgs), sk, pk, Some(HEADER)).unwrap();
                    record(&mut t, &format!("sign[{n}].none"), &s_none);
                    record(&mut t, &format!("sign[{n}].hdr"), &s_hdr);

                    // deterministic; absent header == empty header
                    assert_eq!(s_none, s_empty);
                    assert_eq!(format!("{:?}", s_none), format!("{:?}", s_empty));
                    assert_eq!(s_hdr, Sig::sign(Some(&msgs), sk, pk, Some(HEADER)).unwrap());
                    assert_ne!(s_none.to_bytes(), s_hdr.to_bytes());
                    assert_eq!(s_hdr.a(), s_hdr.bbsPlusSignature().A);
                    assert_eq!(s_hdr.e(), s_hdr.bbsPlusSignature().e);

                    if n == 0 {
                        // None vs Some(empty list)
                        let s0 = Sig::sign(None, sk, pk, Some(HEADER)).unwrap();
                        assert_eq!(s0, s_hdr);
                        assert_eq!(format!("{:?}", s0), format!("{:?}", s_hdr));
                        assert!(s_hdr.verify(pk, None, Some(HEADER)).is_ok());
                        assert!(s_hdr.verify(pk, Some(&[]), Some(HEADER)).is_ok());
                        assert!(s_none.verify(pk, None, None).is_ok());
                        assert!(s_none.verify(pk, None, Some(b"")).is_ok());
                        assert!(s_none.verify(pk, None, Some(HEADER)).is_err());
                    }

                    // the public key passed to sign only enters the domain
                    let s_otherpk =
                        Sig::sign(Some(&msgs), sk, other.public_key(), Some(HEADER)).unwrap();
                    record(&mut t, &format!("sign[{n}].otherpk"), &s_otherpk);
                    assert!(s_otherpk.verify(pk, Some(&msgs), Some(HEADER)).is_err());
                    assert!(s_otherpk
                        .verify(other.public_key(), Some(&msgs), Some(HEADER))
                        .is_err());

                    // positive
                    assert!(s_hdr.verify(pk, Some(&msgs), Some(HEADER)).is_ok());
                    assert!(s_none.verify(pk, Some(&msgs), None).is_ok());
                    assert!(s_none.verify(pk, Some(&msgs), Some(b"")).is_ok());
                    assert!(s_empty.verify(pk, Some(&msgs), None).is_ok());

                    // negative: header, key
                    assert!(s_hdr.verify(pk, Some(&msgs), None).is_err());
                    assert!(s_hdr.verify(pk, Some(&msgs), Some(&HEADER[1..])).is_err());
                    assert!(s_none.verify(pk, Some(&msgs), Some(HEADER)).is_err());
                    assert!(s_hdr
                        .verify(other.public_key(), Some(&msgs), Some(HEADER))
                        .is_err());

                    // negative: one more / one fewer message, None instead of the list
                    let mut more = msgs.clone();
                    more.push(message(n));
                    assert!(s_hdr.verify(pk, Some(&more), Some(HEADER)).is_err());
                    if n > 0 {
                        assert!(s_hdr.verify(pk, Some(&msgs[..n - 1]), Some(HEADER)).is_err());
                        assert!(s_hdr.verify(pk, Some(&msgs[1..]), Some(HEADER)).is_err());
                        assert!(s_hdr.verify(pk, None, Some(HEADER)).is_err());
                        assert!(s_hdr.verify(pk, Some(&[]), Some(HEADER)).is_err());
                    }
                    // negative: each single position altered (first ... largest index)
                    for i in 0..n {
                        let mut bad = msgs.clone();
                        bad[i].push(0);
                        assert!(s_hdr.verify(pk, Some(&bad), Some(HEADER)).is_err(), "{n}/{i}");
                    }
                    // negative: order matters
                    if n >= 2 {
                        let mut sw = msgs.clone();
                        sw.swap(0, n - 1);
                        assert!(s_hdr.verify(pk, Some(&sw), Some(HEADER)).is_err());
                    }
                    // negative: tampered signature components
                    let inner = s_hdr.bbsPlusSignature().clone();
                    let bad_e = Sig::BBSplus(BBSplusSignature {
                        A: inner.A,
                        e: inner.e + Scalar::ONE,
                    });
                    let bad_A = Sig::BBSplus(BBSplusSignature {
                        A: inner.A + G1Projective::GENERATOR,
                        e: inner.e,
                    });
                    let id_A = Sig::BBSplus(BBSplusSignature {
                        A: G1Projective::IDENTITY,
                        e: inner.e,
                    });
                    let zero_e = Sig::BBSplus(BBSplusSignature {
                        A: inner.A,
                        e: Scalar::ZERO,
                    });
                    for (k, s) in [bad_e, bad_A, id_A, zero_e].iter().enumerate() {
                        let r = s.verify(pk, Some(&msgs), Some(HEADER));
                        assert!(r.is_err(), "tampered {k}");
                        t.push(&format!("tampered[{n}][{k}]"), hex::encode(s.to_bytes()));
                    }
                }

                assert_eq!(
                    hex::encode(Sig::sign(Some(&messages(3)), sk, pk, Some(HEADER)).unwrap().to_bytes()),
                    $sig3
                );
                check_digest("sign", &t, $d_sign);
            }

            #[test]
            fn wrong_variant_is_an_error() {
                let kp = keypair();
                let (sk, pk) = (kp.private_key(), kp.public_key());
                let s = not_bbs_variant();
                assert!(s.verify(pk, None, None).is_err());
                assert!(s.verify(pk, Some(&[]), Some(HEADER)).is_err());
                assert!(s.verify(pk, Some(&messages(3)), Some(HEADER)).is_err());
                assert!(s.update_signature(sk, b"a", b"b", 0, 1).is_err());
                assert!(s.update_signature(sk, b"a", b"b", 2, 3).is_err());
                assert!(s.update_signature(sk, b"a", b"b", 1, 1).is_err());
                assert!(s.update_signature(sk, b"a", b"b", 0, 0).is_err());
                assert!(s.update_signature(sk, b"a", b"b", 0, usize::MAX).is_err());
                assert!(s
                    .update_signature(sk, b"a", b"b", usize::MAX, usize::MAX)
                    .is_err());
            }

            #[test]
            fn update_signature_all_positions() {
                let kp = keypair();
                let (sk, pk) = (kp.private_key(), kp.public_key());
                let mut t = Transcript::new();

                for &n in &[1usize, 2, 3, 5, 8] {
                    let msgs = messages(n);
                    for hdr in [None, Some(HEADER)] {
                        let sig = Sig::sign(Some(&msgs), sk, pk, hdr).unwrap();
                        for idx in 0..n {
                            let new_msg = message(100 + idx);
                            let upd = sig
                                .update_signature(sk, &msgs[idx], &new_msg, idx, n)
                                .unwrap();
                            record(&mut t, &format!("upd[{n}][{idx}][{}]", hdr.is_some()), &upd);
                            assert_eq!(upd.e(), sig.e());
                            assert_ne!(upd.a(), sig.a());

                            let mut new_msgs = msgs.clone();
                            new_msgs[idx] = new_msg.clone();
                            assert!(upd.verify(pk, Some(&new_msgs), hdr).is_ok());
                            assert!(upd.verify(pk, Some(&msgs), hdr).is_err());
                            assert!(sig.verify(pk, Some(&new_msgs), hdr).is_err());

                            // a larger declared total gives the same result
                            let upd_big = sig
                                .update_signature(sk, &msgs[idx], &new_msg, idx, n + 3)
                                .unwrap();
                            assert_eq!(upd_big, upd);
                            assert_eq!(format!("{:?}", upd_big), format!("{:?}", upd));

                            // updating back restores a valid signature on the original messages
                            let back = upd
                                .update_signature(sk, &new_msg, &msgs[idx], idx, n)
                                .unwrap();
                            assert_eq!(back, sig);
                            assert!(back.verify(pk, Some(&msgs), hdr).is_ok());

                            // old == new keeps the signature
                            let same = sig
                                .update_signature(sk, &msgs[idx], &msgs[idx], idx, n)
                                .unwrap();
                            assert_eq!(same, sig);
                            t.push("same", format!("{:?}", same));

                            // wrong old message: still Ok, but the result does not verify
                            let wrong_old = sig
                                .update_signature(sk, b"not the old one", &new_msg, idx, n)
                                .unwrap();
                            assert!(wrong_old.verify(pk, Some(&new_msgs), hdr).is_err());
                            record(&mut t, "wrong_old", &wrong_old);

                            // wrong position
                            if n > 1 {
                                let j = (idx + 1) % n;
                                let wrong_pos = sig
                                    .update_signature(sk, &msgs[idx], &new_msg, j, n)
                                    .unwrap();
                                assert!(wrong_pos.verify(pk, Some(&new_msgs), hdr).is_err());
                            }
                        }

                        // index range checks
                        for (idx, total) in [
                            (n, n),
                            (n + 1, n),
                            (usize::MAX, n),
                            (0, 0),
                            (1, 0),
                            (0, usize::MAX),
                            (n, usize::MAX),
                            (usize::MAX - 1, usize::MAX),
                            (usize::MAX, usize::MAX),
                        ] {
                            let r = sig.update_signature(sk, &msgs[0], b"new", idx, total);
                            assert!(r.is_err(), "idx {idx} total {total}");
                            t.push("range", format!("{idx}/{total}:{}", r.is_err()));
                        }

                        // SK + e == 0 is not invertible
                        let evil_sk = BBSplusSecretKey(-sig.e());
                        for idx in 0..n {
                            assert!(sig
                                .update_signature(&evil_sk, &msgs[idx], b"new", idx, n)
                                .is_err());
                        }
                        assert!(sig.update_signature(&evil_sk, &msgs[0], b"new", n, n).is_err());
                        assert!(sig
                            .update_signature(&evil_sk, &msgs[0], b"new", 0, usize::MAX)
                            .is_err());

                        // a different secret key: Ok, but the output is not a valid signature
                        let other = other_keypair();
                        let foreign = sig
                            .update_signature(other.private_key(), &msgs[0], b"new", 0, n)
                            .unwrap();
                        record(&mut t, "foreign", &foreign);
                        let mut nm = msgs.clone();
                        nm[0] = b"new".to_vec();
                        assert!(foreign.verify(pk, Some(&nm), hdr).is_err());
                    }
                }
                check_digest("update", &t, $d_update);
            }

            #[test]
            fn codec_roundtrip_and_malformed() {
                let kp = keypair();
                let (sk, pk) = (kp.private_key(), kp.public_key());
                let mut t = Transcript::new();
                let msgs = messages(3);
                let sig = Sig::sign(Some(&msgs), sk, pk, Some(HEADER)).unwrap();
                let good = sig.to_bytes();
                assert_eq!(good.len(), BBSplusSignature::BYTES);
                assert_eq!(good, sig.bbsPlusSignature().to_bytes());
                assert_eq!(&good[..48], &sig.a().to_affine().to_compressed()[..]);
                assert_eq!(&good[48..], &sig.e().to_be_bytes()[..]);

                // round trips (several signatures)
                for n in [0usize, 1, 4, 9] {
                    let s = Sig::sign(Some(&messages(n)), sk, pk, None).unwrap();
                    let b = s.to_bytes();
                    let back = Sig::from_bytes(&b).unwrap();
                    assert_eq!(back, s);
                    assert_eq!(back.to_bytes(), b);
                    let inner = BBSplusSignature::from_bytes(&b).unwrap();
                    assert_eq!(&inner, s.bbsPlusSignature());
                    assert_eq!(inner.to_bytes(), b);
                    assert!(back.verify(pk, Some(&messages(n)), None).is_ok());
                    t.push("rt", format!("{:?}", back));
                    let json = serde_json::to_string(&s).unwrap();
                    let from_json: Sig = serde_json::from_str(&json).unwrap();
                    assert_eq!(from_json, s);
                    assert_eq!(from_json.to_bytes(), b);
                }

                let r_be: [u8; 32] = hex::decode(R_BE).unwrap().try_into().unwrap();
                let mut r_minus_1 = r_be;
                r_minus_1[31] -= 1;
                let mut r_plus_1 = r_be;
                r_plus_1[31] += 1;
                let mut one = [0u8; 32];
                one[31] = 1;

                let a_good: [u8; 48] = good[..48].try_into().unwrap();
                let e_good: [u8; 32] = good[48..].try_into().unwrap();
                let mut a_noflag = a_good;
                a_noflag[0] &= 0x7f; // compression flag cleared
                let mut a_sign = a_good;
                a_sign[0] ^= 0x20; // the other y: still a valid point (-A)
                let mut a_infbit = a_good;
                a_infbit[0] |= 0x40; // infinity flag with non-zero x
                let mut a_id_sign = identity_g1();
                a_id_sign[0] |= 0x20; // infinity with the sign bit
                let mut a_id_dirty = identity_g1();
                a_id_dirty[47] = 1;
                let a_ff = [0xffu8; 48];
                let a_zero = [0u8; 48];
                let mut a_x_big = [0xffu8; 48];
                a_x_big[0] = 0x9f; // flags ok, x >= p
                let gen: [u8; 48] = G1Projective::GENERATOR.to_affine().to_compressed();

                let a_cases: Vec<(&str, [u8; 48])> = vec![
                    ("good", a_good),
                    ("generator", gen),
                    ("identity", identity_g1()),
                    ("noflag", a_noflag),
                    ("othersign", a_sign),
                    ("infbit", a_infbit),
                    ("id_sign", a_id_sign),
                    ("id_dirty", a_id_dirty),
                    ("ff", a_ff),
                    ("zero", a_zero),
                    ("x_big", a_x_big),
                ];
                let e_cases: Vec<(&str, [u8; 32])> = vec![
                    ("good", e_good),
                    ("zero", [0u8; 32]),
                    ("one", one),
                    ("r", r_be),
                    ("r-1", r_minus_1),
                    ("r+1", r_plus_1),
                    ("ff", [0xffu8; 32]),
                ];
                let a_valid = ["good", "generator", "othersign"];
                let e_valid = ["good", "one", "r-1"];

                for (an, a) in &a_cases {
                    for (en, e) in &e_cases {
                        let mut raw = [0u8; 80];
                        raw[..48].copy_from_slice(a);
                        raw[48..].copy_from_slice(e);
                        let r1 = BBSplusSignature::from_bytes(&raw);
                        let r2 = Sig::from_bytes(&raw);
                        assert_eq!(r1.is_ok(), r2.is_ok());
                        let expect_ok = a_valid.contains(an) && e_valid.contains(en);
                        assert_eq!(r1.is_ok(), expect_ok, "A={an} e={en}");
                        match (r1, r2) {
                            (Ok(inner), Ok(outer)) => {
                                assert_eq!(&inner, outer.bbsPlusSignature());
                                assert_eq!(inner.to_bytes(), raw);
                                assert_eq!(outer.to_bytes(), raw);
                                let v = outer.verify(pk, Some(&msgs), Some(HEADER));
                                assert_eq!(v.is_ok(), *an == "good" && *en == "good");
                                t.push(
                                    &format!("dec[{an}][{en}]"),
                                    format!("{:?} verify={}", outer, v.is_ok()),
                                );
                            }
                            _ => t.push(&format!("dec[{an}][{en}]"), "err".to_owned()),
                        }
                    }
                }

                // every single-byte corruption of a good signature either fails to decode or
                // decodes to something that does not verify, and decoding never panics
                for pos in 0..80 {
                    for flip in [0x01u8, 0x80] {
                        let mut raw = good;
                        raw[pos] ^= flip;
                        match Sig::from_bytes(&raw) {
                            Ok(s) => {
                                assert_eq!(s.to_bytes(), raw);
                                assert!(s.verify(pk, Some(&msgs), Some(HEADER)).is_err());
                                t.push(&format!("flip[{pos}][{flip}]"), "decoded".to_owned());
                            }
                            Err(_) => t.push(&format!("flip[{pos}][{flip}]"), "err".to_owned()),
                        }
                    }
                }
                check_digest("codec", &t, $d_codec);
            }
        }
    };
}

suite!(
    sha256,
    Bls12381Sha256,
    "./fixture_data/bls12-381-sha-256/",
    "58f6d3fc577f1a79bbd16df7c09af30cf53cc76ba58b0018d432f594954d70b3",
    "6737be8603d6dc83f76777784d505815e71d9be3ed717befa99fb8c68088f5c2",
    "3690f4dd2214deaf98f5461ff52f77bbd92a922fecc2ad590066d76c4e02d00a",
    "93851a071e1d013d6328218250b3271f3568df7022401a738f350a6812614ba914d54fd8a4105878cf2e9a9c9a53e14218a374714085848cf8d25a49253fc270e469c2a04074000f429bdabcee293e3f"
);

suite!(
    shake256,
    Bls12381Shake256,
    "./fixture_data/bls12-381-shake-256/",
    "8e3e32446f3f1bff7530c758b293dbfd8acdf18239a6cd578079fc998ea31e18",
    "eb4a1fb44a2d357cecaff2b14a93949c403451c9b160626245d31e658b15b063",
    "67d183f172512a0015241e9846d0430be15383bcd90870f56f1fddca2bb5fdb0",
    "a784908504b113524cadc551571cd30e1db45255c42f5b5e43d370566f4ea184b0d995e2f8ed986489a87d7bccd004416a6ba7a933bb25c9e9636a098f1517539ac4f0baeddffd0704c591d5b29c7f1e"
);
