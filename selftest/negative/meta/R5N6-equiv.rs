#![cfg(feature = "cl03")]
#![allow(non_snake_case)]

// Behavioural pin for the CL03 signing / verification / blind issuance / key generation / commitment /
// random helpers. Only the public API is used. All randomised outputs are checked through the algebraic
// relation they must satisfy (recomputed independently with rug); all deterministic functions are checked
// against independently recomputed values.

use rug::{
    integer::{IsPrime, Order},
    ops::Pow,
    Integer,
};
use std::marker::PhantomData;
use std::panic::{catch_unwind, AssertUnwindSafe};
use zkryptium::{
    cl03::{
        bases::Bases,
        ciphersuites::{CL1024Sha256, CLCiphersuite},
        commitment::CL03Commitment,
        keys::{CL03CommitmentPublicKey, CL03PublicKey, CL03SecretKey},
    },
    keys::pair::KeyPair,
    schemes::algorithms::{CL03, CL03_CL1024_SHA256},
    schemes::generics::{BlindSignature, Commitment, Signature, ZKPoK},
    utils::message::cl03_message::CL03Message,
    utils::random::{rand_int, random_bits, random_number, random_prime, random_qr},
};

type CS = CL1024Sha256;
type Sch = CL03<CS>;
type Sig = Signature<Sch>;
type Com = Commitment<Sch>;
type BSig = BlindSignature<Sch>;

const LE: usize = CS::le as usize;
const LS: usize = CS::ls as usize;
const LN: usize = CS::ln as usize;

const P_HEX: &str = "1e299ff48f9cb7f9615a170ffe8fe4d64e7e9870dc11ab1149ee85ca02338c7bb2394ea9f47769f78edb2a0960cb715a14af2311cf39f13f5ba14ca7f5aea7df3";
const Q_HEX: &str = "1b24683f172e1f924e414960604962cba48147bf1777d24a1ca41207f2b07953e456a98b4c048c114c5103519f4c26220b3a7600758a323db6aa4ce70b6dba7bb";

// ---------------------------------------------------------------------------------------------------
// helpers
// ---------------------------------------------------------------------------------------------------

fn int(i: i64) -> Integer {
    Integer::from(i)
}

fn two_pow(k: u32) -> Integer {
    Integer::from(2).pow(k)
}

fn pm(b: &Integer, e: &Integer, n: &Integer) -> Integer {
    Integer::from(b.pow_mod_ref(e, n).unwrap())
}

fn modn(x: Integer, n: &Integer) -> Integer {
    let r = x % n;
    if r < 0 {
        r + n
    } else {
        r
    }
}

fn panics<R, F: FnOnce() -> R>(f: F) -> bool {
    catch_unwind(AssertUnwindSafe(f)).is_err()
}

fn fixed_sk() -> CL03SecretKey {
    CL03SecretKey::new(
        Integer::from_str_radix(P_HEX, 16).unwrap(),
        Integer::from_str_radix(Q_HEX, 16).unwrap(),
    )
}

fn fixed_qr(seed: u64, N: &Integer) -> Integer {
    let x = pm(&Integer::from(seed), &int(41), N);
    pm(&x, &int(2), N)
}

fn fixed_key() -> (CL03PublicKey, CL03SecretKey) {
    let sk = fixed_sk();
    let N = Integer::from(&sk.p * &sk.q);
    let b = fixed_qr(0x9e37_79b9_7f4a_7c15, &N);
    let c = fixed_qr(0xc2b2_ae3d_27d4_eb4f, &N);
    (CL03PublicKey::new(N, b, c), sk)
}

fn fixed_bases(n: usize, N: &Integer) -> Bases {
    Bases((0..n).map(|i| fixed_qr(1_000_003 + 7919 * i as u64, N)).collect())
}

fn fixed_commitment_pk(n: usize, N: &Integer) -> CL03CommitmentPublicKey {
    CL03CommitmentPublicKey {
        N: N.clone(),
        h: fixed_qr(0x1656_67b1_9e37_79f9, N),
        g_bases: (0..n).map(|i| fixed_qr(2_000_003 + 104729 * i as u64, N)).collect(),
    }
}

fn fixed_msgs(n: usize) -> Vec<CL03Message> {
    (0..n)
        .map(|i| match i {
            3 => CL03Message::new(int(0)),
            4 => CL03Message::new(two_pow(CS::lm) - 1u32),
            _ => CL03Message::map_message_to_integer_as_hash::<CS>(&[i as u8, 0xa5, 0x5a]),
        })
        .collect()
}

fn phi(sk: &CL03SecretKey) -> Integer {
    Integer::from(&sk.p - 1u32) * Integer::from(&sk.q - 1u32)
}

fn is_qr_mod_N(x: &Integer, sk: &CL03SecretKey) -> bool {
    let ep = Integer::from(&sk.p - 1u32) / 2u32;
    let eq = Integer::from(&sk.q - 1u32) / 2u32;
    pm(x, &ep, &sk.p) == 1 && pm(x, &eq, &sk.q) == 1
}

fn pad(x: &Integer, len: usize) -> Vec<u8> {
    let d = x.to_digits::<u8>(Order::MsfBe);
    assert!(d.len() <= len);
    let mut out = vec![0u8; len - d.len()];
    out.extend_from_slice(&d);
    out
}

fn serde_int(v: &serde_json::Value) -> Integer {
    let radix = v["radix"].as_i64().unwrap() as i32;
    Integer::from_str_radix(v["value"].as_str().unwrap(), radix).unwrap()
}

// (e, s, v) read through the serde representation (independent of to_bytes)
fn sig_parts(sig: &Sig) -> (Integer, Integer, Integer) {
    let j = serde_json::to_value(sig).unwrap();
    let inner = &j["CL03"];
    (serde_int(&inner["e"]), serde_int(&inner["s"]), serde_int(&inner["v"]))
}

fn mk_sig(e: &Integer, s: &Integer, v: &Integer) -> Sig {
    let mut bytes = pad(e, LE);
    bytes.extend_from_slice(&pad(s, LS));
    bytes.extend_from_slice(&v.to_digits::<u8>(Order::MsfBe));
    Sig::from_bytes(&bytes)
}

// set one field of a signature through serde to an arbitrary (possibly oversized / negative) value
fn sig_with_field(sig: &Sig, field: &str, value: &Integer) -> Sig {
    let mut j = serde_json::to_value(sig).unwrap();
    j["CL03"][field] = serde_json::to_value(value).unwrap();
    serde_json::from_value(j).unwrap()
}

fn rhs_of(pk: &CL03PublicKey, bases: &Bases, msgs: &[CL03Message], s: &Integer) -> Integer {
    let mut acc = int(1);
    for (i, m) in msgs.iter().enumerate() {
        acc = modn(acc * pm(&bases.0[i], &m.value, &pk.N), &pk.N);
    }
    modn(acc * pm(&pk.b, s, &pk.N) * &pk.c, &pk.N)
}

fn check_fresh_signature(
    sig: &Sig,
    pk: &CL03PublicKey,
    sk: &CL03SecretKey,
    bases: &Bases,
    msgs: &[CL03Message],
) {
    let (e, s, v) = sig_parts(sig);
    assert!(e > two_pow(CS::le - 1) && e < two_pow(CS::le));
    assert!(e.is_probably_prime(30) != IsPrime::No);
    assert_eq!(Integer::from(e.gcd_ref(&phi(sk))), 1);
    assert_eq!(s.significant_bits(), CS::ls);
    assert!(v >= 0 && v < pk.N);
    assert_eq!(pm(&v, &e, &pk.N), rhs_of(pk, bases, msgs, &s));
    // wire format
    let bytes = sig.to_bytes();
    let v_digits = v.to_digits::<u8>(Order::MsfBe);
    assert_eq!(bytes.len(), LE + LS + v_digits.len());
    assert_eq!(&bytes[..LE], &pad(&e, LE)[..]);
    assert_eq!(&bytes[LE..LE + LS], &pad(&s, LS)[..]);
    assert_eq!(&bytes[LE + LS..], &v_digits[..]);
    assert_eq!(&Sig::from_bytes(&bytes), sig);
}

// a signature satisfying the verification equation for an arbitrary exponent e (needs the secret key)
fn forge_with_e(
    e: &Integer,
    pk: &CL03PublicKey,
    sk: &CL03SecretKey,
    bases: &Bases,
    msgs: &[CL03Message],
) -> Sig {
    let s = two_pow(CS::ls - 1) + 12345u32;
    let d = Integer::from(e.invert_ref(&phi(sk)).unwrap());
    let v = pm(&rhs_of(pk, bases, msgs, &s), &d, &pk.N);
    mk_sig(e, &s, &v)
}

// ---------------------------------------------------------------------------------------------------
// utils::random
// ---------------------------------------------------------------------------------------------------

#[test]
fn random_helpers() {
    for n in [1u32, 2, 7, 8, 31, 32, 33, 63, 64, 65, 256, 258, 1024, 1536] {
        for _ in 0..8 {
            let r = random_bits(n);
            assert_eq!(r.significant_bits(), n);
            assert!(r > 0);
        }
    }
    assert_eq!(random_bits(1), 1);

    assert_eq!(random_number(int(1)), 0);
    for bound in [int(2), int(3), int(255), two_pow(64), two_pow(1024) + 1u32] {
        for _ in 0..8 {
            let r = random_number(bound.clone());
            assert!(r >= 0 && r < bound);
        }
    }
    assert!(panics(|| random_number(int(0))));
    assert!(panics(|| random_number(int(-5))));

    for n in [2u32, 3, 8, 16, 64, 258] {
        for _ in 0..4 {
            let p = random_prime(n);
            assert!(p.is_probably_prime(30) != IsPrime::No);
            assert!(p > two_pow(n - 1));
            assert!(p < two_pow(n + 1));
        }
    }
    assert_eq!(random_prime(1), 2);
    let p2 = random_prime(2);
    assert!(p2 == 3 || p2 == 5);

    // the only quadratic residue > 1 coprime to 15 is 4; for 21 they are 4 and 16
    for _ in 0..8 {
        assert_eq!(random_qr(&int(15)), 4);
        let r = random_qr(&int(21));
        assert!(r == 4 || r == 16);
        // 3 * 3: residues coprime to 9 and > 1 are 4 and 7
        let r = random_qr(&int(9));
        assert!(r == 4 || r == 7);
    }
    let (pk, sk) = fixed_key();
    for _ in 0..8 {
        let r = random_qr(&pk.N);
        assert!(r > 1 && r < pk.N);
        assert_eq!(Integer::from(r.gcd_ref(&pk.N)), 1);
        assert!(is_qr_mod_N(&r, &sk));
    }
    // even or non-positive modulus
    assert!(panics(|| random_qr(&int(16))));
    assert!(panics(|| random_qr(&int(0))));
    assert!(panics(|| random_qr(&int(-15))));

    assert_eq!(rand_int(int(7), int(7)), 7);
    assert_eq!(rand_int(int(-7), int(-7)), -7);
    for _ in 0..32 {
        let r = rand_int(int(-5), int(5));
        assert!(r >= -5 && r <= 5);
        let r = rand_int(int(0), int(1));
        assert!(r == 0 || r == 1);
        let r = rand_int(two_pow(100), two_pow(100) + 3u32);
        assert!(r >= two_pow(100) && r <= two_pow(100) + 3u32);
    }
    assert!(panics(|| rand_int(int(5), int(4))));
    assert!(panics(|| rand_int(int(5), int(-4))));
}

// ---------------------------------------------------------------------------------------------------
// key generation and key codecs
// ---------------------------------------------------------------------------------------------------

fn check_safe_prime(p: &Integer) {
    assert!(p.is_probably_prime(30) != IsPrime::No);
    let pp = Integer::from(p - 1u32) / 2u32;
    assert!(pp.is_probably_prime(30) != IsPrime::No);
    assert!(pp.significant_bits() >= CS::SECPARAM && pp.significant_bits() <= CS::SECPARAM + 1);
}

#[test]
fn keypair_generation() {
    for _ in 0..2 {
        let kp = KeyPair::<CL03_CL1024_SHA256>::generate();
        let (pk, sk) = (kp.public_key(), kp.private_key());
        check_safe_prime(&sk.p);
        check_safe_prime(&sk.q);
        assert_ne!(sk.p, sk.q);
        assert_eq!(pk.N, Integer::from(&sk.p * &sk.q));
        for x in [&pk.b, &pk.c] {
            assert!(*x > 1 && *x < pk.N);
            assert_eq!(Integer::from(x.gcd_ref(&pk.N)), 1);
            assert!(is_qr_mod_N(x, sk));
        }
        // codecs of freshly generated keys
        let pkb = pk.to_bytes::<Sch>();
        assert_eq!(pkb.len(), 3 * LN);
        assert_eq!(&CL03PublicKey::from_bytes::<Sch>(&pkb), pk);
        let skb = sk.to_bytes::<Sch>();
        assert_eq!(skb.len(), 2 * (CS::SECPARAM as usize / 8 + 1));
        assert_eq!(&CL03SecretKey::from_bytes::<Sch>(&skb), sk);
        // the generated key signs
        let bases = Bases::generate(pk, 2);
        let msgs = fixed_msgs(2);
        let sig = Sig::sign_multiattr(pk, sk, &bases, &msgs);
        assert!(sig.verify_multiattr(pk, &bases, &msgs));
        check_fresh_signature(&sig, pk, sk, &bases, &msgs);
    }
}

#[test]
fn commitment_pk_generation() {
    let (pk, sk) = fixed_key();
    // N supplied
    for (n_attr, expected) in [(None, 1usize), (Some(0), 0), (Some(1), 1), (Some(4), 4)] {
        let cpk = CL03CommitmentPublicKey::generate::<CS>(Some(pk.N.clone()), n_attr);
        assert_eq!(cpk.N, pk.N);
        assert_eq!(cpk.g_bases.len(), expected);
        assert!(cpk.h > 1 && cpk.h < cpk.N);
        assert_eq!(Integer::from(cpk.h.gcd_ref(&cpk.N)), 1);
        assert!(is_qr_mod_N(&cpk.h, &sk));
        for g in &cpk.g_bases {
            assert!(*g > 1 && *g < cpk.N);
            assert_eq!(Integer::from(g.gcd_ref(&cpk.N)), 1);
            assert!(is_qr_mod_N(g, &sk));
        }
    }
    // small supplied modulus: h is forced to 4 (order 2 in Z_15^*), so every g_i is 4 as well
    let cpk = CL03CommitmentPublicKey::generate::<CS>(Some(int(15)), Some(3));
    assert_eq!(cpk.N, 15);
    assert_eq!(cpk.h, 4);
    assert_eq!(cpk.g_bases, vec![int(4), int(4), int(4)]);
    // invalid supplied modulus
    assert!(panics(|| CL03CommitmentPublicKey::generate::<CS>(Some(int(0)), Some(1))));
    assert!(panics(|| CL03CommitmentPublicKey::generate::<CS>(Some(int(16)), Some(1))));
    assert!(panics(|| CL03CommitmentPublicKey::generate::<CS>(Some(int(-15)), None)));
    // N generated
    let cpk = CL03CommitmentPublicKey::generate::<CS>(None, Some(2));
    assert_eq!(cpk.g_bases.len(), 2);
    let nbits = cpk.N.significant_bits();
    assert!(nbits >= 2 * CS::SECPARAM + 1 && nbits <= 2 * CS::SECPARAM + 4);
    assert!(cpk.N.is_probably_prime(30) == IsPrime::No);
    assert!(cpk.N.is_odd());
    assert!(cpk.h > 1 && cpk.h < cpk.N && cpk.h.jacobi(&cpk.N) == 1);
    for g in &cpk.g_bases {
        assert!(*g > 1 && *g < cpk.N && g.jacobi(&cpk.N) == 1);
        assert_eq!(Integer::from(g.gcd_ref(&cpk.N)), 1);
    }
}

#[test]
fn bases_generation() {
    let (pk, sk) = fixed_key();
    for n in [0usize, 1, 2, 5] {
        let bases = Bases::generate(&pk, n);
        assert_eq!(bases.0.len(), n);
        for a in &bases.0 {
            assert!(*a > 1 && *a < pk.N);
            assert_eq!(Integer::from(a.gcd_ref(&pk.N)), 1);
            assert!(is_qr_mod_N(a, &sk));
        }
    }
    let tiny = CL03PublicKey::new(int(15), int(4), int(4));
    assert_eq!(Bases::generate(&tiny, 3).0, vec![int(4), int(4), int(4)]);
    let bad = CL03PublicKey::new(int(16), int(4), int(4));
    assert!(Bases::generate(&bad, 0).0.is_empty());
    assert!(panics(|| Bases::generate(&bad, 1)));
}

#[test]
fn public_key_codec() {
    let (pk, _sk) = fixed_key();
    let bytes = pk.to_bytes::<Sch>();
    let mut expected = pad(&pk.N, LN);
    expected.extend_from_slice(&pad(&pk.b, LN));
    expected.extend_from_slice(&pad(&pk.c, LN));
    assert_eq!(bytes, expected);
    assert_eq!(CL03PublicKey::from_bytes::<Sch>(&bytes), pk);

    // small and zero components
    let small = CL03PublicKey::new(int(0), int(1), int(0x0102));
    let sb = small.to_bytes::<Sch>();
    assert_eq!(sb.len(), 3 * LN);
    assert!(sb[..2 * LN - 1].iter().all(|&x| x == 0));
    assert_eq!(sb[2 * LN - 1], 1);
    assert_eq!(&sb[3 * LN - 2..], &[1u8, 2u8]);
    assert_eq!(CL03PublicKey::from_bytes::<Sch>(&sb), small);
    // the sign is not encoded
    let neg = CL03PublicKey::new(int(-7), int(-1), int(-0x0102));
    assert_eq!(
        CL03PublicKey::from_bytes::<Sch>(&neg.to_bytes::<Sch>()),
        CL03PublicKey::new(int(7), int(1), int(0x0102))
    );
    // largest encodable component, and one that does not fit
    let max = two_pow(8 * CS::ln) - 1u32;
    let big = CL03PublicKey::new(max.clone(), int(1), max.clone());
    let bb = big.to_bytes::<Sch>();
    assert!(bb[..LN].iter().all(|&x| x == 0xff));
    assert_eq!(CL03PublicKey::from_bytes::<Sch>(&bb), big);
    let over = two_pow(8 * CS::ln);
    assert!(panics(|| CL03PublicKey::new(over.clone(), int(1), int(1)).to_bytes::<Sch>()));
    assert!(panics(|| CL03PublicKey::new(int(1), over.clone(), int(1)).to_bytes::<Sch>()));
    assert!(panics(|| CL03PublicKey::new(int(1), int(1), over.clone()).to_bytes::<Sch>()));

    // length validation of untrusted bytes
    assert!(panics(|| CL03PublicKey::from_bytes::<Sch>(&[])));
    assert!(panics(|| CL03PublicKey::from_bytes::<Sch>(&bytes[..3 * LN - 1])));
    assert!(panics(|| CL03PublicKey::from_bytes::<Sch>(&bytes[..LN])));
    let mut longer = bytes.clone();
    longer.push(7);
    assert!(panics(|| CL03PublicKey::from_bytes::<Sch>(&longer)));
    longer.extend(std::iter::repeat(9u8).take(LN - 1));
    assert_eq!(longer.len(), 4 * LN);
    assert_eq!(CL03PublicKey::from_bytes::<Sch>(&longer), pk);
    longer.extend(std::iter::repeat(9u8).take(LN + 1));
    assert!(panics(|| CL03PublicKey::from_bytes::<Sch>(&longer)));
}

#[test]
fn secret_key_codec() {
    let (_pk, sk) = fixed_key();
    let delta = CS::SECPARAM as usize / 8 + 1;
    let bytes = sk.to_bytes::<Sch>();
    let mut expected = pad(&sk.p, delta);
    expected.extend_from_slice(&pad(&sk.q, delta));
    assert_eq!(bytes, expected);
    assert_eq!(CL03SecretKey::from_bytes::<Sch>(&bytes), sk);

    let small = CL03SecretKey::new(int(0), int(-0x0304));
    let sb = small.to_bytes::<Sch>();
    assert_eq!(sb.len(), 2 * delta);
    assert!(sb[..2 * delta - 2].iter().all(|&x| x == 0));
    assert_eq!(&sb[2 * delta - 2..], &[3u8, 4u8]);
    assert_eq!(
        CL03SecretKey::from_bytes::<Sch>(&sb),
        CL03SecretKey::new(int(0), int(0x0304))
    );

    let max = two_pow(8 * delta as u32) - 1u32;
    let big = CL03SecretKey::new(max.clone(), max.clone());
    assert_eq!(big.to_bytes::<Sch>(), vec![0xffu8; 2 * delta]);
    let over = two_pow(8 * delta as u32);
    assert!(panics(|| CL03SecretKey::new(over.clone(), int(1)).to_bytes::<Sch>()));
    assert!(panics(|| CL03SecretKey::new(int(1), over.clone()).to_bytes::<Sch>()));

    assert!(panics(|| CL03SecretKey::from_bytes::<Sch>(&[])));
    assert!(panics(|| CL03SecretKey::from_bytes::<Sch>(&bytes[..delta])));
    assert!(panics(|| CL03SecretKey::from_bytes::<Sch>(&bytes[..2 * delta - 1])));
    // trailing bytes are ignored
    let mut longer = bytes.clone();
    longer.extend_from_slice(&[1, 2, 3]);
    assert_eq!(CL03SecretKey::from_bytes::<Sch>(&longer), sk);
}

// ---------------------------------------------------------------------------------------------------
// sign / verify
// ---------------------------------------------------------------------------------------------------

#[test]
fn sign_and_verify_single() {
    let (pk, sk) = fixed_key();
    let bases = fixed_bases(3, &pk.N);
    for m in fixed_msgs(5) {
        let sig = Sig::sign(&pk, &sk, &bases, &m);
        check_fresh_signature(&sig, &pk, &sk, &bases, std::slice::from_ref(&m));
        assert!(sig.verify(&pk, &bases, &m));
        assert!(sig.verify_multiattr(&pk, &bases, std::slice::from_ref(&m)));
        let other = CL03Message::new(Integer::from(&m.value ^ &int(1)));
        assert!(!sig.verify(&pk, &bases, &other));
        // other bases / other key components
        let shifted = Bases(bases.0[1..].to_vec());
        // (a^0 = 1 for every base, so the zero message verifies under any base)
        assert_eq!(sig.verify(&pk, &shifted, &m), m.value == 0);
        let pk2 = CL03PublicKey::new(pk.N.clone(), pk.c.clone(), pk.b.clone());
        assert!(!sig.verify(&pk2, &bases, &m));
    }
    // two signatures on the same message differ (fresh e and s each time)
    let m = &fixed_msgs(1)[0];
    let (e1, s1, _) = sig_parts(&Sig::sign(&pk, &sk, &bases, m));
    let (e2, s2, _) = sig_parts(&Sig::sign(&pk, &sk, &bases, m));
    assert!(e1 != e2 || s1 != s2);

    // no bases at all
    let empty = Bases(vec![]);
    assert!(panics(|| Sig::sign(&pk, &sk, &empty, m)));
}

#[test]
fn verify_single_edge_cases() {
    let (pk, sk) = fixed_key();
    let bases = fixed_bases(2, &pk.N);
    let m = fixed_msgs(1).remove(0);
    let one = std::slice::from_ref(&m);
    let sig = Sig::sign(&pk, &sk, &bases, &m);
    let (e, s, v) = sig_parts(&sig);

    // message range: (v * a^k, m + k * e) satisfies the equation but is out of range
    let m_shift = CL03Message::new(Integer::from(&m.value + &e));
    let v_shift = modn(Integer::from(&v * &bases.0[0]), &pk.N);
    let shifted = mk_sig(&e, &s, &v_shift);
    assert_eq!(pm(&v_shift, &e, &pk.N), rhs_of(&pk, &bases, std::slice::from_ref(&m_shift), &s));
    assert!(!shifted.verify(&pk, &bases, &m_shift));
    assert!(!shifted.verify_multiattr(&pk, &bases, std::slice::from_ref(&m_shift)));
    assert!(!sig.verify(&pk, &bases, &CL03Message::new(int(-1))));
    assert!(!sig.verify(&pk, &bases, &CL03Message::new(two_pow(CS::lm))));
    // the range check comes before any use of the bases
    let empty = Bases(vec![]);
    assert!(!sig.verify(&pk, &empty, &CL03Message::new(int(-1))));
    assert!(!sig.verify(&pk, &empty, &CL03Message::new(two_pow(CS::lm))));
    assert!(panics(|| sig.verify(&pk, &empty, &m)));
    assert!(panics(|| sig.verify_multiattr(&pk, &empty, one)));
    assert!(sig.verify_multiattr(&pk, &empty, &[]) == false);

    // boundary messages 0 and 2^lm - 1 are accepted
    for edge in [int(0), two_pow(CS::lm) - 1u32] {
        let em = CL03Message::new(edge);
        let es = Sig::sign(&pk, &sk, &bases, &em);
        assert!(es.verify(&pk, &bases, &em));
    }

    // exponent range: equations hold, but e is outside ]2^(le-1), 2^le[
    let small_e = Integer::from(65537);
    let f = forge_with_e(&small_e, &pk, &sk, &bases, one);
    assert!(!f.verify(&pk, &bases, &m));
    assert!(!f.verify_multiattr(&pk, &bases, one));
    let low_e = two_pow(CS::le - 1).next_prime();
    let f = forge_with_e(&low_e, &pk, &sk, &bases, one);
    assert!(f.verify(&pk, &bases, &m));
    assert!(f.verify_multiattr(&pk, &bases, one));
    let below = {
        // largest prime below 2^(le-1)
        let mut c = two_pow(CS::le - 1) - 1u32;
        while c.is_probably_prime(30) == IsPrime::No {
            c -= 2u32;
        }
        c
    };
    let f = forge_with_e(&below, &pk, &sk, &bases, one);
    assert!(!f.verify(&pk, &bases, &m));
    assert!(!f.verify_multiattr(&pk, &bases, one));
    let big_e = two_pow(CS::le).next_prime();
    let f = forge_with_e(&big_e, &pk, &sk, &bases, one);
    assert!(!f.verify(&pk, &bases, &m));
    // HEAD's multi-attribute verification has no upper bound on e
    assert!(f.verify_multiattr(&pk, &bases, one));
    // e = 2^(le-1) and e = 2^le exactly (even, so the equation cannot be forged; just rejected)
    assert!(!mk_sig(&two_pow(CS::le - 1), &s, &v).verify(&pk, &bases, &m));
    assert!(!mk_sig(&two_pow(CS::le), &s, &v).verify(&pk, &bases, &m));

    // tampering with each component
    assert!(!mk_sig(&Integer::from(&e + 2u32), &s, &v).verify(&pk, &bases, &m));
    assert!(!mk_sig(&e, &Integer::from(&s + 1u32), &v).verify(&pk, &bases, &m));
    assert!(!mk_sig(&e, &s, &Integer::from(&v + 1u32)).verify(&pk, &bases, &m));
    assert!(!mk_sig(&e, &s, &int(0)).verify(&pk, &bases, &m));
    // v + N: same residue, still accepted
    assert!(mk_sig(&e, &s, &Integer::from(&v + &pk.N)).verify(&pk, &bases, &m));
    assert!(mk_sig(&e, &s, &Integer::from(&v + &pk.N)).verify_multiattr(&pk, &bases, one));

    // negative exponent with a non-invertible v: pow_mod fails before the range check on e
    let neg = sig_with_field(&sig, "e", &int(-3));
    let neg = sig_with_field(&neg, "v", &sk.p);
    assert!(panics(|| neg.verify(&pk, &bases, &m)));
    assert!(panics(|| neg.verify_multiattr(&pk, &bases, one)));
    // negative exponent with invertible v: rejected by the range check
    let neg = sig_with_field(&sig, "e", &int(-3));
    assert!(!neg.verify(&pk, &bases, &m));
    assert!(!neg.verify_multiattr(&pk, &bases, one));
    // negative s with a non-invertible b
    let pk_bad_b = CL03PublicKey::new(pk.N.clone(), sk.q.clone(), pk.c.clone());
    let neg_s = sig_with_field(&sig, "s", &int(-1));
    assert!(panics(|| neg_s.verify(&pk_bad_b, &bases, &m)));
    assert!(panics(|| neg_s.verify_multiattr(&pk_bad_b, &bases, one)));
    assert!(!neg_s.verify(&pk, &bases, &m));

    // wrong enum variant
    let unreachable = Sig::_Unreachable(PhantomData);
    assert!(panics(|| unreachable.verify(&pk, &bases, &m)));
    assert!(panics(|| unreachable.verify_multiattr(&pk, &bases, one)));
    assert!(panics(|| unreachable.to_bytes()));
    assert!(panics(|| {
        unreachable.cl03Signature();
    }));
    // disclose_selectively never looks at the signature itself
    assert!(!panics(|| unreachable.disclose_selectively(&[], Bases(vec![]), &pk, &[])));
}

#[test]
fn sign_and_verify_multiattr() {
    let (pk, sk) = fixed_key();
    for n in [0usize, 1, 2, 5] {
        let bases = fixed_bases(n, &pk.N);
        let msgs = fixed_msgs(n);
        let sig = Sig::sign_multiattr(&pk, &sk, &bases, &msgs);
        check_fresh_signature(&sig, &pk, &sk, &bases, &msgs);
        assert!(sig.verify_multiattr(&pk, &bases, &msgs));
        // more bases than messages is fine, both for signing and verifying
        let more = fixed_bases(n + 2, &pk.N);
        assert!(sig.verify_multiattr(&pk, &more, &msgs));
        let sig2 = Sig::sign_multiattr(&pk, &sk, &more, &msgs);
        check_fresh_signature(&sig2, &pk, &sk, &more, &msgs);
        assert!(sig2.verify_multiattr(&pk, &bases, &msgs));
        if n > 0 {
            // fewer bases than messages
            let fewer = fixed_bases(n - 1, &pk.N);
            assert!(panics(|| sig.verify_multiattr(&pk, &fewer, &msgs)));
            assert!(panics(|| Sig::sign_multiattr(&pk, &sk, &fewer, &msgs)));
            // prefix of the messages is a different statement
            assert!(!sig.verify_multiattr(&pk, &bases, &msgs[..n - 1]));
            // each position matters, including the last one
            for i in 0..n {
                let mut wrong = msgs.clone();
                wrong[i] = CL03Message::new(Integer::from(&wrong[i].value ^ &int(2)));
                assert!(!sig.verify_multiattr(&pk, &bases, &wrong));
                let mut oob = msgs.clone();
                oob[i] = CL03Message::new(two_pow(CS::lm));
                assert!(!sig.verify_multiattr(&pk, &bases, &oob));
                oob[i] = CL03Message::new(int(-1));
                assert!(!sig.verify_multiattr(&pk, &bases, &oob));
            }
            // out-of-range message together with too few bases: the length check comes first
            let mut oob = msgs.clone();
            oob[0] = CL03Message::new(int(-1));
            assert!(panics(|| sig.verify_multiattr(&pk, &fewer, &oob)));
        }
        if n > 1 {
            let mut swapped = msgs.clone();
            swapped.swap(0, n - 1);
            assert!(!sig.verify_multiattr(&pk, &bases, &swapped));
        }
        if n == 1 {
            assert!(sig.verify(&pk, &bases, &msgs[0]));
        }
    }
    // a single-message signature from `sign` verifies as a one-element multi-attribute signature
    let bases = fixed_bases(4, &pk.N);
    let msgs = fixed_msgs(4);
    let sig = Sig::sign(&pk, &sk, &bases, &msgs[0]);
    assert!(sig.verify_multiattr(&pk, &bases, &msgs[..1]));
    assert!(!sig.verify_multiattr(&pk, &bases, &msgs[..2]));
}

#[test]
fn signature_codec() {
    let (pk, sk) = fixed_key();
    let bases = fixed_bases(1, &pk.N);
    let m = fixed_msgs(1).remove(0);
    let sig = Sig::sign(&pk, &sk, &bases, &m);
    let (e, s, v) = sig_parts(&sig);
    let bytes = sig.to_bytes();

    // malformed lengths
    assert!(panics(|| Sig::from_bytes(&[])));
    assert!(panics(|| Sig::from_bytes(&bytes[..LE - 1])));
    assert!(panics(|| Sig::from_bytes(&bytes[..LE])));
    assert!(panics(|| Sig::from_bytes(&bytes[..LE + LS - 1])));
    // exactly e and s: v is zero
    let short = Sig::from_bytes(&bytes[..LE + LS]);
    assert_eq!(sig_parts(&short), (e.clone(), s.clone(), int(0)));
    assert_eq!(short.to_bytes(), &bytes[..LE + LS]);
    let one_more = Sig::from_bytes(&bytes[..LE + LS + 1]);
    assert_eq!(sig_parts(&one_more).2, Integer::from(bytes[LE + LS]));
    // leading zeros of v are accepted on input and dropped on output
    let mut padded = bytes[..LE + LS].to_vec();
    padded.extend_from_slice(&[0, 0, 0]);
    padded.extend_from_slice(&bytes[LE + LS..]);
    let reparsed = Sig::from_bytes(&padded);
    assert_eq!(reparsed, sig);
    assert_eq!(reparsed.to_bytes(), bytes);
    // all-ones and all-zeros
    let ones = Sig::from_bytes(&vec![0xffu8; LE + LS + 5]);
    let (oe, os, ov) = sig_parts(&ones);
    assert_eq!(oe, two_pow(8 * CS::le) - 1u32);
    assert_eq!(os, two_pow(8 * CS::ls) - 1u32);
    assert_eq!(ov, two_pow(40) - 1u32);
    assert_eq!(ones.to_bytes(), vec![0xffu8; LE + LS + 5]);
    let zeros = Sig::from_bytes(&vec![0u8; LE + LS + 5]);
    assert_eq!(sig_parts(&zeros), (int(0), int(0), int(0)));
    assert_eq!(zeros.to_bytes(), vec![0u8; LE + LS]);

    // components that do not fit their field / negative components (only reachable through serde)
    let too_big_e = sig_with_field(&sig, "e", &two_pow(8 * CS::le));
    assert!(panics(|| too_big_e.to_bytes()));
    let too_big_s = sig_with_field(&sig, "s", &two_pow(8 * CS::ls));
    assert!(panics(|| too_big_s.to_bytes()));
    let max_e = sig_with_field(&sig, "e", &(two_pow(8 * CS::le) - 1u32));
    assert!(max_e.to_bytes()[..LE].iter().all(|&x| x == 0xff));
    let huge_v = sig_with_field(&sig, "v", &two_pow(9000));
    assert_eq!(huge_v.to_bytes().len(), LE + LS + 9000 / 8 + 1);
    let neg = sig_with_field(&sig, "e", &Integer::from(-&e));
    let neg = sig_with_field(&neg, "s", &Integer::from(-&s));
    let neg = sig_with_field(&neg, "v", &Integer::from(-&v));
    assert_eq!(neg.to_bytes(), bytes);

    // serde round trip
    let json = serde_json::to_string(&sig).unwrap();
    let back: Sig = serde_json::from_str(&json).unwrap();
    assert_eq!(back, sig);
}

#[test]
fn selective_disclosure() {
    let (pk, sk) = fixed_key();
    let n = 5usize;
    let bases = fixed_bases(n, &pk.N);
    let msgs = fixed_msgs(n);
    let sig = Sig::sign_multiattr(&pk, &sk, &bases, &msgs);

    let cases: Vec<Vec<usize>> = vec![
        vec![],
        vec![0],
        vec![n - 1],
        vec![1, 3],
        vec![3, 1],
        vec![2, 2],
        vec![4, 0, 4, 0],
        (0..n).collect(),
    ];
    for unrevealed in cases {
        let (sd_msgs, sd_bases) = sig.disclose_selectively(&msgs, bases.clone(), &pk, &unrevealed);
        assert_eq!(sd_msgs.len(), n);
        assert_eq!(sd_bases.0.len(), n);
        for i in 0..n {
            if unrevealed.contains(&i) {
                assert_eq!(sd_msgs[i].value, 1);
                assert_eq!(sd_bases.0[i], pm(&bases.0[i], &msgs[i].value, &pk.N));
            } else {
                assert_eq!(sd_msgs[i], msgs[i]);
                assert_eq!(sd_bases.0[i], bases.0[i]);
            }
        }
        assert!(sig.verify_multiattr(&pk, &sd_bases, &sd_msgs));
    }
    // malformed input
    assert!(panics(|| sig.disclose_selectively(&msgs, bases.clone(), &pk, &[n])));
    assert!(panics(|| sig.disclose_selectively(&msgs, bases.clone(), &pk, &[0, usize::MAX])));
    assert!(panics(|| sig.disclose_selectively(&msgs[..n - 1], bases.clone(), &pk, &[])));
    assert!(panics(|| sig.disclose_selectively(&msgs, fixed_bases(n + 1, &pk.N), &pk, &[0])));
    let (m0, b0) = sig.disclose_selectively(&[], Bases(vec![]), &pk, &[]);
    assert!(m0.is_empty() && b0.0.is_empty());
    assert!(panics(|| sig.disclose_selectively(&[], Bases(vec![]), &pk, &[0])));
    // a negative message on a non-invertible base cannot be hidden
    let mut bad_bases = bases.clone();
    bad_bases.0[1] = sk.p.clone();
    let mut bad_msgs = msgs.clone();
    bad_msgs[1] = CL03Message::new(int(-2));
    assert!(panics(|| sig.disclose_selectively(&bad_msgs, bad_bases.clone(), &pk, &[1])));
    let (m1, b1) = sig.disclose_selectively(&bad_msgs, bad_bases.clone(), &pk, &[0]);
    assert_eq!(m1[1].value, -2);
    assert_eq!(b1.0[1], sk.p);
}

// ---------------------------------------------------------------------------------------------------
// commitments
// ---------------------------------------------------------------------------------------------------

fn expected_commit(
    bases: &[Integer],
    blind_base: &Integer,
    N: &Integer,
    msgs: &[CL03Message],
    idx: &[usize],
    r: &Integer,
) -> Integer {
    let mut acc = int(1);
    for &i in idx {
        acc = modn(acc * pm(&bases[i], &msgs[i].value, N), N);
    }
    modn(acc * pm(blind_base, r, N), N)
}

#[test]
fn commit_with_pk_cases() {
    let (pk, sk) = fixed_key();
    let n = 5usize;
    let bases = fixed_bases(n, &pk.N);
    let msgs = fixed_msgs(n);
    let all: Vec<usize> = (0..n).collect();
    let cases: Vec<(Option<Vec<usize>>, Vec<usize>)> = vec![
        (None, all.clone()),
        (Some(vec![]), vec![]),
        (Some(vec![0]), vec![0]),
        (Some(vec![n - 1]), vec![n - 1]),
        (Some(vec![3, 1]), vec![3, 1]),
        (Some(vec![2, 2, 2]), vec![2, 2, 2]),
        (Some(all.clone()), all.clone()),
    ];
    for (arg, idx) in cases {
        let c = Com::commit_with_pk(&msgs, &pk, &bases, arg.as_deref());
        let r = c.randomness().clone();
        assert_eq!(r.significant_bits(), CS::ln);
        assert_eq!(c.value(), &expected_commit(&bases.0, &pk.b, &pk.N, &msgs, &idx, &r));
        assert_eq!(c.cl03Commitment().value, *c.value());
        assert_eq!(c.cl03Commitment().randomness, r);
    }
    // None means "all messages": more bases than messages is fine, fewer is not
    let c = Com::commit_with_pk(&msgs[..2], &pk, &bases, None);
    assert_eq!(
        c.value(),
        &expected_commit(&bases.0, &pk.b, &pk.N, &msgs, &[0, 1], c.randomness())
    );
    assert!(panics(|| Com::commit_with_pk(&msgs, &pk, &fixed_bases(n - 1, &pk.N), None)));
    let c = Com::commit_with_pk(&[], &pk, &Bases(vec![]), None);
    assert_eq!(c.value(), &pm(&pk.b, c.randomness(), &pk.N));
    // out-of-range indexes: beyond the bases, or within the bases but beyond the messages
    assert!(panics(|| Com::commit_with_pk(&msgs, &pk, &bases, Some(&[n]))));
    assert!(panics(|| Com::commit_with_pk(&msgs, &pk, &bases, Some(&[0, usize::MAX]))));
    assert!(panics(|| Com::commit_with_pk(&msgs[..2], &pk, &bases, Some(&[1, 2]))));
    assert!(panics(|| Com::commit_with_pk(&msgs, &pk, &Bases(vec![]), Some(&[0]))));
    // negative message on a non-invertible base
    let mut bad_bases = bases.clone();
    bad_bases.0[2] = sk.q.clone();
    let mut bad_msgs = msgs.clone();
    bad_msgs[2] = CL03Message::new(int(-1));
    assert!(panics(|| Com::commit_with_pk(&bad_msgs, &pk, &bad_bases, None)));
    let c = Com::commit_with_pk(&bad_msgs, &pk, &bad_bases, Some(&[0, 1]));
    assert_eq!(
        c.value(),
        &expected_commit(&bases.0, &pk.b, &pk.N, &msgs, &[0, 1], c.randomness())
    );
    // negative message on an invertible base is a modular inverse
    let c = Com::commit_with_pk(&bad_msgs, &pk, &bases, Some(&[2]));
    let inv = Integer::from(bases.0[2].invert_ref(&pk.N).unwrap());
    assert_eq!(c.value(), &modn(inv * pm(&pk.b, c.randomness(), &pk.N), &pk.N));
}

#[test]
fn commit_with_commitment_pk_cases() {
    let (pk, sk) = fixed_key();
    let n = 4usize;
    let cpk = fixed_commitment_pk(n, &pk.N);
    let msgs = fixed_msgs(n);
    let all: Vec<usize> = (0..n).collect();
    let cases: Vec<(Option<Vec<usize>>, Vec<usize>)> = vec![
        (None, all.clone()),
        (Some(vec![]), vec![]),
        (Some(vec![0]), vec![0]),
        (Some(vec![n - 1]), vec![n - 1]),
        (Some(vec![2, 0]), vec![2, 0]),
        (Some(vec![1, 1]), vec![1, 1]),
    ];
    for (arg, idx) in cases {
        let c = Com::commit_with_commitment_pk(&msgs, &cpk, arg.as_deref());
        let r = c.randomness().clone();
        assert_eq!(r.significant_bits(), CS::ln);
        assert_eq!(c.value(), &expected_commit(&cpk.g_bases, &cpk.h, &cpk.N, &msgs, &idx, &r));
    }
    let c = Com::commit_with_commitment_pk(&msgs[..1], &cpk, None);
    assert_eq!(
        c.value(),
        &expected_commit(&cpk.g_bases, &cpk.h, &cpk.N, &msgs, &[0], c.randomness())
    );
    let c = Com::commit_with_commitment_pk(&[], &fixed_commitment_pk(0, &pk.N), None);
    assert_eq!(c.value(), &pm(&cpk.h, c.randomness(), &cpk.N));
    assert!(panics(|| Com::commit_with_commitment_pk(&msgs, &fixed_commitment_pk(n - 1, &pk.N), None)));
    assert!(panics(|| Com::commit_with_commitment_pk(&msgs, &cpk, Some(&[n]))));
    assert!(panics(|| Com::commit_with_commitment_pk(&msgs[..1], &cpk, Some(&[0, 1]))));
    let mut bad = cpk.clone();
    bad.g_bases[0] = sk.p.clone();
    let mut bad_msgs = msgs.clone();
    bad_msgs[0] = CL03Message::new(int(-1));
    assert!(panics(|| Com::commit_with_commitment_pk(&bad_msgs, &bad, None)));
    assert!(!panics(|| Com::commit_with_commitment_pk(&bad_msgs, &bad, Some(&[1]))));
}

fn fixed_commitment(N: &Integer) -> Com {
    Com::CL03(CL03Commitment {
        value: fixed_qr(0xdead_beef, N),
        randomness: Integer::from(0x1234_5678),
    })
}

#[test]
fn extend_commitment_with_pk_cases() {
    let (pk, sk) = fixed_key();
    let n = 5usize;
    let bases = fixed_bases(n, &pk.N);
    let msgs = fixed_msgs(n);
    let start = fixed_commitment(&pk.N);

    // (revealed messages, index argument, effective (base index, message position) pairs)
    let pick = |idx: &[usize]| idx.iter().map(|&i| msgs[i].clone()).collect::<Vec<_>>();
    let cases: Vec<(Vec<CL03Message>, Option<Vec<usize>>, Vec<usize>)> = vec![
        (vec![], None, vec![]),
        (vec![], Some(vec![]), vec![]),
        (pick(&[0, 1, 2]), None, vec![0, 1, 2]),
        (pick(&[4]), Some(vec![4]), vec![4]),
        (pick(&[1, 2]), Some(vec![1, 2]), vec![1, 2]),
        (pick(&[1, 2]), Some(vec![2, 1]), vec![2, 1]),
        (pick(&[3, 3]), Some(vec![0, 0]), vec![0, 0]),
        (msgs.clone(), Some((0..n).rev().collect()), (0..n).rev().collect()),
    ];
    for (revealed, arg, base_idx) in cases {
        let mut c = start.clone();
        c.extend_commitment_with_pk(&revealed, &pk, &bases, arg.as_deref());
        let mut expected = start.value().clone();
        for (pos, &bi) in base_idx.iter().enumerate() {
            expected = modn(expected * pm(&bases.0[bi], &revealed[pos].value, &pk.N), &pk.N);
        }
        assert_eq!(c.value(), &expected);
        assert_eq!(c.randomness(), start.randomness());
    }
    // length mismatch, both directions; the commitment is left untouched
    for (revealed, arg) in [
        (pick(&[1, 2]), vec![1usize]),
        (pick(&[1]), vec![1usize, 2]),
        (vec![], vec![0usize]),
        (pick(&[1]), vec![]),
    ] {
        let mut c = start.clone();
        assert!(panics(|| c.extend_commitment_with_pk(&revealed, &pk, &bases, Some(&arg))));
        assert_eq!(c, start);
    }
    // index beyond the bases (first or last position); the commitment is left untouched
    for arg in [vec![n, 0], vec![0, n], vec![0, usize::MAX]] {
        let mut c = start.clone();
        assert!(panics(|| c.extend_commitment_with_pk(&pick(&[0, 1]), &pk, &bases, Some(&arg))));
        assert_eq!(c, start);
    }
    // None with more revealed messages than bases
    let mut c = start.clone();
    assert!(panics(|| c.extend_commitment_with_pk(&msgs, &pk, &fixed_bases(n - 1, &pk.N), None)));
    assert_eq!(c, start);
    // negative message on a non-invertible base
    let mut bad_bases = bases.clone();
    bad_bases.0[1] = sk.p.clone();
    let mut c = start.clone();
    assert!(panics(|| c.extend_commitment_with_pk(
        &[msgs[0].clone(), CL03Message::new(int(-1))],
        &pk,
        &bad_bases,
        Some(&[0, 1])
    )));
    assert_eq!(c, start);
    // a commitment value that is not reduced gets reduced as soon as one factor is multiplied in
    let mut big = Com::CL03(CL03Commitment {
        value: Integer::from(start.value() + &pk.N),
        randomness: int(5),
    });
    big.extend_commitment_with_pk(&[], &pk, &bases, None);
    assert_eq!(big.value(), &Integer::from(start.value() + &pk.N));
    big.extend_commitment_with_pk(&[CL03Message::new(int(0))], &pk, &bases, None);
    assert_eq!(big.value(), start.value());
    // wrong enum variant
    let mut unreachable = Com::_Unreachable(PhantomData);
    assert!(panics(|| unreachable.extend_commitment_with_pk(&[], &pk, &bases, None)));
    assert!(panics(|| {
        unreachable.value();
    }));
    assert!(panics(|| {
        unreachable.randomness();
    }));
    assert!(panics(|| {
        unreachable.cl03Commitment();
    }));
    assert!(panics(|| {
        unreachable.cl03Commitment_mut();
    }));
}

#[test]
fn extend_commitment_with_commitment_pk_cases() {
    let (pk, sk) = fixed_key();
    let n = 4usize;
    let cpk = fixed_commitment_pk(n, &pk.N);
    let msgs = fixed_msgs(n);
    let start = fixed_commitment(&pk.N);
    let all: Vec<usize> = (0..n).collect();
    // here the indexes address the full message list
    let cases: Vec<(Option<Vec<usize>>, Vec<usize>)> = vec![
        (None, all.clone()),
        (Some(vec![]), vec![]),
        (Some(vec![0]), vec![0]),
        (Some(vec![n - 1]), vec![n - 1]),
        (Some(vec![3, 1]), vec![3, 1]),
        (Some(vec![2, 2]), vec![2, 2]),
    ];
    for (arg, idx) in cases {
        let mut c = start.clone();
        c.extend_commitment_with_commitment_pk(&msgs, &cpk, arg.as_deref());
        let mut expected = start.value().clone();
        for &i in &idx {
            expected = modn(expected * pm(&cpk.g_bases[i], &msgs[i].value, &cpk.N), &cpk.N);
        }
        assert_eq!(c.value(), &expected);
        assert_eq!(c.randomness(), start.randomness());
    }
    let mut c = start.clone();
    c.extend_commitment_with_commitment_pk(&[], &cpk, None);
    assert_eq!(c, start);
    for (m, arg) in [
        (&msgs[..], Some(vec![n])),
        (&msgs[..], Some(vec![0, usize::MAX])),
        (&msgs[..2], Some(vec![1, 2])),
        (&msgs[..0], Some(vec![0])),
    ] {
        let mut c = start.clone();
        assert!(panics(|| c.extend_commitment_with_commitment_pk(m, &cpk, arg.as_deref())));
        assert_eq!(c, start);
    }
    let mut c = start.clone();
    assert!(panics(|| c.extend_commitment_with_commitment_pk(
        &msgs,
        &fixed_commitment_pk(n - 1, &pk.N),
        None
    )));
    assert_eq!(c, start);
    let mut bad = cpk.clone();
    bad.g_bases[1] = sk.q.clone();
    let mut bad_msgs = msgs.clone();
    bad_msgs[1] = CL03Message::new(int(-3));
    let mut c = start.clone();
    assert!(panics(|| c.extend_commitment_with_commitment_pk(&bad_msgs, &bad, None)));
    assert_eq!(c, start);
    let mut unreachable = Com::_Unreachable(PhantomData);
    assert!(panics(|| unreachable.extend_commitment_with_commitment_pk(&[], &cpk, None)));
}

// ---------------------------------------------------------------------------------------------------
// blind issuance
// ---------------------------------------------------------------------------------------------------

fn check_blind_signature(
    bs: &BSig,
    expected_cx: &Integer,
    pk: &CL03PublicKey,
    sk: &CL03SecretKey,
) {
    let e = bs.e();
    assert!(*e > two_pow(CS::le - 1) && *e < two_pow(CS::le));
    assert!(e.is_probably_prime(30) != IsPrime::No);
    assert_eq!(Integer::from(e.gcd_ref(&phi(sk))), 1);
    assert_eq!(bs.rprime().significant_bits(), CS::ls);
    assert!(*bs.v() >= 0 && *bs.v() < pk.N);
    let rhs = modn(
        Integer::from(expected_cx * &pm(&pk.b, bs.rprime(), &pk.N)) * &pk.c,
        &pk.N,
    );
    assert_eq!(pm(bs.v(), e, &pk.N), rhs);
}

#[test]
fn blind_issuance() {
    let (pk, sk) = fixed_key();
    let n = 3usize;
    let bases = fixed_bases(n, &pk.N);
    let msgs = fixed_msgs(n);
    let unrevealed = [0usize];
    let revealed_idx = [1usize, 2usize];
    let revealed: Vec<CL03Message> = revealed_idx.iter().map(|&i| msgs[i].clone()).collect();

    let commitment = Com::commit_with_pk(&msgs, &pk, &bases, Some(&unrevealed));
    let C = commitment.cl03Commitment();
    let zkpok = ZKPoK::<Sch>::generate_proof(&msgs, C, None, &pk, &bases, None, &unrevealed);
    assert!(zkpok.verify_proof(C, None, &pk, &bases, None, &unrevealed));

    let ext = |idx: &[usize], ms: &[CL03Message]| {
        let mut acc = C.value.clone();
        for (pos, &i) in idx.iter().enumerate() {
            acc = modn(acc * pm(&bases.0[i], &ms[pos].value, &pk.N), &pk.N);
        }
        acc
    };

    // revealed messages and their indexes
    let bs = BSig::blind_sign(
        &pk, &sk, &bases, &zkpok, Some(&revealed), C, None, None, &unrevealed, Some(&revealed_idx),
    );
    check_blind_signature(&bs, &ext(&revealed_idx, &revealed), &pk, &sk);
    let sig = bs.unblind_sign(&commitment);
    let (e, s, v) = sig_parts(&sig);
    assert_eq!(&e, bs.e());
    assert_eq!(&v, bs.v());
    assert_eq!(s, Integer::from(commitment.randomness() + bs.rprime()));
    assert!(sig.verify_multiattr(&pk, &bases, &msgs));
    let mut wrong = msgs.clone();
    wrong[2] = CL03Message::new(int(77));
    assert!(!sig.verify_multiattr(&pk, &bases, &wrong));

    // indexes in another order pair up positionally with the revealed messages
    let bs = BSig::blind_sign(
        &pk, &sk, &bases, &zkpok, Some(&revealed), C, None, None, &unrevealed, Some(&[2, 1]),
    );
    check_blind_signature(&bs, &ext(&[2, 1], &revealed), &pk, &sk);
    assert!(!bs.unblind_sign(&commitment).verify_multiattr(&pk, &bases, &msgs));

    // only one of the two optional arguments: the commitment is not extended
    let bs = BSig::blind_sign(&pk, &sk, &bases, &zkpok, Some(&revealed), C, None, None, &unrevealed, None);
    check_blind_signature(&bs, &C.value, &pk, &sk);
    let bs = BSig::blind_sign(&pk, &sk, &bases, &zkpok, None, C, None, None, &unrevealed, Some(&revealed_idx));
    check_blind_signature(&bs, &C.value, &pk, &sk);
    let bs = BSig::blind_sign(&pk, &sk, &bases, &zkpok, None, C, None, None, &unrevealed, None);
    check_blind_signature(&bs, &C.value, &pk, &sk);
    assert!(bs.unblind_sign(&commitment).verify_multiattr(&pk, &bases, &msgs[..1]));
    // Some(empty) with Some(empty)
    let bs = BSig::blind_sign(&pk, &sk, &bases, &zkpok, Some(&[]), C, None, None, &unrevealed, Some(&[]));
    check_blind_signature(&bs, &C.value, &pk, &sk);
    // mismatching lengths, out-of-range revealed index
    assert!(panics(|| BSig::blind_sign(
        &pk, &sk, &bases, &zkpok, Some(&revealed), C, None, None, &unrevealed, Some(&[1])
    )));
    assert!(panics(|| BSig::blind_sign(
        &pk, &sk, &bases, &zkpok, Some(&revealed[..1]), C, None, None, &unrevealed, Some(&[1, 2])
    )));
    assert!(panics(|| BSig::blind_sign(
        &pk, &sk, &bases, &zkpok, Some(&revealed), C, None, None, &unrevealed, Some(&[1, n])
    )));
    // proof does not match: other commitment, other unrevealed indexes
    let other = Com::commit_with_pk(&msgs, &pk, &bases, Some(&unrevealed));
    assert!(panics(|| BSig::blind_sign(
        &pk, &sk, &bases, &zkpok, Some(&revealed), other.cl03Commitment(), None, None, &unrevealed,
        Some(&revealed_idx)
    )));
    assert!(panics(|| BSig::blind_sign(
        &pk, &sk, &bases, &zkpok, Some(&revealed), C, None, None, &[1], Some(&revealed_idx)
    )));

    // everything hidden
    let all = [0usize, 1, 2];
    let commitment_all = Com::commit_with_pk(&msgs, &pk, &bases, None);
    let C_all = commitment_all.cl03Commitment();
    let zk_all = ZKPoK::<Sch>::generate_proof(&msgs, C_all, None, &pk, &bases, None, &all);
    let bs = BSig::blind_sign(&pk, &sk, &bases, &zk_all, None, C_all, None, None, &all, None);
    check_blind_signature(&bs, &C_all.value, &pk, &sk);
    assert!(bs.unblind_sign(&commitment_all).verify_multiattr(&pk, &bases, &msgs));

    // accessors on the wrong variant
    let unreachable = BSig::_Unreachable(PhantomData);
    assert!(panics(|| {
        unreachable.e();
    }));
    assert!(panics(|| {
        unreachable.rprime();
    }));
    assert!(panics(|| {
        unreachable.v();
    }));
    assert!(panics(|| unreachable.unblind_sign(&commitment)));
    assert!(panics(|| bs.unblind_sign(&Com::_Unreachable(PhantomData))));
}

#[test]
fn update_blind_signature() {
    let (pk, sk) = fixed_key();
    let n = 3usize;
    let bases = fixed_bases(n, &pk.N);
    let msgs = fixed_msgs(n);
    let unrevealed = [0usize];
    let revealed_idx = [1usize, 2usize];
    let revealed: Vec<CL03Message> = revealed_idx.iter().map(|&i| msgs[i].clone()).collect();
    let commitment = Com::commit_with_pk(&msgs, &pk, &bases, Some(&unrevealed));
    let C = commitment.cl03Commitment();
    let zkpok = ZKPoK::<Sch>::generate_proof(&msgs, C, None, &pk, &bases, None, &unrevealed);
    let bs = BSig::blind_sign(
        &pk, &sk, &bases, &zkpok, Some(&revealed), C, None, None, &unrevealed, Some(&revealed_idx),
    );

    let expected_v = |cx: &Integer| {
        let d = Integer::from(bs.e().invert_ref(&phi(&sk)).unwrap());
        let base = modn(Integer::from(cx * &pm(&pk.b, bs.rprime(), &pk.N)) * &pk.c, &pk.N);
        pm(&base, &d, &pk.N)
    };
    let ext = |idx: &[usize], ms: &[CL03Message]| {
        let mut acc = C.value.clone();
        for (pos, &i) in idx.iter().enumerate() {
            acc = modn(acc * pm(&bases.0[i], &ms[pos].value, &pk.N), &pk.N);
        }
        acc
    };

    // same messages: same signature
    let same = bs.update_signature(Some(&revealed), C, &sk, &pk, &bases, Some(&revealed_idx));
    assert_eq!(same, bs);

    // updated messages
    let mut updated = msgs.clone();
    updated[1] = CL03Message::new(int(424242));
    updated[2] = CL03Message::new(int(0));
    let upd_revealed: Vec<CL03Message> = revealed_idx.iter().map(|&i| updated[i].clone()).collect();
    let up = bs.update_signature(Some(&upd_revealed), C, &sk, &pk, &bases, Some(&revealed_idx));
    assert_eq!(up.e(), bs.e());
    assert_eq!(up.rprime(), bs.rprime());
    assert_eq!(up.v(), &expected_v(&ext(&revealed_idx, &upd_revealed)));
    let sig = up.unblind_sign(&commitment);
    assert!(sig.verify_multiattr(&pk, &bases, &updated));
    assert!(!sig.verify_multiattr(&pk, &bases, &msgs));

    // only one optional argument, or none: not extended
    for (m, i) in [
        (Some(&upd_revealed[..]), None),
        (None, Some(&revealed_idx[..])),
        (None, None),
        (Some(&[][..]), Some(&[][..])),
    ] {
        let up = bs.update_signature(m, C, &sk, &pk, &bases, i);
        assert_eq!(up.v(), &expected_v(&C.value));
        assert_eq!(up.e(), bs.e());
        assert_eq!(up.rprime(), bs.rprime());
    }
    // single revealed message at the largest index
    let up = bs.update_signature(Some(&upd_revealed[..1]), C, &sk, &pk, &bases, Some(&[n - 1]));
    assert_eq!(up.v(), &expected_v(&ext(&[n - 1], &upd_revealed[..1])));

    // malformed
    assert!(panics(|| bs.update_signature(Some(&upd_revealed), C, &sk, &pk, &bases, Some(&[1]))));
    assert!(panics(|| bs.update_signature(Some(&upd_revealed[..1]), C, &sk, &pk, &bases, Some(&[1, 2]))));
    assert!(panics(|| bs.update_signature(Some(&upd_revealed), C, &sk, &pk, &bases, Some(&[1, n]))));
    // a secret key for which e is not invertible modulo phi: e itself as one of the "primes" + 1
    let bad_sk = CL03SecretKey::new(Integer::from(bs.e() + 1u32), sk.q.clone());
    assert!(panics(|| bs.update_signature(None, C, &bad_sk, &pk, &bases, None)));
    let unreachable = BSig::_Unreachable(PhantomData);
    assert!(panics(|| unreachable.update_signature(None, C, &sk, &pk, &bases, None)));
}
