// Behavioural pinning of the Blind BBS code paths (src/bbsplus/blind.rs and src/bbsplus/commitment.rs)
// through the public API only.
//
// Everything that is deterministic (BlindSign, signature verification, commitment validation, the
// codecs, prepare_parameters) is written into a transcript, one line per call, and the SHA-256 of the
// transcript is compared with the value recorded on the reference implementation. The outcome of a call
// is either the hex/JSON encoding of the Ok value or the name of the Error variant.
// `Commitment::commit` draws fresh randomness, hence it is checked through its properties.

#![allow(non_snake_case)]

use std::fmt::Debug;
use std::fs;
use std::marker::PhantomData;
use std::panic::{catch_unwind, AssertUnwindSafe};

use bls12_381_plus::{group::Curve, G1Projective, Scalar};
use elliptic_curve::hash2curve::ExpandMsg;
use sha2::{Digest, Sha256};
use zkryptium::{
    bbsplus::{
        blind::prepare_parameters,
        ciphersuites::{BbsCiphersuite, Bls12381Sha256, Bls12381Shake256},
        commitment::{BBSplusCommitment, BlindFactor},
        generators::Generators,
        keys::{BBSplusPublicKey, BBSplusSecretKey},
    },
    errors::Error,
    schemes::{
        algorithms::BBSplus,
        generics::{BlindSignature, Commitment},
    },
};

const G1_LEN: usize = 48;
const SCALAR_LEN: usize = 32;

// ---------------------------------------------------------------------------------------------------
// transcript helpers

struct Transcript(Vec<String>);

impl Transcript {
    fn new() -> Self {
        Self(Vec::new())
    }

    fn put(&mut self, label: impl AsRef<str>, outcome: String) {
        self.0.push(format!("{} => {}", label.as_ref(), outcome));
    }

    fn check(&self, name: &str, expected: &str) {
        let text = self.0.join("\n");
        let digest = hex::encode(Sha256::digest(text.as_bytes()));
        if digest != expected {
            panic!(
                "transcript `{}` differs: digest {} expected {}\n{}",
                name, digest, expected, text
            );
        }
    }
}

/// Runs `f`; a panic becomes the outcome "PANIC" (so that a panic is pinned like any other outcome).
fn guarded<T>(f: impl FnOnce() -> Result<T, Error>, show: impl FnOnce(T) -> String) -> String {
    match catch_unwind(AssertUnwindSafe(f)) {
        Ok(Ok(v)) => format!("Ok({})", show(v)),
        Ok(Err(e)) => format!("Err({})", variant(&e)),
        Err(_) => "PANIC".to_owned(),
    }
}

/// Name of the error variant, without its payload (the text of the messages is not pinned).
fn variant<E: Debug>(e: &E) -> String {
    let s = format!("{:?}", e);
    s.split(|c| c == '(' || c == ' ' || c == '{')
        .next()
        .unwrap()
        .to_owned()
}

fn g1_hex(p: &G1Projective) -> String {
    hex::encode(p.to_affine().to_compressed())
}

fn opt_label<T>(o: &Option<T>, f: impl Fn(&T) -> String) -> String {
    match o {
        None => "None".to_owned(),
        Some(v) => format!("Some({})", f(v)),
    }
}

// ---------------------------------------------------------------------------------------------------
// fixtures

struct SigFixture {
    sk: BBSplusSecretKey,
    pk: BBSplusPublicKey,
    commitment_with_proof: Option<Vec<u8>>,
    header: Vec<u8>,
    messages: Vec<Vec<u8>>,
    committed_messages: Option<Vec<Vec<u8>>>,
    prover_blind: Option<[u8; 32]>,
    signature: String,
}

fn hex_list(v: &serde_json::Value) -> Option<Vec<Vec<u8>>> {
    v.as_array().map(|a| {
        a.iter()
            .map(|m| hex::decode(m.as_str().unwrap()).unwrap())
            .collect()
    })
}

fn load_signature(dir: &str, n: usize) -> SigFixture {
    let path = format!("./fixture_data_blind/{}/signature/signature{:03}.json", dir, n);
    let data = fs::read_to_string(&path).expect("Unable to read file");
    let json: serde_json::Value = serde_json::from_str(&data).expect("Unable to parse");
    assert_eq!(json["result"]["valid"].as_bool(), Some(true));
    SigFixture {
        sk: BBSplusSecretKey::from_bytes(
            &hex::decode(json["signerKeyPair"]["secretKey"].as_str().unwrap()).unwrap(),
        )
        .unwrap(),
        pk: BBSplusPublicKey::from_bytes(
            &hex::decode(json["signerKeyPair"]["publicKey"].as_str().unwrap()).unwrap(),
        )
        .unwrap(),
        commitment_with_proof: json["commitmentWithProof"]
            .as_str()
            .map(|c| hex::decode(c).unwrap()),
        header: hex::decode(json["header"].as_str().unwrap()).unwrap(),
        messages: hex_list(&json["messages"]).unwrap(),
        committed_messages: hex_list(&json["committedMessages"]),
        prover_blind: json["proverBlind"]
            .as_str()
            .map(|b| hex::decode(b).unwrap().try_into().unwrap()),
        signature: json["signature"].as_str().unwrap().to_owned(),
    }
}

fn blind(bytes: &Option<[u8; 32]>) -> Option<BlindFactor> {
    bytes.as_ref().map(|b| BlindFactor::from_bytes(b).unwrap())
}

fn msgs(n: usize, tag: u8) -> Vec<Vec<u8>> {
    // messages of different lengths, the empty message included
    (0..n)
        .map(|i| (0..(i * 7) % 40).map(|j| tag ^ (i as u8).wrapping_mul(31) ^ j as u8).collect())
        .collect()
}

fn blind_generators<CS>(count: usize) -> Generators
where
    CS: BbsCiphersuite + Debug,
    CS::Expander: for<'a> ExpandMsg<'a>,
{
    Generators::create::<CS>(count, Some(&[b"BLIND_", CS::API_ID_BLIND].concat()))
}

/// Malformed variants of a serialized commitment with proof.
fn mutations(good: &[u8]) -> Vec<(String, Vec<u8>)> {
    let mut out: Vec<(String, Vec<u8>)> = Vec::new();
    out.push(("good".into(), good.to_vec()));
    // truncations around every boundary of the encoding
    for len in [
        0usize, 1, 31, 32, 47, 48, 49, 79, 80, 81, 95, 96, 111, 112, 113, 127, 128, 143, 144, 145,
    ] {
        if len < good.len() {
            out.push((format!("trunc{}", len), good[..len].to_vec()));
        }
    }
    out.push(("minus1".into(), good[..good.len() - 1].to_vec()));
    out.push(("minus32".into(), good[..good.len() - SCALAR_LEN].to_vec()));
    for extra in [1usize, 31, 32, 33, 64] {
        let mut v = good.to_vec();
        v.extend(std::iter::repeat(0u8).take(extra));
        out.push((format!("plus{}zero", extra), v));
    }
    {
        let mut v = good.to_vec();
        v.extend_from_slice(&[0xffu8; 32]);
        out.push(("plus32ff".into(), v));
    }
    // the point
    for (name, pos, mask) in [
        ("flip_point_first", 0usize, 0x01u8),
        ("clear_compression_flag", 0, 0x80),
        ("flip_sign_flag", 0, 0x20),
        ("flip_point_last", G1_LEN - 1, 0x01),
    ] {
        let mut v = good.to_vec();
        v[pos] ^= mask;
        out.push((name.into(), v));
    }
    {
        let mut v = good.to_vec();
        v[..G1_LEN].fill(0);
        v[0] = 0xc0; // point at infinity
        out.push(("identity_point".into(), v));
        let mut v = good.to_vec();
        v[..G1_LEN].fill(0xff);
        out.push(("ff_point".into(), v));
        let mut v = good.to_vec();
        v[..G1_LEN].fill(0);
        out.push(("zero_point".into(), v));
    }
    // a bad point together with a bad length of the proof
    for (name, fill, len) in [
        ("zero_point_trunc81", 0u8, 81usize),
        ("ff_point_trunc48", 0xff, 48),
        ("ff_point_trunc111", 0xff, 111),
        ("zero_point_minus1", 0, good.len() - 1),
    ] {
        let mut v = good[..len].to_vec();
        v[..G1_LEN].fill(fill);
        out.push((name.into(), v));
    }
    {
        let mut v = good.to_vec();
        v[..G1_LEN].fill(0xff);
        v.push(0);
        out.push(("ff_point_plus1".into(), v));
    }
    // the scalars: s^, m^_1 (if any), last m^ (if any), challenge
    let n_scalars = (good.len() - G1_LEN) / SCALAR_LEN;
    let mut positions = vec![0usize, n_scalars - 1];
    if n_scalars > 2 {
        positions.push(1);
        positions.push(n_scalars - 2);
    }
    positions.sort();
    positions.dedup();
    for k in positions {
        let start = G1_LEN + k * SCALAR_LEN;
        let mut v = good.to_vec();
        v[start + SCALAR_LEN - 1] ^= 0x01;
        out.push((format!("flip_scalar{}", k), v));
        let mut v = good.to_vec();
        v[start..start + SCALAR_LEN].fill(0xff); // not a canonical scalar
        out.push((format!("ff_scalar{}", k), v));
        let mut v = good.to_vec();
        v[start..start + SCALAR_LEN].fill(0);
        out.push((format!("zero_scalar{}", k), v));
        let mut v = good.to_vec();
        v.drain(start..start + SCALAR_LEN);
        out.push((format!("drop_scalar{}", k), v));
    }
    // the group order r (smallest non canonical scalar) as challenge
    {
        let r = hex::decode("73eda753299d7d483339d80809a1d80553bda402fffe5bfeffffffff00000001")
            .unwrap();
        let mut v = good.to_vec();
        let start = good.len() - SCALAR_LEN;
        v[start..].copy_from_slice(&r);
        out.push(("challenge_eq_r".into(), v));
    }
    // swap the first two scalars
    {
        let mut v = good.to_vec();
        let (a, b) = v[G1_LEN..].split_at_mut(SCALAR_LEN);
        a.swap_with_slice(&mut b[..SCALAR_LEN]);
        out.push(("swap_scalars01".into(), v));
    }
    out
}

// ---------------------------------------------------------------------------------------------------
// 1. BlindSign / blind signature verification on the fixtures and around them

fn sign_outcome<CS>(
    sk: &BBSplusSecretKey,
    pk: &BBSplusPublicKey,
    cwp: Option<&[u8]>,
    header: Option<&[u8]>,
    messages: Option<&[Vec<u8>]>,
) -> String
where
    CS: BbsCiphersuite + Debug,
    CS::Expander: for<'a> ExpandMsg<'a>,
{
    guarded(
        || BlindSignature::<BBSplus<CS>>::blind_sign(sk, pk, cwp, header, messages),
        |s| hex::encode(s.to_bytes()),
    )
}

fn verify_outcome<CS>(
    sig: &BlindSignature<BBSplus<CS>>,
    pk: &BBSplusPublicKey,
    header: Option<&[u8]>,
    messages: Option<&[Vec<u8>]>,
    committed: Option<&[Vec<u8>]>,
    blind: Option<&BlindFactor>,
) -> String
where
    CS: BbsCiphersuite + Debug,
    CS::Expander: for<'a> ExpandMsg<'a>,
{
    guarded(
        || sig.verify_blind_sign(pk, header, messages, committed, blind),
        |()| String::new(),
    )
}

fn sign_and_verify<CS>(dir: &str, t: &mut Transcript)
where
    CS: BbsCiphersuite + Debug,
    CS::Expander: for<'a> ExpandMsg<'a>,
{
    for n in 1..=5 {
        let f = load_signature(dir, n);
        let cwp = f.commitment_with_proof.as_deref();
        let committed = f.committed_messages.as_deref();
        let secret = blind(&f.prover_blind);

        let sig = BlindSignature::<BBSplus<CS>>::blind_sign(
            &f.sk,
            &f.pk,
            cwp,
            Some(&f.header),
            Some(&f.messages),
        )
        .unwrap();
        assert_eq!(hex::encode(sig.to_bytes()), f.signature, "fixture {}", n);
        let again = BlindSignature::<BBSplus<CS>>::from_bytes(&sig.to_bytes()).unwrap();
        assert_eq!(again, sig);
        assert_eq!(again.A(), sig.A());
        assert_eq!(again.e(), sig.e());
        sig.verify_blind_sign(
            &f.pk,
            Some(&f.header),
            Some(&f.messages),
            committed,
            secret.as_ref(),
        )
        .unwrap();

        // None vs Some(empty) vs the value, for every optional input of BlindSign
        let empty_msgs: Vec<Vec<u8>> = Vec::new();
        let cwp_options: Vec<Option<&[u8]>> = vec![None, Some(&[]), cwp];
        let header_options: Vec<Option<&[u8]>> = vec![None, Some(&[]), Some(&f.header)];
        let one = &f.messages[..f.messages.len().min(1)];
        let msg_options: Vec<Option<&[Vec<u8>]>> =
            vec![None, Some(&empty_msgs), Some(one), Some(&f.messages)];
        for c in &cwp_options {
            for h in &header_options {
                for m in &msg_options {
                    let label = format!(
                        "{}/sig{} sign cwp={} header={} msgs={}",
                        dir,
                        n,
                        opt_label(c, |c| c.len().to_string()),
                        opt_label(h, |h| h.len().to_string()),
                        opt_label(m, |m| m.len().to_string())
                    );
                    t.put(label, sign_outcome::<CS>(&f.sk, &f.pk, *c, *h, *m));
                }
            }
        }

        // verification with every combination of present / absent / wrong inputs
        let wrong_blind = BlindFactor::from_bytes(&[0x11u8; 32]).unwrap();
        let zero_blind = BlindFactor::from_bytes(&[0u8; 32]).unwrap();
        let blind_options: Vec<(&str, Option<&BlindFactor>)> = vec![
            ("None", None),
            ("good", secret.as_ref()),
            ("wrong", Some(&wrong_blind)),
            ("zero", Some(&zero_blind)),
        ];
        let mut reversed: Vec<Vec<u8>> = f.committed_messages.clone().unwrap_or_default();
        reversed.reverse();
        let mut shorter: Vec<Vec<u8>> = f.committed_messages.clone().unwrap_or_default();
        shorter.pop();
        let mut longer: Vec<Vec<u8>> = f.committed_messages.clone().unwrap_or_default();
        longer.push(b"one more".to_vec());
        let committed_options: Vec<(&str, Option<&[Vec<u8>]>)> = vec![
            ("None", None),
            ("empty", Some(&empty_msgs)),
            ("good", committed),
            ("reversed", Some(&reversed)),
            ("shorter", Some(&shorter)),
            ("longer", Some(&longer)),
        ];
        let verify_header_options: Vec<Option<&[u8]>> = vec![None, Some(&f.header)];
        let verify_msg_options: Vec<Option<&[Vec<u8>]>> =
            vec![None, Some(&empty_msgs), Some(one), Some(&f.messages)];
        for (bn, b) in &blind_options {
            for (cn, c) in &committed_options {
                for h in &verify_header_options {
                    for m in &verify_msg_options {
                        let label = format!(
                            "{}/sig{} verify blind={} committed={} header={} msgs={}",
                            dir,
                            n,
                            bn,
                            cn,
                            opt_label(h, |h| h.len().to_string()),
                            opt_label(m, |m| m.len().to_string())
                        );
                        t.put(label, verify_outcome::<CS>(&sig, &f.pk, *h, *m, *c, *b));
                    }
                }
            }
        }

        // the messages of the signer and of the prover are not interchangeable
        if let Some(committed) = committed {
            let all: Vec<Vec<u8>> = f.messages.iter().chain(committed).cloned().collect();
            t.put(
                format!("{}/sig{} verify all-as-signer-messages", dir, n),
                verify_outcome::<CS>(&sig, &f.pk, Some(&f.header), Some(&all), None, secret.as_ref()),
            );
            t.put(
                format!("{}/sig{} verify all-as-committed-messages", dir, n),
                verify_outcome::<CS>(&sig, &f.pk, Some(&f.header), None, Some(&all), secret.as_ref()),
            );
        }

        // BlindSign over malformed commitments, with 0, 1 and 3 signer messages
        if let Some(good) = cwp {
            for (name, bytes) in mutations(good) {
                for l in [0usize, 1, 3] {
                    let m = msgs(l, 0x5a);
                    t.put(
                        format!("{}/sig{} sign mutated={} L={}", dir, n, name, l),
                        sign_outcome::<CS>(&f.sk, &f.pk, Some(&bytes), Some(&f.header), Some(&m)),
                    );
                }
            }
        }
    }

    // a signature value of the wrong variant is refused, it does not panic
    let f = load_signature(dir, 4);
    let unreachable = BlindSignature::<BBSplus<CS>>::_Unreachable(PhantomData);
    t.put(
        format!("{} verify _Unreachable", dir),
        verify_outcome::<CS>(
            &unreachable,
            &f.pk,
            Some(&f.header),
            Some(&f.messages),
            f.committed_messages.as_deref(),
            blind(&f.prover_blind).as_ref(),
        ),
    );
    t.put(
        format!("{} verify _Unreachable all None", dir),
        verify_outcome::<CS>(&unreachable, &f.pk, None, None, None, None),
    );

    // signature codec
    let mut sig_bytes: [u8; 80] = hex::decode(&f.signature).unwrap().try_into().unwrap();
    for (name, pos, mask) in [
        ("good", 0usize, 0u8),
        ("flip_A", 1, 1),
        ("clear_flag", 0, 0x80),
        ("flip_e", 79, 1),
        ("e_high", 48, 0xff),
    ] {
        sig_bytes[pos] ^= mask;
        t.put(
            format!("{} signature from_bytes {}", dir, name),
            guarded(
                || BlindSignature::<BBSplus<CS>>::from_bytes(&sig_bytes),
                |s| {
                    format!(
                        "{} verify {}",
                        hex::encode(s.to_bytes()),
                        verify_outcome::<CS>(
                            &s,
                            &f.pk,
                            Some(&f.header),
                            Some(&f.messages),
                            f.committed_messages.as_deref(),
                            blind(&f.prover_blind).as_ref(),
                        )
                    )
                },
            ),
        );
        sig_bytes[pos] ^= mask;
    }
}

#[test]
fn blind_sign_and_verify_sha256() {
    let mut t = Transcript::new();
    sign_and_verify::<Bls12381Sha256>("bls12-381-sha-256", &mut t);
    t.check("sign sha256", SIGN_SHA256);
}

#[test]
fn blind_sign_and_verify_shake256() {
    let mut t = Transcript::new();
    sign_and_verify::<Bls12381Shake256>("bls12-381-shake-256", &mut t);
    t.check("sign shake256", SIGN_SHAKE256);
}

// ---------------------------------------------------------------------------------------------------
// 2. commitment validation and the commitment codecs on fixed bytes

fn validate_outcome<CS>(cwp: Option<&[u8]>, gens: &Generators, api_id: Option<&[u8]>) -> String
where
    CS: BbsCiphersuite + Debug,
    CS::Expander: for<'a> ExpandMsg<'a>,
{
    guarded(
        || Commitment::<BBSplus<CS>>::deserialize_and_validate_commit(cwp, gens, api_id),
        |c| g1_hex(&c),
    )
}

fn commitment_validation<CS>(dir: &str, t: &mut Transcript)
where
    CS: BbsCiphersuite + Debug,
    CS::Expander: for<'a> ExpandMsg<'a>,
{
    let no_generators = Generators {
        g1_base_point: G1Projective::GENERATOR,
        values: Vec::new(),
    };

    for n in 1..=2 {
        let path = format!("./fixture_data_blind/{}/commit/commit{:03}.json", dir, n);
        let data = fs::read_to_string(&path).expect("Unable to read file");
        let json: serde_json::Value = serde_json::from_str(&data).expect("Unable to parse");
        let good = hex::decode(json["commitmentWithProof"].as_str().unwrap()).unwrap();
        let m = hex_list(&json["committedMessages"]).unwrap().len();
        assert_eq!(good.len(), G1_LEN + SCALAR_LEN * (m + 2));

        // codecs
        let parsed = Commitment::<BBSplus<CS>>::from_bytes(&good).unwrap();
        assert_eq!(parsed.to_bytes(), good);
        let inner = BBSplusCommitment::from_bytes(&good).unwrap();
        assert_eq!(inner.to_bytes(), good);
        assert_eq!(parsed, Commitment::BBSplus(inner.clone()));
        assert_eq!(g1_hex(&inner.commitment), hex::encode(&good[..G1_LEN]));
        assert_eq!(inner.proof.to_bytes(), &good[G1_LEN..]);
        let as_json = serde_json::to_string(&parsed).unwrap();
        t.put(format!("{}/commit{} serde", dir, n), as_json.clone());
        let back: Commitment<BBSplus<CS>> = serde_json::from_str(&as_json).unwrap();
        assert_eq!(back, parsed);

        // number of generators: none, too few, exact, too many; api_id absent, empty, wrong, right
        let wrong_api: &[u8] = b"SOME_OTHER_API_ID_";
        let api_options: Vec<(&str, Option<&[u8]>)> = vec![
            ("None", None),
            ("empty", Some(b"")),
            ("wrong", Some(wrong_api)),
            ("right", Some(CS::API_ID_BLIND)),
        ];
        let mut counts = vec![0usize, 1, m, m + 1, m + 2, m + 5];
        counts.sort();
        counts.dedup();
        for count in counts {
            let gens = blind_generators::<CS>(count);
            assert_eq!(gens.values.len(), count);
            for (an, a) in &api_options {
                t.put(
                    format!("{}/commit{} validate gens={} api={}", dir, n, count, an),
                    validate_outcome::<CS>(Some(&good), &gens, *a),
                );
            }
            t.put(
                format!("{}/commit{} validate None gens={}", dir, n, count),
                validate_outcome::<CS>(None, &gens, Some(CS::API_ID_BLIND)),
            );
            t.put(
                format!("{}/commit{} validate Some(empty) gens={}", dir, n, count),
                validate_outcome::<CS>(Some(&[]), &gens, None),
            );
        }
        // generators of the signer messages instead of the blind ones
        let other = Generators::create::<CS>(m + 1, Some(CS::API_ID_BLIND));
        t.put(
            format!("{}/commit{} validate non-blind generators", dir, n),
            validate_outcome::<CS>(Some(&good), &other, Some(CS::API_ID_BLIND)),
        );
        // the blind generators in another order
        let mut rotated = blind_generators::<CS>(m + 1);
        rotated.values.rotate_left(1);
        t.put(
            format!("{}/commit{} validate rotated generators", dir, n),
            validate_outcome::<CS>(Some(&good), &rotated, Some(CS::API_ID_BLIND)),
        );

        // malformed bytes: codec and validation (exact, one spare, many spare and no generators)
        for (name, bytes) in mutations(&good) {
            t.put(
                format!("{}/commit{} Commitment::from_bytes {}", dir, n, name),
                guarded(
                    || Commitment::<BBSplus<CS>>::from_bytes(&bytes),
                    |c| hex::encode(c.to_bytes()),
                ),
            );
            t.put(
                format!("{}/commit{} BBSplusCommitment::from_bytes {}", dir, n, name),
                guarded(
                    || BBSplusCommitment::from_bytes(&bytes),
                    |c| format!("{} {}", g1_hex(&c.commitment), hex::encode(c.proof.to_bytes())),
                ),
            );
            for count in [m + 1, m + 2, m + 4] {
                t.put(
                    format!("{}/commit{} validate {} gens={}", dir, n, name, count),
                    validate_outcome::<CS>(
                        Some(&bytes),
                        &blind_generators::<CS>(count),
                        Some(CS::API_ID_BLIND),
                    ),
                );
            }
            t.put(
                format!("{}/commit{} validate {} no generators", dir, n, name),
                validate_outcome::<CS>(Some(&bytes), &no_generators, Some(CS::API_ID_BLIND)),
            );
        }
    }

    // absent commitment and no generators at all
    t.put(
        format!("{} validate None, no generators", dir),
        validate_outcome::<CS>(None, &no_generators, None),
    );
    t.put(
        format!("{} validate Some(empty), no generators", dir),
        validate_outcome::<CS>(Some(&[]), &no_generators, Some(CS::API_ID_BLIND)),
    );
}

#[test]
fn commitment_validation_sha256() {
    let mut t = Transcript::new();
    commitment_validation::<Bls12381Sha256>("bls12-381-sha-256", &mut t);
    t.check("validation sha256", VALIDATE_SHA256);
}

#[test]
fn commitment_validation_shake256() {
    let mut t = Transcript::new();
    commitment_validation::<Bls12381Shake256>("bls12-381-shake-256", &mut t);
    t.check("validation shake256", VALIDATE_SHAKE256);
}

#[test]
fn blind_factor_codec() {
    let mut t = Transcript::new();
    let r = "73eda753299d7d483339d80809a1d80553bda402fffe5bfeffffffff00000001";
    let r_minus_1 = "73eda753299d7d483339d80809a1d80553bda402fffe5bfeffffffff00000000";
    for h in [
        "0000000000000000000000000000000000000000000000000000000000000000",
        "0000000000000000000000000000000000000000000000000000000000000001",
        "4fba5396baa36b2fde81d46a9b9ee89c425dbc5e1ffd65c20249afb4abd37589",
        r_minus_1,
        r,
        "ffffffffffffffffffffffffffffffffffffffffffffffffffffffffffffffff",
    ] {
        let bytes: [u8; 32] = hex::decode(h).unwrap().try_into().unwrap();
        t.put(
            format!("BlindFactor::from_bytes {}", h),
            guarded(|| BlindFactor::from_bytes(&bytes), |b| hex::encode(b.to_bytes())),
        );
    }
    t.check("blind factor", BLIND_FACTOR);
    let a = BlindFactor::random();
    let b = BlindFactor::from_bytes(&a.to_bytes()).unwrap();
    assert_eq!(a.to_bytes(), b.to_bytes());
}

// ---------------------------------------------------------------------------------------------------
// 3. prepare_parameters

fn prepare_parameters_cases<CS>(dir: &str, t: &mut Transcript)
where
    CS: BbsCiphersuite + Debug,
    CS::Expander: for<'a> ExpandMsg<'a>,
{
    let empty: Vec<Vec<u8>> = Vec::new();
    let m1 = msgs(1, 0x01);
    let m3 = msgs(3, 0x02);
    let c1 = msgs(1, 0x81);
    let c4 = msgs(4, 0x82);
    let msg_options: Vec<(&str, Option<&[Vec<u8>]>)> = vec![
        ("None", None),
        ("empty", Some(&empty)),
        ("1", Some(&m1)),
        ("3", Some(&m3)),
    ];
    let committed_options: Vec<(&str, Option<&[Vec<u8>]>)> = vec![
        ("None", None),
        ("empty", Some(&empty)),
        ("1", Some(&c1)),
        ("4", Some(&c4)),
    ];
    let b7 = BlindFactor::from_bytes(&[0x07u8; 32]).unwrap();
    let b0 = BlindFactor::from_bytes(&[0u8; 32]).unwrap();
    let blind_options: Vec<(&str, Option<&BlindFactor>)> =
        vec![("None", None), ("zero", Some(&b0)), ("seven", Some(&b7))];
    let long_api = vec![b'x'; 300];
    let api_options: Vec<(&str, Option<&[u8]>)> = vec![
        ("None", None),
        ("empty", Some(b"")),
        ("blind", Some(CS::API_ID_BLIND)),
        ("plain", Some(CS::API_ID)),
        ("long", Some(&long_api)),
    ];

    for (mn, m) in &msg_options {
        for (cn, c) in &committed_options {
            for (bn, b) in &blind_options {
                for (an, a) in &api_options {
                    let l = m.map_or(0, |m| m.len());
                    let k = c.map_or(0, |c| c.len());
                    // the numbers of generators are independent of the lists
                    let mut numbers = vec![(l + 1, k + 1), (0, 0), (1, 0), (0, 2), (l, k + 3)];
                    numbers.dedup();
                    if *an == "long" {
                        numbers.truncate(2);
                    }
                    for (g, bg) in numbers {
                        let label = format!(
                            "{} prepare msgs={} committed={} blind={} api={} g={} bg={}",
                            dir, mn, cn, bn, an, g, bg
                        );
                        let outcome = guarded(
                            || prepare_parameters::<CS>(*m, *c, g, bg, *b, *a),
                            |(scalars, generators)| {
                                let scalars: Vec<String> = scalars
                                    .iter()
                                    .map(|s| hex::encode(s.to_bytes_be()))
                                    .collect();
                                assert_eq!(generators.values.len(), g + bg);
                                format!(
                                    "[{}] {}",
                                    scalars.join(","),
                                    serde_json::to_string(&generators).unwrap()
                                )
                            },
                        );
                        // keep the transcript small: the outcome is hashed per line
                        t.put(label, hex::encode(Sha256::digest(outcome.as_bytes())));
                        if outcome.starts_with("Err") || outcome == "PANIC" {
                            t.put("  outcome", outcome);
                        }
                    }
                }
            }
        }
    }

    // layout of the result: signer messages, prover blind, committed messages; generators then blind generators
    let (scalars, generators) = prepare_parameters::<CS>(
        Some(&m3),
        Some(&c4),
        4,
        5,
        Some(&b7),
        Some(CS::API_ID_BLIND),
    )
    .unwrap();
    assert_eq!(scalars.len(), 3 + 1 + 4);
    assert_eq!(scalars[3].value, Scalar::from_be_bytes(&[0x07u8; 32]).unwrap());
    let (only_signer, g) =
        prepare_parameters::<CS>(Some(&m3), None, 4, 0, None, Some(CS::API_ID_BLIND)).unwrap();
    assert_eq!(&scalars[..3], &only_signer[..]);
    assert_eq!(only_signer.len(), 3);
    assert_eq!(&generators.values[..4], &g.values[..]);
    assert_eq!(g, Generators::create::<CS>(4, Some(CS::API_ID_BLIND)));
    let (only_committed, bg) =
        prepare_parameters::<CS>(None, Some(&c4), 0, 5, None, Some(CS::API_ID_BLIND)).unwrap();
    assert_eq!(&scalars[4..], &only_committed[..]);
    assert_eq!(&generators.values[4..], &bg.values[..]);
    assert_eq!(bg.values, blind_generators::<CS>(5).values);
    assert_eq!(generators.g1_base_point, g.g1_base_point);
}

#[test]
fn prepare_parameters_sha256() {
    let mut t = Transcript::new();
    prepare_parameters_cases::<Bls12381Sha256>("bls12-381-sha-256", &mut t);
    t.check("prepare sha256", PREPARE_SHA256);
}

#[test]
fn prepare_parameters_shake256() {
    let mut t = Transcript::new();
    prepare_parameters_cases::<Bls12381Shake256>("bls12-381-shake-256", &mut t);
    t.check("prepare shake256", PREPARE_SHAKE256);
}

// ---------------------------------------------------------------------------------------------------
// 4. Commit (randomised): properties, and the whole flow commit -> sign -> verify

fn commit_flow<CS>(dir: &str)
where
    CS: BbsCiphersuite + Debug,
    CS::Expander: for<'a> ExpandMsg<'a>,
{
    let f = load_signature(dir, 3);
    let empty: Vec<Vec<u8>> = Vec::new();
    let lists: Vec<Option<Vec<Vec<u8>>>> = vec![
        None,
        Some(Vec::new()),
        Some(msgs(1, 0x10)),
        Some(vec![Vec::new()]),
        Some(msgs(2, 0x20)),
        Some(msgs(5, 0x30)),
        Some(msgs(9, 0x40)),
    ];
    for list in &lists {
        let committed: Option<&[Vec<u8>]> = list.as_deref();
        let m = committed.map_or(0, |c| c.len());

        let (commitment, secret) = Commitment::<BBSplus<CS>>::commit(committed).unwrap();
        let bytes = commitment.to_bytes();
        assert_eq!(bytes.len(), G1_LEN + SCALAR_LEN * (m + 2));
        assert_eq!(Commitment::<BBSplus<CS>>::from_bytes(&bytes).unwrap(), commitment);
        let inner = match &commitment {
            Commitment::BBSplus(inner) => inner.clone(),
            _ => panic!("wrong variant"),
        };
        assert_eq!(inner.to_bytes(), bytes);

        // fresh randomness every time: blind, commitment and proof all differ
        let (commitment2, secret2) = Commitment::<BBSplus<CS>>::commit(committed).unwrap();
        let bytes2 = commitment2.to_bytes();
        assert_ne!(secret.to_bytes(), secret2.to_bytes());
        assert_ne!(bytes[..G1_LEN], bytes2[..G1_LEN]);
        for k in 0..(m + 2) {
            let range = G1_LEN + k * SCALAR_LEN..G1_LEN + (k + 1) * SCALAR_LEN;
            assert_ne!(bytes[range.clone()], bytes2[range], "scalar {} of the proof", k);
        }

        // the commitment is Q2 * secret_prover_blind + sum J_i * msg_i
        let (scalars, gens) = prepare_parameters::<CS>(
            None,
            committed,
            0,
            m + 1,
            Some(&secret),
            Some(CS::API_ID_BLIND),
        )
        .unwrap();
        assert_eq!(scalars.len(), m + 1);
        let expected = gens
            .values
            .iter()
            .zip(&scalars)
            .fold(G1Projective::IDENTITY, |acc, (g, s)| acc + g * s.value);
        assert_eq!(inner.commitment, expected);

        // validation: exact and spare generators accept and return the commitment, fewer refuse
        for count in [m + 1, m + 2, m + 6] {
            let c = Commitment::<BBSplus<CS>>::deserialize_and_validate_commit(
                Some(&bytes),
                &blind_generators::<CS>(count),
                Some(CS::API_ID_BLIND),
            )
            .unwrap();
            assert_eq!(c, inner.commitment);
        }
        for count in [0, m] {
            let r = Commitment::<BBSplus<CS>>::deserialize_and_validate_commit(
                Some(&bytes),
                &blind_generators::<CS>(count),
                Some(CS::API_ID_BLIND),
            );
            assert!(matches!(r, Err(Error::NotEnoughGenerators)), "{:?}", r);
        }
        for api in [None, Some(&b""[..]), Some(CS::API_ID)] {
            let r = Commitment::<BBSplus<CS>>::deserialize_and_validate_commit(
                Some(&bytes),
                &blind_generators::<CS>(m + 1),
                api,
            );
            assert!(matches!(r, Err(Error::InvalidCommitmentProof)), "{:?}", r);
        }
        // proof of one commitment under the other commitment
        let mut mixed = bytes2.clone();
        mixed[..G1_LEN].copy_from_slice(&bytes[..G1_LEN]);
        let r = Commitment::<BBSplus<CS>>::deserialize_and_validate_commit(
            Some(&mixed),
            &blind_generators::<CS>(m + 1),
            Some(CS::API_ID_BLIND),
        );
        assert!(matches!(r, Err(Error::InvalidCommitmentProof)), "{:?}", r);

        // sign and verify, with 0, 1 and 10 signer messages
        for signer_messages in [&empty[..], &f.messages[..1], &f.messages[..]] {
            for header in [None, Some(&f.header[..])] {
                let sig = BlindSignature::<BBSplus<CS>>::blind_sign(
                    &f.sk,
                    &f.pk,
                    Some(&bytes),
                    header,
                    Some(signer_messages),
                )
                .unwrap();
                // BlindSign is deterministic
                let sig_again = BlindSignature::<BBSplus<CS>>::blind_sign(
                    &f.sk,
                    &f.pk,
                    Some(&bytes),
                    header,
                    Some(signer_messages),
                )
                .unwrap();
                assert_eq!(sig.to_bytes(), sig_again.to_bytes());

                sig.verify_blind_sign(&f.pk, header, Some(signer_messages), committed, Some(&secret))
                    .unwrap();
                let secret_copy = BlindFactor::from_bytes(&secret.to_bytes()).unwrap();
                sig.verify_blind_sign(
                    &f.pk,
                    header,
                    Some(signer_messages),
                    Some(committed.unwrap_or(&[])),
                    Some(&secret_copy),
                )
                .unwrap();

                let bad = |r: Result<(), Error>| {
                    assert!(matches!(r, Err(Error::SignatureVerificationError)), "{:?}", r)
                };
                bad(sig.verify_blind_sign(&f.pk, header, Some(signer_messages), committed, None));
                bad(sig.verify_blind_sign(
                    &f.pk,
                    header,
                    Some(signer_messages),
                    committed,
                    Some(&secret2),
                ));
                bad(sig.verify_blind_sign(
                    &f.pk,
                    Some(b"another header"),
                    Some(signer_messages),
                    committed,
                    Some(&secret),
                ));
                if m > 0 {
                    let mut altered = committed.unwrap().to_vec();
                    altered[m - 1].push(0);
                    bad(sig.verify_blind_sign(
                        &f.pk,
                        header,
                        Some(signer_messages),
                        Some(&altered),
                        Some(&secret),
                    ));
                    bad(sig.verify_blind_sign(
                        &f.pk,
                        header,
                        Some(signer_messages),
                        None,
                        Some(&secret),
                    ));
                    let r = sig.verify_blind_sign(
                        &f.pk,
                        header,
                        Some(signer_messages),
                        Some(&committed.unwrap()[..m - 1]),
                        Some(&secret),
                    );
                    assert!(r.is_err());
                }
                // the signature over the other commitment to the same messages does not verify with this blind
                let sig2 = BlindSignature::<BBSplus<CS>>::blind_sign(
                    &f.sk,
                    &f.pk,
                    Some(&bytes2),
                    header,
                    Some(signer_messages),
                )
                .unwrap();
                assert_ne!(sig.to_bytes(), sig2.to_bytes());
                bad(sig2.verify_blind_sign(
                    &f.pk,
                    header,
                    Some(signer_messages),
                    committed,
                    Some(&secret),
                ));
                sig2.verify_blind_sign(
                    &f.pk,
                    header,
                    Some(signer_messages),
                    committed,
                    Some(&secret2),
                )
                .unwrap();
            }
        }
    }
}

#[test]
fn commit_flow_sha256() {
    commit_flow::<Bls12381Sha256>("bls12-381-sha-256");
}

#[test]
fn commit_flow_shake256() {
    commit_flow::<Bls12381Shake256>("bls12-381-shake-256");
}

// ---------------------------------------------------------------------------------------------------
// digests of the transcripts, recorded on the reference implementation

const SIGN_SHA256: &str =
    "45f4836aa7f34c0deb9b06ebb4240533ab2ba6fb7c9990b04640a528ace54059";
const SIGN_SHAKE256: &str =
    "a4adde190020578a03a62d9f16b21653c0ee0cd04c64da2d3d8ffe1ab3d273ec";
const VALIDATE_SHA256: &str =
    "68db23993e98c0010774aad3f82dace20c90bd382565c3676e90f950704e1838";
const VALIDATE_SHAKE256: &str =
    "edd6105d2113574d41f4751c456ce67da264cb9815c27383d2092b4429935197";
const PREPARE_SHA256: &str =
    "2ec536630c1ecbe1bd9134441dd25ddff364e00d89ba94b5231782bfe7623d78";
const PREPARE_SHAKE256: &str =
    "f23b5dd1c14726130dbab701efcc67b9c6b3ae2eb46215cf624f53265d28115e";
const BLIND_FACTOR: &str =
    "89042e082e544cb1c12919ed1e5b4aded424cd2e6d4bc43c4d062c9a86492227";
