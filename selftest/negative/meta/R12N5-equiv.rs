#![cfg(feature = "cl03")]
#![allow(non_snake_case)]
// Prover side of the CL03 sigma protocols, seen through the public API only.
//
// The provers are randomised, so the tests do not compare bytes with stored vectors: they open the serialised proofs,
// recover every mask from the responses (the witnesses are known to the test), check the length of every mask, recompute
// the commitments and the Fiat-Shamir challenges from the recovered masks, and run the verifiers. The inputs on which
// the provers panic (and a few on which they must not) are pinned as well.

use digest::Digest;
use rug::{integer::Order, Integer};
use serde_json::Value;
use sha2::Sha256;
use std::panic::{catch_unwind, AssertUnwindSafe};
use std::sync::OnceLock;
use zkryptium::{
    cl03::{
        bases::Bases,
        ciphersuites::{CL1024Sha256, CLCiphersuite},
        commitment::CL03Commitment,
        keys::{CL03CommitmentPublicKey, CL03PublicKey},
    },
    keys::pair::KeyPair,
    schemes::{
        algorithms::CL03,
        generics::{Commitment, PoKSignature, Signature, ZKPoK},
    },
    utils::{message::cl03_message::CL03Message, util::cl03_utils::divm},
};

type CS = CL1024Sha256;
const LN: u32 = <CS as CLCiphersuite>::ln;
const LM: u32 = <CS as CLCiphersuite>::lm;
const N_ATTR: usize = 4;

struct Fixture {
    keypair: KeyPair<CL03<CS>>,
    a_bases: Bases,
    messages: Vec<CL03Message>,
    // verifier key: same modulus as the issuer key
    commitment_pk: CL03CommitmentPublicKey,
    // trusted party key: its own modulus, one base more than there are attributes
    trusted_pk: CL03CommitmentPublicKey,
    signature: Signature<CL03<CS>>,
}

fn fixture() -> &'static Fixture {
    static FIXTURE: OnceLock<Fixture> = OnceLock::new();
    FIXTURE.get_or_init(|| {
        let keypair = KeyPair::<CL03<CS>>::generate();
        let a_bases = Bases::generate(keypair.public_key(), N_ATTR);
        let messages: Vec<CL03Message> = (0..N_ATTR)
            .map(|i| CL03Message::map_message_to_integer_as_hash::<CS>(&[i as u8, 0x5a, 0xa5]))
            .collect();
        let commitment_pk = CL03CommitmentPublicKey::generate::<CS>(
            Some(keypair.public_key().N.clone()),
            Some(N_ATTR),
        );
        let trusted_pk = CL03CommitmentPublicKey::generate::<CS>(None, Some(N_ATTR + 1));
        let signature = Signature::<CL03<CS>>::sign_multiattr(
            keypair.public_key(),
            keypair.private_key(),
            &a_bases,
            &messages,
        );
        assert!(signature.verify_multiattr(keypair.public_key(), &a_bases, &messages));
        Fixture {
            keypair,
            a_bases,
            messages,
            commitment_pk,
            trusted_pk,
            signature,
        }
    })
}

// ---------------------------------------------------------------------------------------------------------------------
// helpers

fn int(v: &Value) -> Integer {
    serde_json::from_value(v.clone()).expect("an integer")
}

fn ints(v: &Value) -> Vec<Integer> {
    v.as_array().expect("a list").iter().map(int).collect()
}

fn commitment(v: &Value) -> CL03Commitment {
    serde_json::from_value(v.clone()).expect("a commitment")
}

fn powm(b: &Integer, e: &Integer, n: &Integer) -> Integer {
    Integer::from(b.pow_mod_ref(e, n).expect("invertible"))
}

fn inv(b: &Integer, n: &Integer) -> Integer {
    divm(&Integer::from(1), b, n)
}

fn hash_of(parts: &[&Integer]) -> Integer {
    let s: String = parts.iter().map(|p| p.to_string()).collect();
    Integer::from_digits(&Sha256::digest(s)[..], Order::MsfBe)
}

// a mask drawn by random_bits(n) has its top bit set: exactly n significant bits, positive
fn assert_mask(mask: &Integer, bits: u32, what: &str) {
    assert!(*mask > 0, "{what}: mask not positive");
    assert_eq!(mask.significant_bits(), bits, "{what}: mask length");
}

fn revealed(messages: &[CL03Message], hidden: &[usize]) -> Vec<CL03Message> {
    messages
        .iter()
        .enumerate()
        .filter(|(i, _)| !hidden.contains(i))
        .map(|(_, m)| m.clone())
        .collect()
}

fn panics<T>(f: impl FnOnce() -> T) -> bool {
    catch_unwind(AssertUnwindSafe(f)).is_err()
}

// NISPSecrets {t, s1, s2} for `secret` committed in `c` under (g, h, n)
fn check_nisp_secrets(p: &Value, c: &CL03Commitment, secret: &Integer, g: &Integer, h: &Integer, n: &Integer, what: &str) {
    let (t, s1, s2) = (int(&p["t"]), int(&p["s1"]), int(&p["s2"]));
    assert_eq!(c.value, (powm(g, secret, n) * powm(h, &c.randomness, n)) % n, "{what}: commitment");
    let ch = hash_of(&[g, h, &c.value, &t]);
    let r1 = s1 - Integer::from(&ch * secret);
    let r2 = s2 - Integer::from(&ch * &c.randomness);
    assert_mask(&r1, LM, &format!("{what}: r1"));
    assert_mask(&r2, LN, &format!("{what}: r2"));
    assert_eq!(t, (powm(g, &r1, n) * powm(h, &r2, n)) % n, "{what}: t");
}

// ---------------------------------------------------------------------------------------------------------------------
// signature proof of knowledge (nisp5 + nisp2sec)

fn check_spok(
    messages: &[CL03Message],
    a_bases: &Bases,
    cpk: &CL03CommitmentPublicKey,
    signature: &Signature<CL03<CS>>,
    hidden: &[usize],
) -> PoKSignature<CL03<CS>> {
    let fx = fixture();
    let pk = fx.keypair.public_key();
    let N = &pk.N;
    let what = format!("spok hidden={hidden:?} n={}", messages.len());

    let proof = PoKSignature::<CL03<CS>>::proof_gen(signature.cl03Signature(), cpk, pk, a_bases, messages, hidden);
    let json = serde_json::to_value(&proof).unwrap();
    let body = &json["CL03"];
    let spok = &body["spok"];
    let sig = serde_json::to_value(signature).unwrap();
    let (e, s, v) = (int(&sig["CL03"]["e"]), int(&sig["CL03"]["s"]), int(&sig["CL03"]["v"]));

    let c = int(&spok["challenge"]);
    let (Cx, Cv, Cw, Ce) = (
        commitment(&spok["Cx"]),
        commitment(&spok["Cv"]),
        commitment(&spok["Cw"]),
        commitment(&spok["Ce"]),
    );
    let (rx, w, rw, re) = (&Cx.randomness, &Cv.randomness, &Cw.randomness, &Ce.randomness);
    let g0 = &cpk.g_bases[0];
    let h = &cpk.h;

    // the four commitments
    for (r, name) in [(rx, "rx"), (w, "w"), (rw, "rw"), (re, "re")] {
        assert_mask(r, LN, &format!("{what}: {name}"));
    }
    let mut cx = Integer::from(1);
    for (i, m) in messages.iter().enumerate() {
        cx *= powm(&cpk.g_bases[i], &m.value, N);
    }
    assert_eq!(Cx.value, (cx * powm(h, rx, N)) % N, "{what}: Cx");
    assert_eq!(Cv.value, (&v * powm(g0, w, N)) % N, "{what}: Cv");
    assert_eq!(Cw.value, (powm(g0, w, N) * powm(h, rw, N)) % N, "{what}: Cw");
    assert_eq!(Ce.value, (powm(g0, &e, N) * powm(h, re, N)) % N, "{what}: Ce");

    // masks behind the responses
    let ec = Integer::from(&e * &c);
    let r_1 = int(&spok["s_1"]) - Integer::from(rw * &c);
    let r_2 = int(&spok["s_2"]) - Integer::from(rw * &ec);
    let r_3 = int(&spok["s_3"]) - Integer::from(rx * &c);
    let r_4 = int(&spok["s_4"]) - &ec;
    let r_6 = int(&spok["s_6"]) - Integer::from(&s * &c);
    let r_7 = int(&spok["s_7"]) - Integer::from(w * &c);
    let r_8 = int(&spok["s_8"]) - Integer::from(w * &ec);
    let r_9 = int(&spok["s_9"]) - Integer::from(re * &c);
    for (r, name) in [
        (&r_1, "r_1"),
        (&r_2, "r_2"),
        (&r_3, "r_3"),
        (&r_4, "r_4"),
        (&r_6, "r_6"),
        (&r_7, "r_7"),
        (&r_8, "r_8"),
        (&r_9, "r_9"),
    ] {
        assert_mask(r, LN, &format!("{what}: {name}"));
    }

    // one response per listed hidden position, in the order of the list; revealed positions are "masked" by themselves
    let s_5 = ints(&spok["s_5"]);
    assert_eq!(s_5.len(), hidden.len(), "{what}: s_5 length");
    let mut r_5: Vec<Integer> = messages.iter().map(|m| m.value.clone()).collect();
    let mut seen: Vec<Option<Integer>> = vec![None; messages.len()];
    for (k, &i) in hidden.iter().enumerate() {
        let mask = Integer::from(&s_5[k] - Integer::from(&messages[i].value * &c));
        assert_mask(&mask, LN, &format!("{what}: r_5[{i}]"));
        if let Some(prev) = &seen[i] {
            assert_eq!(prev, &mask, "{what}: a repeated position reuses its mask");
        }
        seen[i] = Some(mask.clone());
        r_5[i] = mask;
    }

    // first messages and challenge
    let mut t_Cx = Integer::from(1);
    let mut t_4 = Integer::from(1);
    for i in 0..messages.len() {
        t_Cx *= powm(&a_bases.0[i], &r_5[i], N);
        t_4 *= powm(&cpk.g_bases[i], &r_5[i], N);
    }
    t_Cx %= N;
    let inv_g0_r8 = powm(&inv(g0, N), &r_8, N);
    let t_1 = (powm(&Cv.value, &r_4, N) * inv(&t_Cx, N) * powm(&inv(&pk.b, N), &r_6, N) * &inv_g0_r8) % N;
    let t_2 = (powm(g0, &r_7, N) * powm(h, &r_1, N)) % N;
    let t_3 = (powm(&Cw.value, &r_4, N) * &inv_g0_r8 * powm(&inv(h, N), &r_2, N)) % N;
    let t_4 = (t_4 * powm(h, &r_3, N)) % N;
    let t_5 = (powm(g0, &r_4, N) * powm(h, &r_9, N)) % N;
    assert_eq!(c, hash_of(&[&t_1, &t_2, &t_3, &t_4, &t_5]), "{what}: challenge");

    // one proof of knowledge (and one range proof) per listed hidden position
    let pois = body["proofs_commited_mi"].as_array().unwrap();
    assert_eq!(pois.len(), hidden.len(), "{what}: proofs_commited_mi length");
    assert_eq!(body["range_proofs_commited_mi"].as_array().unwrap().len(), hidden.len());
    for (k, &i) in hidden.iter().enumerate() {
        let cmi = commitment(&pois[k]["commitment"]);
        check_nisp_secrets(
            &pois[k]["value"],
            &cmi,
            &messages[i].value,
            &cpk.g_bases[i],
            h,
            &cpk.N,
            &format!("{what}: mi[{i}]"),
        );
    }
    proof
}

#[test]
fn spok_all_shapes() {
    let fx = fixture();
    let pk = fx.keypair.public_key();
    let shapes: &[&[usize]] = &[&[], &[0], &[3], &[1, 2], &[0, 3], &[0, 1, 2, 3]];
    for hidden in shapes {
        let proof = check_spok(&fx.messages, &fx.a_bases, &fx.commitment_pk, &fx.signature, hidden);
        let shown = revealed(&fx.messages, hidden);
        assert!(
            proof.proof_verify(&fx.commitment_pk, pk, &fx.a_bases, &shown, hidden, N_ATTR),
            "hidden={hidden:?}: verification"
        );
        if let Some(first) = shown.first() {
            let mut wrong = shown.clone();
            wrong[0] = CL03Message::new(Integer::from(&first.value + 1u32));
            assert!(
                !proof.proof_verify(&fx.commitment_pk, pk, &fx.a_bases, &wrong, hidden, N_ATTR),
                "hidden={hidden:?}: wrong revealed attribute"
            );
        }
    }
}

#[test]
fn spok_unordered_and_repeated_positions() {
    // the prover takes the list as it is: responses follow the order of the list, a repeated position repeats its response
    let fx = fixture();
    let pk = fx.keypair.public_key();
    for hidden in [&[2usize, 0][..], &[1, 1], &[3, 0, 3]] {
        let proof = check_spok(&fx.messages, &fx.a_bases, &fx.commitment_pk, &fx.signature, hidden);
        let shown = revealed(&fx.messages, hidden);
        // the verifier wants an ascending list without repetitions
        assert!(!proof.proof_verify(&fx.commitment_pk, pk, &fx.a_bases, &shown, hidden, N_ATTR));
    }
}

#[test]
fn spok_other_sizes() {
    let fx = fixture();
    let pk = fx.keypair.public_key();
    // one attribute, hidden or revealed
    let one = &fx.messages[..1];
    let sig1 = Signature::<CL03<CS>>::sign_multiattr(pk, fx.keypair.private_key(), &fx.a_bases, one);
    for hidden in [&[0usize][..], &[]] {
        let proof = check_spok(one, &fx.a_bases, &fx.commitment_pk, &sig1, hidden);
        assert!(proof.proof_verify(&fx.commitment_pk, pk, &fx.a_bases, &revealed(one, hidden), hidden, 1));
    }
    // more bases than attributes on both sides
    let two = &fx.messages[..2];
    let sig2 = Signature::<CL03<CS>>::sign_multiattr(pk, fx.keypair.private_key(), &fx.a_bases, two);
    for hidden in [&[1usize][..], &[0, 1]] {
        let proof = check_spok(two, &fx.a_bases, &fx.commitment_pk, &sig2, hidden);
        assert!(proof.proof_verify(&fx.commitment_pk, pk, &fx.a_bases, &revealed(two, hidden), hidden, 2));
    }
    // no attribute at all: still a proof about (e, s, v)
    check_spok(&[], &fx.a_bases, &fx.commitment_pk, &fx.signature, &[]);
    check_spok(&[], &Bases(vec![]), &fx.commitment_pk, &fx.signature, &[]);
}

#[test]
fn spok_rejected_inputs() {
    let fx = fixture();
    let pk = fx.keypair.public_key();
    let sig = fx.signature.cl03Signature();
    let gen = |a_bases: &Bases, cpk: &CL03CommitmentPublicKey, messages: &[CL03Message], hidden: &[usize]| {
        panics(|| PoKSignature::<CL03<CS>>::proof_gen(sig, cpk, pk, a_bases, messages, hidden))
    };
    // hidden positions outside the attributes
    for hidden in [&[N_ATTR][..], &[0, N_ATTR], &[usize::MAX], &[N_ATTR + 1, 0]] {
        assert!(gen(&fx.a_bases, &fx.commitment_pk, &fx.messages, hidden), "hidden={hidden:?}");
    }
    // a position that has bases on both sides but no attribute
    assert!(gen(&fx.a_bases, &fx.commitment_pk, &fx.messages[..2], &[2]));
    assert!(gen(&fx.a_bases, &fx.commitment_pk, &[], &[0]));
    // too few bases on one side or on both
    let short_a = Bases(fx.a_bases.0[..3].to_vec());
    let mut short_g = fx.commitment_pk.clone();
    short_g.g_bases.truncate(3);
    assert!(gen(&short_a, &fx.commitment_pk, &fx.messages, &[0]));
    assert!(gen(&fx.a_bases, &short_g, &fx.messages, &[0]));
    assert!(gen(&short_a, &short_g, &fx.messages, &[0]));
    assert!(gen(&short_a, &short_g, &fx.messages, &[]));
    assert!(!gen(&short_a, &short_g, &fx.messages[..3], &[2]));
    // g_bases[0] is needed even without attributes
    let mut no_g = fx.commitment_pk.clone();
    no_g.g_bases.clear();
    assert!(gen(&fx.a_bases, &no_g, &[], &[]));
}

// ---------------------------------------------------------------------------------------------------------------------
// proof of knowledge of committed attributes (nispMultiSecrets + nisp2 + nisp2sec)

fn check_zkpok(
    messages: &[CL03Message],
    a_bases: &Bases,
    trusted: Option<&CL03CommitmentPublicKey>,
    hidden: &[usize],
) {
    let fx = fixture();
    let pk: &CL03PublicKey = fx.keypair.public_key();
    let what = format!("zkpok hidden={hidden:?} n={} trusted={}", messages.len(), trusted.is_some());
    let (n1, h1) = (&pk.N, &pk.b);

    let C = Commitment::<CL03<CS>>::commit_with_pk(messages, pk, a_bases, Some(hidden));
    let C = C.cl03Commitment();
    let C_trusted = trusted.map(|tpk| {
        Commitment::<CL03<CS>>::commit_with_commitment_pk(messages, tpk, Some(hidden))
            .cl03Commitment()
            .clone()
    });

    let proof = ZKPoK::<CL03<CS>>::generate_proof(messages, C, C_trusted.as_ref(), pk, a_bases, trusted, hidden);
    let json = serde_json::to_value(&proof).unwrap();
    let body = &json["CL03"];

    // the positions the multi-secret proof talks about: a single attribute is always position 0
    let positions: Vec<usize> = if messages.len() == 1 { vec![0] } else { hidden.to_vec() };

    // NISPMultiSecrets
    let pm = &body["proof_commited_msgs"];
    let (t, s1, s2) = (int(&pm["t"]), ints(&pm["s1"]), int(&pm["s2"]));
    assert_eq!(s1.len(), positions.len(), "{what}: s1 length");
    let mut parts: Vec<&Integer> = positions.iter().map(|&i| &a_bases.0[i]).collect();
    parts.extend([h1, &C.value, &t]);
    let ch = hash_of(&parts);
    let mut acc = Integer::from(1);
    for (k, &i) in positions.iter().enumerate() {
        let r1 = Integer::from(&s1[k] - Integer::from(&ch * &messages[i].value));
        assert_mask(&r1, LM, &format!("{what}: r1[{k}]"));
        acc *= powm(&a_bases.0[i], &r1, n1);
    }
    let r2 = s2 - Integer::from(&ch * &C.randomness);
    assert_mask(&r2, LN, &format!("{what}: r2"));
    assert_eq!(t, (acc * powm(h1, &r2, n1)) % n1, "{what}: t");

    // NISP2Commitments: present exactly when there is a trusted commitment (and its key)
    match (trusted, &C_trusted) {
        (Some(tpk), Some(C2)) => {
            let p2 = &body["proof_C_Ctrusted"];
            assert!(p2.is_object(), "{what}: proof_C_Ctrusted present");
            let (c, d, d_1, d_2) = (int(&p2["challenge"]), ints(&p2["d"]), int(&p2["d_1"]), int(&p2["d_2"]));
            assert_eq!(d.len(), hidden.len(), "{what}: d length");
            let (n2, h2) = (&tpk.N, &tpk.h);
            let (mut w_1, mut w_2) = (Integer::from(1), Integer::from(1));
            for (k, &i) in hidden.iter().enumerate() {
                let omega = Integer::from(&d[k] - Integer::from(&c * &messages[i].value));
                assert_mask(&omega, LM, &format!("{what}: omega[{k}]"));
                w_1 *= powm(&a_bases.0[i], &omega, n1);
                w_2 *= powm(&tpk.g_bases[i], &omega, n2);
            }
            let mu_1 = d_1 - Integer::from(&c * &C.randomness);
            let mu_2 = d_2 - Integer::from(&c * &C2.randomness);
            assert_mask(&mu_1, LN, &format!("{what}: mu_1"));
            assert_mask(&mu_2, LN, &format!("{what}: mu_2"));
            let w_1 = (w_1 * powm(h1, &mu_1, n1)) % n1;
            let w_2 = (w_2 * powm(h2, &mu_2, n2)) % n2;
            assert_eq!(c, hash_of(&[&w_1, &w_2]), "{what}: challenge of the two commitments");
        }
        _ => assert!(body["proof_C_Ctrusted"].is_null(), "{what}: proof_C_Ctrusted absent"),
    }

    // NISPSecrets per hidden position and for the randomness of C
    let pois = body["proofs_commited_mi"].as_array().unwrap();
    assert_eq!(pois.len(), hidden.len(), "{what}: proofs_commited_mi length");
    assert_eq!(body["range_proofs_mi"].as_array().unwrap().len(), hidden.len());
    for (k, &i) in hidden.iter().enumerate() {
        let cmi = commitment(&pois[k]["commitment"]);
        check_nisp_secrets(&pois[k]["value"], &cmi, &messages[i].value, &a_bases.0[i], h1, n1, &format!("{what}: mi[{i}]"));
    }
    let cr = commitment(&body["proof_r"]["commitment"]);
    check_nisp_secrets(&body["proof_r"]["value"], &cr, &C.randomness, &a_bases.0[0], h1, n1, &format!("{what}: r"));

    // (a single attribute with a list other than [0] is a statement the verifier does not take: not checked here)
    if positions != hidden {
        return;
    }
    assert!(
        proof.verify_proof(C, C_trusted.as_ref(), pk, a_bases, trusted, hidden),
        "{what}: verification"
    );
    // a commitment to other attributes is not accepted (when something is hidden)
    if let Some(&i) = hidden.first() {
        let mut other = messages.to_vec();
        other[i] = CL03Message::new(Integer::from(&other[i].value + 1u32));
        let C_other = Commitment::<CL03<CS>>::commit_with_pk(&other, pk, a_bases, Some(hidden));
        assert!(
            !proof.verify_proof(C_other.cl03Commitment(), C_trusted.as_ref(), pk, a_bases, trusted, hidden),
            "{what}: other commitment"
        );
    }
}

#[test]
fn zkpok_all_shapes() {
    let fx = fixture();
    let shapes: &[&[usize]] = &[&[], &[0], &[3], &[0, 2], &[2, 0], &[1, 1], &[0, 1, 2, 3]];
    for hidden in shapes {
        check_zkpok(&fx.messages, &fx.a_bases, None, hidden);
        check_zkpok(&fx.messages, &fx.a_bases, Some(&fx.trusted_pk), hidden);
    }
}

#[test]
fn zkpok_other_sizes() {
    let fx = fixture();
    // a single attribute: the multi-secret proof is about position 0 whatever the list says
    for hidden in [&[0usize][..], &[]] {
        check_zkpok(&fx.messages[..1], &fx.a_bases, None, hidden);
        check_zkpok(&fx.messages[..1], &fx.a_bases, Some(&fx.trusted_pk), hidden);
    }
    // two attributes, and none
    for hidden in [&[1usize][..], &[0, 1]] {
        check_zkpok(&fx.messages[..2], &fx.a_bases, Some(&fx.trusted_pk), hidden);
    }
    check_zkpok(&[], &fx.a_bases, None, &[]);
    check_zkpok(&[], &fx.a_bases, Some(&fx.trusted_pk), &[]);
    // the verifier key (same modulus as the issuer) as trusted key, exactly as many bases as attributes
    check_zkpok(&fx.messages, &fx.a_bases, Some(&fx.commitment_pk), &[1, 3]);
}

#[test]
fn zkpok_only_one_of_trusted_commitment_and_key() {
    // the part about the trusted commitment is produced only when both the commitment and its key are given
    let fx = fixture();
    let pk = fx.keypair.public_key();
    let hidden = [1usize];
    let C = Commitment::<CL03<CS>>::commit_with_pk(&fx.messages, pk, &fx.a_bases, Some(&hidden));
    let C2 = Commitment::<CL03<CS>>::commit_with_commitment_pk(&fx.messages, &fx.trusted_pk, Some(&hidden));
    for (c2, tpk) in [(Some(C2.cl03Commitment()), None), (None, Some(&fx.trusted_pk))] {
        let proof = ZKPoK::<CL03<CS>>::generate_proof(&fx.messages, C.cl03Commitment(), c2, pk, &fx.a_bases, tpk, &hidden);
        let json = serde_json::to_value(&proof).unwrap();
        assert!(json["CL03"]["proof_C_Ctrusted"].is_null());
        assert!(proof.verify_proof(C.cl03Commitment(), None, pk, &fx.a_bases, None, &hidden));
        assert!(!proof.verify_proof(C.cl03Commitment(), c2, pk, &fx.a_bases, tpk, &hidden));
    }
}

#[test]
fn zkpok_rejected_inputs() {
    let fx = fixture();
    let pk = fx.keypair.public_key();
    let C = Commitment::<CL03<CS>>::commit_with_pk(&fx.messages, pk, &fx.a_bases, Some(&[0]));
    let C = C.cl03Commitment();
    let C2 = Commitment::<CL03<CS>>::commit_with_commitment_pk(&fx.messages, &fx.trusted_pk, Some(&[0]));
    let C2 = C2.cl03Commitment();
    let gen = |messages: &[CL03Message], a_bases: &Bases, trusted: Option<&CL03CommitmentPublicKey>, hidden: &[usize]| {
        let c2 = trusted.map(|_| C2);
        panics(|| ZKPoK::<CL03<CS>>::generate_proof(messages, C, c2, pk, a_bases, trusted, hidden))
    };
    // positions outside the attributes, with and without a trusted commitment
    for hidden in [&[N_ATTR][..], &[0, N_ATTR], &[usize::MAX], &[N_ATTR + 1, 0]] {
        assert!(gen(&fx.messages, &fx.a_bases, None, hidden), "hidden={hidden:?}");
        assert!(gen(&fx.messages, &fx.a_bases, Some(&fx.trusted_pk), hidden), "hidden={hidden:?} trusted");
    }
    // position N_ATTR has a base in the trusted key (N_ATTR + 1 bases) but neither an attribute nor an issuer base
    let mut long_a = fx.a_bases.clone();
    long_a.0.push(fx.a_bases.0[0].clone());
    assert!(gen(&fx.messages, &long_a, Some(&fx.trusted_pk), &[N_ATTR]));
    // a position with an attribute and an issuer base, but without a base in the trusted key
    let mut short_t = fx.trusted_pk.clone();
    short_t.g_bases.truncate(2);
    assert!(gen(&fx.messages, &fx.a_bases, Some(&short_t), &[2]));
    assert!(!gen(&fx.messages, &fx.a_bases, Some(&short_t), &[1]));
    assert!(!gen(&fx.messages, &fx.a_bases, None, &[2]));
    // no attributes: position 0 does not exist, the empty list is fine
    assert!(gen(&[], &fx.a_bases, None, &[0]));
    assert!(gen(&[], &fx.a_bases, Some(&fx.trusted_pk), &[0]));
    assert!(!gen(&[], &fx.a_bases, None, &[]));
    // a single attribute: the list is replaced by [0] in the multi-secret proof only
    assert!(gen(&fx.messages[..1], &fx.a_bases, None, &[1]));
    assert!(!gen(&fx.messages[..1], &fx.a_bases, None, &[]));

    // the entry check of the two-commitment proof: fewer issuer bases than attributes AND more trusted bases than
    // attributes is refused, even when the hidden positions themselves are covered ...
    let short_a = Bases(fx.a_bases.0[..3].to_vec());
    assert!(gen(&fx.messages, &short_a, Some(&fx.trusted_pk), &[0]));
    assert!(gen(&fx.messages, &short_a, Some(&fx.trusted_pk), &[]));
    // ... but fewer issuer bases alone is not (trusted key with exactly N_ATTR bases), nor without a trusted commitment
    assert!(!gen(&fx.messages, &short_a, Some(&fx.commitment_pk), &[0]));
    assert!(!gen(&fx.messages, &short_a, None, &[0]));
    assert!(gen(&fx.messages, &short_a, None, &[3]));
    // no issuer base at all: the proof about the randomness needs a_bases[0]
    assert!(gen(&[], &Bases(vec![]), None, &[]));
}
