// Equivalence tests for the BBS helpers: generators, hash_to_scalar, domain calculation,
// messages_to_scalar, i2osp, serialize, get_messages, remaining indexes, random scalars.
// Public API only. Deterministic outputs are pinned through SHA-256 digests of transcripts
// that were recorded on the unmodified tree.

#![cfg(all(feature = "bbsplus", feature = "bbsplus_blind"))]
#![allow(non_snake_case)]

use bls12_381_plus::{G1Projective, G2Projective, Scalar};
use elliptic_curve::hash2curve::ExpandMsg;
use sha2::{Digest, Sha256};
use std::panic::catch_unwind;
use zkryptium::{
    bbsplus::{ciphersuites::BbsCiphersuite, generators::Generators, keys::BBSplusPublicKey, keys::BBSplusSecretKey},
    errors::Error,
    keys::pair::KeyPair,
    schemes::{
        algorithms::{BBSplus, BbsBls12381Sha256, BbsBls12381Shake256, Scheme},
        generics::{BlindSignature, Commitment, PoKSignature, Signature},
    },
    utils::{
        message::bbsplus_message::BBSplusMessage,
        util::bbsplus_utils::{
            calculate_blind_challenge, calculate_random_scalars, get_messages, get_messages_vec,
            hash_to_scalar, i2osp, serialize, ScalarExt,
        },
    },
};

const KEY_MATERIAL: &str = "746869732d49532d6a7573742d616e2d546573742d494b4d2d746f2d67656e65726174652d246528724074232d6b6579";
const KEY_INFO: &str = "746869732d49532d736f6d652d6b65792d6d657461646174612d746f2d62652d757365642d696e2d746573742d6b65792d67656e";
const HEADER: &str = "11223344556677889900aabbccddeeff";
const PH: &str = "bed231d880675ed101ead304512e043ade9958dd0241ea70b4b3957fba941501";
const MSGS: [&str; 10] = [
    "9872ad089e452c7b6e283dfac2a80d58e8d0ff71cc4d5e310a1debdda4a45f02",
    "c344136d9ab02da4dd5908bbba913ae6f58c2cc844b802a6f811f5fb075f9b80",
    "7372e9daa5ed31e6cd5c825eac1b855e84476a1d94932aa348e07b73",
    "77fe97eb97a1ebe2e81e4e3597a3ee740a66e9ef2412472c",
    "496694774c5604ab1b2544eababcf0f53278ff50",
    "515ae153e22aae04ad16f759e07237b4",
    "d183ddc6e2665aa4e2f088af",
    "ac55fb33a75909ed",
    "96012096",
    "",
];
// the modulus r of the scalar field, big-endian
const R_HEX: &str = "73eda753299d7d483339d80809a1d80553bda402fffe5bfeffffffff00000001";

struct Transcript(Vec<String>);

impl Transcript {
    fn new() -> Self {
        Self(Vec::new())
    }
    fn add(&mut self, label: &str, value: impl AsRef<[u8]>) {
        self.0.push(format!("{}={}", label, hex::encode(value)));
    }
    fn note(&mut self, label: &str, value: impl std::fmt::Display) {
        self.0.push(format!("{}:{}", label, value));
    }
    fn digest(&self) -> String {
        hex::encode(Sha256::digest(self.0.join("\n").as_bytes()))
    }
    fn check(&self, name: &str, expected: &str) {
        let got = self.digest();
        if got != expected {
            panic!(
                "transcript {} differs: digest {} (expected {})\n{}",
                name,
                got,
                expected,
                self.0.join("\n")
            );
        }
    }
}

fn msgs(n: usize) -> Vec<Vec<u8>> {
    MSGS[..n].iter().map(|m| hex::decode(m).unwrap()).collect()
}

fn keypair<CS: BbsCiphersuite>() -> KeyPair<BBSplus<CS>>
where
    CS::Expander: for<'a> ExpandMsg<'a>,
{
    KeyPair::<BBSplus<CS>>::generate(
        &hex::decode(KEY_MATERIAL).unwrap(),
        Some(&hex::decode(KEY_INFO).unwrap()),
        None,
    )
    .unwrap()
}

fn err_name<T>(r: &Result<T, Error>) -> String {
    match r {
        Ok(_) => "ok".to_owned(),
        Err(e) => format!("{:?}", e)
            .split('(')
            .next()
            .unwrap()
            .to_owned(),
    }
}

// ---------------------------------------------------------------- i2osp

#[test]
fn i2osp_forms() {
    assert_eq!(i2osp::<0>(0), [0u8; 0]);
    assert_eq!(i2osp::<1>(0), [0]);
    assert_eq!(i2osp::<1>(255), [255]);
    assert_eq!(i2osp::<2>(255), [0, 255]);
    assert_eq!(i2osp::<2>(256), [1, 0]);
    assert_eq!(i2osp::<2>(65535), [255, 255]);
    assert_eq!(i2osp::<4>(0x01020304), [1, 2, 3, 4]);
    assert_eq!(i2osp::<7>(0x01020304), [0, 0, 0, 1, 2, 3, 4]);
    assert_eq!(i2osp::<8>(0), [0; 8]);
    assert_eq!(i2osp::<8>(1), [0, 0, 0, 0, 0, 0, 0, 1]);
    assert_eq!(i2osp::<8>(usize::MAX), (usize::MAX as u64).to_be_bytes());
    assert_eq!(i2osp::<9>(usize::MAX)[1..], (usize::MAX as u64).to_be_bytes());
    assert_eq!(i2osp::<9>(usize::MAX)[0], 0);
    let wide = i2osp::<16>(0xa1b2c3d4);
    assert_eq!(wide[..12], [0u8; 12]);
    assert_eq!(wide[12..], [0xa1, 0xb2, 0xc3, 0xd4]);
    assert_eq!(i2osp::<3>(0xffffff), [255, 255, 255]);

    assert!(catch_unwind(|| i2osp::<0>(1)).is_err());
    assert!(catch_unwind(|| i2osp::<1>(256)).is_err());
    assert!(catch_unwind(|| i2osp::<2>(65536)).is_err());
    assert!(catch_unwind(|| i2osp::<3>(0x1000000)).is_err());
    assert!(catch_unwind(|| i2osp::<7>(usize::MAX)).is_err());
}

// ---------------------------------------------------------------- hash_to_scalar

fn h2s_transcript<CS: BbsCiphersuite>() -> Transcript
where
    CS::Expander: for<'a> ExpandMsg<'a>,
{
    let mut t = Transcript::new();
    let long_msg: Vec<u8> = (0..1000u32).map(|i| (i * 7 + 3) as u8).collect();
    let messages: [&[u8]; 5] = [b"", b"a", b"hello world", &[0u8; 48], &long_msg];
    for dst_len in [0usize, 1, 16, 254, 255] {
        let dst: Vec<u8> = (0..dst_len).map(|i| (i as u8) ^ 0x5a).collect();
        for (j, m) in messages.iter().enumerate() {
            let s = hash_to_scalar::<CS>(m, &dst).expect("dst of at most 255 octets");
            t.add(&format!("h2s/{}/{}", dst_len, j), s.to_bytes_be());
        }
    }
    for dst_len in [256usize, 257, 300, 1000, 70000] {
        let dst = vec![0x42u8; dst_len];
        for m in messages.iter() {
            assert!(matches!(
                hash_to_scalar::<CS>(m, &dst),
                Err(Error::HashToScalarError)
            ));
        }
    }
    t
}

#[test]
fn hash_to_scalar_sha256() {
    h2s_transcript::<<BbsBls12381Sha256 as Scheme>::Ciphersuite>()
        .check("h2s sha256", "571057fcbcbd043431cc6785256658a9e31db04d1cd44071760e3c1ff04e7fc6");
}

#[test]
fn hash_to_scalar_shake256() {
    h2s_transcript::<<BbsBls12381Shake256 as Scheme>::Ciphersuite>()
        .check("h2s shake256", "e1947df95c6eb955a273d6e9be4509a8be1c0269105c8a5f5cac99e6f12cac80");
}

#[test]
fn hash_to_scalar_fixture() {
    for (dir, shake) in [("bls12-381-sha-256", false), ("bls12-381-shake-256", true)] {
        let data = std::fs::read_to_string(format!("./fixture_data/{}/h2s.json", dir)).unwrap();
        let v: serde_json::Value = serde_json::from_str(&data).unwrap();
        let msg = hex::decode(v["message"].as_str().unwrap()).unwrap();
        let dst = hex::decode(v["dst"].as_str().unwrap()).unwrap();
        let s = if shake {
            hash_to_scalar::<<BbsBls12381Shake256 as Scheme>::Ciphersuite>(&msg, &dst)
        } else {
            hash_to_scalar::<<BbsBls12381Sha256 as Scheme>::Ciphersuite>(&msg, &dst)
        }
        .unwrap();
        assert_eq!(s.encode(), v["scalar"].as_str().unwrap());
    }
}

// ---------------------------------------------------------------- messages_to_scalar

fn map_transcript<CS: BbsCiphersuite>() -> Transcript
where
    CS::Expander: for<'a> ExpandMsg<'a>,
{
    let mut t = Transcript::new();
    let tag_len = CS::MAP_MSG_SCALAR.len();
    let api_ids: Vec<Vec<u8>> = vec![
        vec![],
        CS::API_ID.to_vec(),
        CS::API_ID_BLIND.to_vec(),
        vec![7u8; 255 - tag_len],
    ];
    for (a, api_id) in api_ids.iter().enumerate() {
        for n in [0usize, 1, 2, 5, 10] {
            let list = msgs(n);
            let scalars = BBSplusMessage::messages_to_scalar::<CS>(&list, api_id).unwrap();
            assert_eq!(scalars.len(), n);
            for (i, s) in scalars.iter().enumerate() {
                let single =
                    BBSplusMessage::map_message_to_scalar_as_hash::<CS>(&list[i], api_id).unwrap();
                assert_eq!(*s, single);
                assert_eq!(BBSplusMessage::new(s.value), *s);
                assert_eq!(BBSplusMessage::from_bytes_be(&s.to_bytes_be()).unwrap(), *s);
                t.add(&format!("map/{}/{}/{}", a, n, i), s.to_bytes_be());
            }
        }
    }
    // the tag is too long: every message fails, an empty list has nothing to fail on
    for extra in [1usize, 2, 100, 1000] {
        let api_id = vec![7u8; 255 - tag_len + extra];
        let empty = BBSplusMessage::messages_to_scalar::<CS>(&[], &api_id).unwrap();
        assert!(empty.is_empty());
        for n in [1usize, 3, 10] {
            assert!(matches!(
                BBSplusMessage::messages_to_scalar::<CS>(&msgs(n), &api_id),
                Err(Error::HashToScalarError)
            ));
        }
        assert!(matches!(
            BBSplusMessage::map_message_to_scalar_as_hash::<CS>(b"", &api_id),
            Err(Error::HashToScalarError)
        ));
        assert!(matches!(
            BBSplusMessage::map_message_to_scalar_as_hash::<CS>(b"abc", &api_id),
            Err(Error::HashToScalarError)
        ));
    }
    t
}

#[test]
fn messages_to_scalar_sha256() {
    map_transcript::<<BbsBls12381Sha256 as Scheme>::Ciphersuite>().check("map sha256", "8ea41c3e8b79f02e608f3c01ca2901b4377cdbcb368e82e2f22fbd25f427a4fd");
}

#[test]
fn messages_to_scalar_shake256() {
    map_transcript::<<BbsBls12381Shake256 as Scheme>::Ciphersuite>()
        .check("map shake256", "6b9234120e7c58fb65fbeb127abdb530c68135b8de174b1d56268ce03ef575bb");
}

#[test]
fn messages_to_scalar_fixture() {
    let data = std::fs::read_to_string(
        "./fixture_data/bls12-381-sha-256/MapMessageToScalarAsHash.json",
    )
    .unwrap();
    let v: serde_json::Value = serde_json::from_str(&data).unwrap();
    let cases = v["cases"].as_array().unwrap();
    let list: Vec<Vec<u8>> = cases
        .iter()
        .map(|c| hex::decode(c["message"].as_str().unwrap()).unwrap())
        .collect();
    type CS = <BbsBls12381Sha256 as Scheme>::Ciphersuite;
    let scalars = BBSplusMessage::messages_to_scalar::<CS>(&list, CS::API_ID).unwrap();
    assert_eq!(scalars.len(), cases.len());
    for (s, c) in scalars.iter().zip(cases) {
        assert_eq!(hex::encode(s.to_bytes_be()), c["scalar"].as_str().unwrap());
    }
}

// ---------------------------------------------------------------- scalar decoding

#[test]
fn scalar_decoders() {
    let r = hex::decode(R_HEX).unwrap();
    let mut r_minus_1 = r.clone();
    r_minus_1[31] -= 1;
    let mut r_plus_1 = r.clone();
    r_plus_1[31] += 1;

    let accepted: Vec<Vec<u8>> = vec![
        vec![0u8; 32],
        {
            let mut one = vec![0u8; 32];
            one[31] = 1;
            one
        },
        r_minus_1.clone(),
        hex::decode(MSGS[0]).unwrap().iter().map(|b| b & 0x3f).collect(),
    ];
    for bytes in &accepted {
        let arr: [u8; 32] = bytes.as_slice().try_into().unwrap();
        let m = BBSplusMessage::from_bytes_be(&arr).unwrap();
        assert_eq!(m.to_bytes_be(), arr);
        let s = Scalar::from_bytes_be(bytes).unwrap();
        assert_eq!(s, m.value);
        assert_eq!(s.to_bytes_be(), arr);
        assert_eq!(s.encode(), hex::encode(arr));
    }

    let refused: Vec<Vec<u8>> = vec![r.clone(), r_plus_1, vec![0xffu8; 32], {
        let mut top = vec![0u8; 32];
        top[0] = 0x80;
        top
    }];
    for bytes in &refused {
        let arr: [u8; 32] = bytes.as_slice().try_into().unwrap();
        assert!(matches!(
            BBSplusMessage::from_bytes_be(&arr),
            Err(Error::Unspecified)
        ));
        assert!(matches!(
            Scalar::from_bytes_be(bytes),
            Err(Error::DeserializationError(_))
        ));
    }

    for len in [0usize, 1, 31, 33, 48, 64] {
        assert!(matches!(
            Scalar::from_bytes_be(&vec![0u8; len]),
            Err(Error::DeserializationError(_))
        ));
        assert!(matches!(
            Scalar::from_bytes_be(&r_minus_1.iter().cycle().take(len).cloned().collect::<Vec<u8>>()),
            Err(Error::DeserializationError(_))
        ));
    }
}

// ---------------------------------------------------------------- serialize

#[test]
fn serialize_forms() {
    let mut t = Transcript::new();

    let scalars: Vec<Scalar> = (1u64..=5).map(|i| Scalar::from(i * 0x0123_4567_89ab)).collect();
    let g1: Vec<G1Projective> = scalars.iter().map(|s| G1Projective::GENERATOR * s).collect();
    let g2: Vec<G2Projective> = scalars.iter().map(|s| G2Projective::GENERATOR * s).collect();

    for n in 0..=5 {
        let a = serialize(&scalars[..n]);
        let b = serialize(&g1[..n]);
        let c = serialize(&g2[..n]);
        assert_eq!(a.len(), 32 * n);
        assert_eq!(b.len(), 48 * n);
        assert_eq!(c.len(), 96 * n);
        for i in 0..n {
            assert_eq!(a[32 * i..32 * (i + 1)], scalars[i].to_be_bytes());
            assert_eq!(b[48 * i..48 * (i + 1)], serialize(&g1[i..i + 1])[..]);
            assert_eq!(c[96 * i..96 * (i + 1)], serialize(&g2[i..i + 1])[..]);
        }
        t.add(&format!("ser/s/{}", n), &a);
        t.add(&format!("ser/g1/{}", n), &b);
        t.add(&format!("ser/g2/{}", n), &c);
    }

    // special values
    t.add("ser/zero", serialize(&[Scalar::ZERO, Scalar::ONE, -Scalar::ONE]));
    t.add("ser/id1", serialize(&[G1Projective::IDENTITY, G1Projective::GENERATOR]));
    t.add("ser/id2", serialize(&[G2Projective::IDENTITY, G2Projective::GENERATOR]));

    // types the function does not know give no octets
    assert!(serialize(&[1u8, 2, 3]).is_empty());
    assert!(serialize(&[0usize; 4]).is_empty());
    assert!(serialize(&["a", "b"]).is_empty());
    assert!(serialize(&[[0u8; 32]]).is_empty());
    assert!(serialize(&[BBSplusMessage::new(Scalar::ONE)]).is_empty());
    assert!(serialize(&[Some(scalars[0])]).is_empty());
    assert!(serialize::<u8>(&[]).is_empty());
    assert!(serialize::<Scalar>(&[]).is_empty());

    t.check("serialize", "b45aac82dec8e8c68bfab3a261678de0b5f8b87beec81fec22f946a58cb92202");
}

// ---------------------------------------------------------------- get_messages

#[test]
fn get_messages_forms() {
    let list = msgs(10);
    type CS = <BbsBls12381Sha256 as Scheme>::Ciphersuite;
    let scalars = BBSplusMessage::messages_to_scalar::<CS>(&list, CS::API_ID).unwrap();

    let index_lists: Vec<Vec<usize>> = vec![
        vec![],
        vec![0],
        vec![9],
        vec![0, 9],
        vec![9, 0],
        vec![3, 3, 3],
        vec![0, 1, 2, 3, 4, 5, 6, 7, 8, 9],
        vec![9, 8, 7, 6, 5, 4, 3, 2, 1, 0],
        vec![1, 3, 5, 7, 9, 1, 3],
    ];
    for indexes in &index_lists {
        let a = get_messages(&scalars, indexes);
        let b = get_messages_vec(&list, indexes);
        assert_eq!(a.len(), indexes.len());
        assert_eq!(b.len(), indexes.len());
        for (k, &i) in indexes.iter().enumerate() {
            assert_eq!(a[k], scalars[i]);
            assert_eq!(b[k], list[i]);
        }
    }
    assert!(get_messages(&[], &[]).is_empty());
    assert!(get_messages_vec(&[], &[]).is_empty());

    for bad in [vec![10usize], vec![0, 10], vec![usize::MAX], vec![3, 11, 2]] {
        let (s, l, b1, b2) = (scalars.clone(), list.clone(), bad.clone(), bad.clone());
        assert!(catch_unwind(move || get_messages(&s, &b1)).is_err());
        assert!(catch_unwind(move || get_messages_vec(&l, &b2)).is_err());
    }
    assert!(catch_unwind(|| get_messages(&[], &[0])).is_err());
    assert!(catch_unwind(|| get_messages_vec(&[], &[0])).is_err());
}

// ---------------------------------------------------------------- random scalars

#[test]
fn random_scalars_forms() {
    for count in [0usize, 1, 2, 7, 33] {
        let scalars = calculate_random_scalars(count);
        assert_eq!(scalars.len(), count);
        for (i, s) in scalars.iter().enumerate() {
            assert_ne!(*s, Scalar::ZERO);
            for other in &scalars[..i] {
                assert_ne!(s, other);
            }
        }
    }
    assert_ne!(calculate_random_scalars(3), calculate_random_scalars(3));
}

// ---------------------------------------------------------------- generators

fn generators_transcript<CS: BbsCiphersuite>() -> Transcript
where
    CS::Expander: for<'a> ExpandMsg<'a>,
{
    let mut t = Transcript::new();
    let long_id = vec![0x61u8; 300];
    let api_ids: Vec<(&str, Option<&[u8]>)> = vec![
        ("none", None),
        ("empty", Some(b"")),
        ("api", Some(CS::API_ID)),
        ("blind", Some(CS::API_ID_BLIND)),
        ("long", Some(&long_id)),
    ];
    for (name, api_id) in &api_ids {
        let big = Generators::create::<CS>(12, *api_id);
        assert_eq!(big.values.len(), 12);
        assert_eq!(big.g1_base_point, G1Projective::from_compressed_hex(CS::P1).unwrap());
        t.add(&format!("gen/{}/12", name), serialize(&big.values));
        for count in [0usize, 1, 2, 3, 5, 11] {
            let g = Generators::create::<CS>(count, *api_id);
            assert_eq!(g.values.len(), count);
            assert_eq!(g.g1_base_point, big.g1_base_point);
            // the sequence does not depend on how many are asked for
            assert_eq!(g.values[..], big.values[..count]);
        }
        // all different, none the identity
        for (i, p) in big.values.iter().enumerate() {
            assert!(!bool::from(p.is_identity()));
            assert!(!big.values[..i].contains(p));
        }
    }
    assert_eq!(
        Generators::create::<CS>(4, None),
        Generators::create::<CS>(4, Some(b""))
    );
    assert_ne!(
        Generators::create::<CS>(4, None).values,
        Generators::create::<CS>(4, Some(CS::API_ID)).values
    );

    // the serde form
    let g = Generators::create::<CS>(3, Some(CS::API_ID));
    t.note("json/3", serde_json::to_string(&g).unwrap());
    t.note(
        "json/0",
        serde_json::to_string(&Generators::create::<CS>(0, Some(CS::API_ID))).unwrap(),
    );
    t
}

#[test]
fn generators_sha256() {
    generators_transcript::<<BbsBls12381Sha256 as Scheme>::Ciphersuite>()
        .check("generators sha256", "69604b740d906059f37ee800a9625a898b7fcd146cf3ab682d44f75b961d501c");
}

#[test]
fn generators_shake256() {
    generators_transcript::<<BbsBls12381Shake256 as Scheme>::Ciphersuite>()
        .check("generators shake256", "6805f26097b822cdac86f7e0f438512eb73c613cef8525f972797fd30c15ec3d");
}

#[test]
fn generators_fixture() {
    for dir in ["bls12-381-sha-256", "bls12-381-shake-256"] {
        let data =
            std::fs::read_to_string(format!("./fixture_data/{}/generators.json", dir)).unwrap();
        let v: serde_json::Value = serde_json::from_str(&data).unwrap();
        let expected: Vec<String> = std::iter::once(v["Q1"].as_str().unwrap().to_owned())
            .chain(
                v["MsgGenerators"]
                    .as_array()
                    .unwrap()
                    .iter()
                    .map(|g| g.as_str().unwrap().to_owned()),
            )
            .collect();
        let values = if dir.contains("shake") {
            type CS = <BbsBls12381Shake256 as Scheme>::Ciphersuite;
            Generators::create::<CS>(expected.len(), Some(CS::API_ID)).values
        } else {
            type CS = <BbsBls12381Sha256 as Scheme>::Ciphersuite;
            Generators::create::<CS>(expected.len(), Some(CS::API_ID)).values
        };
        let got: Vec<String> = values
            .iter()
            .map(|p| hex::encode(serialize(&[*p])))
            .collect();
        assert_eq!(got, expected);
    }
}

// ---------------------------------------------------------------- blind challenge

fn blind_challenge_transcript<CS: BbsCiphersuite>() -> Transcript
where
    CS::Expander: for<'a> ExpandMsg<'a>,
{
    let mut t = Transcript::new();
    let gens = Generators::create::<CS>(6, Some(CS::API_ID_BLIND)).values;
    let C = G1Projective::GENERATOR * Scalar::from(11u64);
    let Cbar = G1Projective::GENERATOR * Scalar::from(13u64);

    for n in 1..=6usize {
        for (name, api_id) in [
            ("none", None),
            ("empty", Some(&b""[..])),
            ("blind", Some(CS::API_ID_BLIND)),
        ] {
            let c = calculate_blind_challenge::<CS>(C, Cbar, &gens[..n], api_id).unwrap();
            t.add(&format!("bc/{}/{}", n, name), c.to_bytes_be());
        }
        assert_eq!(
            calculate_blind_challenge::<CS>(C, Cbar, &gens[..n], None).unwrap(),
            calculate_blind_challenge::<CS>(C, Cbar, &gens[..n], Some(b"")).unwrap()
        );
        assert_ne!(
            calculate_blind_challenge::<CS>(C, Cbar, &gens[..n], None).unwrap(),
            calculate_blind_challenge::<CS>(Cbar, C, &gens[..n], None).unwrap()
        );
    }
    let c = calculate_blind_challenge::<CS>(
        G1Projective::IDENTITY,
        G1Projective::IDENTITY,
        &[G1Projective::IDENTITY],
        None,
    )
    .unwrap();
    t.add("bc/identity", c.to_bytes_be());

    for api_id in [None, Some(&b""[..]), Some(CS::API_ID_BLIND), Some(&[1u8; 400][..])] {
        assert!(matches!(
            calculate_blind_challenge::<CS>(C, Cbar, &[], api_id),
            Err(Error::NotEnoughGenerators)
        ));
    }
    let fits = vec![9u8; 255 - CS::H2S.len()];
    let too_long = vec![9u8; 256 - CS::H2S.len()];
    t.add(
        "bc/fits",
        calculate_blind_challenge::<CS>(C, Cbar, &gens, Some(&fits))
            .unwrap()
            .to_bytes_be(),
    );
    assert!(matches!(
        calculate_blind_challenge::<CS>(C, Cbar, &gens, Some(&too_long)),
        Err(Error::HashToScalarError)
    ));
    t
}

#[test]
fn blind_challenge_sha256() {
    blind_challenge_transcript::<<BbsBls12381Sha256 as Scheme>::Ciphersuite>()
        .check("blind challenge sha256", "5c04e4f3a3cbf66644542c0e7b1faf632308e859f88f219840a1aac4c1250297");
}

#[test]
fn blind_challenge_shake256() {
    blind_challenge_transcript::<<BbsBls12381Shake256 as Scheme>::Ciphersuite>()
        .check("blind challenge shake256", "284aeeb8d305e61c21e97cb0b2ca4761c016d6a2f0b57d869218621f349621a8");
}

// ---------------------------------------------------------------- keys (hash_to_scalar, i2osp, point decoding)

fn keys_transcript<CS: BbsCiphersuite>() -> Transcript
where
    CS::Expander: for<'a> ExpandMsg<'a>,
{
    let mut t = Transcript::new();
    let ikm = hex::decode(KEY_MATERIAL).unwrap();
    let info = hex::decode(KEY_INFO).unwrap();

    let cases: Vec<(&str, Option<Vec<u8>>, Option<Vec<u8>>)> = vec![
        ("plain", None, None),
        ("info", Some(info.clone()), None),
        ("empty-info", Some(vec![]), None),
        ("dst", Some(info.clone()), Some(b"custom dst".to_vec())),
        ("empty-dst", None, Some(vec![])),
        ("dst255", None, Some(vec![3u8; 255])),
        ("info65535", Some(vec![5u8; 65535]), None),
    ];
    for (name, key_info, key_dst) in &cases {
        let kp = KeyPair::<BBSplus<CS>>::generate(&ikm, key_info.as_deref(), key_dst.as_deref())
            .unwrap();
        t.add(&format!("sk/{}", name), kp.private_key().to_bytes());
        t.add(&format!("pk/{}", name), kp.public_key().to_bytes());
    }
    assert_eq!(
        KeyPair::<BBSplus<CS>>::generate(&ikm, None, None).unwrap().private_key(),
        KeyPair::<BBSplus<CS>>::generate(&ikm, Some(b""), None).unwrap().private_key()
    );
    for dst_len in [256usize, 300] {
        let r = KeyPair::<BBSplus<CS>>::generate(&ikm, None, Some(&vec![3u8; dst_len]));
        t.note(&format!("dst{}", dst_len), err_name(&r.map(|_| ())));
    }
    let r = KeyPair::<BBSplus<CS>>::generate(&ikm[..8], None, None);
    t.note("short-ikm", err_name(&r.map(|_| ())));
    let r = KeyPair::<BBSplus<CS>>::generate(&ikm, Some(&vec![5u8; 65536]), None);
    t.note("info65536", err_name(&r.map(|_| ())));
    t
}

#[test]
fn keys_sha256() {
    keys_transcript::<<BbsBls12381Sha256 as Scheme>::Ciphersuite>().check("keys sha256", "05406f92347752340c533be446727979b21287a3dc0c0985d0c951ffe6e0f657");
}

#[test]
fn keys_shake256() {
    keys_transcript::<<BbsBls12381Shake256 as Scheme>::Ciphersuite>()
        .check("keys shake256", "f4b02aebdfb0fab9b18a6ac0ec92ccec72e1286d5a8c415fe0d189c40aa5d824");
}

#[test]
fn key_decoders() {
    type CS = <BbsBls12381Sha256 as Scheme>::Ciphersuite;
    let kp = keypair::<CS>();
    let pk = kp.public_key();
    let bytes = pk.to_bytes();
    assert_eq!(&BBSplusPublicKey::from_bytes(&bytes).unwrap(), pk);
    let (x, y) = pk.to_coordinates();
    assert_eq!(&BBSplusPublicKey::from_coordinates(&x, &y).unwrap(), pk);

    // wrong lengths
    for len in [0usize, 1, 47, 48, 95, 97, 192] {
        let cut: Vec<u8> = bytes.iter().cycle().take(len).cloned().collect();
        assert!(matches!(
            BBSplusPublicKey::from_bytes(&cut),
            Err(Error::KeyDeserializationError)
        ));
    }
    // not a point / not in the subgroup / identity / flags
    let mut flipped = bytes;
    flipped[95] ^= 1;
    let mut no_flag = bytes;
    no_flag[0] &= 0x7f;
    let mut identity = [0u8; 96];
    identity[0] = 0xc0;
    let mut identity_bad = identity;
    identity_bad[50] = 1;
    let mut verdicts = Vec::new();
    for candidate in [flipped, no_flag, identity, identity_bad, [0u8; 96], [0xffu8; 96]] {
        verdicts.push(BBSplusPublicKey::from_bytes(&candidate).is_ok());
    }
    // `flipped` may or may not be a point of the subgroup: the verdict is pinned
    assert_eq!(verdicts[1..], [false, false, false, false, false]);
    let mut t = Transcript::new();
    t.note("flipped", verdicts[0]);

    // coordinates
    let mut bad_y = y;
    bad_y[95] ^= 1;
    assert!(matches!(
        BBSplusPublicKey::from_coordinates(&x, &bad_y),
        Err(Error::KeyDeserializationError)
    ));
    assert!(matches!(
        BBSplusPublicKey::from_coordinates(&y, &x),
        Err(Error::KeyDeserializationError)
    ));
    assert!(matches!(
        BBSplusPublicKey::from_coordinates(&[0u8; 96], &[0u8; 96]),
        Err(Error::KeyDeserializationError)
    ));
    let mut inf_x = [0u8; 96];
    inf_x[0] = 0x40;
    assert!(matches!(
        BBSplusPublicKey::from_coordinates(&inf_x, &[0u8; 96]),
        Err(Error::KeyDeserializationError)
    ));

    // secret keys
    let sk = kp.private_key();
    assert_eq!(&BBSplusSecretKey::from_bytes(&sk.to_bytes()).unwrap(), sk);
    assert!(BBSplusSecretKey::from_bytes(&[0u8; 32]).is_err());
    assert!(BBSplusSecretKey::from_bytes(&hex::decode(R_HEX).unwrap()).is_err());
    assert!(BBSplusSecretKey::from_bytes(&[1u8; 31]).is_err());
    assert!(BBSplusSecretKey::from_bytes(&[1u8; 33]).is_err());
    t.check("key decoders", "11d8598e2e83f9f1dba495ca96be0f854b52fb793d0280b7b5541f4a65d1dde2");
}

// ---------------------------------------------------------------- sign / verify (domain, generators, serialize)

fn sign_transcript<CS: BbsCiphersuite>() -> Transcript
where
    CS::Expander: for<'a> ExpandMsg<'a>,
{
    let mut t = Transcript::new();
    let kp = keypair::<CS>();
    let (sk, pk) = (kp.private_key(), kp.public_key());
    let header = hex::decode(HEADER).unwrap();
    let long_header = vec![0xabu8; 70000];

    let headers: Vec<(&str, Option<&[u8]>)> = vec![
        ("none", None),
        ("empty", Some(b"")),
        ("some", Some(&header)),
        ("long", Some(&long_header)),
    ];
    for n in [0usize, 1, 2, 3, 7, 10] {
        let list = msgs(n);
        for (name, h) in &headers {
            let sig = Signature::<BBSplus<CS>>::sign(Some(&list), sk, pk, *h).unwrap();
            t.add(&format!("sig/{}/{}", n, name), sig.to_bytes());
            sig.verify(pk, Some(&list), *h).unwrap();
            assert_eq!(
                Signature::<BBSplus<CS>>::from_bytes(&sig.to_bytes()).unwrap().to_bytes(),
                sig.to_bytes()
            );

            // one message more, one less, another header
            let mut more = list.clone();
            more.push(b"extra".to_vec());
            assert!(matches!(
                sig.verify(pk, Some(&more), *h),
                Err(Error::SignatureVerificationError)
            ));
            if n > 0 {
                assert!(sig.verify(pk, Some(&list[..n - 1]), *h).is_err());
                let mut swapped = list.clone();
                swapped.swap(0, n - 1);
                if n > 1 {
                    assert!(sig.verify(pk, Some(&swapped), *h).is_err());
                }
            }
            assert!(sig.verify(pk, Some(&list), Some(b"other header")).is_err());
        }
        // None and an empty list, None and an empty header are the same thing
        if n == 0 {
            let a = Signature::<BBSplus<CS>>::sign(None, sk, pk, None).unwrap();
            let b = Signature::<BBSplus<CS>>::sign(Some(&[]), sk, pk, Some(b"")).unwrap();
            assert_eq!(a.to_bytes(), b.to_bytes());
            a.verify(pk, Some(&[]), Some(b"")).unwrap();
            b.verify(pk, None, None).unwrap();
        }
    }

    // update of one signed message
    let list = msgs(5);
    let sig = Signature::<BBSplus<CS>>::sign(Some(&list), sk, pk, Some(&header)).unwrap();
    for index in [0usize, 2, 4] {
        let updated = sig
            .update_signature(sk, &list[index], b"new value", index, 5)
            .unwrap();
        let mut new_list = list.clone();
        new_list[index] = b"new value".to_vec();
        updated.verify(pk, Some(&new_list), Some(&header)).unwrap();
        t.add(&format!("upd/{}", index), updated.to_bytes());
    }
    assert!(sig.update_signature(sk, &list[0], b"x", 5, 5).is_err());
    assert!(sig.update_signature(sk, &list[0], b"x", 0, 0).is_err());
    t
}

#[test]
fn sign_sha256() {
    sign_transcript::<<BbsBls12381Sha256 as Scheme>::Ciphersuite>().check("sign sha256", "ffd94f8678dfc12aaccdf970a7c5054b7fc06019cd801f2a302b100af5af3ccc");
}

#[test]
fn sign_shake256() {
    sign_transcript::<<BbsBls12381Shake256 as Scheme>::Ciphersuite>()
        .check("sign shake256", "7fd72586914a4b33b2a121e96ae4263122809ac1bf679de9b470b2c08e32b567");
}

#[test]
fn sign_fixture() {
    type CS = <BbsBls12381Sha256 as Scheme>::Ciphersuite;
    let data =
        std::fs::read_to_string("./fixture_data/bls12-381-sha-256/signature/signature004.json")
            .unwrap();
    let v: serde_json::Value = serde_json::from_str(&data).unwrap();
    let sk = BBSplusSecretKey::from_bytes(
        &hex::decode(v["signerKeyPair"]["secretKey"].as_str().unwrap()).unwrap(),
    )
    .unwrap();
    let pk = BBSplusPublicKey::from_bytes(
        &hex::decode(v["signerKeyPair"]["publicKey"].as_str().unwrap()).unwrap(),
    )
    .unwrap();
    let header = hex::decode(v["header"].as_str().unwrap()).unwrap();
    let sig = Signature::<BBSplus<CS>>::sign(Some(&msgs(10)), &sk, &pk, Some(&header)).unwrap();
    assert_eq!(hex::encode(sig.to_bytes()), v["signature"].as_str().unwrap());
}

// ---------------------------------------------------------------- proofs (remaining indexes, get_messages, random scalars, domain)

fn proofs<CS: BbsCiphersuite>()
where
    CS::Expander: for<'a> ExpandMsg<'a>,
{
    let kp = keypair::<CS>();
    let (sk, pk) = (kp.private_key(), kp.public_key());
    let header = hex::decode(HEADER).unwrap();
    let ph = hex::decode(PH).unwrap();

    for n in [0usize, 1, 2, 5, 10] {
        let list = msgs(n);
        let sig = Signature::<BBSplus<CS>>::sign(Some(&list), sk, pk, Some(&header)).unwrap();
        let sig_bytes = sig.to_bytes();

        let mut index_lists: Vec<Vec<usize>> = vec![vec![]];
        if n > 0 {
            index_lists.push(vec![0]);
            index_lists.push(vec![n - 1]);
            index_lists.push((0..n).collect());
            index_lists.push((0..n).step_by(2).collect());
            index_lists.push((0..n).skip(1).step_by(3).collect());
        }
        for disclosed in &index_lists {
            let R = disclosed.len();
            let U = n - R;
            let proof = PoKSignature::<BBSplus<CS>>::proof_gen(
                pk,
                &sig_bytes,
                Some(&header),
                Some(&ph),
                Some(&list),
                Some(disclosed),
            )
            .unwrap();
            let proof_bytes = proof.to_bytes();
            assert_eq!(proof_bytes.len(), 3 * 48 + (4 + U) * 32);
            let proof = PoKSignature::<BBSplus<CS>>::from_bytes(&proof_bytes).unwrap();
            let disclosed_messages = get_messages_vec(&list, disclosed);
            proof
                .proof_verify(
                    pk,
                    Some(&disclosed_messages),
                    Some(disclosed),
                    Some(&header),
                    Some(&ph),
                )
                .unwrap();

            // two proofs of the same statement differ (fresh random scalars)
            let again = PoKSignature::<BBSplus<CS>>::proof_gen(
                pk,
                &sig_bytes,
                Some(&header),
                Some(&ph),
                Some(&list),
                Some(disclosed),
            )
            .unwrap();
            assert_ne!(again.to_bytes(), proof_bytes);

            // what must not verify
            assert!(proof
                .proof_verify(pk, Some(&disclosed_messages), Some(disclosed), None, Some(&ph))
                .is_err());
            assert!(proof
                .proof_verify(pk, Some(&disclosed_messages), Some(disclosed), Some(&header), None)
                .is_err());
            if R > 0 {
                // the same messages at shifted positions
                let shifted: Vec<usize> = disclosed.iter().map(|i| i + 1).collect();
                assert!(proof
                    .proof_verify(
                        pk,
                        Some(&disclosed_messages),
                        Some(&shifted),
                        Some(&header),
                        Some(&ph)
                    )
                    .is_err());
                // one index less
                assert!(proof
                    .proof_verify(
                        pk,
                        Some(&disclosed_messages),
                        Some(&disclosed[1..]),
                        Some(&header),
                        Some(&ph)
                    )
                    .is_err());
                // an index past the end
                let mut past = disclosed.clone();
                *past.last_mut().unwrap() = n;
                assert!(proof
                    .proof_verify(
                        pk,
                        Some(&disclosed_messages),
                        Some(&past),
                        Some(&header),
                        Some(&ph)
                    )
                    .is_err());
                let mut far = disclosed.clone();
                *far.last_mut().unwrap() = usize::MAX;
                assert!(proof
                    .proof_verify(
                        pk,
                        Some(&disclosed_messages),
                        Some(&far),
                        Some(&header),
                        Some(&ph)
                    )
                    .is_err());
            }
            if R > 1 {
                let mut reversed = disclosed.clone();
                reversed.reverse();
                let mut reversed_messages = disclosed_messages.clone();
                reversed_messages.reverse();
                assert!(proof
                    .proof_verify(
                        pk,
                        Some(&reversed_messages),
                        Some(&reversed),
                        Some(&header),
                        Some(&ph)
                    )
                    .is_err());
                let mut doubled = disclosed.clone();
                doubled[1] = doubled[0];
                assert!(proof
                    .proof_verify(
                        pk,
                        Some(&disclosed_messages),
                        Some(&doubled),
                        Some(&header),
                        Some(&ph)
                    )
                    .is_err());
            }
            if U > 0 {
                // an undisclosed message claimed as disclosed
                let hidden = (0..n).find(|i| !disclosed.contains(i)).unwrap();
                let mut claimed = disclosed.clone();
                claimed.push(hidden);
                claimed.sort();
                let claimed_messages = get_messages_vec(&list, &claimed);
                assert!(proof
                    .proof_verify(
                        pk,
                        Some(&claimed_messages),
                        Some(&claimed),
                        Some(&header),
                        Some(&ph)
                    )
                    .is_err());
            }
        }

        // the prover takes the indexes in any order and with repetitions
        if n >= 5 {
            let proof = PoKSignature::<BBSplus<CS>>::proof_gen(
                pk,
                &sig_bytes,
                Some(&header),
                None,
                Some(&list),
                Some(&[4, 0, 4, 2, 0]),
            )
            .unwrap();
            assert_eq!(proof.to_bytes().len(), 3 * 48 + (4 + n - 3) * 32);
            proof
                .proof_verify(
                    pk,
                    Some(&get_messages_vec(&list, &[0, 2, 4])),
                    Some(&[0, 2, 4]),
                    Some(&header),
                    None,
                )
                .unwrap();
        }

        // indexes the prover refuses
        for bad in [vec![n], vec![0, n], vec![usize::MAX], (0..=n).collect::<Vec<usize>>()] {
            let r = PoKSignature::<BBSplus<CS>>::proof_gen(
                pk,
                &sig_bytes,
                Some(&header),
                Some(&ph),
                Some(&list),
                Some(&bad),
            );
            assert!(matches!(r, Err(Error::ProofGenError(_))), "{:?} of {}", bad, n);
        }
        // None and the empty lists
        if n == 0 {
            let proof =
                PoKSignature::<BBSplus<CS>>::proof_gen(pk, &sig_bytes, Some(&header), None, None, None)
                    .unwrap();
            proof
                .proof_verify(pk, Some(&[]), Some(&[]), Some(&header), Some(b""))
                .unwrap();
            proof.proof_verify(pk, None, None, Some(&header), None).unwrap();
        }
    }
}

#[test]
fn proofs_sha256() {
    proofs::<<BbsBls12381Sha256 as Scheme>::Ciphersuite>();
}

#[test]
fn proofs_shake256() {
    proofs::<<BbsBls12381Shake256 as Scheme>::Ciphersuite>();
}

#[test]
fn proof_fixtures() {
    for dir in ["bls12-381-sha-256", "bls12-381-shake-256"] {
        let mut seen = 0;
        for k in 1..=15 {
            let path = format!("./fixture_data/{}/proof/proof{:03}.json", dir, k);
            let data = std::fs::read_to_string(&path).unwrap();
            let v: serde_json::Value = serde_json::from_str(&data).unwrap();
            let pk = BBSplusPublicKey::from_bytes(
                &hex::decode(v["signerPublicKey"].as_str().unwrap()).unwrap(),
            )
            .unwrap();
            let header = hex::decode(v["header"].as_str().unwrap()).unwrap();
            let ph = hex::decode(v["presentationHeader"].as_str().unwrap()).unwrap();
            let list: Vec<Vec<u8>> = v["messages"]
                .as_array()
                .unwrap()
                .iter()
                .map(|m| hex::decode(m.as_str().unwrap()).unwrap())
                .collect();
            let disclosed: Vec<usize> = v["disclosedIndexes"]
                .as_array()
                .unwrap()
                .iter()
                .map(|i| i.as_u64().unwrap() as usize)
                .collect();
            let proof_bytes = hex::decode(v["proof"].as_str().unwrap()).unwrap();
            let expected = v["result"]["valid"].as_bool().unwrap();
            let disclosed_messages = get_messages_vec(&list, &disclosed);
            let verdict = if dir.contains("shake") {
                type CS = <BbsBls12381Shake256 as Scheme>::Ciphersuite;
                PoKSignature::<BBSplus<CS>>::from_bytes(&proof_bytes).and_then(|p| {
                    p.proof_verify(
                        &pk,
                        Some(&disclosed_messages),
                        Some(&disclosed),
                        Some(&header),
                        Some(&ph),
                    )
                })
            } else {
                type CS = <BbsBls12381Sha256 as Scheme>::Ciphersuite;
                PoKSignature::<BBSplus<CS>>::from_bytes(&proof_bytes).and_then(|p| {
                    p.proof_verify(
                        &pk,
                        Some(&disclosed_messages),
                        Some(&disclosed),
                        Some(&header),
                        Some(&ph),
                    )
                })
            };
            assert_eq!(verdict.is_ok(), expected, "{}", path);
            seen += 1;
        }
        assert_eq!(seen, 15);
    }
}

#[test]
fn proof_decoder_refuses_malformed_octets() {
    type CS = <BbsBls12381Sha256 as Scheme>::Ciphersuite;
    let data =
        std::fs::read_to_string("./fixture_data/bls12-381-sha-256/proof/proof003.json").unwrap();
    let v: serde_json::Value = serde_json::from_str(&data).unwrap();
    let good = hex::decode(v["proof"].as_str().unwrap()).unwrap();
    assert!(PoKSignature::<BBSplus<CS>>::from_bytes(&good).is_ok());
    for len in [0usize, 1, 47, 48, 144, 271, good.len() - 1, good.len() + 1, good.len() - 32 + 1] {
        let cut: Vec<u8> = good.iter().cycle().take(len).cloned().collect();
        assert!(PoKSignature::<BBSplus<CS>>::from_bytes(&cut).is_err(), "{}", len);
    }
    // each of the three points and each scalar made invalid in turn
    for offset in [0usize, 48, 96] {
        let mut bad = good.clone();
        bad[offset..offset + 48].copy_from_slice(&[0xffu8; 48]);
        assert!(PoKSignature::<BBSplus<CS>>::from_bytes(&bad).is_err());
        let mut identity = good.clone();
        identity[offset..offset + 48].copy_from_slice(&[0u8; 48]);
        identity[offset] = 0xc0;
        assert!(PoKSignature::<BBSplus<CS>>::from_bytes(&identity).is_err());
    }
    let mut offset = 144;
    while offset < good.len() {
        let mut bad = good.clone();
        bad[offset..offset + 32].copy_from_slice(&hex::decode(R_HEX).unwrap());
        assert!(PoKSignature::<BBSplus<CS>>::from_bytes(&bad).is_err());
        let mut zero = good.clone();
        zero[offset..offset + 32].copy_from_slice(&[0u8; 32]);
        assert!(PoKSignature::<BBSplus<CS>>::from_bytes(&zero).is_err());
        offset += 32;
    }
    // signatures
    let sig = hex::decode(v["signature"].as_str().unwrap()).unwrap();
    let sig: [u8; 80] = sig.as_slice().try_into().unwrap();
    assert!(Signature::<BBSplus<CS>>::from_bytes(&sig).is_ok());
    let mut bad = sig;
    bad[..48].copy_from_slice(&[0xffu8; 48]);
    assert!(Signature::<BBSplus<CS>>::from_bytes(&bad).is_err());
    let mut bad = sig;
    bad[48..].copy_from_slice(&hex::decode(R_HEX).unwrap());
    assert!(Signature::<BBSplus<CS>>::from_bytes(&bad).is_err());
}

// ---------------------------------------------------------------- blind signatures (domain and blind challenge on the joined generators)

fn blind_round_trip<CS: BbsCiphersuite>()
where
    CS::Expander: for<'a> ExpandMsg<'a>,
{
    let kp = keypair::<CS>();
    let (sk, pk) = (kp.private_key(), kp.public_key());
    let header = hex::decode(HEADER).unwrap();
    let ph = hex::decode(PH).unwrap();

    for (n_committed, n_signer) in [(0usize, 0usize), (0, 2), (1, 0), (2, 3), (3, 1)] {
        let committed: Vec<Vec<u8>> = msgs(10)[10 - n_committed..].to_vec();
        let list = msgs(n_signer);
        let (commitment, blind) = Commitment::<BBSplus<CS>>::commit(Some(&committed)).unwrap();
        let signature = BlindSignature::<BBSplus<CS>>::blind_sign(
            sk,
            pk,
            Some(&commitment.to_bytes()),
            Some(&header),
            Some(&list),
        )
        .unwrap();
        signature
            .verify_blind_sign(pk, Some(&header), Some(&list), Some(&committed), Some(&blind))
            .unwrap();
        assert!(signature
            .verify_blind_sign(pk, None, Some(&list), Some(&committed), Some(&blind))
            .is_err());

        let disclosed: Vec<usize> = (0..n_signer).step_by(2).collect();
        let disclosed_committed: Vec<usize> = (0..n_committed).skip(1).collect();
        let proof = PoKSignature::<BBSplus<CS>>::blind_proof_gen(
            pk,
            &signature.to_bytes(),
            Some(&header),
            Some(&ph),
            Some(&list),
            Some(&committed),
            Some(&disclosed),
            Some(&disclosed_committed),
            Some(&blind),
        )
        .unwrap();
        let disclosed_messages = get_messages_vec(&list, &disclosed);
        let disclosed_committed_messages = get_messages_vec(&committed, &disclosed_committed);
        proof
            .blind_proof_verify(
                pk,
                Some(&header),
                Some(&ph),
                Some(list.len()),
                Some(&disclosed_messages),
                Some(&disclosed_committed_messages),
                Some(&disclosed),
                Some(&disclosed_committed),
            )
            .unwrap();
        assert!(proof
            .blind_proof_verify(
                pk,
                Some(&header),
                None,
                Some(list.len()),
                Some(&disclosed_messages),
                Some(&disclosed_committed_messages),
                Some(&disclosed),
                Some(&disclosed_committed),
            )
            .is_err());
    }

    // a commitment that does not decode is refused by the signer
    let (commitment, _) = Commitment::<BBSplus<CS>>::commit(Some(&msgs(2))).unwrap();
    let bytes = commitment.to_bytes();
    for len in [1usize, 47, bytes.len() - 1, bytes.len() + 1] {
        let cut: Vec<u8> = bytes.iter().cycle().take(len).cloned().collect();
        assert!(BlindSignature::<BBSplus<CS>>::blind_sign(sk, pk, Some(&cut), None, None).is_err());
    }
    let mut tampered = bytes.clone();
    let last = tampered.len() - 1;
    tampered[last] ^= 1;
    assert!(
        BlindSignature::<BBSplus<CS>>::blind_sign(sk, pk, Some(&tampered), None, None).is_err()
    );
}

#[test]
fn blind_sha256() {
    blind_round_trip::<<BbsBls12381Sha256 as Scheme>::Ciphersuite>();
}

#[test]
fn blind_shake256() {
    blind_round_trip::<<BbsBls12381Shake256 as Scheme>::Ciphersuite>();
}
