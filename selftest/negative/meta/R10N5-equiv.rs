#![cfg(feature = "cl03")]
#![allow(non_snake_case)]

// Behavioural pins for src/cl03/signature.rs and src/cl03/blind.rs (public API only).
// Signing is randomised, so the tests check the properties of what is returned (ranges of e / s / v, the signature equation
// recomputed independently) and the exact accept / reject / panic behaviour of the verifiers on crafted values.

use rug::{integer::IsPrime, ops::Pow, Integer};
use serde_json::json;
use std::panic::{catch_unwind, AssertUnwindSafe};
use std::sync::OnceLock;
use zkryptium::{
    cl03::{
        bases::Bases,
        ciphersuites::{CL1024Sha256, CLCiphersuite},
        commitment::CL03Commitment,
        keys::{CL03PublicKey, CL03SecretKey},
    },
    keys::pair::KeyPair,
    schemes::algorithms::CL03,
    schemes::generics::{BlindSignature, Commitment, Signature, ZKPoK},
    utils::message::cl03_message::CL03Message,
};

type CS = CL1024Sha256;
type Sig = Signature<CL03<CS>>;
type BSig = BlindSignature<CL03<CS>>;
type Com = Commitment<CL03<CS>>;
type Pok = ZKPoK<CL03<CS>>;

const LE: u32 = <CS as CLCiphersuite>::le;
const LS: u32 = <CS as CLCiphersuite>::ls;
const LM: u32 = <CS as CLCiphersuite>::lm;

struct Ctx {
    pk: CL03PublicKey,
    sk: CL03SecretKey,
    bases: Bases, // 5 bases
}

fn ctx() -> &'static Ctx {
    static CTX: OnceLock<Ctx> = OnceLock::new();
    CTX.get_or_init(|| {
        let kp = KeyPair::<CL03<CS>>::generate();
        let pk = kp.public_key().clone();
        let sk = kp.private_key().clone();
        let bases = Bases::generate(&pk, 5);
        Ctx { pk, sk, bases }
    })
}

fn phi(sk: &CL03SecretKey) -> Integer {
    (sk.p.clone() - 1) * (sk.q.clone() - 1)
}

fn two_pow(n: u32) -> Integer {
    Integer::from(2).pow(n)
}

fn msg(i: i64) -> CL03Message {
    CL03Message::new(Integer::from(i))
}

fn hmsg(data: &[u8]) -> CL03Message {
    CL03Message::map_message_to_integer_as_hash::<CS>(data)
}

fn msgs(n: usize) -> Vec<CL03Message> {
    (0..n).map(|i| hmsg(&[i as u8, 7, 7])).collect()
}

fn first_bases(n: usize) -> Bases {
    Bases(ctx().bases.0[..n].to_vec())
}

fn pm(b: &Integer, e: &Integer, n: &Integer) -> Integer {
    b.clone().pow_mod(e, n).unwrap()
}

/// (e, s, v) of a signature, through its serde representation
fn parts(sig: &Sig) -> (Integer, Integer, Integer) {
    let val = serde_json::to_value(sig).unwrap();
    let g = |k: &str| serde_json::from_value::<Integer>(val["CL03"][k].clone()).unwrap();
    (g("e"), g("s"), g("v"))
}

fn make_sig(e: &Integer, s: &Integer, v: &Integer) -> Sig {
    serde_json::from_value(json!({"CL03": {"e": e, "s": s, "v": v}})).unwrap()
}

fn make_bsig(e: &Integer, rprime: &Integer, v: &Integer) -> BSig {
    serde_json::from_value(json!({"CL03": {"e": e, "rprime": rprime, "v": v}})).unwrap()
}

fn panics<R>(f: impl FnOnce() -> R) -> bool {
    catch_unwind(AssertUnwindSafe(f)).is_err()
}

/// the value signed: prod a_i^m_i * b^s * c mod N
fn signed_value(pk: &CL03PublicKey, bases: &Bases, messages: &[CL03Message], s: &Integer) -> Integer {
    let mut x = Integer::from(1);
    for (i, m) in messages.iter().enumerate() {
        x = x * pm(&bases.0[i], &m.value, &pk.N) % &pk.N;
    }
    x * pm(&pk.b, s, &pk.N) * &pk.c % &pk.N
}

fn check_issued(e: &Integer, s: &Integer, v: &Integer, value: &Integer) {
    let c = ctx();
    assert!(*e > two_pow(LE - 1) && *e < two_pow(LE), "e out of range");
    assert_eq!(e.significant_bits(), LE);
    assert!(e.is_probably_prime(30) != IsPrime::No);
    assert_eq!(e.clone().gcd(&phi(&c.sk)), 1);
    assert_eq!(s.significant_bits(), LS, "s has exactly ls bits");
    assert!(*v >= 0 && *v < c.pk.N);
    assert_eq!(pm(v, e, &c.pk.N), *value, "signature equation");
}

/// a signature with a chosen exponent, made with the secret key
fn forge(e: &Integer, s: &Integer, bases: &Bases, messages: &[CL03Message]) -> Option<Sig> {
    let c = ctx();
    let d = e.clone().invert(&phi(&c.sk)).ok()?;
    let v = pm(&signed_value(&c.pk, bases, messages, s), &d, &c.pk.N);
    Some(make_sig(e, s, &v))
}

#[test]
fn sign_single() {
    let c = ctx();
    for bases in [first_bases(1), first_bases(3)] {
        for m in [hmsg(b"hello"), msg(0), msg(1), CL03Message::new(two_pow(LM) - 1)] {
            let sig = Sig::sign(&c.pk, &c.sk, &bases, &m);
            let (e, s, v) = parts(&sig);
            check_issued(&e, &s, &v, &signed_value(&c.pk, &bases, std::slice::from_ref(&m), &s));
            assert!(sig.verify(&c.pk, &bases, &m));
            assert!(sig.verify_multiattr(&c.pk, &bases, std::slice::from_ref(&m)));
            assert!(!sig.verify(&c.pk, &bases, &CL03Message::new(m.value.clone() + 1)));
            assert_eq!(Sig::from_bytes(&sig.to_bytes()), sig);
            assert_eq!(sig.cl03Signature(), make_sig(&e, &s, &v).cl03Signature());
        }
    }
    // two signatures on the same message are made with fresh randomness
    let a = parts(&Sig::sign(&c.pk, &c.sk, &c.bases, &msg(5)));
    let b = parts(&Sig::sign(&c.pk, &c.sk, &c.bases, &msg(5)));
    assert!(a.0 != b.0 || a.1 != b.1);
}

#[test]
fn sign_does_not_check_the_message_range() {
    let c = ctx();
    let bases = first_bases(1);
    // too large: signed, the equation holds, the verifier rejects
    let m = CL03Message::new(two_pow(LM));
    let sig = Sig::sign(&c.pk, &c.sk, &bases, &m);
    let (e, s, v) = parts(&sig);
    check_issued(&e, &s, &v, &signed_value(&c.pk, &bases, std::slice::from_ref(&m), &s));
    assert!(!sig.verify(&c.pk, &bases, &m));
    assert!(!sig.verify_multiattr(&c.pk, &bases, std::slice::from_ref(&m)));
    // negative: the base is invertible, so it is signed too
    let m = msg(-3);
    let sig = Sig::sign(&c.pk, &c.sk, &bases, &m);
    let (e, s, v) = parts(&sig);
    check_issued(&e, &s, &v, &signed_value(&c.pk, &bases, std::slice::from_ref(&m), &s));
    assert!(!sig.verify(&c.pk, &bases, &m));
    let sig = Sig::sign_multiattr(&c.pk, &c.sk, &bases, std::slice::from_ref(&m));
    assert!(!sig.verify_multiattr(&c.pk, &bases, std::slice::from_ref(&m)));
    // negative with a base that has no inverse: panic
    let zero = Bases(vec![Integer::from(0)]);
    assert!(panics(|| Sig::sign(&c.pk, &c.sk, &zero, &msg(-1))));
    assert!(panics(|| Sig::sign_multiattr(&c.pk, &c.sk, &zero, &[msg(-1)])));
    assert!(!panics(|| Sig::sign(&c.pk, &c.sk, &zero, &msg(1))));
}

#[test]
fn sign_multiattr_sizes() {
    let c = ctx();
    for n in [0usize, 1, 2, 3, 5] {
        let m = msgs(n);
        for bases in [first_bases(n), first_bases(5)] {
            let sig = Sig::sign_multiattr(&c.pk, &c.sk, &bases, &m);
            let (e, s, v) = parts(&sig);
            check_issued(&e, &s, &v, &signed_value(&c.pk, &bases, &m, &s));
            assert!(sig.verify_multiattr(&c.pk, &bases, &m));
            if n == 1 {
                assert!(sig.verify(&c.pk, &bases, &m[0]));
            }
            if n >= 2 {
                let mut swapped = m.clone();
                swapped.swap(0, n - 1);
                assert!(!sig.verify_multiattr(&c.pk, &bases, &swapped));
                assert!(!sig.verify_multiattr(&c.pk, &bases, &m[..n - 1]));
                assert!(!sig.verify(&c.pk, &bases, &m[0]));
            }
            if n >= 1 {
                let mut big = m.clone();
                big[n - 1] = CL03Message::new(two_pow(LM));
                assert!(!sig.verify_multiattr(&c.pk, &bases, &big));
                let mut neg = m.clone();
                neg[n - 1] = msg(-1);
                assert!(!sig.verify_multiattr(&c.pk, &bases, &neg));
            }
        }
    }
    // the single-message signer and the multi-message signer make interchangeable signatures
    let m = msgs(1);
    assert!(Sig::sign(&c.pk, &c.sk, &c.bases, &m[0]).verify_multiattr(&c.pk, &c.bases, &m));
    assert!(Sig::sign_multiattr(&c.pk, &c.sk, &c.bases, &m).verify(&c.pk, &c.bases, &m[0]));
}

#[test]
fn sign_panics_without_enough_bases() {
    let c = ctx();
    let none = Bases(vec![]);
    assert!(panics(|| Sig::sign(&c.pk, &c.sk, &none, &msg(1))));
    assert!(panics(|| Sig::sign_multiattr(&c.pk, &c.sk, &none, &msgs(1))));
    assert!(panics(|| Sig::sign_multiattr(&c.pk, &c.sk, &first_bases(2), &msgs(3))));
    assert!(!panics(|| Sig::sign_multiattr(&c.pk, &c.sk, &none, &[])));
}

#[test]
fn verify_message_and_v_ranges() {
    let c = ctx();
    let bases = first_bases(2);
    let m = msgs(2);
    let sig = Sig::sign_multiattr(&c.pk, &c.sk, &bases, &m);
    let (e, s, v) = parts(&sig);
    assert!(make_sig(&e, &s, &v).verify_multiattr(&c.pk, &bases, &m));
    // other representatives of v
    for v2 in [v.clone() + &c.pk.N, v.clone() - &c.pk.N, c.pk.N.clone(), Integer::from(-1), Integer::from(0)] {
        assert!(!make_sig(&e, &s, &v2).verify_multiattr(&c.pk, &bases, &m));
    }
    // other representatives of an attribute: m + k * e with v * a^k satisfies the equation
    let m1 = msgs(1);
    let sig1 = Sig::sign(&c.pk, &c.sk, &bases, &m1[0]);
    let (e1, s1, v1) = parts(&sig1);
    for k in [1i32, -1] {
        let shifted = CL03Message::new(m1[0].value.clone() + Integer::from(k) * &e1);
        let v2 = v1.clone() * pm(&bases.0[0], &Integer::from(k), &c.pk.N) % &c.pk.N;
        assert_eq!(pm(&v2, &e1, &c.pk.N), signed_value(&c.pk, &bases, std::slice::from_ref(&shifted), &s1));
        let forged = make_sig(&e1, &s1, &v2);
        assert!(!forged.verify(&c.pk, &bases, &shifted));
        assert!(!forged.verify_multiattr(&c.pk, &bases, std::slice::from_ref(&shifted)));
    }
    // another s is another signature
    assert!(!make_sig(&e1, &(s1.clone() + 1), &v1).verify(&c.pk, &bases, &m1[0]));
    assert!(!make_sig(&e1, &(-s1.clone()), &v1).verify(&c.pk, &bases, &m1[0]));
}

#[test]
fn verify_exponent_range() {
    let c = ctx();
    let bases = first_bases(2);
    let m = msgs(2);
    let s = Integer::from(12345);
    let lo = two_pow(LE - 1);
    let hi = two_pow(LE);
    let cases: Vec<(Integer, bool)> = vec![
        (lo.clone() - 1, false),
        (lo.clone(), false),
        (lo.clone() + 1, true),
        (lo.clone() + 3, true),
        (lo.clone().next_prime(), true),
        (hi.clone() - 3, true),
        (hi.clone() - 1, true),
        (hi.clone(), false),
        (hi.clone() + 1, false),
        (hi.clone().next_prime(), false),
        (Integer::from(3), false),
        (Integer::from(65537), false),
        (Integer::from(1), false),
    ];
    let mut forged_some = 0;
    for (e, in_range) in cases {
        match forge(&e, &s, &bases, &m) {
            // the equation holds: the outcome is the range check alone
            Some(sig) => {
                forged_some += 1;
                assert_eq!(sig.verify_multiattr(&c.pk, &bases, &m), in_range, "e = {}", e);
                let sig1 = forge(&e, &s, &bases, &m[..1]).unwrap();
                assert_eq!(sig1.verify(&c.pk, &bases, &m[0]), in_range, "e = {}", e);
                assert_eq!(sig1.verify_multiattr(&c.pk, &bases, &m[..1]), in_range);
            }
            // not invertible modulo phi(N) (even, for instance): no signature, any v is rejected
            None => {
                assert!(!make_sig(&e, &s, &Integer::from(4)).verify_multiattr(&c.pk, &bases, &m));
                assert!(!make_sig(&e, &s, &Integer::from(4)).verify(&c.pk, &bases, &m[0]));
            }
        }
    }
    assert!(forged_some >= 4);
    // zero and negative exponents
    assert!(!make_sig(&Integer::from(0), &s, &Integer::from(1)).verify(&c.pk, &bases, &m[0]));
    let e_good: Integer = Integer::from(&lo + 1u32).next_prime();
    let good = forge(&e_good, &s, &bases, &m).unwrap();
    let (e, _, v) = parts(&good);
    assert!(good.verify_multiattr(&c.pk, &bases, &m));
    let v_inv = v.clone().invert(&c.pk.N).unwrap();
    let neg = make_sig(&(-e.clone()), &s, &v_inv);
    assert!(!neg.verify_multiattr(&c.pk, &bases, &m)); // v_inv^(-e) = v^e: the equation holds
    assert!(!neg.verify(&c.pk, &bases, &m[0]));
}

#[test]
fn verify_order_of_checks() {
    let c = ctx();
    let bases = first_bases(1);
    let none = Bases(vec![]);
    let e_ok = two_pow(LE - 1) + 1;
    let big = CL03Message::new(two_pow(LM));
    let one = Integer::from(1);

    // v = 0 with a negative exponent has no value: panic, unless an earlier check rejects
    let bad = make_sig(&Integer::from(-1), &one, &Integer::from(0));
    assert!(panics(|| bad.verify(&c.pk, &bases, &msg(1))));
    assert!(panics(|| bad.verify_multiattr(&c.pk, &bases, &[msg(1)])));
    assert!(panics(|| bad.verify_multiattr(&c.pk, &bases, &[])));
    assert!(!bad.verify(&c.pk, &bases, &big));
    assert!(!bad.verify(&c.pk, &bases, &msg(-1)));
    assert!(!bad.verify_multiattr(&c.pk, &bases, std::slice::from_ref(&big)));
    let bad_v = make_sig(&Integer::from(-1), &one, &c.pk.N);
    assert!(!bad_v.verify(&c.pk, &bases, &msg(1)));
    assert!(!bad_v.verify_multiattr(&c.pk, &bases, &[msg(1)]));

    // no bases: the single-message verifier reaches the missing base only after the range checks on the message and on v
    let sig = make_sig(&e_ok, &one, &one);
    assert!(panics(|| sig.verify(&c.pk, &none, &msg(1))));
    assert!(!sig.verify(&c.pk, &none, &big));
    assert!(!sig.verify(&c.pk, &none, &msg(-1)));
    assert!(!make_sig(&e_ok, &one, &c.pk.N).verify(&c.pk, &none, &msg(1)));
    assert!(!make_sig(&e_ok, &one, &Integer::from(-1)).verify(&c.pk, &none, &msg(1)));
    assert!(panics(|| make_sig(&Integer::from(1), &one, &one).verify(&c.pk, &none, &msg(1))));
    // ... the multi-message verifier compares the lengths first
    assert!(panics(|| sig.verify_multiattr(&c.pk, &none, &[msg(1)])));
    assert!(panics(|| sig.verify_multiattr(&c.pk, &none, std::slice::from_ref(&big))));
    assert!(panics(|| sig.verify_multiattr(&c.pk, &bases, &[big.clone(), big.clone()])));
    assert!(panics(|| make_sig(&e_ok, &one, &c.pk.N).verify_multiattr(&c.pk, &bases, &msgs(2))));
    assert!(!sig.verify_multiattr(&c.pk, &none, &[]));

    // b = 0 with a negative s has no value: panic, also when e is out of range (e is looked at last)
    let pk0 = CL03PublicKey::new(c.pk.N.clone(), Integer::from(0), c.pk.c.clone());
    for e in [e_ok.clone(), Integer::from(3), two_pow(LE)] {
        let sig = make_sig(&e, &Integer::from(-1), &one);
        assert!(panics(|| sig.verify(&pk0, &bases, &msg(1))));
        assert!(panics(|| sig.verify_multiattr(&pk0, &bases, &[msg(1)])));
        assert!(panics(|| sig.verify_multiattr(&pk0, &bases, &[])));
        assert!(!sig.verify(&pk0, &bases, &big));
        assert!(!sig.verify_multiattr(&pk0, &bases, &[msg(-1)]));
        assert!(!make_sig(&e, &Integer::from(-1), &c.pk.N).verify(&pk0, &bases, &msg(1)));
        assert!(!make_sig(&e, &Integer::from(1), &one).verify(&pk0, &bases, &msg(1)));
    }
}

#[test]
fn verify_degenerate_public_keys() {
    let c = ctx();
    let bases = first_bases(2);
    let e_ok = two_pow(LE - 1) + 1;
    let one = Integer::from(1);
    // N <= 0: no v is in range
    for n in [Integer::from(0), Integer::from(-7), -c.pk.N.clone()] {
        let pk = CL03PublicKey::new(n, c.pk.b.clone(), c.pk.c.clone());
        for v in [Integer::from(0), Integer::from(1), Integer::from(-8)] {
            assert!(!make_sig(&e_ok, &one, &v).verify(&pk, &bases, &msg(1)));
            assert!(!make_sig(&e_ok, &one, &v).verify_multiattr(&pk, &bases, &msgs(2)));
        }
    }
    // N = 1: everything is 0
    let pk1 = CL03PublicKey::new(Integer::from(1), c.pk.b.clone(), c.pk.c.clone());
    let sig = make_sig(&e_ok, &one, &Integer::from(0));
    assert!(sig.verify(&pk1, &bases, &msg(1)));
    assert!(sig.verify_multiattr(&pk1, &bases, &msgs(2)));
    assert!(sig.verify_multiattr(&pk1, &bases, &[]));
    assert!(!make_sig(&two_pow(LE), &one, &Integer::from(0)).verify_multiattr(&pk1, &bases, &msgs(2)));
    assert!(!make_sig(&e_ok, &one, &one).verify(&pk1, &bases, &msg(1)));
    // c replaced by c - N: the right-hand side is negative and is not reduced to [0, N)
    let m = msgs(2);
    let sig = Sig::sign_multiattr(&c.pk, &c.sk, &bases, &m);
    assert!(sig.verify_multiattr(&c.pk, &bases, &m));
    let pk_neg = CL03PublicKey::new(c.pk.N.clone(), c.pk.b.clone(), c.pk.c.clone() - &c.pk.N);
    assert!(!sig.verify_multiattr(&pk_neg, &bases, &m));
    let sig1 = Sig::sign(&c.pk, &c.sk, &bases, &m[0]);
    assert!(!sig1.verify(&pk_neg, &bases, &m[0]));
    let pk_pos = CL03PublicKey::new(c.pk.N.clone(), c.pk.b.clone(), c.pk.c.clone() + &c.pk.N);
    assert!(sig.verify_multiattr(&pk_pos, &bases, &m));
    assert!(sig1.verify(&pk_pos, &bases, &m[0]));
    // a negative base (a - N) with an odd attribute: again a negative right-hand side
    let neg_bases = Bases(vec![bases.0[0].clone() - &c.pk.N, bases.0[1].clone()]);
    let odd = [msg(3), msg(4)];
    let sig = Sig::sign_multiattr(&c.pk, &c.sk, &bases, &odd);
    assert!(sig.verify_multiattr(&c.pk, &bases, &odd));
    assert!(sig.verify_multiattr(&c.pk, &neg_bases, &odd)); // pow_mod gives the canonical residue
}

// ---------------------------------------------------------------------------------------------------------------------------
// blind signatures

struct Blind {
    messages: Vec<CL03Message>,
    unrevealed: Vec<usize>,
    revealed: Vec<usize>,
    revealed_messages: Vec<CL03Message>,
    commitment: Com,
    zkpok: Pok,
}

fn blind_setup(n: usize, unrevealed: &[usize]) -> Blind {
    let c = ctx();
    let bases = first_bases(n);
    let messages = msgs(n);
    let revealed: Vec<usize> = (0..n).filter(|i| !unrevealed.contains(i)).collect();
    let revealed_messages = revealed.iter().map(|&i| messages[i].clone()).collect();
    let commitment = Com::commit_with_pk(&messages, &c.pk, &bases, Some(unrevealed));
    let zkpok = Pok::generate_proof(&messages, commitment.cl03Commitment(), None, &c.pk, &bases, None, unrevealed);
    Blind { messages, unrevealed: unrevealed.to_vec(), revealed, revealed_messages, commitment, zkpok }
}

/// C * prod a_i^m_i over the revealed ones, then * b^rprime * c
fn blind_value(b: &Blind, n: usize, extend: bool, revealed_messages: &[CL03Message], rprime: &Integer) -> Integer {
    let c = ctx();
    let bases = first_bases(n);
    let mut x = b.commitment.value().clone();
    if extend {
        for (k, &i) in b.revealed.iter().enumerate() {
            x = x * pm(&bases.0[i], &revealed_messages[k].value, &c.pk.N) % &c.pk.N;
        }
    }
    x * pm(&c.pk.b, rprime, &c.pk.N) * &c.pk.c % &c.pk.N
}

fn check_blind(b: &Blind, n: usize, sig: &BSig, extend: bool, revealed_messages: &[CL03Message]) {
    let c = ctx();
    let bases = first_bases(n);
    check_issued(sig.e(), sig.rprime(), sig.v(), &blind_value(b, n, extend, revealed_messages, sig.rprime()));
    let unblinded = sig.unblind_sign(&b.commitment);
    let (e, s, v) = parts(&unblinded);
    assert_eq!(&e, sig.e());
    assert_eq!(&v, sig.v());
    assert_eq!(s, Integer::from(b.commitment.randomness() + sig.rprime()));
    let same = revealed_messages == &b.revealed_messages[..];
    let full = extend || b.revealed.is_empty();
    assert_eq!(unblinded.verify_multiattr(&c.pk, &bases, &b.messages), full && same);
    if !full && b.unrevealed == [0] {
        // nothing was added to the commitment: a signature on the committed prefix
        assert!(unblinded.verify_multiattr(&c.pk, &bases, &b.messages[..1]));
        assert!(unblinded.verify(&c.pk, &bases, &b.messages[0]));
    }
}

fn do_blind_sign(b: &Blind, n: usize, rm: Option<&[CL03Message]>, ri: Option<&[usize]>) -> BSig {
    let c = ctx();
    BSig::blind_sign(&c.pk, &c.sk, &first_bases(n), &b.zkpok, rm, b.commitment.cl03Commitment(), None, None, &b.unrevealed, ri)
}

fn do_update(sig: &BSig, b: &Blind, n: usize, rm: Option<&[CL03Message]>, ri: Option<&[usize]>) -> BSig {
    let c = ctx();
    sig.update_signature(rm, b.commitment.cl03Commitment(), &c.sk, &c.pk, &first_bases(n), ri)
}

#[test]
fn blind_sign_and_update_option_combinations() {
    let n = 3;
    let b = blind_setup(n, &[0]);
    let rm = &b.revealed_messages[..];
    let ri = &b.revealed[..];
    let other: Vec<CL03Message> = vec![hmsg(b"x"), hmsg(b"y")];
    let empty_m: &[CL03Message] = &[];
    let empty_i: &[usize] = &[];

    let sig = do_blind_sign(&b, n, Some(rm), Some(ri));
    check_blind(&b, n, &sig, true, rm);
    // both must be given for the revealed messages to be added
    check_blind(&b, n, &do_blind_sign(&b, n, Some(rm), None), false, rm);
    check_blind(&b, n, &do_blind_sign(&b, n, None, Some(ri)), false, rm);
    check_blind(&b, n, &do_blind_sign(&b, n, None, None), false, rm);
    check_blind(&b, n, &do_blind_sign(&b, n, Some(empty_m), Some(empty_i)), false, rm);
    check_blind(&b, n, &do_blind_sign(&b, n, Some(empty_m), None), false, rm);
    check_blind(&b, n, &do_blind_sign(&b, n, Some(&other), Some(ri)), true, &other);
    // lengths that differ, an index without a base
    assert!(panics(|| do_blind_sign(&b, n, Some(rm), Some(&ri[..1]))));
    assert!(panics(|| do_blind_sign(&b, n, Some(&rm[..1]), Some(ri))));
    assert!(panics(|| do_blind_sign(&b, n, Some(empty_m), Some(ri))));
    assert!(panics(|| do_blind_sign(&b, n, Some(rm), Some(&[1, 3]))));
    assert!(panics(|| do_blind_sign(&b, n, Some(rm), Some(&[usize::MAX, 1]))));
    assert!(!panics(|| do_blind_sign(&b, n, Some(&rm[..1]), None)));
    // the largest index, a repeated index, another order
    let s1 = do_blind_sign(&b, n, Some(&rm[1..]), Some(&[2]));
    assert!(!s1.unblind_sign(&b.commitment).verify_multiattr(&ctx().pk, &first_bases(n), &b.messages));
    let swapped = [rm[1].clone(), rm[0].clone()];
    let s2 = do_blind_sign(&b, n, Some(&swapped), Some(&[2, 1]));
    assert!(s2.unblind_sign(&b.commitment).verify_multiattr(&ctx().pk, &first_bases(n), &b.messages));
    let s3 = do_blind_sign(&b, n, Some(rm), Some(&[1, 1]));
    assert!(!s3.unblind_sign(&b.commitment).verify_multiattr(&ctx().pk, &first_bases(n), &b.messages));

    // update_signature: the same rules, the receiver is not used
    let dummy = make_bsig(&Integer::from(-5), &Integer::from(0), &Integer::from(-1));
    for receiver in [&sig, &dummy] {
        let up = do_update(receiver, &b, n, Some(&other), Some(ri));
        check_blind(&b, n, &up, true, &other);
        assert!(up.e() != receiver.e() && up.rprime() != receiver.rprime());
        let mut updated = b.messages.clone();
        updated[1] = other[0].clone();
        updated[2] = other[1].clone();
        assert!(up.unblind_sign(&b.commitment).verify_multiattr(&ctx().pk, &first_bases(n), &updated));
        check_blind(&b, n, &do_update(receiver, &b, n, Some(rm), Some(ri)), true, rm);
        check_blind(&b, n, &do_update(receiver, &b, n, Some(rm), None), false, rm);
        check_blind(&b, n, &do_update(receiver, &b, n, None, Some(ri)), false, rm);
        check_blind(&b, n, &do_update(receiver, &b, n, None, None), false, rm);
        check_blind(&b, n, &do_update(receiver, &b, n, Some(empty_m), Some(empty_i)), false, rm);
        assert!(panics(|| do_update(receiver, &b, n, Some(rm), Some(&ri[..1]))));
        assert!(panics(|| do_update(receiver, &b, n, Some(empty_m), Some(ri))));
        assert!(panics(|| do_update(receiver, &b, n, Some(rm), Some(&[1, 3]))));
    }
}

#[test]
fn blind_sign_all_unrevealed_and_single() {
    let c = ctx();
    for (n, unrevealed) in [(1usize, vec![0usize]), (2, vec![0, 1]), (2, vec![1])] {
        let b = blind_setup(n, &unrevealed);
        let rm = &b.revealed_messages[..];
        let ri = &b.revealed[..];
        let sig = do_blind_sign(&b, n, Some(rm), Some(ri));
        check_blind(&b, n, &sig, true, rm);
        if b.revealed.is_empty() {
            check_blind(&b, n, &do_blind_sign(&b, n, None, None), false, rm);
            check_blind(&b, n, &do_update(&sig, &b, n, None, None), false, rm);
            check_blind(&b, n, &do_update(&sig, &b, n, Some(rm), None), false, rm);
        }
        if n == 1 {
            assert!(sig.unblind_sign(&b.commitment).verify(&c.pk, &first_bases(1), &b.messages[0]));
        }
    }
}

#[test]
fn blind_sign_rejects_a_proof_for_another_commitment() {
    let c = ctx();
    let n = 2;
    let b = blind_setup(n, &[0]);
    let other = CL03Commitment {
        value: Integer::from(b.commitment.value() * &c.bases.0[0]) % &c.pk.N,
        randomness: b.commitment.randomness().clone(),
    };
    let bases = first_bases(n);
    assert!(panics(|| BSig::blind_sign(
        &c.pk, &c.sk, &bases, &b.zkpok, Some(&b.revealed_messages), &other, None, None, &b.unrevealed, Some(&b.revealed)
    )));
    // the lengths are looked at after the proof
    assert!(panics(|| BSig::blind_sign(&c.pk, &c.sk, &bases, &b.zkpok, None, &other, None, None, &b.unrevealed, None)));
    // update_signature has no proof to check
    let sig = do_blind_sign(&b, n, Some(&b.revealed_messages), Some(&b.revealed));
    let up = sig.update_signature(Some(&b.revealed_messages), &other, &c.sk, &c.pk, &bases, Some(&b.revealed));
    assert!(!up.unblind_sign(&b.commitment).verify_multiattr(&c.pk, &bases, &b.messages));
}

#[test]
fn unblind_adds_the_two_blinding_values_as_integers() {
    let sig = make_bsig(&Integer::from(11), &Integer::from(-20), &Integer::from(-3));
    for r in [Integer::from(0), Integer::from(7), Integer::from(-7), two_pow(LS + 3)] {
        let com: Com = Commitment::CL03(CL03Commitment { value: Integer::from(99), randomness: r.clone() });
        let (e, s, v) = parts(&sig.unblind_sign(&com));
        assert_eq!((e, s, v), (Integer::from(11), r - 20, Integer::from(-3)));
    }
}

#[test]
fn attribute_range_boundaries() {
    let c = ctx();
    let bases = first_bases(2);
    let top = two_pow(LM);
    let cases: Vec<(Integer, bool)> = vec![
        (Integer::from(0), true),
        (Integer::from(1), true),
        (two_pow(LM - 1), true),
        (top.clone() - 1, true),
        (top.clone(), false),
        (top.clone() + 1, false),
        (two_pow(LM + 1) - 1, false),
        (two_pow(LM + 1), false),
        (Integer::from(-1), false),
        (-two_pow(LM - 1), false),
        (Integer::from(1) - &top, false),
        (-top.clone(), false),
    ];
    for (value, in_range) in cases {
        // the signer does not look at the range, so the equation holds in every case
        let m = CL03Message::new(value);
        let sig = Sig::sign(&c.pk, &c.sk, &bases, &m);
        assert_eq!(sig.verify(&c.pk, &bases, &m), in_range, "m = {}", m.value);
        assert_eq!(sig.verify_multiattr(&c.pk, &bases, std::slice::from_ref(&m)), in_range);
        let pair = [msg(9), m.clone()];
        let sig = Sig::sign_multiattr(&c.pk, &c.sk, &bases, &pair);
        assert_eq!(sig.verify_multiattr(&c.pk, &bases, &pair), in_range);
        let pair = [m.clone(), msg(9)];
        let sig = Sig::sign_multiattr(&c.pk, &c.sk, &bases, &pair);
        assert_eq!(sig.verify_multiattr(&c.pk, &bases, &pair), in_range);
    }
}
